(* C10: the classic assembler of tcpassembly/assembly.go, for ONE connection key
   (one half-connection) driven through the public API of one Assembler with its own
   StreamPool:  AssembleWithTimestamp / FlushOlderThan / FlushAll.
   Executable definitions only (no proofs).

   Conventions: Sequence is Go int64 holding a uint32 value or invalidSequence = -1; all
   the values the code forms stay far inside int64 (|x| < 2^34, lemma in the proofs), so
   int64 arithmetic is plain Z arithmetic; the uint32 wrap of Add is written out
   (`& (uint32Size-1)` = Z.land).  Go int (lengths, Skip) is Z.  time.Time is Z (Unix
   seconds); the zero time.Time is `zeroTime`.  The doubly linked page list first..last
   is a `list page` (head = conn.first).  A closed connection is removed from the pool
   (`s_conn = None`); its object goes back on the pool's free list and is the one handed
   out for the next stream of this key (LIFO).  In the unrepaired code `lastSeen` survived
   that (connection.reset, assembly.go:388-396, did not reset it); with the repair
   "fix: tcpassembly resets lastSeen when a connection object is recycled" it is set to the
   packet's timestamp, so s_freeLastSeen is recorded but no longer read. *)
From GP Require Import Base.
Open Scope Z_scope.

(* ---- assembly.go:35-36, 90 *)
Definition invalidSequence : Z := -1.
Definition uint32Size : Z := 4294967296.
Definition quarter : Z := 1073741824.          (* uint32Size/4 *)
Definition pageBytes : Z := 1900.
Definition zeroTime : Z := -62135596800.       (* time.Time{}.Unix() *)

Definition lenZ {A} (l : list A) : Z := Z.of_nat (length l).

(* ---- Sequence.Difference, assembly.go:57-64 *)
Definition difference (s t : Z) : Z :=
  if (s >? uint32Size - quarter) && (t <? quarter) then (t + uint32Size) - s
  else if (t >? uint32Size - quarter) && (s <? quarter) then t - (s + uint32Size)
  else t - s.

(* ---- Sequence.Add, assembly.go:67-69 *)
Definition seq_add (s t : Z) : Z := Z.land (s + t) 4294967295.

(* ---- Reassembly, assembly.go:74-88.  r_cut is a ghost (bytes dropped by byteSpan when
   this element was produced; only used for branch tags, never observed). *)
Record reassembly := mkR {
  r_bytes : list Z; r_skip : Z; r_start : bool; r_end : bool; r_seen : Z; r_cut : Z }.

(* ---- page, assembly.go:96-102 (index/buf/prev/next are representation).
   p_off is a GHOST: the absolute stream offset of the page's first byte as declared by the
   operation that brought it (unbounded, never wrapped).  Ghosts are only copied, never tested:
   they exist so that the window hypothesis can be stated on states (live_offsets below). *)
Record page := mkP { p_r : reassembly; p_seq : Z; p_off : Z }.

(* ---- connection, assembly.go:377-386 (key/stream/created/mu not modelled; closed = removed) *)
(* c_pos is a GHOST: the absolute offset of the delivery point (meaningful when nextSeq is valid) *)
Record conn := mkC { c_pages : Z; c_queue : list page; c_nextSeq : Z; c_lastSeen : Z; c_pos : Z }.

(* ---- Assembler + StreamPool + pageCache restricted to one key *)
Record state := mkS {
  s_conn : option conn;       (* the live connection of the key, if any *)
  s_freeLastSeen : Z;         (* lastSeen of the connection object on top of the pool's free list *)
  s_used : Z;                 (* pageCache.used: pages in use *)
  s_maxPer : Z;               (* MaxBufferedPagesPerConnection *)
  s_maxTotal : Z;             (* MaxBufferedPagesTotal *)
  s_dead : bool               (* a panic left the connection mutex locked: the harness stops *)
}.

Definition init (maxPer maxTotal : Z) : state :=
  mkS None zeroTime 0 maxPer maxTotal false.

(* ---- byteSpan, assembly.go:612-623 *)
Definition byte_span (expected received : Z) (bytes : list Z) : list Z * Z :=
  if expected =? invalidSequence then (bytes, seq_add received (lenZ bytes))
  else
    let span := difference received expected in
    if span <=? 0 then (bytes, seq_add received (lenZ bytes))
    else if lenZ bytes <? span then ([], expected)
    else (skipn (Z.to_nat span) bytes, seq_add expected (lenZ bytes - span)).

(* ---- pagesFromTCP, assembly.go:737-759.  The loop consumes >= 1 byte per iteration
   after the first, so fuel = S (length bytes) suffices (proved); out of fuel yields []. *)
Fixpoint split_pages (fuel : nat) (seq : Z) (bytes : list Z) : list (Z * list Z) :=
  match fuel with
  | O => []
  | S f =>
    let length := Z.min (lenZ bytes) pageBytes in
    let cur := firstn (Z.to_nat length) bytes in
    match skipn (Z.to_nat length) bytes with
    | [] => [(seq, cur)]
    | rest => (seq, cur) :: split_pages f (seq_add seq length) rest
    end
  end.

Fixpoint mark_last_end (e : bool) (ts : Z) (goff : Z) (l : list (Z * list Z)) : list page :=
  match l with
  | [] => []
  | [(s, b)] => [mkP (mkR b 0 false e ts 0) s goff]
  | (s, b) :: t => mkP (mkR b 0 false false ts 0) s goff :: mark_last_end e ts (goff + lenZ b) t
  end.

Definition pages_from_tcp (seq : Z) (bytes : list Z) (e : bool) (ts : Z) (goff : Z) : list page :=
  mark_last_end e ts goff (split_pages (S (length bytes)) seq bytes).

(* ---- traverseConn, assembly.go:686-693: walking from the back, stop at the first page
   whose seq is not after `seq`; returns (first..prev, current..last). *)
Fixpoint traverse (q : list page) (seq : Z) : list page * list page :=
  match q with
  | [] => ([], [])
  | p :: t =>
    let '(a, b) := traverse t seq in
    match a with
    | _ :: _ => (p :: a, b)
    | [] => if difference (p_seq p) seq <? 0 then ([], p :: b) else ([p], b)
    end
  end.

(* the part of addNextFromConn (assembly.go:763-773) that depends on the popped page *)
Definition pop_page (nextSeq : Z) (p : page) : reassembly * Z :=
  let r := p_r p in
  let skip :=
    if nextSeq =? invalidSequence then -1
    else let d := difference nextSeq (p_seq p) in if d >? 0 then d else r_skip r in
  let '(b, nx) := byte_span nextSeq (p_seq p) (r_bytes r) in
  (mkR b skip (r_start r) (r_end r) (r_seen r) (lenZ (r_bytes r) - lenZ b), nx).

(* GHOST: the delivery point after popping page p *)
Definition page_end (p : page) : Z := p_off p + lenZ (r_bytes (p_r p)).
Definition pop_gpos (nextSeq gpos : Z) (p : page) : Z :=
  if nextSeq =? invalidSequence then page_end p else Z.max gpos (page_end p).

(* working state inside one API call: the locked connection, pc.used, a.ret *)
Record work := mkW { w_c : conn; w_used : Z; w_ret : list reassembly }.

(* ---- addNextFromConn, assembly.go:763-783; conn.first == nil is a nil dereference *)
Definition add_next (w : work) : outcome work :=
  let c := w_c w in
  match c_queue c with
  | [] => Panic 2
  | p :: rest =>
    let '(r, nx) := pop_page (c_nextSeq c) p in
    Ok (mkW (mkC (c_pages c - 1) rest nx (c_lastSeen c) (pop_gpos (c_nextSeq c) (c_pos c) p))
            (w_used w - 1) (w_ret w ++ [r]))
  end.

(* ---- addContiguous, assembly.go:639-643, as a recursion on the queue *)
Fixpoint contiguous (q : list page) (ns : Z) : list reassembly * list page * Z :=
  match q with
  | [] => ([], [], ns)
  | p :: t =>
    if difference ns (p_seq p) <=? 0 then
      let '(r, ns1) := pop_page ns p in
      let '(rs, q', ns2) := contiguous t ns1 in
      (r :: rs, q', ns2)
    else ([], q, ns)
  end.

Definition add_contiguous (w : work) : work :=
  let c := w_c w in
  let '(rs, q', ns) := contiguous (c_queue c) (c_nextSeq c) in
  let popped := firstn (length rs) (c_queue c) in
  mkW (mkC (c_pages c - lenZ rs) q' ns (c_lastSeen c)
           (fold_left (fun g p => Z.max g (page_end p)) popped (c_pos c)))
      (w_used w - lenZ rs) (w_ret w ++ rs).

(* result of the part of an API call that runs under the connection lock *)
Record res := mkRes {
  rs_conn : option conn;               (* None: closed and removed *)
  rs_free : Z;                         (* lastSeen of the object on top of the free list *)
  rs_used : Z;
  rs_calls : list (list reassembly);   (* Stream.Reassembled calls, in order *)
  rs_done : bool                       (* Stream.ReassemblyComplete called *)
}.

(* ---- closeConnection, assembly.go:669-679 *)
Definition close_connection (c : conn) (free used : Z) (calls : list (list reassembly)) : res :=
  mkRes None (c_lastSeen c) (used - lenZ (c_queue c)) calls true.

(* ---- sendToConnection, assembly.go:627-636 *)
Definition send_to_connection (w : work) (free : Z) (calls : list (list reassembly)) : outcome res :=
  let w1 := add_contiguous w in
  match rev (w_ret w1) with
  | [] => Panic 3
  | lastr :: _ =>
    let calls1 := calls ++ [w_ret w1] in
    if r_end lastr then Ok (close_connection (w_c w1) free (w_used w1) calls1)
    else Ok (mkRes (Some (w_c w1)) free (w_used w1) calls1 false)
  end.

(* ---- skipFlush, assembly.go:648-660 *)
Definition skip_flush (c : conn) (free used : Z) (calls : list (list reassembly)) : outcome res :=
  match c_queue c with
  | [] => Ok (close_connection c free used calls)
  | _ =>
    obind (add_next (mkW c used [])) (fun w1 =>
    send_to_connection (add_contiguous w1) free calls)
  end.

(* ---- the limit check of insertIntoConn (assembly.go:723-724) on the current counters *)
Definition limit_now (maxPer maxTotal pg used : Z) : bool :=
  ((maxPer >? 0) && (pg >=? maxPer)) || ((maxTotal >? 0) && (used >=? maxTotal)).

(* ---- repaired code ("fix: tcpassembly flushes until the page limits hold again ..."):
   `for conn.first != nil && limit { addNextFromConn }`; every iteration pops one page, so
   fuel = length of the queue suffices (proved) *)
Fixpoint limit_loop (fuel : nat) (maxPer maxTotal : Z) (w : work) : outcome work :=
  match c_queue (w_c w) with
  | [] => Ok w
  | _ :: _ =>
    if limit_now maxPer maxTotal (c_pages (w_c w)) (w_used w) then
      match fuel with
      | O => Panic 99
      | S f => obind (add_next w) (limit_loop f maxPer maxTotal)
      end
    else Ok w
  end.

(* ---- insertIntoConn, assembly.go:715-735 *)
Definition insert_into_conn (maxPer maxTotal : Z) (seq : Z) (bytes : list Z) (e : bool) (ts : Z)
    (goff : Z) (w : work) : outcome work :=
  let c := w_c w in
  let wtf := match c_queue c with p :: _ => p_seq p =? c_nextSeq c | [] => false end in
  if wtf then Panic 1 else
  let ps := pages_from_tcp seq bytes e ts goff in
  let n := lenZ ps in
  let used1 := w_used w + n in
  let '(a, b) := traverse (c_queue c) seq in
  let c1 := mkC (c_pages c + n) (a ++ ps ++ b) (c_nextSeq c) (c_lastSeen c) (c_pos c) in
  let w1 := mkW c1 used1 (w_ret w) in
  limit_loop (length (c_queue c1)) maxPer maxTotal w1.

(* ---- operations of the public API *)
Inductive op :=
| Segment (seq : Z) (syn fin rst : bool) (payload : list Z) (ts : Z)
          (goff : Z)   (* GHOST: absolute offset of the payload's first byte (0 for the SYN) *)
| FlushOlderThan (t : Z)
| FlushAll.

Record out := mkOut {
  o_new : bool;                        (* StreamFactory.New was called *)
  o_calls : list (list reassembly);
  o_done : bool;
  o_panic : bool
}.

Definition no_out : out := mkOut false [] false false.

Definition isnil {A} (l : list A) : bool := match l with [] => true | _ => false end.

(* ---- AssembleWithTimestamp, assembly.go:606-609: `if len(a.ret) > 0 { sendToConnection }` *)
Definition finish_assemble (st : state) (isnew : bool) (ow : outcome work) : state * out :=
  let ores :=
    obind ow (fun w =>
      if isnil (w_ret w) then Ok (mkRes (Some (w_c w)) (s_freeLastSeen st) (w_used w) [] false)
      else send_to_connection w (s_freeLastSeen st) []) in
  match ores with
  | Ok r => (mkS (rs_conn r) (rs_free r) (rs_used r) (s_maxPer st) (s_maxTotal st) false,
             mkOut isnew (rs_calls r) (rs_done r) false)
  | _ => (mkS (s_conn st) (s_freeLastSeen st) (s_used st) (s_maxPer st) (s_maxTotal st) true,
          mkOut isnew [] false true)
  end.

(* ---- AssembleWithTimestamp, assembly.go:567-605: the part under the connection lock *)
Definition assemble_conn (st : state) (c : conn) (isnew : bool)
    (seq : Z) (syn fin rst : bool) (bytes : list Z) (ts : Z) (goff : Z) : state * out :=
  let w0 := mkW c (s_used st) [] in
  (* repaired code (fix: payload of a SYN seen after the position is known starts at
     seq+1); insertIntoConn still reads t.Seq *)
  let seq1 := if syn && negb (c_nextSeq c =? invalidSequence) then seq_add seq 1 else seq in
  finish_assemble st isnew
    (if c_nextSeq c =? invalidSequence then
      if syn then
        Ok (mkW (mkC (c_pages c) (c_queue c) (seq_add seq (lenZ bytes + 1)) (c_lastSeen c)
                     (goff + lenZ bytes))
                (s_used st) [mkR bytes 0 true false ts 0])
      else insert_into_conn (s_maxPer st) (s_maxTotal st) seq bytes (rst || fin) ts goff w0
    else if difference (c_nextSeq c) seq1 >? 0 then
      insert_into_conn (s_maxPer st) (s_maxTotal st) seq bytes (rst || fin) ts goff w0
    else
      let '(b, nx) := byte_span (c_nextSeq c) seq1 bytes in
      Ok (mkW (mkC (c_pages c) (c_queue c) nx (c_lastSeen c) (Z.max (c_pos c) (goff + lenZ bytes)))
              (s_used st)
              [mkR b 0 false (rst || fin) ts (lenZ bytes - lenZ b)])).

Definition assemble_locked (st : state) (c0 : conn) (isnew : bool)
    (seq : Z) (syn fin rst : bool) (bytes : list Z) (ts : Z) (goff : Z) : state * out :=
  (* assembly.go:567-569 *)
  let c := if c_lastSeen c0 <? ts then mkC (c_pages c0) (c_queue c0) (c_nextSeq c0) ts (c_pos c0) else c0 in
  assemble_conn st c isnew seq syn fin rst bytes ts goff.

(* ---- AssembleWithTimestamp, assembly.go:536-566 (with getConnection :498-515 and
   newConnection/reset) *)
Definition assemble (st : state) (seq : Z) (syn fin rst : bool) (bytes : list Z) (ts : Z)
    (goff : Z) : state * out :=
  if negb syn && negb fin && negb rst && isnil bytes then (st, no_out) else
  let endp := negb syn && isnil bytes in
  match s_conn st with
  | Some c => assemble_locked st c false seq syn fin rst bytes ts goff
  | None =>
    if endp then (st, no_out)
    (* connection.reset (with the repair of agent-c11: lastSeen = ts) *)
    else assemble_locked st (mkC 0 [] invalidSequence ts 0) true seq syn fin rst bytes ts goff
  end.

(* ---- FlushWithOptions{CloseAll:true, T}, assembly.go:238-274, for the one connection.
   The loop pops >= 1 page per iteration: fuel = length of the queue suffices. *)
Fixpoint flush_older_loop (fuel : nat) (t : Z) (r : res) : outcome res :=
  match rs_conn r with
  | None => Ok r
  | Some c =>
    match c_queue c with
    | p :: _ =>
      if r_seen (p_r p) <? t then
        match fuel with
        | O => Panic 99
        | S f => obind (skip_flush c (rs_free r) (rs_used r) (rs_calls r)) (flush_older_loop f t)
        end
      else Ok r
    | [] => Ok r
    end
  end.

Definition flush_older (st : state) (t : Z) : state * out :=
  match s_conn st with
  | None => (st, no_out)
  | Some c =>
    let r0 := mkRes (Some c) (s_freeLastSeen st) (s_used st) [] false in
    let ores :=
      obind (flush_older_loop (length (c_queue c)) t r0) (fun r =>
        match rs_conn r with
        | Some c1 =>
          if isnil (c_queue c1) && (c_lastSeen c1 <? t)
          then Ok (close_connection c1 (rs_free r) (rs_used r) (rs_calls r))
          else Ok r
        | None => Ok r
        end) in
    match ores with
    | Ok r => (mkS (rs_conn r) (rs_free r) (rs_used r) (s_maxPer st) (s_maxTotal st) false,
               mkOut false (rs_calls r) (rs_done r) false)
    | _ => (mkS (s_conn st) (s_freeLastSeen st) (s_used st) (s_maxPer st) (s_maxTotal st) true,
            mkOut false [] false true)
    end
  end.

(* ---- FlushAll, assembly.go:279-290: `for !conn.closed { skipFlush }`;
   fuel = S (length queue) suffices. *)
Fixpoint flush_all_loop (fuel : nat) (r : res) : outcome res :=
  match rs_conn r with
  | None => Ok r
  | Some c =>
    match fuel with
    | O => Panic 99
    | S f => obind (skip_flush c (rs_free r) (rs_used r) (rs_calls r)) (flush_all_loop f)
    end
  end.

Definition flush_all (st : state) : state * out :=
  match s_conn st with
  | None => (st, no_out)
  | Some c =>
    let r0 := mkRes (Some c) (s_freeLastSeen st) (s_used st) [] false in
    match flush_all_loop (S (length (c_queue c))) r0 with
    | Ok r => (mkS (rs_conn r) (rs_free r) (rs_used r) (s_maxPer st) (s_maxTotal st) false,
               mkOut false (rs_calls r) (rs_done r) false)
    | _ => (mkS (s_conn st) (s_freeLastSeen st) (s_used st) (s_maxPer st) (s_maxTotal st) true,
            mkOut false [] false true)
    end
  end.

Definition dead_out : out := mkOut false [] false true.

Definition step (st : state) (o : op) : state * out :=
  if s_dead st then (st, dead_out) else
  match o with
  | Segment seq syn fin rst payload ts goff => assemble st seq syn fin rst payload ts goff
  | FlushOlderThan t => flush_older st t
  | FlushAll => flush_all st
  end.

(* pages in use, for the lift to many connections (C11) *)
Definition pages_in_use (st : state) : Z := s_used st.
Definition conn_pages (st : state) : Z := match s_conn st with Some c => c_pages c | None => 0 end.

(* ---- GHOST: the live offsets of a state and an arriving operation (window hypothesis W:
   they lie in an interval of width < 2^30) *)
Definition live_offsets (st : state) (o : op) : list Z :=
  match s_conn st with
  | Some c =>
    (if c_nextSeq c =? invalidSequence then [] else [c_pos c]) ++
    flat_map (fun p => [p_off p; page_end p]) (c_queue c)
  | None => []
  end ++
  match o with
  | Segment _ _ _ _ payload _ goff => [goff; goff + lenZ payload]
  | _ => []
  end.

(* ---- branch tags (for the non-triviality count; computed from pre-state, op, output) *)
Definition tag_out_of_order_queue := 1.
Definition tag_overlap_trim := 2.
Definition tag_duplicate_drop := 3.
Definition tag_wrap_crossed := 4.
Definition tag_limit_flush := 5.
Definition tag_age_flush := 6.
Definition tag_late_syn := 7.
Definition tag_multi_page := 8.

Definition diff_adjusts (s t : Z) : bool :=
  ((s >? uint32Size - quarter) && (t <? quarter)) || ((t >? uint32Size - quarter) && (s <? quarter)).

Definition tags_of (st : state) (o : op) (st' : state) (ou : out) : list Z :=
  let chunks := concat (o_calls ou) in
  let trims := if existsb (fun r => (r_cut r >? 0) && negb (isnil (r_bytes r))) chunks then [tag_overlap_trim] else [] in
  let drops := if existsb (fun r => (r_cut r >? 0) && isnil (r_bytes r)) chunks then [tag_duplicate_drop] else [] in
  let ns := match s_conn st with Some c => c_nextSeq c | None => invalidSequence end in
  let ns' := match s_conn st' with Some c => c_nextSeq c | None => invalidSequence end in
  let wrapped := if (0 <=? ns) && (0 <=? ns') && (ns' <? ns) then [tag_wrap_crossed] else [] in
  trims ++ drops ++ wrapped ++
  match o with
  | Segment seq0 syn fin rst payload ts _ =>
    let seq := if syn && negb (ns =? invalidSequence) then seq_add seq0 1 else seq0 in
    let queued := negb (o_panic ou) && negb (syn && (ns =? invalidSequence)) &&
                  negb (negb syn && negb fin && negb rst && isnil payload) &&
                  negb (isnil payload && negb syn && match s_conn st with None => true | _ => false end) &&
                  ((ns =? invalidSequence) || (difference ns seq >? 0)) in
    (if queued && (0 <=? ns) then [tag_out_of_order_queue] else []) ++
    (if queued && negb (isnil (o_calls ou)) then [tag_limit_flush] else []) ++
    (if queued && (lenZ payload >? pageBytes) then [tag_multi_page] else []) ++
    (if (0 <=? ns) && diff_adjusts ns seq then [tag_wrap_crossed] else []) ++
    (if syn && (ns =? invalidSequence) &&
        match s_conn st with Some c => negb (isnil (c_queue c)) | None => false end
     then [tag_late_syn] else [])
  | FlushOlderThan _ => if isnil chunks then [] else [tag_age_flush]
  | FlushAll => []
  end.

Fixpoint run_trace (st : state) (ops : list op) : list (out * list Z) :=
  match ops with
  | [] => []
  | o :: t => let '(st', ou) := step st o in (ou, tags_of st o st' ou) :: run_trace st' t
  end.

Definition run (maxPer maxTotal : Z) (ops : list op) : list (out * list Z) :=
  run_trace (init maxPer maxTotal) ops.
