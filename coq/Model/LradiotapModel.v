(* Lradiotap — executable model of layers/radiotap.go (RadioTap codec) as repaired on agent-ldot11
   (RadioTapValues/VendorValues reset per decode; namespace decoders confined to the first 65535
   octets).  Definitions only.  Line numbers of that file (agent-ldot11 branch):
   align :23-25, DecodeFromBytes :1348-1465, decodeRadioTapNamespace :1467-1670,
   decodeVendorNamespace :1672-1694, SerializeTo :1696-1769, RadioTapNamespace.serializeTo :1771-1927,
   VendorNamespace.serializeTo :1929-1942, NextLayerType :1945.

   Representation.  A RadioTapNamespace value (30 integer fields of fixed width) is represented by
   the list of the little-endian octets of its fields, one entry per row of the field table
   `rt_fields` (TSFT 8 octets, Flags 1, Rate 1, ChannelFrequency+ChannelFlags 4, FHSS 2, ... MCS 3,
   AMPDUStatus 7 = Reference 4 + Flags 2 + CRC 1, VHT 12, Timestamp 0 (skipped, nothing stored),
   HE 12): this is a bijection with the Go struct, done by the harness when it prints / builds
   values.  Offsets are uint16 in the Go code: every addition is wrapped (u16). *)
From GP Require Import Base Codec MiscLib.
Open Scope Z_scope.

Record vendor := mkVn { vn_oui : list Z; vn_sub : Z; vn_skip : Z; vn_contents : list Z }.

Record radiotap := mkRt {
  rt_contents : list Z; rt_payload : list Z;
  rt_version : Z; rt_length : Z; rt_present : list Z;
  rt_values : list (list (list Z)); rt_vendor : list vendor }.
Definition rt_fresh : radiotap := mkRt [] [] 0 0 [] [] [].

(* field table: Present bit, alignment, octets occupied, octets stored (decodeRadioTapNamespace / serializeTo) *)
Definition fld := (Z * Z * Z * Z)%type.
Definition rt_fields : list fld :=
  [(0,8,8,8); (1,1,1,1); (2,1,1,1); (3,2,4,4); (4,1,2,2); (5,1,1,1); (6,1,1,1); (7,2,2,2); (8,2,2,2); (9,2,2,2);
   (10,1,1,1); (11,1,1,1); (12,1,1,1); (13,1,1,1); (14,2,2,2); (15,2,2,2); (16,1,1,1); (17,1,1,1);
   (19,1,3,3); (20,4,8,7); (21,2,12,12); (22,8,12,0); (23,2,12,12)].

(* offset += align(offset, w) in uint16 arithmetic :23-25 (w a power of two) *)
Definition rt_align (off w : Z) : Z := (u16 (off + (w - 1)) / w) * w.

(* binary.LittleEndian.Uint16(data[off:]) / Uint32: index checks inside the sub-slice are in int *)
Definition rt_le16 (d : list Z) (off : Z) : outcome Z :=
  obind (cd_idx d off) (fun a => obind (cd_idx d (off + 1)) (fun b => Ok (a + 256 * b))).
Definition rt_le32 (d : list Z) (off : Z) : outcome Z :=
  obind (rt_le16 d off) (fun a => obind (rt_le16 d (off + 2)) (fun b => Ok (a + 65536 * b))).
Definition rt_put16 (x : Z) : list Z := [x mod 256; (x / 256) mod 256].
Definition rt_put32 (x : Z) : list Z := [x mod 256; (x / 256) mod 256; (x / 65536) mod 256; (x / 16777216) mod 256].

(* one row of decodeRadioTapNamespace: `if present.X() { offset += align; if !fits(size) {return err}; read; offset += size }` *)
Definition rt_step (d : list Z) (present : Z) (st : Z * list (list Z)) (f : fld) : outcome (Z * list (list Z)) :=
  let '(bit, al, size, used) := f in
  if Z.testbit present bit then
    let off := rt_align (fst st) al in
    if used =? 0 then Ok (u16 (off + size), snd st ++ [[]])                      (* Timestamp :1649-1652: skipped unchecked *)
    else if off + size >? zlen d then Err 3                                       (* fits *)
    else obind (cd_slc d off (u16 (off + size))) (fun bs =>
         Ok (u16 (off + size), snd st ++ [firstn (Z.to_nat used) bs]))
  else Ok (fst st, snd st ++ [repeat 0 (Z.to_nat used)]).

Fixpoint rt_fields_loop (d : list Z) (present : Z) (fs : list fld) (st : Z * list (list Z)) : outcome (Z * list (list Z)) :=
  match fs with
  | [] => Ok st
  | f :: t => obind (rt_step d present st f) (rt_fields_loop d present t)
  end.
Definition rt_ns_dec (d : list Z) (off present : Z) : outcome (Z * list (list Z)) :=
  rt_fields_loop d present rt_fields (off, []).

(* decodeVendorNamespace :1672-1694 *)
Definition rt_vendor_dec (d : list Z) (off : Z) : outcome (Z * vendor) :=
  let off := rt_align off 2 in
  if off + 8 >? zlen d then Err 4 else
  obind (cd_slc d off (u16 (off + 3))) (fun oui =>
  let o4 := u16 (off + 4) in
  obind (cd_idx d o4) (fun sub =>
  let o6 := u16 (o4 + 2) in
  obind (rt_le16 d o6) (fun skip =>
  let o8 := u16 (o6 + 2) in
  if o8 + skip >? zlen d then Err 5 else
  obind (cd_slc d o8 (o8 + skip)) (fun contents =>
  Ok (u16 (o8 + skip), mkVn oui sub skip contents))))).

(* the Present bitmap chain :1380-1392; acc = m.Present so far, lastw its last word *)
Fixpoint rt_present_loop (fuel : nat) (data : list Z) (dataLen off lastw : Z) (acc : list Z) : list Z * outcome Z :=
  if Z.testbit lastw 31 then
    let off := u16 (off + 4) in
    if off + 4 >? dataLen then (acc, Err 2) else
    match fuel with
    | O => (acc, Err 99)             (* excluded by rt_present_fuel *)
    | S f =>
      match rt_le32 data off with
      | Ok w => rt_present_loop f data dataLen off w (acc ++ [w])
      | Err c => (acc, Err c)
      | Panic s => (acc, Panic s)
      end
    end
  else (acc, Ok off).

(* the namespace loop :1394-1428 over m.Present *)
Fixpoint rt_ns_loop (d : list Z) (ps : list Z) (rtn vn : bool) (off : Z) (rv : list (list (list Z))) (vv : list vendor)
    : list (list (list Z)) * list vendor * outcome unit :=
  match ps with
  | [] => (rv, vv, Ok tt)
  | p :: t =>
    if rtn then
      match rt_ns_dec d off p with
      | Ok (off', vals) =>
        if Z.testbit p 31 then rt_ns_loop d t (Z.testbit p 29) (Z.testbit p 30) off' (rv ++ [vals]) vv
        else (rv ++ [vals], vv, Ok tt)
      | Err c => (rv, vv, Err c)
      | Panic s => (rv, vv, Panic s)
      end
    else if vn then
      match rt_vendor_dec d off with
      | Ok (off', v) =>
        if Z.testbit p 31 then rt_ns_loop d t (Z.testbit p 29) (Z.testbit p 30) off' rv (vv ++ [v])
        else (rv, vv ++ [v], Ok tt)
      | Err c => (rv, vv, Err c)
      | Panic s => (rv, vv, Panic s)
      end
    else (rv, vv, Ok tt)
  end.

(* hash/crc32 IEEE (reflected 0xEDB88320), bit by bit *)
Definition rt_crc_step (c : Z) : Z := if Z.odd c then Z.lxor (c / 2) 3988292384 else c / 2.
Definition rt_crc_byte (c b : Z) : Z :=
  rt_crc_step (rt_crc_step (rt_crc_step (rt_crc_step (rt_crc_step (rt_crc_step (rt_crc_step (rt_crc_step (Z.lxor c b)))))))).
Definition rt_crc32 (l : list Z) : Z := Z.lxor (fold_left rt_crc_byte l 4294967295) 4294967295.

(* :1433-1448 removal of the driver padding between 802.11 header and body *)
Definition rt_depad (flags : Z) (p : list Z) : outcome (list Z) :=
  let p0 := nth 0 p 0 in let p1 := nth 1 p 0 in
  if Z.testbit flags 5 && (zlen p >=? 2) && (Z.land p0 12 =? 8) then
    let headlen := 24 + (if Z.land p0 140 =? 136 then 2 else 0) + (if Z.land p1 3 =? 3 then 2 else 0) in
    if (headlen mod 4 =? 2) && (zlen p >=? headlen + 2) then
      obind (cd_slc p 0 headlen) (fun a => obind (cd_slc p (headlen + 2) (zlen p)) (fun b => Ok (a ++ b)))
    else Ok p
  else Ok p.

(* Flags of RadioTapValues[0]: row 1 of the table *)
Definition rt_flags0 (rv : list (list (list Z))) : outcome Z :=
  match rv with v0 :: _ => Ok (nth 0 (nth 1 v0 []) 0) | [] => Panic 5 end.       (* m.RadioTapValues[0] *)

(* :1450-1461 the FCS is appended when the flags say the frame has none *)
Definition rt_payload_of (flags : Z) (p : list Z) : outcome (list Z) :=
  obind (rt_depad flags p) (fun p1 =>
  if Z.testbit flags 4 then Ok p1 else Ok (p1 ++ rt_put32 (rt_crc32 p1))).

Definition rt_decode_into (old : radiotap) (data : list Z) : radiotap * outcome unit * bool :=
  let n := zlen data in
  let dataLen := if n <? 65535 then n else 65535 in                                (* :1350-1353 *)
  if dataLen <? 8 then (old, Err 1, true) else                                     (* :1354-1357 *)
  ml_bind (cd_idx data 0) old false (fun ver =>                                    (* :1358 *)
  ml_bind (cd_slc data 2 4) old false (fun _ =>
  ml_bind (rt_le16 data 2) old false (fun len0 =>                                  (* :1359 *)
  let len := if len0 >? dataLen then dataLen else len0 in                          (* :1365-1367 *)
  let mk := fun c p ps rv vv => mkRt c p ver len ps rv vv in
  let oc := rt_contents old in let op := rt_payload old in
  ml_bind (cd_slc data 4 8) (mk oc op (rt_present old) [] []) false (fun _ =>
  ml_bind (rt_le32 data 4) (mk oc op (rt_present old) [] []) false (fun w0 =>      (* :1379 *)
  match rt_present_loop (length data) data dataLen 4 w0 [w0] with
  | (ps, Ok off) =>
    let d := firstn (Z.to_nat dataLen) data in                                     (* header := data[:dataLen] *)
    match rt_ns_loop d ps true false (u16 (off + 4)) [] [] with
    | (rv, vv, Ok _) =>
      let st := mk oc op ps rv vv in
      ml_bind (cd_slc data len n) st false (fun payload0 =>                        (* :1430 data[m.Length:] *)
      ml_bind (rt_flags0 rv) st false (fun flags =>
      ml_bind (rt_payload_of flags payload0) st false (fun payload =>
      ml_bind (cd_slc data 0 len) st false (fun contents =>                        (* :1462 *)
      (mk contents payload ps rv vv, Ok tt, false)))))
    | (rv, vv, Err c) => (mk oc op ps rv vv, Err c, true)
    | (rv, vv, Panic s) => (mk oc op ps rv vv, Panic s, false)
    end
  | (ps, Err c) => (mk oc op ps [] [], Err c, true)
  | (ps, Panic s) => (mk oc op ps [] [], Panic s, false)
  end))))).

(* NextLayerType: constant LayerTypeDot11 *)
Definition rt_next (l : radiotap) : Z := 0.

(* ---------------------------------------------------------------- SerializeTo *)
(* RadioTapNamespace.serializeTo: rows in lockstep with the value's entries; an entry of the wrong
   width (impossible for a Go value) is cut / zero-extended to the field width *)
Fixpoint rt_ser_fields (present : Z) (fs : list fld) (vs : list (list Z)) (buf : list Z) (off : Z) : outcome (list Z * Z) :=
  match fs with
  | [] => Ok (buf, off)
  | (bit, al, size, used) :: t =>
    if Z.testbit present bit then
      let off1 := rt_align off al in
      if used =? 0 then rt_ser_fields present t (tl vs) buf (u16 (off1 + size))
      else
      obind (ml_wrc buf off1 (firstn (Z.to_nat used) (hd [] vs ++ repeat 0 (Z.to_nat used)))) (fun buf' =>
      rt_ser_fields present t (tl vs) buf' (u16 (off1 + size)))
    else rt_ser_fields present t (tl vs) buf off
  end.

(* VendorNamespace.serializeTo :1929-1942 *)
Definition rt_ser_vendor (v : vendor) (buf : list Z) (off : Z) : outcome (list Z * Z) :=
  let off := rt_align off 2 in
  obind (ml_copy buf off (firstn 3 (vn_oui v))) (fun buf =>                        (* copy(buf[offset:], v.OUI[0:3]) *)
  let o4 := u16 (off + 4) in
  obind (ml_wrc buf o4 [vn_sub v mod 256]) (fun buf =>
  let o6 := u16 (o4 + 2) in
  obind (ml_wrc buf o6 (rt_put16 (vn_skip v))) (fun buf =>
  let o8 := u16 (o6 + 2) in
  obind (ml_copy buf o8 (vn_contents v)) (fun buf =>
  Ok (buf, u16 (o8 + vn_skip v)))))).

Fixpoint rt_ser_present (ps : list Z) (buf : list Z) (off : Z) : outcome (list Z * Z) :=
  match ps with
  | [] => Ok (buf, off)
  | p :: t => obind (ml_wrc buf off (rt_put32 p)) (fun buf' => rt_ser_present t buf' (u16 (off + 4)))
  end.

(* :1732-1752; RadioTapValues[i] / VendorValues[j] with i, j counting up = the heads of the lists *)
Fixpoint rt_ser_loop (ps : list Z) (rtn vn : bool) (rvs : list (list (list Z))) (vvs : list vendor) (buf : list Z) (off : Z)
    : outcome (list Z * Z) :=
  match ps with
  | [] => Ok (buf, off)
  | p :: t =>
    if rtn then
      match rvs with
      | [] => Err 3
      | v :: rvs' => obind (rt_ser_fields p rt_fields v buf off) (fun r =>
                     rt_ser_loop t (Z.testbit p 29) (Z.testbit p 30) rvs' vvs (fst r) (snd r))
      end
    else if vn then
      match vvs with
      | [] => Err 4
      | v :: vvs' => obind (rt_ser_vendor v buf off) (fun r =>
                     rt_ser_loop t (Z.testbit p 29) (Z.testbit p 30) rvs vvs' (fst r) (snd r))
      end
    else Ok (buf, off)
  end.

Definition rt_vsize (v : vendor) : Z := 12 + zlen (vn_contents v) + vn_skip v.
Definition rt_size (l : radiotap) : Z :=
  4 + zlen (rt_present l) * 132 + fold_right (fun v a => rt_vsize v + a) 0 (rt_vendor l).   (* :1699-1705 *)

(* SerializeTo has a value receiver: FixLengths changes a copy, the caller's layer is untouched *)
Definition rt_serialize (l : radiotap) (payload : list Z) (fixl csum : bool) (junk : list Z)
    : outcome (list Z) * radiotap :=
  if existsb (fun v => zlen (vn_oui v) <? 3) (rt_vendor l) then (Err 1, l) else     (* :1701-1703 *)
  let size0 := rt_size l in
  if size0 >? 65535 then (Err 2, l) else                                           (* :1706-1708 *)
  let size := if size0 <? 1024 then 1024 else size0 in
  let buf := repeat 0 (Z.to_nat size) in                                           (* make: zeroed *)
  let r :=
    obind (ml_wrc buf 0 [rt_version l mod 256; 0]) (fun buf =>                     (* :1714-1715 *)
    obind (rt_ser_present (rt_present l) buf 4) (fun r1 =>                         (* :1720-1724 *)
    rt_ser_loop (rt_present l) true false (rt_values l) (rt_vendor l) (fst r1) (snd r1))) in
  match r with
  | Ok (buf, off) =>
    let region := cd_region off junk in                                            (* :1754 PrependBytes(int(offset)) *)
    let len := if fixl then off else rt_length l in                                (* :1760-1762 *)
    match ml_wrc buf 2 (rt_put16 len) with                                         (* :1764 *)
    | Ok buf =>
      let k := Z.to_nat (Z.min off (zlen buf)) in                                  (* copy(packetBuf, buf) *)
      (Ok ((firstn k buf ++ skipn k region) ++ payload), l)
    | Err c => (Err c, l)
    | Panic s => (Panic s, l)
    end
  | Err c => (Err c, l)
  | Panic s => (Panic s, l)
  end.

(* RadioTap has no String method; the typed fields' String methods (flags, rates, MCS, VHT, HE)
   index nothing and are total *)
Definition rt_render_panics (l : radiotap) : bool := false.
