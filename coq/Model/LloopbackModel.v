(* Lloopback — executable model of layers/loopback.go (BSD loopback encapsulation).  Definitions only.
   Line numbers of /repo/layers/loopback.go: DecodeFromBytes :29-50, NextLayerType :58-60,
   SerializeTo :64-71 (binary.LittleEndian.PutUint32 of the uint8 family). *)
From GP Require Import Base Codec MiscLib.
Open Scope Z_scope.

Record loopback := mkLo { lo_contents : list Z; lo_payload : list Z; lo_family : Z }.
Definition lo_fresh : loopback := mkLo [] [] 0.

(* nothing is assigned before the last error return; no SetTruncated *)
Definition lo_decode_into (old : loopback) (data : list Z) : loopback * outcome unit * bool :=
  let n := zlen data in
  if n <? 4 then (old, Err 1, false) else                                          (* :30-32 *)
  ml_bind (cd_idx data 0) old false (fun b0 =>
  ml_bind (cd_idx data 1) old false (fun b1 =>
  ml_bind (cd_idx data 2) old false (fun b2 =>
  ml_bind (cd_idx data 3) old false (fun b3 =>
  let prot := if (b0 =? 0) && (b1 =? 0)                                            (* :38-42 *)
              then ((b0 * 256 + b1) * 256 + b2) * 256 + b3
              else ((b3 * 256 + b2) * 256 + b1) * 256 + b0 in
  if prot >? 255 then (old, Err 2, false) else                                     (* :43-45 *)
  ml_bind (cd_slc data 0 4) old false (fun contents =>                             (* :48 *)
  ml_bind (cd_slc data 4 n) old false (fun payload =>
  (mkLo contents payload prot, Ok tt, false))))))).

(* NextLayerType: Family.LayerType(); abstract id = the family value *)
Definition lo_next (l : loopback) : Z := lo_family l.

Definition lo_serialize (l : loopback) (payload : list Z) (fixl csum : bool) (junk : list Z)
    : outcome (list Z) * loopback :=
  let bytes0 := cd_region 4 junk in                                                (* :65 *)
  match ml_wrc bytes0 0 (le_bytes 4 (lo_family l mod 256)) with                    (* :69 uint32(uint8) *)
  | Ok b => (Ok (b ++ payload), l)
  | Err c => (Err c, l)
  | Panic s => (Panic s, l)
  end.

Definition lo_render_panics (l : loopback) : bool := false.
