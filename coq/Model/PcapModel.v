(* Classic pcap writer/reader and snoop reader of pcapgo as functions over byte lists and
   chunked streams.  Executable definitions only (no proofs).

   Transcribed from (line numbers of /repo, with the two fix: commits of branch agent-pcap
   applied -- see the comments marked FIX):
     pcapgo/write.go:80-129   WriteFileHeader, writePacketHeader, WritePacket
     pcapgo/read.go:73-177    readHeader, ReadPacketData, ZeroCopyReadPacketData, readPacketHeader
     pcapgo/snoop.go:92-170   readHeader, readPacketHeader, ReadPacketData, ZeroCopyReadPacketData
   bufio.Reader (Peek) and io.ReadFull / io.CopyN are modelled by their specification over a
   chunked stream: what they return depends only on the bytes before the first failing read.
   gzip input (magic 1f 8b) is not modelled: new_reader answers E_GZIP. *)
From GP Require Import Base.
Open Scope Z_scope.

(* ---------------------------------------------------------------- error classes *)
Definition E_EOF  : Z := 1.   (* io.EOF *)
Definition E_UEOF : Z := 2.   (* io.ErrUnexpectedEOF *)
Definition E_IO   : Z := 3.   (* the error returned by the underlying reader (injected failure) *)
Definition E_FMT  : Z := 4.   (* any error made by pcapgo itself (fmt.Errorf / errors.New) *)
Definition E_GZIP : Z := 5.   (* gzip-wrapped input: outside the model *)
Definition E_CLOCK : Z := 6.  (* writer given the zero time: uses time.Now(), outside the model *)

(* ---------------------------------------------------------------- chunked streams *)
(* The underlying io.Reader: each Read call delivers (part of) the next chunk; after the last
   chunk it reports io.EOF for ever; Fail is a read error, reported for ever once reached. *)
Inductive chunk := Chunk (b : list Z) | Fail.
Definition stream := list chunk.

Inductive tstat := Full | AtEOF | AtFail.

(* split a chunk: (the first n bytes, the rest, how many bytes are still wanted).  Walks only
   the bytes taken, with a Z counter: n may be a hostile 32-bit length. *)
Fixpoint ztake (n : Z) (b : list Z) : list Z * list Z * Z :=
  match b with
  | [] => ([], [], n)
  | x :: t => if n <=? 0 then ([], b, 0)
              else let '(a, r, m) := ztake (n - 1) t in (x :: a, r, m)
  end.

(* consume up to n bytes *)
Fixpoint take (n : Z) (s : stream) : list Z * stream * tstat :=
  if n <=? 0 then ([], s, Full) else
  match s with
  | [] => ([], [], AtEOF)
  | Fail :: _ => ([], s, AtFail)
  | Chunk b :: s' =>
      let '(a, r, m) := ztake n b in
      if m <=? 0 then (a, Chunk r :: s', Full)
      else let '(a2, s'', st) := take m s' in (a ++ a2, s'', st)
  end.

(* io.ReadFull(r, buf) with len(buf) = n  (io.ReadAtLeast: io.go) *)
Definition read_full (n : Z) (s : stream) : outcome (list Z) * stream :=
  let '(bs, s', st) := take n s in
  match st with
  | Full => (Ok bs, s')
  | AtEOF => (Err (match bs with [] => E_EOF | _ => E_UEOF end), s')
  | AtFail => (Err E_IO, s')
  end.

(* the bytes a stream will deliver, and whether it ends in a failure *)
Fixpoint flat (s : stream) : list Z :=
  match s with [] => [] | Fail :: _ => [] | Chunk b :: s' => b ++ flat s' end.
Fixpoint failed (s : stream) : bool :=
  match s with [] => false | Fail :: _ => true | Chunk _ :: s' => failed s' end.

(* ---------------------------------------------------------------- field access *)
Definition u32f (be : bool) (l : list Z) (off : nat) : Z :=
  (if be then be_val else le_val) (slice l off (off + 4)).
Definition u16f (be : bool) (l : list Z) (off : nat) : Z :=
  (if be then be_val else le_val) (slice l off (off + 2)).
Definition put32 (be : bool) (x : Z) : list Z := if be then be_bytes 4 x else le_bytes 4 x.
Definition put16 (be : bool) (x : Z) : list Z := if be then be_bytes 2 x else le_bytes 2 x.

Definition MAGIC_US : Z := 0xA1B2C3D4.
Definition MAGIC_NS : Z := 0xA1B23C4D.
Definition MAGIC_US_BE : Z := 0xD4C3B2A1.   (* as seen by a little-endian load *)
Definition MAGIC_NS_BE : Z := 0x4D3CB2A1.

(* ---------------------------------------------------------------- packets *)
(* what the caller hands to WritePacket: CaptureInfo{Timestamp(sec,nsec), CaptureLength, Length}, data *)
Record pkt := { p_sec : Z; p_nsec : Z; p_caplen : Z; p_len : Z; p_data : list Z }.
(* what a reader returns: Timestamp as (Unix(), Nanosecond()), CaptureLength, Length, data *)
Record rpkt := { k_sec : Z; k_nsec : Z; k_caplen : Z; k_len : Z; k_data : list Z }.

(* ---------------------------------------------------------------- writer (write.go) *)
(* A file encoder parametric in byte order; pcapgo.Writer is the little-endian instance. *)
Definition enc_file_header (be nano : bool) (snaplen lt : Z) : list Z :=
  put32 be (if nano then MAGIC_NS else MAGIC_US) ++ put16 be 2 ++ put16 be 4
  ++ repeat 0 8 ++ put32 be snaplen ++ put32 be lt.

(* write.go:80-96 *)
Definition write_file_header (nano : bool) (snaplen lt : Z) : list Z :=
  enc_file_header false nano snaplen lt.

Definition scaler (nano : bool) : Z := if nano then 1 else 1000.

Definition enc_record (be nano : bool) (p : pkt) : list Z :=
  put32 be (p_sec p) ++ put32 be (p_nsec p / scaler nano)
  ++ put32 be (p_caplen p) ++ put32 be (p_len p) ++ p_data p.

Definition ZERO_TIME_SEC : Z := -62135596800.

(* write.go:101-129: the bytes appended to the file, or the error *)
Definition write_packet (nano : bool) (p : pkt) : outcome (list Z) :=
  if negb (p_caplen p =? Z.of_nat (length (p_data p))) then Err E_FMT         (* :118 *)
  else if p_len p <? p_caplen p then Err E_FMT                                 (* :121 *)
  else if (p_sec p =? ZERO_TIME_SEC) && (p_nsec p =? 0) then Err E_CLOCK        (* :103 t.IsZero() *)
  else Ok (enc_record false nano p).

(* the whole file after WriteFileHeader and a sequence of WritePacket calls, with the
   outcome class of each call (0 = nil error) *)
Fixpoint write_packets (nano : bool) (ps : list pkt) : list Z * list Z :=
  match ps with
  | [] => ([], [])
  | p :: t =>
      let '(bs, es) := write_packets nano t in
      match write_packet nano p with
      | Ok b => (b ++ bs, 0 :: es)
      | Err c => (bs, c :: es)
      | Panic _ => (bs, (-1) :: es)
      end
  end.
Definition write_file (nano : bool) (snaplen lt : Z) (ps : list pkt) : list Z * list Z :=
  let '(bs, es) := write_packets nano ps in (write_file_header nano snaplen lt ++ bs, es).

(* a hand-built file in either byte order (what other tools write) *)
Definition enc_file (be nano : bool) (snaplen lt : Z) (ps : list pkt) : list Z :=
  enc_file_header be nano snaplen lt ++ concat (map (enc_record be nano) ps).

(* ---------------------------------------------------------------- reader (read.go) *)
Record rstate := { r_be : bool; r_factor : Z; r_snaplen : Z; r_lt : Z;
                   r_pcap : Z (* cap(r.packetBuf) *) }.
Definition set_pcap (rd : rstate) (c : Z) : rstate :=
  {| r_be := r_be rd; r_factor := r_factor rd; r_snaplen := r_snaplen rd; r_lt := r_lt rd; r_pcap := c |}.

Definition is_gzip (b : list Z) : bool :=
  match b with [a; c] => (a =? 0x1f) && (c =? 0x8b) | _ => false end.

(* read.go:65-119 NewReader/readHeader.  Result, stream left, allocation events (make sizes). *)
Definition new_reader (s : stream) : outcome rstate * stream * list Z :=
  let '(b2, _, st2) := take 2 s in                        (* :75 br.Peek(2) *)
  match st2 with
  | AtEOF => (Err E_EOF, s, [])
  | AtFail => (Err E_IO, s, [])
  | Full =>
    if is_gzip b2 then (Err E_GZIP, s, []) else           (* :80 *)
    let '(r, s1) := read_full 24 s in                      (* :88-89 *)
    match r with
    | Err c => (Err c, s1, [24])
    | Panic x => (Panic x, s1, [24])
    | Ok buf =>
      let magic := u32f false buf 0 in
      let mk (be : bool) (factor : Z) :=
        if negb (u16f be buf 4 =? 2) then (Err E_FMT, s1, [24])          (* :109 *)
        else if negb (u16f be buf 6 =? 4) then (Err E_FMT, s1, [24])     (* :112 *)
        else (Ok {| r_be := be; r_factor := factor; r_snaplen := u32f be buf 16;
                    r_lt := u16 (u32f be buf 20); r_pcap := 0 |}, s1, [24]) in
      if magic =? MAGIC_NS then mk false 1
      else if magic =? MAGIC_NS_BE then mk true 1
      else if magic =? MAGIC_US then mk false 1000
      else if magic =? MAGIC_US_BE then mk true 1000
      else (Err E_FMT, s1, [24])
    end
  end.

(* time.Unix(sec, nsec).UTC() observed as (Unix(), Nanosecond()); nsec is a uint32 product *)
Definition NS : Z := 1000000000.
Definition mk_ts (sec frac factor : Z) : Z * Z :=
  let ns := u32 (frac * factor) in (sec + ns / NS, ns mod NS).

(* read.go:122-177; zc = ZeroCopyReadPacketData.
   FIX (read.go): an io.EOF from reading the packet data is reported as io.ErrUnexpectedEOF. *)
Definition read_packet (zc : bool) (rd : rstate) (s : stream)
  : outcome rpkt * rstate * stream * list Z :=
  let '(rh, s1) := read_full 16 s in                              (* :170 *)
  match rh with
  | Err c => (Err c, rd, s1, [])
  | Panic x => (Panic x, rd, s1, [])
  | Ok h =>
    let be := r_be rd in
    let ts := mk_ts (u32f be h 0) (u32f be h 4) (r_factor rd) in  (* :173 *)
    let caplen := u32f be h 8 in
    let len := u32f be h 12 in
    if r_snaplen rd <? caplen then (Err E_FMT, rd, s1, [])        (* :126 / :148 *)
    else if len <? caplen then (Err E_FMT, rd, s1, [])            (* :130 / :152 *)
    else
      let '(rd1, al) :=
        if zc then
          if r_pcap rd <? caplen                                  (* :157 *)
          then (set_pcap rd (Z.max (r_snaplen rd) caplen), [Z.max (r_snaplen rd) caplen])
          else (rd, [])
        else (rd, [caplen]) in                                    (* :134 *)
      if existsb (fun a => a <? 0) al then (Panic 1, rd, s1, al)  (* makeslice: len out of range *)
      else if zc && (r_pcap rd1 <? caplen) then (Panic 2, rd1, s1, al)  (* :164 packetBuf[:caplen] *)
      else
        let '(rdata, s2) := read_full caplen s1 in                (* :135 / :165 *)
        match rdata with
        | Ok d => (Ok {| k_sec := fst ts; k_nsec := snd ts; k_caplen := caplen; k_len := len; k_data := d |},
                   rd1, s2, al)
        | Err c => (Err (if c =? E_EOF then E_UEOF else c), rd1, s2, al)
        | Panic x => (Panic x, rd1, s2, al)
        end
  end.

(* ---------------------------------------------------------------- snoop reader (snoop.go) *)
Record sstate := { s_lt : Z; s_pcap : Z (* cap(r.packetBuf) *) }.
Definition SNOOP_MAGIC : Z := 0x736e6f6f70000000.
Definition MAX_CAPLEN : Z := 4096.

(* snoop.go:83-113 *)
Definition snoop_new (s : stream) : outcome sstate * stream * list Z :=
  let '(r, s1) := read_full 16 s in                               (* :93-95 *)
  match r with
  | Err c => (Err c, s1, [16])
  | Panic x => (Panic x, s1, [16])
  | Ok buf =>
    if negb (be_val (slice buf 0 8) =? SNOOP_MAGIC) then (Err E_FMT, s1, [16])     (* :101 *)
    else if negb (u32f true buf 8 =? 2) then (Err E_FMT, s1, [16])                 (* :105 *)
    else if 10 <? u32f true buf 12 then (Err E_FMT, s1, [16])                      (* :109 *)
    else (Ok {| s_lt := u32f true buf 12; s_pcap := 0 |}, s1, [16])
  end.

(* snoop.go:51-77 LinkType(): Some mapped link type, or None (error) *)
Definition snoop_linktype (st : sstate) : option Z :=
  let l := s_lt st in
  if l =? 0 then Some 1 else if l =? 2 then Some 6 else if l =? 4 then Some 1
  else if l =? 5 then Some 104 else if l =? 8 then Some 10 else None.

(* snoop.go:115-170, with FIX: pad = record length - (24 + capture length), checked >= 0 after
   the capture-length checks; the data buffer holds the captured bytes only and the pad is
   skipped with io.CopyN(io.Discard, ...) (a short pad is io.ErrUnexpectedEOF); io.EOF from
   reading the data is io.ErrUnexpectedEOF. *)
Definition snoop_read (zc : bool) (st : sstate) (s : stream)
  : outcome rpkt * sstate * stream * list Z :=
  let '(rh, s1) := read_full 24 s in
  match rh with
  | Err c => (Err c, st, s1, [])
  | Panic x => (Panic x, st, s1, [])
  | Ok h =>
    let ts := mk_ts (u32f true h 16) (u32f true h 20) 1000 in
    let len := u32f true h 0 in
    let caplen := u32f true h 4 in
    let reclen := u32f true h 8 in
    if len <? caplen then (Err E_FMT, st, s1, [])
    else if MAX_CAPLEN <? caplen then (Err E_FMT, st, s1, [])
    else
      let pad := reclen - (24 + caplen) in
      if pad <? 0 then (Err E_FMT, st, s1, [])
      else
        let '(st1, al) :=
          if zc then
            if s_pcap st <? caplen then ({| s_lt := s_lt st; s_pcap := caplen |}, [caplen]) else (st, [])
          else (st, [caplen]) in
        if existsb (fun a => a <? 0) al then (Panic 1, st, s1, al)
        else if zc && (s_pcap st1 <? caplen) then (Panic 2, st1, s1, al)
        else
          let '(rdata, s2) := read_full caplen s1 in
          match rdata with
          | Err c => (Err (if c =? E_EOF then E_UEOF else c), st1, s2, al)
          | Panic x => (Panic x, st1, s2, al)
          | Ok d =>
            let '(_, s3, stp) := take pad s2 in
            match stp with
            | Full => (Ok {| k_sec := fst ts; k_nsec := snd ts; k_caplen := caplen; k_len := len; k_data := d |},
                       st1, s3, al)
            | AtEOF => (Err E_UEOF, st1, s3, al)
            | AtFail => (Err E_IO, st1, s3, al)
            end
          end
  end.

(* ---------------------------------------------------------------- drivers *)
(* a consumer calling the read function until an I/O-class error (EOF, unexpected EOF, read
   error) or a panic; format errors do not stop it.  false = fuel ran out first. *)
Definition is_io_err (c : Z) : bool := (c =? E_EOF) || (c =? E_UEOF) || (c =? E_IO).

Fixpoint drain {St : Type} (rdf : St -> stream -> outcome rpkt * St * stream * list Z)
         (fuel : nat) (st : St) (s : stream) : list (outcome rpkt * list Z) * bool :=
  match fuel with
  | O => ([], false)
  | S f =>
    let '(r, st', s', al) := rdf st s in
    match r with
    | Ok _ => let '(l, fin) := drain rdf f st' s' in ((r, al) :: l, fin)
    | Err c => if is_io_err c then ([(r, al)], true)
               else let '(l, fin) := drain rdf f st' s' in ((r, al) :: l, fin)
    | Panic _ => ([(r, al)], true)
    end
  end.

(* open + drain, pcap *)
Definition pcap_run (zc : bool) (fuel : nat) (s : stream)
  : outcome rstate * list Z * list (outcome rpkt * list Z) * bool :=
  let '(r, s1, al) := new_reader s in
  match r with
  | Ok rd => let '(l, fin) := drain (read_packet zc) fuel rd s1 in (r, al, l, fin)
  | _ => (r, al, [], true)
  end.

(* read.go:227 SetSnaplen, called by the consumer between reads: `sched` gives, for each successive
   read call, the value set just before it (None: no call).  The state of the loop is the reader
   state plus the rest of the schedule. *)
Definition set_snaplen (rd : rstate) (n : Z) : rstate :=
  {| r_be := r_be rd; r_factor := r_factor rd; r_snaplen := n; r_lt := r_lt rd; r_pcap := r_pcap rd |}.

Definition read_packet_sn (zc : bool) (st : rstate * list (option Z)) (s : stream)
  : outcome rpkt * (rstate * list (option Z)) * stream * list Z :=
  let '(rd, sched) := st in
  let rd0 := match sched with Some n :: _ => set_snaplen rd n | _ => rd end in
  let '(r, rd1, s1, al) := read_packet zc rd0 s in
  (r, (rd1, tl sched), s1, al).

Definition pcap_run_sn (zc : bool) (fuel : nat) (sched : list (option Z)) (s : stream)
  : outcome rstate * list Z * list (outcome rpkt * list Z) * bool :=
  let '(r, s1, al) := new_reader s in
  match r with
  | Ok rd => let '(l, fin) := drain (read_packet_sn zc) fuel (rd, sched) s1 in (r, al, l, fin)
  | _ => (r, al, [], true)
  end.

Definition snoop_run (zc : bool) (fuel : nat) (s : stream)
  : outcome sstate * list Z * list (outcome rpkt * list Z) * bool :=
  let '(r, s1, al) := snoop_new s in
  match r with
  | Ok st => let '(l, fin) := drain (snoop_read zc) fuel st s1 in (r, al, l, fin)
  | _ => (r, al, [], true)
  end.

(* a file read as one chunk *)
Definition pcap_read_file (zc : bool) (fuel : nat) (file : list Z) := pcap_run zc fuel [Chunk file].
