(* Lsll — executable model of layers/linux_sll.go (Linux cooked capture v1 header decoder) as repaired
   ("address length exceeds the data" is an error).  Definitions only.  /repo/layers/linux_sll.go: LinkFlow :67-77,
   NextLayerType :79-81, DecodeFromBytes :83-98.  No SerializeTo (C06/C07 n/a).  Consistent with check C17
   (coq/Model/C17Model.v, LLinuxSLL): AddrLen + 6 is compared with len(data) in int. *)
From GP Require Import Base Codec MiscLib.
Open Scope Z_scope.
Record sll := mkSll { sl_contents : list Z; sl_payload : list Z; sl_ptype : Z; sl_alen : Z; sl_addr : list Z; sl_etype : Z; sl_atype : Z }.
Definition sll_fresh : sll := mkSll [] [] 0 0 [] 0 0.
Definition sll_decode_into (old : sll) (data : list Z) : sll * outcome unit * bool :=
  let n := zlen data in
  if n <? 16 then (old, Err 1, false) else                                  (* :84-86 no SetTruncated *)
  ml_bind (cd_rd16 data 0) old false (fun pt =>                             (* :87 *)
  ml_bind (cd_rd16 data 2) old false (fun at_ =>                            (* :88 *)
  ml_bind (cd_rd16 data 4) old false (fun al =>                             (* :89 *)
  let l1 := mkSll (sl_contents old) (sl_payload old) pt al (sl_addr old) (sl_etype old) at_ in
  if n <? al + 6 then (l1, Err 2, false) else                               (* :90-92 *)
  ml_bind (cd_slc data 6 (al + 6)) l1 false (fun ad =>                      (* :93 *)
  ml_bind (cd_rd16 data 14) l1 false (fun et =>                             (* :94 *)
  ml_bind (cd_slc data 0 16) l1 false (fun c =>                             (* :95 *)
  ml_bind (cd_slc data 16 n) l1 false (fun p =>
  (mkSll c p pt al ad et at_, Ok tt, false)))))))).
(* NextLayerType: EthernetType.LayerType(); abstract id = the type value *)
Definition sll_next (l : sll) : Z := sl_etype l.
(* LinkFlow truncates the address to MaxEndpointSize (16) before NewFlow: total *)
Definition sll_render_panics (l : sll) : bool := false.
