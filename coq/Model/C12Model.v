(* C12 — assemblers sharing one stream pool: an explicit interleaving semantics.

   Modelled code (both packages; the line numbers are those of the unchanged tree):
     tcpassembly/assembly.go  StreamPool.getConnection :498-515 (RLock lookup, RUnlock,
       factory.New, Lock, newConnection = pop the free list + reset, re-check, insert),
       newConnection :479-493, connection.reset :388-396, Assembler.AssembleWithTimestamp
       :536-610 (ignore rule :538, `end` flag :554, retry loop on a closed connection
       :552-566), closeConnection/remove :662-679, FlushAll :279-290, connections :196-204.
     reassembly/memory.go     getHalf :169-180, getConnection :185-209 (with the
       panic("FIXME: other dir added in the meantime...") :201-203), newConnection :153-167,
       remove :123-130 (conditional on the key being present), connections :143-151;
     reassembly/tcpassembly.go  AssembleWithContext :640-739 (conn.mu.Lock, deferred Unlock,
       no closed check, no retry: the half-connection pointers are those chosen by the
       lookup), closeHalfConnection :1199-1218, FlushAll :1321-1337, connection.reset :455-466.

   Threads are assemblers; an assembler whose program contains OFlush is the flusher.
   Program counters sit exactly where the `verif` yield points are: at the start of every
   call (PStart), after the read-locked lookup missed (PMiss, site pool.miss), before every
   conn.mu.Lock() (PWant, site conn.lock), before the pool write-section of remove while the
   connection lock is held (PRemove, site pool.remove), and in tcpassembly's retry loop
   (PRetry, site conn.retry).  Pool sections (read or write) contain no yield, so the pool
   lock is free between steps.  Every step carries the list of its shared accesses with the
   locks held at the access (function [accesses]).

   Per-connection packet processing is atomic under the connection lock and ABSTRACT here:
   the section is parametric in the per-connection state [cstate] and in
     process : cstate -> bool -> packet -> cstate * list cevent * bool
     flush   : cstate -> cstate * list cevent * bool
   (bool argument: the packet matched the connection's key in the forward direction;
   bool result: the connection was closed by this call and must be removed from the pool).
   The sequential machines are the business of C09/C10; two small concrete instances, exact
   for the packet alphabet of the harness, are defined at the end of the file for the
   correspondence run.  Executable definitions only; proofs are in Proofs/C12Proofs.v. *)
From GP Require Import Base.
Open Scope nat_scope.

(* ---------------------------------------------------------------- keys, packets, events *)
Record key := mkKey { k_flow : nat; k_dir : bool }.
Definition key_eqb (a b : key) : bool := Nat.eqb (k_flow a) (k_flow b) && Bool.eqb (k_dir a) (k_dir b).
Definition key_rev (k : key) : key := mkKey (k_flow k) (negb (k_dir k)).

(* p_ts: the capture timestamp handed to Assemble (abstract seconds) *)
Record packet := mkPkt { p_key : key; p_syn : bool; p_fin : bool; p_seq : Z; p_bytes : list Z; p_ts : Z }.

(* one Reassembly (tcpassembly) / the summary of one ScatterGather (reassembly) *)
Record chunk := mkChunk { ch_bytes : list Z; ch_skip : Z; ch_start : bool; ch_end : bool }.
Inductive cevent :=
| CReasm (dir : bool) (chunks : list chunk)   (* Reassembled / ReassembledSG *)
| CComplete.                                  (* ReassemblyComplete *)

Definition is_complete (e : cevent) : bool := match e with CComplete => true | _ => false end.

Inductive pkg := Tcp | Rsm.
(* which code: g_fixme = true : reassembly/memory.go still has the FIXME panic (unchanged tree);
               g_recycle = true : remove pushes the connection object on the free list (the
               code as it is; false is a hypothetical repair used to state what recycling costs) *)
(*             g_trail = true : reassembly's FlushWithOptions calls remove() once more after it has
               released the connection lock (tcpassembly.go:1281-1287, the code as it is) *)
Record config := mkCfg { g_pkg : pkg; g_fixme : bool; g_recycle : bool; g_trail : bool }.
Definition is_rsm (g : config) : bool := match g_pkg g with Rsm => true | Tcp => false end.

(* OFlush None = FlushAll; OFlush (Some T) = tcpassembly FlushOlderThan(T) (FlushWithOptions
   :238-276 with CloseAll) / reassembly FlushCloseOlderThan(T) (FlushWithOptions :1265-1290) *)
Inductive op := OPkt (p : packet) | OFlush (age : option Z).

Inductive want :=
| WPkt (p : packet) (fwd : bool)      (* Assemble: process p on the half chosen by the lookup *)
| WFlush (age : option Z) (rest : list nat).  (* flush: this connection, then the rest of the snapshot *)
(* KFlush .. trail: reassembly's second remove() of this connection is still to come *)
Inductive cont := KNext | KFlush (age : option Z) (rest : list nat) (trail : bool).

Inductive pc :=
| PStart                              (* before a call of Assemble / FlushAll *)
| PMiss (p : packet)                  (* getConnection: lookup missed, before factory.New + Lock *)
| PWant (c : nat) (w : want)          (* before conn.mu.Lock() of connection object c *)
| PRemove (c : nat) (k : cont)        (* holding c's lock, before the pool section of remove *)
| PRetry (p : packet)                 (* tcpassembly: connection was closed, look up again *)
| PRemove2 (c : nat) (age : option Z) (rest : list nat)
                                      (* reassembly FlushWithOptions: connection lock released, before the
                                         second remove(conn) (site pool.remove, no connection lock held) *)
| PDone
| PPanic.

Inductive tag := TgRaceLost | TgBothDir | TgCloseLL | TgRecycle | TgStale | TgRetry | TgFlushStale | TgTrail | TgAgeFlush.

Inductive loc := LPool | LKey (c : nat) | LSt (c : nat).
Inductive lock := KPool | KObj (c : nat).
Record access := mkAcc { a_loc : loc; a_wr : bool; a_locks : list lock }.

Definition loc_eqb (a b : loc) : bool :=
  match a, b with
  | LPool, LPool => true
  | LKey x, LKey y => Nat.eqb x y
  | LSt x, LSt y => Nat.eqb x y
  | _, _ => false
  end.
Definition lock_eqb (a b : lock) : bool :=
  match a, b with KPool, KPool => true | KObj x, KObj y => Nat.eqb x y | _, _ => false end.
Definition share_lock (l1 l2 : list lock) : bool :=
  existsb (fun a => existsb (lock_eqb a) l2) l1.
Definition conflict (a b : access) : bool :=
  loc_eqb (a_loc a) (a_loc b) && (a_wr a || a_wr b) && negb (share_lock (a_locks a) (a_locks b)).

Section Pool.
Variable cstate : Type.
Variable cinit : cstate.
Variable cclosed : cstate -> bool.
Variable creset : packet -> cstate.            (* connection.reset for the packet that creates the connection *)
Variable process : cstate -> bool -> packet -> cstate * list cevent * bool.
Variable flush : option Z -> cstate -> cstate * list cevent * bool.
Variable ctrail : option Z -> cstate -> bool.  (* reassembly: FlushWithOptions decides to remove(conn) after unlocking *)

(* a connection object (tcpassembly.connection / reassembly.connection) *)
Record conn := mkConn { c_key : key; c_stream : nat; c_st : cstate; c_lock : option nat }.

Record thread := mkThr { t_pc : pc; t_prog : list op }.

Inductive event :=
| ENew (t : nat) (k : key) (sid : nat)                    (* factory.New returned stream sid *)
| ECall (t : nat) (sid : nat) (c : nat) (e : cevent)      (* callback on stream sid, made holding c's lock *)
| EProc (t : nat) (p : packet) (c : nat) (ck : key) (sid : nat)  (* ghost: p processed on object c, whose key was ck *)
| EPanic (t : nat).

Record state := mkSt {
  s_conns : list (key * nat);    (* StreamPool.conns *)
  s_free : list nat;             (* StreamPool.free, top first, recycled objects only (below them: never-used objects) *)
  s_objs : list conn;            (* connection objects ever taken from the free list, by id *)
  s_nsid : nat;                  (* number of streams created *)
  s_kept : list nat;             (* ghost: streams that were entered in the pool map *)
  s_thr : list thread;
  s_log : list event;            (* latest first *)
  s_tags : list tag }.

Fixpoint assoc (k : key) (l : list (key * nat)) : option nat :=
  match l with
  | [] => None
  | (k', c) :: r => if key_eqb k k' then Some c else assoc k r
  end.
Fixpoint remove_assoc (k : key) (l : list (key * nat)) : list (key * nat) :=
  match l with
  | [] => []
  | (k', c) :: r => if key_eqb k k' then remove_assoc k r else (k', c) :: remove_assoc k r
  end.

(* getConnection's lookup (tcpassembly: p.conns[k]; reassembly: getHalf) *)
Definition lookup (g : config) (conns : list (key * nat)) (k : key) : option (nat * bool) :=
  match assoc k conns with
  | Some c => Some (c, true)
  | None => if is_rsm g then
              match assoc (key_rev k) conns with Some c => Some (c, false) | None => None end
            else None
  end.

Definition blank : conn := mkConn (mkKey 0 false) 0 cinit None.
Definition obj (s : state) (c : nat) : conn := nth c (s_objs s) blank.
Definition set_obj (objs : list conn) (c : nat) (o : conn) : list conn := upd objs c o.

Definition thr (s : state) (t : nat) : thread := nth t (s_thr s) (mkThr PDone []).

(* assembly.go:538 the packet is ignored before any pool access *)
Definition ignored (g : config) (p : packet) : bool :=
  match g_pkg g with
  | Tcp => negb (p_syn p) && negb (p_fin p) && (match p_bytes p with [] => true | _ => false end)
  | Rsm => false
  end.
(* assembly.go:554 `end` argument of getConnection; reassembly passes false *)
Definition end_flag (g : config) (p : packet) : bool :=
  match g_pkg g with
  | Tcp => negb (p_syn p) && (match p_bytes p with [] => true | _ => false end)
  | Rsm => false
  end.

Definition next_pc (prog : list op) : pc := match prog with [] => PDone | _ => PStart end.
Definition cont_flush (age : option Z) (rest : list nat) (prog : list op) : pc :=
  match rest with c :: r => PWant c (WFlush age r) | [] => next_pc prog end.

Definition enabled (s : state) (t : nat) : bool :=
  match t_pc (thr s t) with
  | PDone | PPanic => false
  | PWant c _ => match c_lock (obj s c) with None => true | Some _ => false end
  | _ => true
  end.

Definition set_thr (s : state) (t : nat) (th : thread) : list thread := upd (s_thr s) t th.

(* insertion sort of the snapshot by object id (the order verifOrderConns imposes) *)
Fixpoint ins_sorted (x : nat) (l : list nat) : list nat :=
  match l with
  | [] => [x]
  | y :: r => if Nat.leb x y then x :: l else y :: ins_sorted x r
  end.
Definition sort_ids (l : list nat) : list nat := fold_right ins_sorted [] l.

(* the lookup step shared by PStart(OPkt) and PRetry *)
Definition do_lookup (g : config) (s : state) (t : nat) (p : packet) (prog : list op) : state :=
  let th' :=
    match lookup g (s_conns s) (p_key p) with
    | Some (c, fwd) => mkThr (PWant c (WPkt p fwd)) prog
    | None => if end_flag g p then mkThr (next_pc prog) prog else mkThr (PMiss p) prog
    end in
  mkSt (s_conns s) (s_free s) (s_objs s) (s_nsid s) (s_kept s) (set_thr s t th') (s_log s) (s_tags s).

(* one step of thread t; None when t is not enabled *)
Definition exec (g : config) (s : state) (t : nat) : option state :=
  if negb (enabled s t) then None else
  let th := thr s t in
  let prog := t_prog th in
  match t_pc th with
  | PDone | PPanic => None
  | PStart =>
    match prog with
    | [] => Some (mkSt (s_conns s) (s_free s) (s_objs s) (s_nsid s) (s_kept s)
                       (set_thr s t (mkThr PDone [])) (s_log s) (s_tags s))
    | OPkt p :: rest =>
      if ignored g p then
        Some (mkSt (s_conns s) (s_free s) (s_objs s) (s_nsid s) (s_kept s)
                   (set_thr s t (mkThr (next_pc rest) rest)) (s_log s) (s_tags s))
      else Some (do_lookup g s t p rest)
    | OFlush age :: rest =>
      (* connections(): snapshot of the map under the read lock *)
      let snap := sort_ids (map snd (s_conns s)) in
      Some (mkSt (s_conns s) (s_free s) (s_objs s) (s_nsid s) (s_kept s)
                 (set_thr s t (mkThr (cont_flush age snap rest) rest)) (s_log s)
                 (match age with Some _ => TgAgeFlush :: s_tags s | None => s_tags s end))
    end
  | PRetry p => Some (do_lookup g s t p prog)
  | PMiss p =>
    let k := p_key p in
    let sid := s_nsid s in
    (* newConnection: pop the free list (grow when empty), reset *)
    let '(c, free', objs0, recycled) :=
      match s_free s with
      | c :: f => (c, f, s_objs s, true)
      | [] => (length (s_objs s), [], s_objs s ++ [blank], false)
      end in
    let old := nth c objs0 blank in
    let objs1 := set_obj objs0 c (mkConn k sid (creset p) (c_lock old)) in
    let tags1 := if recycled then TgRecycle :: s_tags s else s_tags s in
    let log1 := ENew t k sid :: s_log s in
    match lookup g (s_conns s) k with
    | Some (c2, fwd2) =>
      (* lost the race: another thread inserted meanwhile; c is dropped (neither in the map nor free) *)
      let keyeq := key_eqb (c_key (nth c2 objs1 blank)) k in
      let tags2 := TgRaceLost :: (if fwd2 then tags1 else TgBothDir :: tags1) in
      if is_rsm g && g_fixme g && negb keyeq then
        (* memory.go:201 panic("FIXME: other dir added in the meantime...") ; deferred pool unlock *)
        Some (mkSt (s_conns s) free' objs1 (S sid) (s_kept s)
                   (set_thr s t (mkThr PPanic [])) (EPanic t :: log1) tags2)
      else
        Some (mkSt (s_conns s) free' objs1 (S sid) (s_kept s)
                   (set_thr s t (mkThr (PWant c2 (WPkt p fwd2)) prog)) log1 tags2)
    | None =>
      Some (mkSt ((k, c) :: s_conns s) free' objs1 (S sid) (sid :: s_kept s)
                 (set_thr s t (mkThr (PWant c (WPkt p true)) prog)) log1 tags1)
    end
  | PWant c w =>
    let o := obj s c in
    match w with
    | WPkt p fwd =>
      let stale := negb (key_eqb (c_key o) (p_key p) || (is_rsm g && key_eqb (c_key o) (key_rev (p_key p)))) in
      let tags1 := if stale then TgStale :: s_tags s else s_tags s in
      if (match g_pkg g with Tcp => cclosed (c_st o) | Rsm => false end) then
        (* assembly.go:562-565 closed: unlock and look up again *)
        Some (mkSt (s_conns s) (s_free s) (s_objs s) (s_nsid s) (s_kept s)
                   (set_thr s t (mkThr (PRetry p) prog)) (s_log s) (TgCloseLL :: TgRetry :: tags1))
      else
        let tags2 := if cclosed (c_st o) then TgCloseLL :: tags1 else tags1 in
        let '(st', evs, closes) := process (c_st o) fwd p in
        let log1 := rev (map (ECall t (c_stream o) c) evs) ++ EProc t p c (c_key o) (c_stream o) :: s_log s in
        if closes then
          Some (mkSt (s_conns s) (s_free s) (set_obj (s_objs s) c (mkConn (c_key o) (c_stream o) st' (Some t)))
                     (s_nsid s) (s_kept s) (set_thr s t (mkThr (PRemove c KNext) prog)) log1 tags2)
        else
          Some (mkSt (s_conns s) (s_free s) (set_obj (s_objs s) c (mkConn (c_key o) (c_stream o) st' None))
                     (s_nsid s) (s_kept s) (set_thr s t (mkThr (next_pc prog) prog)) log1 tags2)
    | WFlush age rest =>
      if (match g_pkg g with Tcp => cclosed (c_st o) | Rsm => false end) then
        (* assembly.go:255-260 (FlushWithOptions) / :298 (FlushAll): a connection closed since the
           snapshot was taken is not touched *)
        Some (mkSt (s_conns s) (s_free s) (s_objs s) (s_nsid s) (s_kept s)
                   (set_thr s t (mkThr (cont_flush age rest prog) prog)) (s_log s) (TgFlushStale :: s_tags s))
      else
      let tags1 := if cclosed (c_st o) then TgFlushStale :: s_tags s else s_tags s in
      let '(st', evs, closes) := flush age (c_st o) in
      let trail := is_rsm g && g_trail g && ctrail age st' in
      let tags2 := if trail then TgTrail :: tags1 else tags1 in
      let log1 := rev (map (ECall t (c_stream o) c) evs) ++ s_log s in
      if closes then
        Some (mkSt (s_conns s) (s_free s) (set_obj (s_objs s) c (mkConn (c_key o) (c_stream o) st' (Some t)))
                   (s_nsid s) (s_kept s) (set_thr s t (mkThr (PRemove c (KFlush age rest trail)) prog)) log1 tags2)
      else
        Some (mkSt (s_conns s) (s_free s) (set_obj (s_objs s) c (mkConn (c_key o) (c_stream o) st' None))
                   (s_nsid s) (s_kept s)
                   (set_thr s t (mkThr (if trail then PRemove2 c age rest else cont_flush age rest prog) prog)) log1 tags2)
    end
  | PRemove c k =>
    let o := obj s c in
    let present := match assoc (c_key o) (s_conns s) with Some _ => true | None => false end in
    (* tcpassembly: delete + push unconditionally; reassembly: only when the key is present *)
    let doit := match g_pkg g with Tcp => true | Rsm => present end in
    let conns' := if doit then remove_assoc (c_key o) (s_conns s) else s_conns s in
    let free' := if doit && g_recycle g then c :: s_free s else s_free s in
    let pc' := match k with
               | KNext => next_pc prog
               | KFlush age rest trail => if trail then PRemove2 c age rest else cont_flush age rest prog
               end in
    Some (mkSt conns' free' (set_obj (s_objs s) c (mkConn (c_key o) (c_stream o) (c_st o) None))
               (s_nsid s) (s_kept s) (set_thr s t (mkThr pc' prog)) (s_log s) (s_tags s))
  | PRemove2 c age rest =>
    (* reassembly remove(conn) without the connection lock: memory.go:123-130 *)
    let o := obj s c in
    let present := match assoc (c_key o) (s_conns s) with Some _ => true | None => false end in
    let conns' := if present then remove_assoc (c_key o) (s_conns s) else s_conns s in
    let free' := if present && g_recycle g then c :: s_free s else s_free s in
    Some (mkSt conns' free' (s_objs s) (s_nsid s) (s_kept s)
               (set_thr s t (mkThr (cont_flush age rest prog) prog)) (s_log s) (s_tags s))
  end.

(* shared accesses of the step thread t would take from s, each with the locks held *)
Definition accesses (g : config) (s : state) (t : nat) : list access :=
  let th := thr s t in
  match t_pc th with
  | PDone | PPanic => []
  | PStart =>
    match t_prog th with
    | [] => []
    | OPkt p :: _ => if ignored g p then [] else [mkAcc LPool false [KPool]]
    | OFlush _ :: _ => [mkAcc LPool false [KPool]]
    end
  | PRetry _ => [mkAcc LPool false [KPool]]
  | PRemove2 c _ _ => [mkAcc (LKey c) false [KPool]; mkAcc LPool true [KPool]]
  | PMiss p =>
    let c := match s_free s with c :: _ => c | [] => length (s_objs s) end in
    [mkAcc LPool true [KPool]; mkAcc (LKey c) true [KPool]; mkAcc (LSt c) true [KPool]] ++
    (if is_rsm g then
       match lookup g (s_conns s) (p_key p) with
       | Some (c2, _) => [mkAcc (LKey c2) false [KPool]]
       | None => []
       end
     else [])
  | PWant c _ => [mkAcc (LSt c) false [KObj c]; mkAcc (LSt c) true [KObj c]]
  | PRemove c _ => [mkAcc (LKey c) false [KObj c; KPool]; mkAcc LPool true [KObj c; KPool]]
  end.

(* a data race at s: two different enabled threads whose next steps make conflicting
   accesses (same location, one a write) with no lock in common *)
Definition race_pair (g : config) (s : state) (t1 t2 : nat) : bool :=
  negb (Nat.eqb t1 t2) && enabled s t1 && enabled s t2 &&
  existsb (fun a => existsb (conflict a) (accesses g s t2)) (accesses g s t1).
Definition has_race (g : config) (s : state) : bool :=
  let ts := seq 0 (length (s_thr s)) in
  existsb (fun t1 => existsb (race_pair g s t1) ts) ts.

Definition init (progs : list (list op)) : state :=
  mkSt [] [] [] 0 [] (map (fun pr => mkThr (next_pc pr) pr) progs) [] [].

Definition all_done (s : state) : bool :=
  forallb (fun th => match t_pc th with PDone | PPanic => true | _ => false end) (s_thr s).
Definition any_enabled (s : state) : bool :=
  existsb (enabled s) (seq 0 (length (s_thr s))).
Definition first_enabled (s : state) : option nat :=
  find (enabled s) (seq 0 (length (s_thr s))).

(* run a schedule: entries naming a thread that cannot step are skipped; a pair
   (state, race seen in one of the states passed through) *)
Fixpoint run_sched (g : config) (s : state) (raced : bool) (sched : list nat) : state * bool :=
  match sched with
  | [] => (s, raced)
  | t :: r =>
    match exec g s t with
    | Some s' => run_sched g s' (raced || has_race g s) r
    | None => run_sched g s raced r
    end
  end.
(* then the lowest enabled thread, until none is enabled (fuel: a bound on the steps) *)
Fixpoint run_rest (g : config) (fuel : nat) (s : state) (raced : bool) : state * bool :=
  match fuel with
  | O => (s, raced)
  | S f =>
    match first_enabled s with
    | None => (s, raced)
    | Some t => match exec g s t with
                | Some s' => run_rest g f s' (raced || has_race g s)
                | None => (s, raced)
                end
    end
  end.

Definition add_thread (s : state) (prog : list op) : state :=
  mkSt (s_conns s) (s_free s) (s_objs s) (s_nsid s) (s_kept s)
       (s_thr s ++ [mkThr (next_pc prog) prog]) (s_log s) (s_tags s).

(* a whole case: the schedule, the default continuation, then (when every thread returned)
   an epilogue thread calling FlushAll so that "kept streams are completed" is observable *)
Definition run_case (g : config) (fuel : nat) (progs : list (list op)) (sched : list nat) : state * bool :=
  let '(s1, r1) := run_sched g (init progs) false sched in
  let '(s2, r2) := run_rest g fuel s1 r1 in
  if any_enabled s2 then (s2, r2)
  else if negb (all_done s2) then (s2, r2)      (* stuck *)
  else run_rest g fuel (add_thread s2 [OFlush None]) r2.

(* ------------------------------------------------- executable statements of the properties *)
Fixpoint nodupb (l : list nat) : bool :=
  match l with [] => true | x :: r => negb (existsb (Nat.eqb x) r) && nodupb r end.
Fixpoint nodup_keys (l : list (key * nat)) : bool :=
  match l with
  | [] => true
  | (k, _) :: r => negb (existsb (fun e => key_eqb k (fst e)) r) && nodup_keys r
  end.

(* C12_one_entry: one map entry per key (and, reassembly, not both a key and its reverse);
   no object under two keys; entries carry their own key; the free list has no duplicates
   and is disjoint from the map *)
Definition chk_one_entry (g : config) (s : state) : bool :=
  nodup_keys (s_conns s) &&
  nodupb (map snd (s_conns s)) &&
  forallb (fun e => key_eqb (c_key (obj s (snd e))) (fst e) && Nat.ltb (snd e) (length (s_objs s))) (s_conns s) &&
  (if is_rsm g then forallb (fun e => match assoc (key_rev (fst e)) (s_conns s) with None => true | Some _ => false end) (s_conns s) else true) &&
  nodupb (s_free s) &&
  forallb (fun c => negb (existsb (Nat.eqb c) (map snd (s_conns s))) && Nat.ltb c (length (s_objs s))) (s_free s).

Definition chk_no_panic (s : state) : bool :=
  forallb (fun th => match t_pc th with PPanic => false | _ => true end) (s_thr s).

Definition chk_progress (s : state) : bool := all_done s || any_enabled s.

(* C12_inorder, the part that can fail: every packet is processed on a connection object
   whose key at that moment is the packet's (or, reassembly, its reverse) *)
Definition right_stream (g : config) (e : event) : bool :=
  match e with
  | EProc _ p _ ck _ => key_eqb ck (p_key p) || (is_rsm g && key_eqb ck (key_rev (p_key p)))
  | _ => true
  end.
Definition chk_right_stream (g : config) (s : state) : bool := forallb (right_stream g) (s_log s).

Definition completes (sid : nat) (log : list event) : nat :=
  length (filter (fun e => match e with ECall _ s' _ CComplete => Nat.eqb s' sid | _ => false end) log).
(* C12_complete_once: no stream is completed twice; in a final state (after the epilogue
   flush) every stream that was entered in the pool has been completed exactly once *)
Definition chk_complete_most_once (s : state) : bool :=
  forallb (fun sid => Nat.leb (completes sid (s_log s)) 1) (seq 0 (s_nsid s)).
Definition chk_complete_once_final (s : state) : bool :=
  chk_complete_most_once s && forallb (fun sid => Nat.eqb (completes sid (s_log s)) 1) (s_kept s).

End Pool.

Arguments mkConn {cstate}.
Arguments mkSt {cstate}.
Arguments c_key {cstate}. Arguments c_stream {cstate}. Arguments c_st {cstate}. Arguments c_lock {cstate}.
Arguments s_conns {cstate}. Arguments s_free {cstate}. Arguments s_objs {cstate}. Arguments s_nsid {cstate}.
Arguments s_kept {cstate}. Arguments s_thr {cstate}. Arguments s_log {cstate}. Arguments s_tags {cstate}.
Arguments thr {cstate}. Arguments all_done {cstate}. Arguments chk_no_panic {cstate}.
Arguments chk_right_stream {cstate}. Arguments chk_complete_most_once {cstate}. Arguments chk_complete_once_final {cstate}.

(* ================================================================ concrete instances
   Exact for the harness' packet alphabet: sequence numbers far from the 2^32 wrap (so that
   Sequence.Difference s t = t - s and Add needs no mask), payloads of at most one page,
   page limits off, streams that accept everything, keep nothing and let the connection be
   removed.  Anything else is C09/C10's subject. *)
Open Scope Z_scope.

Definition zlen (l : list Z) : Z := Z.of_nat (length l).

(* ---------------------------------------------------------------- tcpassembly *)
Record tpage := mkTP { tp_seq : Z; tp_bytes : list Z; tp_end : bool; tp_seen : Z }.
Record tconn := mkTC { tc_next : option Z; tc_q : list tpage; tc_closed : bool; tc_last : Z }.
Definition tc_init : tconn := mkTC None [] false 0.
(* assembly.go:394-403 reset: created = lastSeen = ts *)
Definition tcp_reset (p : packet) : tconn := mkTC None [] false (p_ts p).

(* assembly.go:612-623 byteSpan; expected = None is invalidSequence *)
Definition byte_span (expected : option Z) (received : Z) (bytes : list Z) : list Z * Z :=
  match expected with
  | None => (bytes, received + zlen bytes)
  | Some e =>
    let span := e - received in
    if span <=? 0 then (bytes, received + zlen bytes)
    else if zlen bytes <? span then ([], e)
    else (skipn (Z.to_nat span) bytes, e + zlen bytes - span)
  end.

(* assembly.go:763-783 addNextFromConn on the first page *)
Definition t_add_next (next : option Z) (pg : tpage) : chunk * Z :=
  let skip := match next with
              | None => -1
              | Some n => let d := tp_seq pg - n in if 0 <? d then d else 0
              end in
  let '(b, n') := byte_span next (tp_seq pg) (tp_bytes pg) in
  (mkChunk b skip false (tp_end pg), n').

(* assembly.go:639-643 addContiguous *)
Fixpoint t_add_contig (next : Z) (q : list tpage) (acc : list chunk) : list chunk * Z * list tpage :=
  match q with
  | [] => (acc, next, [])
  | pg :: r =>
    if (tp_seq pg - next) <=? 0 then
      let '(ch, n') := t_add_next (Some next) pg in t_add_contig n' r (acc ++ [ch])
    else (acc, next, q)
  end.

(* assembly.go:686-693,715-722 traverseConn + pushBetween: after the last page with seq <= new seq *)
Fixpoint span_gt (sq : Z) (revq : list tpage) (acc : list tpage) : list tpage * list tpage :=
  match revq with
  | [] => ([], acc)
  | x :: r => if sq <? tp_seq x then span_gt sq r (x :: acc) else (revq, acc)
  end.
Definition t_insert (pg : tpage) (q : list tpage) : list tpage :=
  let '(l, r) := span_gt (tp_seq pg) (rev q) [] in rev l ++ pg :: r.

Definition last_end (l : list chunk) : bool :=
  match rev l with c :: _ => ch_end c | [] => false end.

(* assembly.go:627-636 sendToConnection (+ closeConnection's callback) *)
Definition t_send (ret : list chunk) (next : Z) (q : list tpage) (last : Z) : tconn * list cevent * bool :=
  let '(ret', n', q') := t_add_contig next q ret in
  if last_end ret' then (mkTC (Some n') q' true last, [CReasm false ret'; CComplete], true)
  else (mkTC (Some n') q' false last, [CReasm false ret'], false).

(* assembly.go:567-609, under the connection lock *)
Definition tcp_process (st : tconn) (fwd : bool) (p : packet) : tconn * list cevent * bool :=
  if tc_closed st then (st, [], false) else
  let seq := p_seq p in let bytes := p_bytes p in
  let last := if tc_last st <? p_ts p then p_ts p else tc_last st in      (* :577-579 *)
  let pg := mkTP seq bytes (p_fin p) (p_ts p) in
  match tc_next st with
  | None =>
    if p_syn p then t_send [mkChunk bytes 0 true false] (seq + zlen bytes + 1) (tc_q st) last
    else (mkTC None (t_insert pg (tc_q st)) false last, [], false)
  | Some n =>
    (* :583-587 (repaired tree): the payload of a late SYN starts at seq+1 *)
    let seq := if p_syn p then seq + 1 else seq in
    if 0 <? seq - n then (mkTC (Some n) (t_insert pg (tc_q st)) false last, [], false)   (* page at t.Seq, :739,:763 *)
    else let '(b, n') := byte_span (Some n) seq bytes in
         t_send [mkChunk b 0 false (p_fin p)] n' (tc_q st) last
  end.

(* assembly.go FlushAll on one connection: for !closed { skipFlush } *)
Fixpoint t_flush_loop (fuel : nat) (st : tconn) (acc : list cevent) : tconn * list cevent * bool :=
  match fuel with
  | O => (st, acc, false)
  | S f =>
    match tc_q st with
    | [] => (mkTC (tc_next st) [] true (tc_last st), acc ++ [CComplete], true)
    | pg :: r =>
      let '(ch, n') := t_add_next (tc_next st) pg in
      let '(st', evs, closes) := t_send [ch] n' r (tc_last st) in
      if closes then (st', acc ++ evs, true) else t_flush_loop f st' (acc ++ evs)
    end
  end.
(* assembly.go:261-273 FlushWithOptions{T, CloseAll} on one open connection *)
Fixpoint t_age_loop (fuel : nat) (T : Z) (st : tconn) (acc : list cevent) : tconn * list cevent * bool :=
  match fuel with
  | O => (st, acc, false)
  | S f =>
    match tc_q st with
    | pg :: r =>
      if tp_seen pg <? T then
        let '(ch, n') := t_add_next (tc_next st) pg in
        let '(st', evs, closes) := t_send [ch] n' r (tc_last st) in
        if closes then (st', acc ++ evs, true) else t_age_loop f T st' (acc ++ evs)
      else (st, acc, false)
    | [] =>
      if tc_last st <? T then (mkTC (tc_next st) [] true (tc_last st), acc ++ [CComplete], true)
      else (st, acc, false)
    end
  end.
Definition tcp_flush (age : option Z) (st : tconn) : tconn * list cevent * bool :=
  if tc_closed st then (st, [], false) else
  match age with
  | None => t_flush_loop (S (length (tc_q st))) st []
  | Some T => t_age_loop (S (length (tc_q st))) T st []
  end.
Definition tcp_trail (age : option Z) (st : tconn) : bool := false.

(* ---------------------------------------------------------------- reassembly *)
Record rpage := mkRP { rp_seq : Z; rp_bytes : list Z; rp_end : bool; rp_seen : Z }.
Record half := mkHalf { h_next : option Z; h_q : list rpage; h_closed : bool; h_last : Z }.
Record rconn := mkRC { r_c2s : half; r_s2c : half; r_unsup : bool }.
Definition h_init : half := mkHalf None [] false 0.
Definition rc_init : rconn := mkRC h_init h_init false.
Definition rc_closed (st : rconn) : bool := h_closed (r_c2s st) && h_closed (r_s2c st).
(* tcpassembly.go:455-466 reset: created = lastSeen = ts in both half-connections *)
Definition rsm_reset (p : packet) : rconn := mkRC (mkHalf None [] false (p_ts p)) (mkHalf None [] false (p_ts p)) false.

(* tcpassembly.go:752-887 checkOverlap on the reversed queue; returns (pages left of the
   insertion point, reversed; pages right of it; what is left of the new bytes; a page was cut
   (cases 2, 4, 6: outside the harness' alphabet, flagged)) *)
Fixpoint r_overlap (revq : list rpage) (rgt : list rpage) (start e : Z) (bytes : list Z) (cut : bool)
  : list rpage * list rpage * list Z * bool :=
  match revq with
  | [] => ([], rgt, bytes, cut)
  | cur :: rest =>
    if 0 <? rp_seq cur - e then r_overlap rest (cur :: rgt) start e bytes cut            (* case 5 *)
    else
      let cur_end := rp_seq cur + zlen (rp_bytes cur) in
      if cur_end - start <=? 0 then (revq, rgt, bytes, cut)                               (* case 1 *)
      else
        let ds := rp_seq cur - start in
        let de := cur_end - e in
        if (de <=? 0) && (0 <=? ds) then r_overlap rest rgt start e bytes cut              (* case 3 *)
        else if (de <? 0) && (0 <? cur_end - start) then                                    (* case 2 *)
          (mkRP (rp_seq cur) (firstn (Z.to_nat (start - rp_seq cur)) (rp_bytes cur)) (rp_end cur) (rp_seen cur) :: rest,
           rgt, bytes, true)
        else if (0 <? ds) && (rp_seq cur - e <? 0) then                                     (* case 4 *)
          r_overlap rest (mkRP e (skipn (Z.to_nat (e - rp_seq cur)) (rp_bytes cur)) (rp_end cur) (rp_seen cur) :: rgt)
                    start e bytes true
        else if (0 <=? de) && (ds <=? 0) then                                               (* case 6 *)
          let off := Z.to_nat (- ds) in
          let nb := firstn off (rp_bytes cur) ++ bytes ++ skipn (off + length bytes) (rp_bytes cur) in
          r_overlap rest (mkRP (rp_seq cur) nb (rp_end cur) (rp_seen cur) :: rgt) start e []
                    (cut || negb (match bytes with [] => true | _ => false end))
        else r_overlap rest (cur :: rgt) start e bytes cut
  end.

Definition r_check_overlap (q : list rpage) (queue : bool) (start : Z) (bytes : list Z) (fin : bool) (ts : Z)
  : list rpage * list Z * bool :=
  let '(left_rev, rgt, bytes', cut) := r_overlap (rev q) [] start (start + zlen bytes) bytes false in
  let ins := match bytes' with [] => [] | _ => if queue then [mkRP start bytes' fin ts] else [] end in
  (rev left_rev ++ ins ++ rgt, bytes', cut).

(* tcpassembly.go:930-956 overlapExisting *)
Definition r_overlap_existing (next : option Z) (start : Z) (bytes : list Z) : list Z * Z :=
  match next with
  | None => (bytes, start)
  | Some n =>
    let diff := n - start in
    if diff =? 0 then (bytes, start)
    else let s := if zlen bytes <=? diff then zlen bytes else diff in
         (skipn (Z.to_nat s) bytes, n)
  end.

(* tcpassembly.go:1149-1176 addContiguous *)
Fixpoint r_add_contig (last : Z) (q : list rpage) (accb : list Z) (acce : bool) : Z * list rpage * list Z * bool :=
  match q with
  | [] => (last, [], accb, acce)
  | pg :: r =>
    if rp_seq pg - last =? 0 then r_add_contig (last + zlen (rp_bytes pg)) r (accb ++ rp_bytes pg) (rp_end pg)
    else (last, q, accb, acce)
  end.

(* tcpassembly.go:1103-1117 sendToConnection for a first container (seq0, bytes0, start0, end0):
   the ScatterGather event, the new queue, the end flag and the next sequence number *)
Definition r_send (dir : bool) (next : option Z) (q : list rpage) (seq0 : Z) (bytes0 : list Z) (start0 end0 : bool)
  : cevent * list rpage * bool * Z :=
  let skip := match next with None => -1 | Some n => seq0 - n end in
  let '(nseq, q', allb, e) := r_add_contig (seq0 + zlen bytes0) q bytes0 end0 in
  (CReasm dir [mkChunk allb skip start0 e], q', e, nseq).

Definition set_half (st : rconn) (fwd : bool) (h : half) (unsup : bool) : rconn :=
  if fwd then mkRC h (r_s2c st) (r_unsup st || unsup) else mkRC (r_c2s st) h (r_unsup st || unsup).

(* closeHalfConnection :1199-1218 on the half just closed *)
Definition r_after_close (st : rconn) : list cevent * bool :=
  if rc_closed st then ([CComplete], true) else ([], false).

(* tcpassembly.go:657-739 under the connection lock; the stream accepts everything *)
Definition rsm_process (st0 : rconn) (fwd : bool) (p : packet) : rconn * list cevent * bool :=
  let h0 := if fwd then r_c2s st0 else r_s2c st0 in
  let dir := negb fwd in
  (* :659-661 lastSeen is advanced before anything else, also on a closed half *)
  let h := mkHalf (h_next h0) (h_q h0) (h_closed h0) (if h_last h0 <? p_ts p then p_ts p else h_last h0) in
  let st := set_half st0 fwd h false in
  if h_closed h then (st, [], false) else
  let bytes := p_bytes p in
  let '(queue, seq, next1) :=
    match h_next h with
    | None => if p_syn p then (false, p_seq p + 1, Some (p_seq p + 1)) else (true, p_seq p, None)
    | Some n =>
      (* repaired tree: a late SYN takes one sequence number too *)
      let sq := if p_syn p then p_seq p + 1 else p_seq p in
      if 0 <? sq - n then (true, sq, Some n) else (false, sq, Some n)
    end in
  if queue then
    let '(q', _, cut) := r_check_overlap (h_q h) true seq bytes (p_fin p) (p_ts p) in
    (set_half st fwd (mkHalf next1 q' false (h_last h)) cut, [], false)
  else
    let '(b1, seq1) := r_overlap_existing next1 seq bytes in
    let '(q1, b2, cut) := r_check_overlap (h_q h) false seq1 b1 (p_fin p) (p_ts p) in
    if (match b2 with [] => false | _ => true end) || p_fin p || p_syn p then
      let '(ev, q2, e, nseq) := r_send dir next1 q1 seq1 b2 (p_syn p) (p_fin p) in
      let next2 := Some (if p_fin p then nseq + 1 else nseq) in
      if e then
        let st' := set_half st fwd (mkHalf next2 [] true (h_last h)) cut in
        let '(evs, closes) := r_after_close st' in
        (st', ev :: evs, closes)
      else (set_half st fwd (mkHalf next2 q2 false (h_last h)) cut, [ev], false)
    else (set_half st fwd (mkHalf next1 q1 false (h_last h)) cut, [], false).

(* skipFlush :1181-1197 repeated until the half is closed (FlushAll :1326-1333) *)
Fixpoint r_flush_half (fuel : nat) (dir : bool) (h : half) (acc : list cevent) : half * list cevent :=
  match fuel with
  | O => (h, acc)
  | S f =>
    if h_closed h then (h, acc) else
    match h_q h with
    | [] => (mkHalf (h_next h) [] true (h_last h), acc)
    | pg :: r =>
      let '(ev, q', e, nseq) := r_send dir (h_next h) r (rp_seq pg) (rp_bytes pg) false (rp_end pg) in
      if e then (mkHalf (Some nseq) [] true (h_last h), acc ++ [ev])
      else r_flush_half f dir (mkHalf (Some nseq) q' false (h_last h)) (acc ++ [ev])
    end
  end.

(* flushClose :1297-1316 on one half: pages older than T are pushed out; the half is closed when
   nothing is queued and the whole connection was last seen before T (lastc = conn.lastSeen()) *)
Fixpoint r_age_half (fuel : nat) (T lastc : Z) (dir : bool) (h : half) (acc : list cevent) : half * list cevent :=
  match fuel with
  | O => (h, acc)
  | S f =>
    if h_closed h then (h, acc) else
    match h_q h with
    | pg :: r =>
      if rp_seen pg <? T then
        let '(ev, q', e, nseq) := r_send dir (h_next h) r (rp_seq pg) (rp_bytes pg) false (rp_end pg) in
        if e then (mkHalf (Some nseq) [] true (h_last h), acc ++ [ev])
        else r_age_half f T lastc dir (mkHalf (Some nseq) q' false (h_last h)) (acc ++ [ev])
      else (h, acc)
    | [] => if lastc <? T then (mkHalf (h_next h) [] true (h_last h), acc) else (h, acc)
    end
  end.

Definition rc_last (st : rconn) : Z := Z.max (h_last (r_c2s st)) (h_last (r_s2c st)).

Definition rsm_flush (age : option Z) (st : rconn) : rconn * list cevent * bool :=
  if rc_closed st then (st, [], false) else
  match age with
  | None =>
    let '(hs, e1) := r_flush_half (S (length (h_q (r_s2c st)))) true (r_s2c st) [] in
    let '(hc, e2) := r_flush_half (S (length (h_q (r_c2s st)))) false (r_c2s st) e1 in
    (mkRC hc hs (r_unsup st), e2 ++ [CComplete], true)
  | Some T =>
    let lastc := rc_last st in
    let '(hs, e1) := r_age_half (S (length (h_q (r_s2c st)))) T lastc true (r_s2c st) [] in
    let '(hc, e2) := r_age_half (S (length (h_q (r_c2s st)))) T lastc false (r_c2s st) e1 in
    let st' := mkRC hc hs (r_unsup st) in
    if rc_closed st' then (st', e2 ++ [CComplete], true) else (st', e2, false)
  end.
(* :1281-1283 the connection is removed (again) after the lock is released *)
Definition rsm_trail (age : option Z) (st : rconn) : bool :=
  match age with
  | None => false
  | Some T => rc_closed st && (h_last (r_s2c st) <? T) && (h_last (r_c2s st) <? T)
  end.

(* ---------------------------------------------------------------- the two instantiated runs *)
Definition cfg_tcp : config := mkCfg Tcp false true true.
Definition cfg_rsm_orig : config := mkCfg Rsm true true true.      (* unchanged tree: FIXME panic present *)
Definition cfg_rsm : config := mkCfg Rsm false true true.          (* repaired: the panic is gone *)

Definition run_tcp := run_case tconn tc_init tc_closed tcp_reset tcp_process tcp_flush tcp_trail.
Definition run_rsm := run_case rconn rc_init rc_closed rsm_reset rsm_process rsm_flush rsm_trail.
