(* C18: the serialize buffer of writer.go:110-218, with its backing array,
   growth rules, stale bytes and previously returned windows, and the abstract
   two-ended tape it refines.  Executable definitions only. *)
From GP Require Import Base.
Open Scope nat_scope.

Record cwin := { wgen : nat; woff : nat; wlen : nat }.

Record sbuf := {
  arr : list Z;        (* backing array; length arr = cap(w.data) *)
  len : nat;           (* len(w.data) *)
  start : nat;
  prepended : nat;
  appended : nat;
  layers : list Z;
  gen : nat;           (* bumped at every reallocation *)
  wins : list cwin;    (* windows returned so far, most recent first *)
  panicked : bool
}.

Definition new_buf (p a : nat) : sbuf :=
  {| arr := repeat 0%Z (p + a); len := p; start := p; prepended := p; appended := a;
     layers := []; gen := 0; wins := []; panicked := false |}.

Definition bytes_of (b : sbuf) : list Z := skipn (start b) (firstn (len b) (arr b)).

Definition cap (b : sbuf) : nat := length (arr b).

(* PrependBytes(n): writer.go:139-158.  Returns the new state; the window is the head of wins *)
Definition prepend (b : sbuf) (n : nat) : sbuf :=
  let b1 :=
    if start b <? n then
      let t := Nat.max (prepended b) n in
      {| arr := repeat 0%Z (start b + t) ++ bytes_of b ++ repeat 0%Z (cap b - len b);
         len := t + len b; start := start b + t; prepended := prepended b + t;
         appended := appended b; layers := layers b; gen := S (gen b); wins := wins b;
         panicked := panicked b |}
    else b in
  {| arr := arr b1; len := len b1; start := start b1 - n; prepended := prepended b1;
     appended := appended b1; layers := layers b1; gen := gen b1;
     wins := {| wgen := gen b1; woff := start b1 - n; wlen := n |} :: wins b1;
     panicked := panicked b1 |}.

(* AppendBytes(n): writer.go:160-178 *)
Definition append (b : sbuf) (n : nat) : sbuf :=
  let b1 :=
    if cap b - len b <? n then
      let t := Nat.max (appended b) n in
      {| arr := repeat 0%Z (start b) ++ bytes_of b ++ repeat 0%Z (cap b + t - len b);
         len := len b; start := start b; prepended := prepended b;
         appended := appended b + t; layers := layers b; gen := S (gen b); wins := wins b;
         panicked := panicked b |}
    else b in
  {| arr := arr b1; len := len b1 + n; start := start b1; prepended := prepended b1;
     appended := appended b1; layers := layers b1; gen := gen b1;
     wins := {| wgen := gen b1; woff := len b1; wlen := n |} :: wins b1;
     panicked := panicked b1 |}.

(* Clear: writer.go:180-185.  w.data[:w.start] panics when start > cap *)
Definition clear (b : sbuf) : sbuf :=
  {| arr := arr b; len := prepended b; start := prepended b; prepended := prepended b;
     appended := appended b; layers := []; gen := gen b; wins := wins b;
     panicked := panicked b || (cap b <? prepended b) |}.

Definition push (b : sbuf) (t : Z) : sbuf :=
  {| arr := arr b; len := len b; start := start b; prepended := prepended b;
     appended := appended b; layers := layers b ++ [t]; gen := gen b; wins := wins b;
     panicked := panicked b |}.

(* a write through the k-th most recent window at offset i.  A window onto an old
   array (wgen <> gen) writes memory the buffer no longer uses: no effect. *)
Definition cwrite (b : sbuf) (k i : nat) (v : Z) : sbuf :=
  match nth_error (wins b) k with
  | Some w =>
    if (wgen w =? gen b) && (i <? wlen w) then
      {| arr := upd (arr b) (woff w + i) v; len := len b; start := start b;
         prepended := prepended b; appended := appended b; layers := layers b;
         gen := gen b; wins := wins b; panicked := panicked b |}
    else b
  | None => b
  end.

Fixpoint cwrite_all (b : sbuf) (k i : nat) (vs : list Z) : sbuf :=
  match vs with
  | [] => b
  | v :: vs' => cwrite_all (cwrite b k i v) k (S i) vs'
  end.

(* the same block write done in one pass over the array (what the runner executes;
   Proofs/C18Proofs.v shows it equal to cwrite_all) *)
Fixpoint upd_block {A} (l : list A) (i : nat) (vs : list A) : list A :=
  match l with
  | [] => []
  | h :: t =>
    match i with
    | S i' => h :: upd_block t i' vs
    | O => match vs with [] => l | v :: vs' => v :: upd_block t 0 vs' end
    end
  end.

Definition cwrite_block (b : sbuf) (k i : nat) (vs : list Z) : sbuf :=
  match nth_error (wins b) k with
  | Some w =>
    if (wgen w =? gen b) then
      {| arr := upd_block (arr b) (woff w + i) (firstn (wlen w - i) vs); len := len b; start := start b;
         prepended := prepended b; appended := appended b; layers := layers b;
         gen := gen b; wins := wins b; panicked := panicked b |}
    else b
  | None => b
  end.

Inductive op :=
| OPrepend (n : nat) (fill : list Z)   (* request n bytes in front, write fill into them from offset 0 *)
| OAppend (n : nat) (fill : list Z)
| OClear
| OPush (t : Z)
| OWrite (k i : nat) (v : Z)           (* write through the k-th most recent window *)
| OSer (ls : list (Z * list Z)).       (* gopacket.SerializeLayers over layers that prepend their header *)

(* SerializeLayers over abstract serializers: each layer prepends a header; the
   list is walked in reverse (innermost first) and the type pushed: writer.go:207-218 *)
Definition ser_layer (b : sbuf) (l : Z * list Z) : sbuf :=
  push (cwrite_all (prepend b (length (snd l))) 0 0 (snd l)) (fst l).
Definition serialize_layers (b : sbuf) (ls : list (Z * list Z)) : sbuf :=
  fold_left ser_layer (rev ls) (clear b).
(* the harness does not keep the windows SerializeLayers handed to the layers *)
Definition forget_wins (b : sbuf) : sbuf :=
  {| arr := arr b; len := len b; start := start b; prepended := prepended b; appended := appended b;
     layers := layers b; gen := gen b; wins := []; panicked := panicked b |}.

Definition step (b : sbuf) (o : op) : sbuf :=
  match o with
  | OPrepend n fill => cwrite_block (prepend b n) 0 0 fill
  | OAppend n fill => cwrite_block (append b n) 0 0 fill
  | OClear => clear b
  | OPush t => push b t
  | OWrite k i v => cwrite b k i v
  | OSer ls => forget_wins (serialize_layers b ls)
  end.

Definition run (p a : nat) (ops : list op) : sbuf := fold_left step ops (new_buf p a).

(* observation after each op, for the correspondence: contents, length of the most
   recently returned window, recorded layers, panic flag *)
Record obs := { o_bytes : list Z; o_winlen : nat; o_layers : list Z; o_panic : bool }.

Definition observe (b : sbuf) : obs :=
  {| o_bytes := bytes_of b;
     o_winlen := match wins b with w :: _ => wlen w | [] => 0 end;
     o_layers := layers b; o_panic := panicked b |}.

Fixpoint trace (b : sbuf) (ops : list op) : list obs :=
  match ops with
  | [] => []
  | o :: r => let b' := step b o in observe b' :: trace b' r
  end.

Definition run_trace (p a : nat) (ops : list op) : list obs := trace (new_buf p a) ops.

(* ---- abstract spec: the two-ended tape ---- *)
(* cells: the contents, None = indeterminate (requested but never written);
   twins: for each returned window (most recent first) its current position in
   cells and its length, or None once a Clear has invalidated it *)
Record tape := { cells : list (option Z); tlayers : list Z; twins : list (option (nat * nat)) }.

Definition tape0 : tape := {| cells := []; tlayers := []; twins := [] |}.

Definition shiftw (n : nat) (w : option (nat * nat)) : option (nat * nat) :=
  match w with Some (p, l) => Some (p + n, l) | None => None end.

Definition tprepend (t : tape) (n : nat) : tape :=
  {| cells := repeat None n ++ cells t; tlayers := tlayers t;
     twins := Some (0, n) :: map (shiftw n) (twins t) |}.
Definition tappend (t : tape) (n : nat) : tape :=
  {| cells := cells t ++ repeat None n; tlayers := tlayers t;
     twins := Some (length (cells t), n) :: twins t |}.
Definition tclear (t : tape) : tape :=
  {| cells := []; tlayers := []; twins := map (fun _ => None) (twins t) |}.
Definition tpush (t : tape) (x : Z) : tape :=
  {| cells := cells t; tlayers := tlayers t ++ [x]; twins := twins t |}.

(* the tape applies a write through window k iff [live] says the window still
   aliases the buffer (no reallocation since it was returned): that fact belongs
   to the implementation and is supplied by the concrete run *)
Definition twrite (t : tape) (live : bool) (k i : nat) (v : Z) : tape :=
  match nth_error (twins t) k with
  | Some (Some (p, l)) =>
    if live && (i <? l) then
      {| cells := upd (cells t) (p + i) (Some v); tlayers := tlayers t; twins := twins t |}
    else t
  | _ => t
  end.

Definition win_live (b : sbuf) (k : nat) : bool :=
  match nth_error (wins b) k with Some w => wgen w =? gen b | None => false end.

Fixpoint twrite_all (t : tape) (live : bool) (k i : nat) (vs : list Z) : tape :=
  match vs with
  | [] => t
  | v :: vs' => twrite_all (twrite t live k i v) live k (S i) vs'
  end.

(* a write is well-behaved when its window has not been invalidated by Clear *)
Definition wb_write (t : tape) (k : nat) : bool :=
  match nth_error (twins t) k with Some (Some _) => true | _ => false end.

Definition tstep (b : sbuf) (t : tape) (o : op) : tape :=
  match o with
  | OPrepend n fill => twrite_all (tprepend t n) true 0 0 fill
  | OAppend n fill => twrite_all (tappend t n) true 0 0 fill
  | OClear => tclear t
  | OPush x => tpush t x
  | OWrite k i v => twrite t (win_live b k) k i v
  | OSer ls => {| cells := map Some (concat (map snd ls)); tlayers := map fst (rev ls); twins := [] |}
  end.

Definition op_wb (t : tape) (o : op) : bool :=
  match o with OWrite k _ _ => wb_write t k | _ => true end.

(* joint run: concrete state, tape, and whether every write so far was well-behaved *)
Fixpoint run2 (b : sbuf) (t : tape) (ops : list op) : sbuf * tape * bool :=
  match ops with
  | [] => (b, t, true)
  | o :: r =>
    let '(b', t', ok) := run2 (step b o) (tstep b t o) r in (b', t', op_wb t o && ok)
  end.

(* does the concrete content agree with the tape on every determined cell? *)
Fixpoint agree (bs : list Z) (cs : list (option Z)) : bool :=
  match bs, cs with
  | [], [] => true
  | b :: bs', c :: cs' =>
    (match c with Some v => Z.eqb v b | None => true end) && agree bs' cs'
  | _, _ => false
  end.

