(* Lsll2 — executable model of layers/linux_sll2.go (Linux cooked capture v2 header decoder) as repaired.
   Definitions only.  /repo/layers/linux_sll2.go: LinkFlow :107-117, NextLayerType :119-148, DecodeFromBytes :160-176.
   No SerializeTo (C06/C07 n/a).  Consistent with check C17 (LLinuxSLL2): 12 + AddrLength is compared with len(data). *)
From GP Require Import Base Codec MiscLib.
Open Scope Z_scope.
Record sll2 := mkSl2 { s2_contents : list Z; s2_payload : list Z; s2_proto : Z; s2_ifindex : Z; s2_arphrd : Z; s2_ptype : Z; s2_alen : Z; s2_addr : list Z }.
Definition sll2_fresh : sll2 := mkSl2 [] [] 0 0 0 0 0 [].
Definition sll2_decode_into (old : sll2) (data : list Z) : sll2 * outcome unit * bool :=
  let n := zlen data in
  if n <? 20 then (old, Err 1, false) else                                  (* :161-163 *)
  ml_bind (cd_rd16 data 0) old false (fun pr =>                             (* :164 *)
  ml_bind (ml_rd32 data 4) old false (fun ifx =>                            (* :165 *)
  ml_bind (cd_rd16 data 8) old false (fun hrd =>                            (* :166 *)
  ml_bind (cd_idx data 10) old false (fun pt =>                             (* :167 *)
  ml_bind (cd_idx data 11) old false (fun al =>                             (* :168 *)
  let l1 := mkSl2 (s2_contents old) (s2_payload old) pr ifx hrd pt al (s2_addr old) in
  if n <? 12 + al then (l1, Err 2, false) else                              (* :169-171 *)
  ml_bind (cd_slc data 12 (12 + al)) l1 false (fun ad =>                    (* :172 *)
  ml_bind (cd_slc data 0 20) l1 false (fun c =>                             (* :173 *)
  ml_bind (cd_slc data 20 n) l1 false (fun p =>
  (mkSl2 c p pr ifx hrd pt al ad, Ok tt, false))))))))).
(* NextLayerType :119-148: 0 = LayerTypeZero, 1 = RadioTap, 2 = Ethernet, 3 = LLC, 1000 + p = EthernetType(p).LayerType() *)
Definition sll2_next (l : sll2) : Z :=
  if s2_arphrd l =? 770 then 0 else if s2_arphrd l =? 803 then 1 else if s2_arphrd l =? 778 then 2
  else if s2_proto l =? 1 then 0 else if s2_proto l =? 3 then 0 else if s2_proto l =? 4 then 3 else if s2_proto l =? 12 then 0
  else 1000 + s2_proto l.
Definition sll2_render_panics (l : sll2) : bool := false.
