(* Ldhcp6duid — executable model of the DHCPv6 DUID codec of layers/dhcpv6.go that Ldhcp6 does not model (there the DUID octets
   stay inside the option data).  Definitions only.  /repo/layers/dhcpv6.go: DHCPv6DUID.DecodeFromBytes :280-313 (as repaired:
   the receiver is reset first), Encode :316-336, Len :339-350, String :352-362, decodeDHCPv6DUID :364-371.
   Not a layer: no Contents/Payload, no DecodeFeedback (truncated flag constantly false), no NextLayerType.
   `orig = true` is the code before the repair of this sub-check: DecodeFromBytes assigned only the fields of the decoded type, so a
   reused DUID kept the other fields (HardwareType/Time/LinkLayerAddress after an EN DUID, EnterpriseNumber/Identifier after an LLT/LL one). *)
From GP Require Import Base Codec MiscLib.
Open Scope Z_scope.
Record duid := mkDu { du_type : Z; du_hw : list Z; du_en : list Z; du_time : list Z; du_lla : list Z; du_id : list Z }.
Definition du_fresh : duid := mkDu 0 [] [] [] [] [].
Definition du_bind {A} (o : outcome A) (st : duid) (f : A -> duid * outcome unit) : duid * outcome unit :=
  match o with Ok v => f v | Err c => (st, Err c) | Panic s => (st, Panic s) end.
Definition du_decode_gen (orig : bool) (old : duid) (data : list Z) : duid * outcome unit * bool :=
  let n := zlen data in
  let r :=
    if n <? 2 then (old, Err 1) else                                                            (* :281-283 *)
    let base := if orig then old else du_fresh in                                               (* repair: *d = DHCPv6DUID{} *)
    du_bind (cd_rd16 data 0) base (fun ty =>
    let l1 := mkDu ty (du_hw base) (du_en base) (du_time base) (du_lla base) (du_id base) in    (* :285 *)
    let step2 (l2 : duid) :=
      if ty =? 1 then                                                                           (* :293-298 *)
        if n <? 8 then (l2, Err 3) else
        du_bind (cd_slc data 4 8) l2 (fun t => du_bind (cd_slc data 8 n) l2 (fun a =>
        (mkDu ty (du_hw l2) (du_en l2) t a (du_id l2), Ok tt)))
      else if ty =? 2 then                                                                      (* :299-304 *)
        if n <? 6 then (l2, Err 4) else
        du_bind (cd_slc data 2 6) l2 (fun e => du_bind (cd_slc data 6 n) l2 (fun i =>
        (mkDu ty (du_hw l2) e (du_time l2) (du_lla l2) i, Ok tt)))
      else                                                                                      (* :305-310, also every unknown type *)
        if n <? 4 then (l2, Err 5) else
        du_bind (cd_slc data 4 n) l2 (fun a => (mkDu ty (du_hw l2) (du_en l2) (du_time l2) a (du_id l2), Ok tt)) in
    if (ty =? 1) || (ty =? 3) then                                                              (* :286-291 *)
      if n <? 4 then (l1, Err 2) else
      du_bind (cd_slc data 2 4) l1 (fun h => step2 (mkDu ty h (du_en l1) (du_time l1) (du_lla l1) (du_id l1)))
    else step2 l1) in
  (fst r, snd r, false).
Definition du_decode_into := du_decode_gen false.
Definition du_decode_orig := du_decode_gen true.

(* Len :339-350 *)
Definition du_len (l : duid) : Z :=
  if du_type l =? 1 then 8 + zlen (du_lla l) else if du_type l =? 2 then 6 + zlen (du_id l) else 4 + zlen (du_lla l).
(* copy(dst[a:a+k], src): min(k, len src) octets over a zeroed destination *)
Definition du_pad (k : nat) (l : list Z) : list Z := firstn k (l ++ repeat 0 k).
(* Encode :316-336: data = make([]byte, Len()); every data[a:b] is checked against len(data) (site numbers 11..17);
   the type is written as uint16 *)
Definition du_encode (l : duid) : outcome (list Z) :=
  let n := du_len l in let ty := du_type l in
  if n <? 2 then Panic 11 else
  let t := cd_put16 (ty mod 65536) in
  if ty =? 1 then
    if n <? 8 then Panic 12 else Ok (t ++ du_pad 2 (du_hw l) ++ du_pad 4 (du_time l) ++ du_lla l)
  else if ty =? 2 then
    if n <? 6 then Panic 13 else Ok (t ++ du_pad 4 (du_en l) ++ du_id l)
  else if ty =? 3 then
    if n <? 4 then Panic 14 else Ok (t ++ du_pad 2 (du_hw l) ++ du_lla l)
  else
    if n <? 4 then Panic 15 else Ok (t ++ [0; 0] ++ du_lla l).
(* the harness wraps Encode into a SerializeTo that prepends its result to the payload; Encode allocates: no junk *)
Definition du_serialize (l : duid) (payload : list Z) (fixl csum : bool) (junk : list Z) : outcome (list Z) * duid :=
  match du_encode l with Ok b => (Ok (b ++ payload), l) | Err c => (Err c, l) | Panic s => (Panic s, l) end.
(* String :352-362: DHCPv6DUIDType.String is a switch with a default, the rest is fmt %v on slices: total *)
Definition du_render_panics (l : duid) : bool := false.
