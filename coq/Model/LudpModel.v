(* Ludp — executable model of layers/udp.go (UDP header codec) and of the pseudo-header
   checksum of layers/tcpip.go.  Definitions only.  Line numbers of /repo/layers/udp.go:
     DecodeFromBytes :31-57, SerializeTo :62-104, NextLayerType :113-118, TransportFlow :131-133;
   layers/tcpip.go: pseudoheaderChecksum :26-49, computeChecksum :55-70.
   uint16/uint32 wraps written out.  The port -> layer type table (layers/ports.go:121-172) is
   abstract: `kp` is the list of ports whose layer type is not LayerTypePayload, dumped from the
   implementation at run time. *)
From GP Require Import Base Codec Lip4Model.
Open Scope Z_scope.

Record udp := mkUdp {
  u_contents : list Z; u_payload : list Z;
  u_sport : Z; u_dport : Z; u_length : Z; u_csum : Z;
  u_sp : list Z; u_dp : list Z }.     (* sPort, dPort: the raw port bytes kept for TransportFlow *)

Definition udp_fresh : udp := mkUdp [] [] 0 0 0 0 [] [].

(* the network layer attached with SetNetworkLayerForChecksum (not touched by DecodeFromBytes) *)
Inductive pseudo := PHnone | PH4 (src dst : list Z) | PH6 (src dst : list Z).

Definition ubind {A} (o : outcome A) (st : udp) (tr : bool)
    (f : A -> udp * outcome unit * bool) : udp * outcome unit * bool :=
  match o with Ok v => f v | Err c => (st, Err c, tr) | Panic s => (st, Panic s, tr) end.

Definition udp_decode_into (old : udp) (data : list Z) : udp * outcome unit * bool :=
  let n := zlen data in
  if n <? 8 then (old, Err 1, true) else                               (* :32-35 *)
  ubind (cd_rd16 data 0) old false (fun sport =>                       (* :36 *)
  ubind (cd_slc data 0 2) old false (fun sp =>                         (* :37 *)
  ubind (cd_rd16 data 2) old false (fun dport =>
  ubind (cd_slc data 2 4) old false (fun dp =>
  ubind (cd_rd16 data 4) old false (fun len =>
  ubind (cd_rd16 data 6) old false (fun ck =>
  ubind (cd_slc data 0 8) old false (fun contents =>                   (* :42 BaseLayer{Contents: data[:8]} *)
  let l1 := mkUdp contents [] sport dport len ck sp dp in
  if len >=? 8 then                                                    (* :44-50 *)
    let tr := len >? n in
    let hlen := if tr then n else len in
    ubind (cd_slc data 8 hlen) l1 tr (fun p =>
    (mkUdp contents p sport dport len ck sp dp, Ok tt, tr))
  else if len =? 0 then                                                (* :51-52 jumbogram *)
    ubind (cd_slc data 8 n) l1 false (fun p =>
    (mkUdp contents p sport dport len ck sp dp, Ok tt, false))
  else (l1, Err 2, false)))))))).                                      (* :53-54 *)

(* NextLayerType :113-118: 0 = DstPort.LayerType(), 1 = SrcPort.LayerType() *)
Definition udp_known (kp : list Z) (p : Z) : bool := existsb (fun k => k =? p) kp.
Definition udp_next (kp : list Z) (l : udp) : Z := if udp_known kp (u_dport l) then 0 else 1.

(* tcpip.go:26-49 *)
Definition udp_pseudo_sum (ph : pseudo) : outcome Z :=
  match ph with
  | PHnone => Err 10                                                   (* :56-58 *)
  | PH4 s d =>
    match ip4_to4 s, ip4_to4 d with                                    (* AddressTo4 *)
    | Some s4, Some d4 =>
      let b l i := nth i l 0 in
      Ok (u32 ((b s4 0%nat + b s4 2%nat) * 256 + (b s4 1%nat + b s4 3%nat)
              + (b d4 0%nat + b d4 2%nat) * 256 + (b d4 1%nat + b d4 3%nat)))
    | _, _ => Err 11
    end
  | PH6 s d =>
    if (zlen s =? 16) && (zlen d =? 16)                                (* AddressTo16 *)
    then Ok (u32 (cd_csum s 0 + cd_csum d 0))
    else Err 12
  end.

(* tcpip.go:55-70 computeChecksum(headerAndPayload, IPProtocolUDP = 17) *)
Definition udp_compute_checksum (ph : pseudo) (hp : list Z) : outcome Z :=
  obind (udp_pseudo_sum ph) (fun c0 =>
  let length := u32 (zlen hp) in
  let c := u32 (u32 (u32 (c0 + 17) + length mod 65536) + length / 65536) in
  Ok (cd_csum hp c)).

Definition udp_wrc (b : list Z) (i : Z) (vs : list Z) : outcome (list Z) :=
  if (0 <=? i) && (i + zlen vs <=? zlen b) then Ok (cd_wr b i vs) else Panic 3.

Definition udp_set_len (l : udp) (len : Z) : udp :=
  mkUdp (u_contents l) (u_payload l) (u_sport l) (u_dport l) len (u_csum l) (u_sp l) (u_dp l).
Definition udp_set_csum (l : udp) (c : Z) : udp :=
  mkUdp (u_contents l) (u_payload l) (u_sport l) (u_dport l) (u_length l) c (u_sp l) (u_dp l).

Definition udp_serialize (l : udp) (payload : list Z) (fixl csum : bool) (ph : pseudo) (junk : list Z)
    : outcome (list Z) * udp :=
  let jumbo := match ph with PH6 _ _ => zlen payload + 8 >? 65535 | _ => false end in   (* :65-70 *)
  let bytes0 := cd_region 8 junk in                                                   (* :71 *)
  let l1 := if fixl then udp_set_len l (if jumbo then 0 else (zlen payload mod 65536 + 8) mod 65536) else l in  (* :77-83 *)
  let w :=
    obind (udp_wrc bytes0 0 (cd_put16 (u_sport l1))) (fun b =>                        (* :75 *)
    obind (udp_wrc b 2 (cd_put16 (u_dport l1))) (fun b =>                             (* :76 *)
    obind (udp_wrc b 4 (cd_put16 (u_length l1))) (fun b =>                            (* :84 *)
    if csum then
      obind (udp_wrc b 6 [0]) (fun b =>                                               (* :87-88 *)
      obind (udp_wrc b 7 [0]) (fun b =>
      obind (udp_compute_checksum ph (b ++ payload)) (fun c =>                        (* :90 *)
      let f := cd_fold c in
      let f := if f =? 0 then 65535 else f in                                         (* :99-101 *)
      obind (udp_wrc b 6 (cd_put16 f)) (fun b => Ok (b, f)))))
    else obind (udp_wrc b 6 (cd_put16 (u_csum l1))) (fun b => Ok (b, u_csum l1))))) in
  match w with
  | Ok (b, ck) => (Ok (b ++ payload), udp_set_csum l1 ck)
  | Err c => (Err c, l1)
  | Panic s => (Panic s, l1)
  end.

(* LayerString & co. are reflective and total; TransportFlow -> NewFlow panics only for raw
   port slices longer than 16 bytes (they are nil or 2 bytes long). *)
Definition udp_render_panics (l : udp) : bool := (zlen (u_sp l) >? 16) || (zlen (u_dp l) >? 16).

Definition udp_dec2 (a b : list Z) : udp * outcome unit * bool :=
  let '(l, _, _) := udp_decode_into udp_fresh a in udp_decode_into l b.
