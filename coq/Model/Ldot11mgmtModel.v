(* Ldot11mgmt — executable model of the 802.11 management frame bodies with fixed parts and of
   Dot11InformationElement, layers/dot11.go as repaired on agent-ldot11 (OUI/ExtensionID reset; extension ID
   written; length above 255 rejected).  Definitions only.  Line numbers (agent-ldot11 branch):
   Dot11Mgmt.DecodeFromBytes :1299-1302, Dot11InformationElement :1601-1730 (DecodeFromBytes :1630-1678,
   String :1680-1700, SerializeTo :1702-1728), AssociationReq :1880-1902 (+offsets of the later fixes),
   AssociationResp, ReassociationReq, ProbeResp, Beacon, Disassociation, Authentication, Deauthentication up to :2290.
   A body is described by the widths of its little-endian fixed fields and whether its decoder sets Payload
   (Disassociation and Deauthentication do not); its value is the list of the fields' octets as on the wire
   (bijection with the Go struct done by the harness; CurrentApAddress is the 6-octet third field of ReassociationReq).
   The element walk is the packet decoding loop: NextLayerType of every element is Dot11InformationElement and
   eagerPacket.NextDecoder stops on an empty payload (packet.go). *)
From GP Require Import Base Codec MiscLib.
Open Scope Z_scope.

Record ie := mkIe { ie_contents : list Z; ie_payload : list Z; ie_id : Z; ie_len : Z; ie_oui : list Z; ie_info : list Z; ie_ext : Z }.
Definition ie_fresh : ie := mkIe [] [] 0 0 [] [] 0.

Definition ie_decode_into (old : ie) (data : list Z) : ie * outcome unit * bool :=
  let n := zlen data in
  if n <? 2 then (old, Err 1, true) else                                           (* :1631-1634 *)
  ml_bind (cd_idx data 0) old false (fun id =>
  ml_bind (cd_idx data 1) old false (fun len =>
  let S := fun oui info ext => mkIe (ie_contents old) (ie_payload old) id len oui info ext in
  let st1 := S [] (ie_info old) 0 in                                               (* OUI, ExtensionID reset *)
  if n <? 2 + len then (st1, Err 2, true) else                                     (* :1643-1646 *)
  let fin := fun oui info ext =>
    ml_bind (cd_slc data 0 (2 + len)) (S oui info ext) false (fun c =>
    ml_bind (cd_slc data (2 + len) n) (S oui info ext) false (fun p =>
    (mkIe c p id len oui info ext, Ok tt, false))) in
  if id =? 221 then
    if n <? 6 then (st1, Err 3, true) else
    ml_bind (cd_slc data 2 6) st1 false (fun oui =>
    let st2 := S oui (ie_info old) 0 in
    if 6 >? 2 + len then (st2, Err 4, true) else                                   (* checkOffsetLength *)
    ml_bind (cd_slc data 6 (2 + len)) st2 false (fun info => fin oui info 0))
  else if id =? 255 then
    if n <? 3 then (st1, Err 5, true) else
    ml_bind (cd_idx data 2) st1 false (fun ext =>
    let st2 := S [] (ie_info old) ext in
    if 3 >? 2 + len then (st2, Err 6, true) else
    ml_bind (cd_slc data 3 (2 + len)) st2 false (fun info => fin [] info ext))
  else
    ml_bind (cd_slc data 2 (2 + len)) st1 false (fun info => fin [] info 0))).

Definition ie_serialize (l : ie) (payload : list Z) (fixl csum : bool) (junk : list Z) : outcome (list Z) * ie :=
  let isx := ie_id l =? 255 in
  let length := zlen (ie_info l) + zlen (ie_oui l) + (if isx then 1 else 0) in
  let start := if isx then 3 else 2 in
  if length >? 255 then (Err 1, l) else
  let buf := cd_region (2 + length) junk in
  let r :=
    obind (ml_wrc buf 0 [ie_id l mod 256; length]) (fun buf =>
    obind (if isx then ml_wrc buf 2 [ie_ext l mod 256] else Ok buf) (fun buf =>
    obind (ml_copy buf start (ie_oui l)) (fun buf =>
    ml_copy buf (start + zlen (ie_oui l)) (ie_info l)))) in
  match r with Ok b => (Ok (b ++ payload), l) | Err c => (Err c, l) | Panic s => (Panic s, l) end.

(* String() :1680-1700 formats ID, Length, OUI, Info; its only loop indexes Info below len(Info) *)
Definition ie_render_panics (l : ie) : bool := false.

(* ---------------------------------------------------------------- bodies with fixed parts *)
Record mgmt := mkMg { mg_contents : list Z; mg_payload : list Z; mg_fields : list (list Z) }.
(* the zero value: integer fields 0; a 6-octet field is a net.HardwareAddr (CurrentApAddress), nil in a new object *)
Definition mg_fresh (widths : list Z) : mgmt := mkMg [] [] (map (fun w => if w =? 6 then [] else repeat 0 (Z.to_nat w)) widths).
Definition mg_total (widths : list Z) : Z := fold_right Z.add 0 widths.

Fixpoint mg_split (widths : list Z) (data : list Z) (off : Z) : outcome (list (list Z)) :=
  match widths with
  | [] => Ok []
  | w :: t => obind (cd_slc data off (off + w)) (fun f => obind (mg_split t data (off + w)) (fun r => Ok (f :: r)))
  end.

Definition mg_decode_into (widths : list Z) (setsp : bool) (old : mgmt) (data : list Z) : mgmt * outcome unit * bool :=
  let n := zlen data in let k := mg_total widths in
  if n <? k then (old, Err 1, true) else
  ml_bind (mg_split widths data 0) old false (fun fs =>
  ml_bind (cd_slc data k n) old false (fun p =>
  (mkMg data (if setsp then p else mg_payload old) fs, Ok tt, false))).           (* Contents = the whole data *)

Definition mg_norm (w : Z) (v : list Z) : list Z := firstn (Z.to_nat w) (v ++ repeat 0 (Z.to_nat w)).
Fixpoint mg_ser_fields (widths : list Z) (vals : list (list Z)) (buf : list Z) (off : Z) : outcome (list Z) :=
  match widths with
  | [] => Ok buf
  | w :: t => obind (ml_wrc buf off (mg_norm w (hd [] vals))) (fun b => mg_ser_fields t (tl vals) b (off + w))
  end.
Definition mg_serialize (widths : list Z) (l : mgmt) (payload : list Z) (fixl csum : bool) (junk : list Z)
    : outcome (list Z) * mgmt :=
  match mg_ser_fields widths (mg_fields l) (cd_region (mg_total widths) junk) 0 with
  | Ok b => (Ok (b ++ payload), l) | Err c => (Err c, l) | Panic s => (Panic s, l)
  end.
Definition mg_render_panics (l : mgmt) : bool := false.

(* ---------------------------------------------------------------- the element walk *)
Fixpoint ie_walk (fuel : nat) (data : list Z) (acc : list ie) : list ie * outcome unit * bool :=
  match data with
  | [] => (acc, Ok tt, false)                                                      (* NextDecoder: empty payload *)
  | _ =>
    match fuel with
    | O => (acc, Err 99, false)                                                    (* excluded by C19_dot11mgmt_walk_fuel *)
    | S f =>
      match ie_decode_into ie_fresh data with
      | (e, Ok _, _) => ie_walk f (ie_payload e) (acc ++ [e])
      | (_, Err c, tr) => (acc, Err c, tr)
      | (_, Panic s, tr) => (acc, Panic s, tr)
      end
    end
  end.
(* a body followed by its elements (bodies whose NextLayerType is Dot11InformationElement) *)
Definition mg_walk (widths : list Z) (data : list Z) : mgmt * list ie * outcome unit * bool :=
  match mg_decode_into widths true (mg_fresh widths) data with
  | (b, Ok _, _) => let '(es, o, tr) := ie_walk (length data) (mg_payload b) [] in (b, es, o, tr)
  | (b, o, tr) => (b, [], o, tr)
  end.
