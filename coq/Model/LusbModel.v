(* Lusb — executable model of layers/usb.go (Linux usbmon header and USB setup request block decoders) as
   repaired (earlier: URB data length and setup length checks; agent-lmisc2: Setup/Data flags assigned both
   ways).  Definitions only.  Repaired file: USB.NextLayerType :131-140, USB.DecodeFromBytes :146-204,
   USBRequestBlockSetup.DecodeFromBytes :219-233.  No SerializeTo (C06/C07 n/a).  USBControl/USBInterrupt/
   USBBulk (Contents = data) are not modelled.  Little-endian fields; int64/int32 via sint. *)
From GP Require Import Base Codec MiscLib.
Open Scope Z_scope.

Record usb := mkUsb {
  u_contents : list Z; u_payload : list Z;
  u_id : Z; u_event : Z; u_ttype : Z; u_dirin : bool; u_endpoint : Z; u_devaddr : Z; u_bus : Z; u_tsec : Z; u_tusec : Z;
  u_setup : bool; u_data : bool; u_status : Z; u_urblen : Z; u_urbdatalen : Z }.
Definition usb_fresh : usb := mkUsb [] [] 0 0 0 false 0 0 0 0 0 false false 0 0 0.

Definition ml_le (l : list Z) (a b : Z) : outcome Z := obind (cd_slc l a b) (fun s => Ok (le_val s)).

(* orig = flags only ever set to true (before the repair) *)
Definition usb_decode_gen (orig : bool) (old : usb) (data : list Z) : usb * outcome unit * bool :=
  let n := zlen data in
  if n <? 40 then (old, Err 1, true) else                                            (* :147-150 *)
  ml_bind (ml_le data 0 8) old false (fun id =>
  ml_bind (cd_idx data 8) old false (fun ev => ml_bind (cd_idx data 9) old false (fun trt =>
  ml_bind (cd_idx data 10) old false (fun b10 => ml_bind (cd_idx data 11) old false (fun da =>
  ml_bind (ml_le data 12 14) old false (fun bus =>
  ml_bind (cd_idx data 14) old false (fun b14 => ml_bind (cd_idx data 15) old false (fun b15 =>
  ml_bind (ml_le data 16 24) old false (fun ts => ml_bind (ml_le data 24 28) old false (fun tu =>
  ml_bind (ml_le data 28 32) old false (fun st => ml_bind (ml_le data 32 36) old false (fun ul =>
  ml_bind (ml_le data 36 40) old false (fun udl =>
  let setup := if orig then (b14 =? 0) || u_setup old else b14 =? 0 in               (* :166 *)
  let dat := if orig then (b15 =? 0) || u_data old else b15 =? 0 in                  (* :167 *)
  ml_bind (cd_slc data 0 40) old false (fun c =>                                     (* :176 *)
  ml_bind (cd_slc data 40 n) old false (fun p =>                                     (* :177 *)
  let mk := fun pl => mkUsb c pl id ev trt ((b10 / 128) mod 2 =? 1) (b10 mod 128) da bus (sint 64 ts) (sint 32 tu) setup dat (sint 32 st) ul udl in
  if setup then (mk p, Ok tt, false)                                                 (* :179-180 *)
  else if dat then
    if n - 40 <? udl then (mk p, Err 2, true) else                                   (* :182-185 *)
    ml_bind (cd_slc data (n - udl) n) (mk p) false (fun p2 => (mk p2, Ok tt, false)) (* :186 *)
  else (mk p, Ok tt, false)))))))))))))))).

Definition usb_decode_into := usb_decode_gen false.
Definition usb_decode_orig := usb_decode_gen true.
(* NextLayerType :131-140: 1000 = USBRequestBlockSetup when Setup, else TransferType.LayerType() (abstract id = the type octet) *)
Definition usb_next (l : usb) : Z := if u_setup l then 1000 else u_ttype l.
Definition usb_render_panics (l : usb) : bool := false.

Record usbsetup := mkUs { us_contents : list Z; us_payload : list Z; us_rtype : Z; us_request : Z; us_value : Z; us_index : Z; us_length : Z }.
Definition us_fresh : usbsetup := mkUs [] [] 0 0 0 0 0.
Definition us_decode_into (old : usbsetup) (data : list Z) : usbsetup * outcome unit * bool :=
  let n := zlen data in
  if n <? 8 then (old, Err 1, true) else                                             (* :220-223 *)
  ml_bind (cd_idx data 0) old false (fun rt => ml_bind (cd_idx data 1) old false (fun rq =>
  ml_bind (ml_le data 2 4) old false (fun v => ml_bind (ml_le data 4 6) old false (fun ix => ml_bind (ml_le data 6 8) old false (fun ln =>
  ml_bind (cd_slc data 0 8) old false (fun c => ml_bind (cd_slc data 8 n) old false (fun p =>
  (mkUs c p rt rq v ix ln, Ok tt, false)))))))).
Definition us_next (l : usbsetup) : Z := 0.
Definition us_render_panics (l : usbsetup) : bool := false.
