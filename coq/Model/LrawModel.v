(* Lraw — executable model of decodeIPv4or6 (layers/enums.go:283-296 as repaired), the decoder registered for LinkTypeRaw
   (and the two BSD raw link types): it looks at the version nibble of the first octet and hands the whole packet to
   decodeIPv4 or decodeIPv6.  Definitions only.  The two IP decoders are parameters (they are Lip4 / Lip6): each maps
   the packet to its outcome, its truncated flag and the number of layers it adds.
   `orig` selects the unrepaired code, which indexes data[0] without a length check.
   No layer of its own: C05, C06, C07, C01 do not apply. *)
From GP Require Import Base Codec MiscLib.
Open Scope Z_scope.

Section Sub.
Variable dec4 dec6 : list Z -> outcome unit * bool * Z.

(* result: the decoder chosen (0 none, 4, 6), outcome, truncated flag, layers added *)
Definition raw_decode_gen (orig : bool) (data : list Z) : Z * outcome unit * bool * Z :=
  if negb orig && (zlen data <? 1) then (0, Err 1, true, 0) else                      (* :284-287 repaired *)
  match cd_idx data 0 with                                                            (* :288 *)
  | Ok b0 =>
    let v := b0 / 16 in
    if v =? 4 then let '(o, tr, n) := dec4 data in (4, o, tr, n)                      (* :290-291 *)
    else if v =? 6 then let '(o, tr, n) := dec6 data in (6, o, tr, n)                 (* :292-293 *)
    else (0, Err 2, false, 0)                                                         (* :295 *)
  | Err e => (0, Err e, false, 0)
  | Panic s => (0, Panic s, false, 0)
  end.
Definition raw_decode := raw_decode_gen false.
Definition raw_decode_orig := raw_decode_gen true.
End Sub.
