(* C11, reassembly: Assembler + StreamPool + pageCache of reassembly/tcpassembly.go and
   reassembly/memory.go with any number of (bidirectional) connections, driven through
   AssembleWithContext / FlushWithOptions / FlushCloseOlderThan / FlushAll with scripted
   streams (Accept = true; ReassembledSG calls sg.KeepFrom according to a script;
   ReassemblyComplete returns false for the streams the script says decline removal).
   Lifecycle level: lengths instead of byte contents.  Executable definitions only.
   Line numbers refer to reassembly/tcpassembly.go (m: = memory.go) on the repository branch
   agent-c11 (= agent-c09 repairs + the C11 repairs).  The half-connection functions follow
   the C09 model (coq/Model/C09Model.v on branch agent-c09, validated there against the
   code), with byte lists replaced by their lengths.

   Simplifications (not observable through the compared outputs): statistics counters and
   ackSeq are not modelled; page.start is never assigned in Go (constantly false); the
   `end` of a recycled page that is not the last page of its packet is taken as false;
   a re-slice beyond len (only with inconsistent sequence arithmetic) is a panic. *)
From GP Require Import Base C11Common.
Open Scope Z_scope.

Definition QLO : Z := 1073741823.           (* uint32Max/4 *)
Definition QHI : Z := 3221225472.           (* uint32Max - uint32Max/4 *)

(* Sequence.Difference :66-73 (agent-c09 repair: adds 2^32) *)
Definition rdiff (s t : Z) : Z :=
  if (QHI <? s) && (t <? QLO) then (t + M32) - s
  else if (QHI <? t) && (s <? QLO) then t - (s + M32)
  else t - s.

(* page :234-242.  rp_first: ac != nil (first page of a packet) *)
Record rpage := mkRP { rp_len : Z; rp_seq : Z; rp_seen : Z; rp_end : bool; rp_first : bool }.
(* livePacket :285-291 *)
Record live := mkLive { lv_len : Z; lv_seq : Z; lv_start : bool; lv_end : bool; lv_ts : Z }.
Inductive cont := CPage (p : rpage) | CLive (l : live).

Definition clen (c : cont) : Z := match c with CPage p => rp_len p | CLive l => lv_len l end.
Definition cseq (c : cont) : Z := match c with CPage p => rp_seq p | CLive l => lv_seq l end.
Definition cstart (c : cont) : bool := match c with CPage _ => false | CLive l => lv_start l end.
Definition cend (c : cont) : bool := match c with CPage p => rp_end p | CLive l => lv_end l end.
Definition is_page (c : cont) : bool := match c with CPage _ => true | CLive _ => false end.

Definition set_len (p : rpage) (n : Z) : rpage := mkRP n (rp_seq p) (rp_seen p) (rp_end p) (rp_first p).
Definition drop_front (p : rpage) (k : Z) : rpage :=
  mkRP (rp_len p - k) (sadd (rp_seq p) k) (rp_seen p) (rp_end p) (rp_first p).

(* halfconnection :407-422 *)
Record rhalf := mkH {
  h_pages : Z;               (* half.pages as the code counts it *)
  h_saved : list rpage;      (* half.saved *)
  h_queue : list rpage;      (* half.first .. half.last *)
  h_next : Z;                (* nextSeq *)
  h_seen : Z;                (* lastSeen *)
  h_closed : bool }.
Definition new_half (ts : Z) : rhalf := mkH 0 [] [] INVALID ts false.

(* options + stream scripts: for the n-th ReassembledSG call of stream sid the entry number
   (sid + n) mod length, (mode, x):
   0 no KeepFrom; 1 KeepFrom(x); 2 KeepFrom(saved + x); 3 KeepFrom(available + x).
   Stream number sid declines removal iff the entry sid mod length of r_decline is true. *)
Record rcfg := mkCfg { r_mpc : Z; r_mt : Z; r_keep : list (Z * Z); r_decline : list bool }.

(* ---- convertToPages :320-347 *)
Fixpoint rsplit (fuel : nat) (seq len ts : Z) (e first : bool) : list rpage :=
  match fuel with
  | O => [mkRP (Z.min len PAGE) seq ts e first]
  | S f =>
    let l := Z.min len PAGE in
    if len - l <=? 0 then [mkRP l seq ts e first]
    else mkRP l seq ts false first :: rsplit f (sadd seq l) (len - l) ts e false
  end.
Definition to_pages (seq len ts : Z) (e : bool) : list rpage :=
  rsplit (Z.to_nat (len / PAGE)) seq len ts e true.

(* ---- checkOverlap :752-887 (zipper: left reversed, head = cur; right, head = next) *)
Record cores := mkCores {
  co_left : list rpage; co_right : list rpage; co_len : Z; co_rel : Z; co_tags : list Z; co_panic : bool }.

Fixpoint co_loop (start end_ : Z) (left right : list rpage) (blen rel : Z) (tags : list Z) : cores :=
  match left with
  | [] => mkCores [] right blen rel tags false
  | cur :: rest =>
    (* :771 (5) *)
    if rdiff end_ (rp_seq cur) >? 0 then co_loop start end_ rest (cur :: right) blen rel (5 :: tags)
    else
      let curEnd := sadd (rp_seq cur) (rp_len cur) in
      (* :782 (1) *)
      if rdiff start curEnd <=? 0 then mkCores left right blen rel (1 :: tags) false
      else
        let dS := rdiff start (rp_seq cur) in
        let dE := rdiff end_ curEnd in
        (* :793 (3): the page is released *)
        if (dE <=? 0) && (dS >=? 0) then co_loop start end_ rest right blen (rel + 1) (3 :: tags)
        (* :819 (2) *)
        else if (dE <? 0) && (rdiff start curEnd >? 0) then
          let n := - rdiff start (rp_seq cur) in
          if (0 <=? n) && (n <=? rp_len cur) then
            mkCores (set_len cur n :: rest) right blen rel (2 :: tags) false
          else mkCores left right blen rel tags true
        (* :828 (4) *)
        else if (dS >? 0) && (rdiff end_ (rp_seq cur) <? 0) then
          let k := - rdiff end_ (rp_seq cur) in
          if (0 <=? k) && (k <=? rp_len cur) then
            co_loop start end_ rest (drop_front cur k :: right) blen rel (4 :: tags)
          else mkCores left right blen rel tags true
        (* :838 (6) *)
        else if (dE >=? 0) && (dS <=? 0) then
          let a := - dS in
          let b := a + blen in
          if (0 <=? a) && (b <=? rp_len cur) then co_loop start end_ rest (cur :: right) 0 rel (6 :: tags)
          else mkCores left right blen rel tags true
        else co_loop start end_ rest (cur :: right) blen rel tags
  end.

Record cores2 := mkCores2 {
  c2_queue : list rpage; c2_len : Z; c2_added : Z; c2_rel : Z; c2_tags : list Z; c2_panic : bool }.

Definition check_overlap (queue : list rpage) (blen start ts : Z) (e doqueue : bool) : cores2 :=
  let end_ := sadd start blen in
  let r := co_loop start end_ (rev queue) [] blen 0 [] in
  if co_panic r then mkCores2 queue blen 0 0 (co_tags r) true
  else if (0 <? co_len r) && doqueue then
    let ps := to_pages start (co_len r) ts e in
    mkCores2 (rev (co_left r) ++ ps ++ co_right r) (co_len r) (zlen ps) (co_rel r) (co_tags r) false
  else mkCores2 (rev (co_left r) ++ co_right r) (co_len r) 0 (co_rel r) (co_tags r) false.

(* ---- overlapExisting :930-956: (len', seq', panic) *)
Definition overlap_existing (next start blen : Z) : Z * Z * bool :=
  if next =? INVALID then (blen, start, false)
  else
    let d := rdiff start next in
    if d =? 0 then (blen, start, false)
    else
      let s := if d >=? blen then blen else d in
      if s <? 0 then (blen, start, true) else (blen - s, next, false).

(* ---- addPending :1119-1146: (pages prepended, their bytes, half.saved afterwards, pages released) *)
Definition sum_plen (l : list rpage) : Z := fold_right (fun p a => rp_len p + a) 0 l.

Definition add_pending (saved : list rpage) (firstSeq : Z) : list rpage * Z * list rpage * Z :=
  match saved with
  | [] => ([], 0, [], 0)
  | p0 :: _ =>
    let s := sum_plen saved in
    if sadd (rp_seq p0) s =? firstSeq then (saved, s, saved, 0)
    else ([], 0, [], zlen saved)
  end.

(* ---- addContiguous :1149-1176 *)
Fixpoint contig_loop (q : list rpage) (lastSeq : Z) : list rpage * list rpage * Z :=
  match q with
  | [] => ([], [], lastSeq)
  | p :: t =>
    if rdiff lastSeq (rp_seq p) =? 0 then
      let '(tk, q', l) := contig_loop t (sadd lastSeq (rp_len p)) in (p :: tk, q', l)
    else ([], q, lastSeq)
  end.
Definition add_contiguous (q : list rpage) (lastSeq : Z) : list rpage * list rpage * Z :=
  match q with
  | [] => ([], [], lastSeq)
  | p :: _ => contig_loop q (if lastSeq =? INVALID then rp_seq p else lastSeq)
  end.

(* ---- cleanSG :1022-1099.  The search loop :1036-1048: (ndx, skip) *)
Fixpoint find_keep (all : list cont) (toKeep cur skip : Z) (ndx : nat) : nat * Z :=
  match all with
  | [] => (ndx, skip)
  | r :: t =>
    if toKeep <? cur + clen r then (ndx, skip)
    else find_keep t toKeep (cur + clen r) (if skip >=? clen r then skip - clen r else skip) (S ndx)
  end.

(* the conversion loop :1074-1093 (agent-c09 repair: skip applies to the first kept container
   only): (saved pages, pages newly allocated, panic) *)
Fixpoint keep_conv (l : list cont) (skip : Z) : list rpage * Z * bool :=
  match l with
  | [] => ([], 0, false)
  | CPage p :: t =>
    if (0 <=? skip) && (skip <=? rp_len p) then
      let p' := if skip =? 0 then p else drop_front p skip in
      let '(ps, n, pk) := keep_conv t 0 in (p' :: ps, n, pk)
    else ([], 0, true)
  | CLive lp :: t =>
    if (0 <=? skip) && (skip <=? lv_len lp) then
      let mine := to_pages (sadd (lv_seq lp) skip) (lv_len lp - skip) (lv_ts lp) (lv_end lp) in
      let '(ps, n, pk) := keep_conv t 0 in (mine ++ ps, zlen mine + n, pk)
    else ([], 0, true)
  end.

Definition count_pages (l : list cont) : Z := zlen (filter is_page l).

Definition keep_choice (c : rcfg) (n : Z) (avail saved : Z) : Z :=
  match r_keep c with
  | [] => -1
  | _ =>
    let '(m, x) := nth (Z.to_nat (n mod zlen (r_keep c))) (r_keep c) (0, 0) in
    if m =? 0 then -1 else if m =? 1 then x else if m =? 2 then saved + x else avail + x
  end.

Definition declines (c : rcfg) (sid : Z) : bool :=
  match r_decline c with
  | [] => false
  | _ => nth (Z.to_nat (sid mod zlen (r_decline c))) (r_decline c) false
  end.

(* what is threaded through one API call *)
Record rctx := mkCtx { x_used : Z; x_ev : list event; x_panic : bool }.

Definition last_cend (all : list cont) : bool := match rev all with [] => false | c :: _ => cend c end.
Definition first_cstart (all : list cont) : bool := match all with [] => false | c :: _ => cstart c end.
Definition sum_clen (l : list cont) : Z := fold_right (fun c a => clen c + a) 0 l.

(* ---- sendToConnection :1103-1117 = buildSG :1001-1020 + ReassembledSG + cleanSG; the
   closeHalfConnection on End is done by the caller.  acts: timestamp of the AssemblerContext
   passed to the stream (-1: nil).  Returns (half, ctx, nextSeq of buildSG, End) *)
Definition send (v : variant) (c : rcfg) (sid ncalls : Z) (h : rhalf) (x : rctx) (r0 : cont) (acts : Z)
    : rhalf * rctx * Z * bool :=
  let skip := if h_next h =? INVALID then -1 else rdiff (h_next h) (cseq r0) in
  let last := sadd (cseq r0) (clen r0) in
  let '(pre, savedLen, saved1, reld) := add_pending (h_saved h) (cseq r0) in
  let '(tk, q1, nextSeq) := add_contiguous (h_queue h) last in
  let all := map CPage pre ++ r0 :: map CPage tk in
  let avail := sum_clen all in
  let isEnd := last_cend all in
  let ev := EData sid (zlen all) avail skip (first_cstart all) isEnd acts savedLen in
  let toKeep := keep_choice c (sid + ncalls) avail savedLen in
  let '(ndx, kskip) := if toKeep <? 0 then (length all, 0) else find_keep all toKeep 0 toKeep O in
  let relc := count_pages (firstn ndx all) in
  let '(saved2, alloc, pk) := keep_conv (skipn ndx all) kskip in
  (mkH (h_pages h - relc - (if v_hpages v then reld else 0) + (if v_hpages v then alloc else 0))
       saved2 q1 (h_next h) (h_seen h) (h_closed h),
   mkCtx (x_used x - reld - relc + alloc) (x_ev x ++ [ev]) (x_panic x || pk),
   nextSeq, isEnd).

(* ---- connection :449-453.  rc_dir: direction of the packet that created it (its key is
   that packet's key); a packet of direction d goes to c2s iff d = rc_dir *)
Record rconn := mkRC { rc_key : Z; rc_dir : bool; rc_sid : Z; rc_ncalls : Z; rc_c2s : rhalf; rc_s2c : rhalf }.

(* which half: true = c2s *)
Definition get_half (c : rconn) (w : bool) : rhalf := if w then rc_c2s c else rc_s2c c.
Definition put_half (c : rconn) (w : bool) (h : rhalf) : rconn :=
  if w then mkRC (rc_key c) (rc_dir c) (rc_sid c) (rc_ncalls c) h (rc_s2c c)
  else mkRC (rc_key c) (rc_dir c) (rc_sid c) (rc_ncalls c) (rc_c2s c) h.
Definition bump_calls (c : rconn) : rconn :=
  mkRC (rc_key c) (rc_dir c) (rc_sid c) (rc_ncalls c + 1) (rc_c2s c) (rc_s2c c).
Definition set_next (h : rhalf) (n : Z) : rhalf :=
  mkH (h_pages h) (h_saved h) (h_queue h) n (h_seen h) (h_closed h).
Definition both_closed (c : rconn) : bool := h_closed (rc_c2s c) && h_closed (rc_s2c c).

(* ---- closeHalfConnection :1199-1218 (C11 repair: the saved pages are released too).
   Returns (connection, removed from the pool, ctx) *)
Definition close_half (v : variant) (cfg : rcfg) (c : rconn) (w : bool) (x : rctx)
    : rconn * bool * rctx :=
  let h := get_half c w in
  let nq := zlen (h_queue h) in
  let ns := if v_saved v then zlen (h_saved h) else 0 in
  let h' := mkH (h_pages h - nq - (if v_hpages v then ns else 0))
                (if v_saved v then [] else h_saved h) [] (h_next h) (h_seen h) true in
  let c' := put_half c w h' in
  let x' := mkCtx (x_used x - nq - ns) (x_ev x) (x_panic x) in
  if both_closed c' then
    let acc := negb (declines cfg (rc_sid c)) in
    (c', acc, mkCtx (x_used x') (x_ev x' ++ [EDone (rc_sid c) acc]) (x_panic x'))
  else (c', false, x').

(* send + close when the last container carried End *)
Definition send_conn (v : variant) (cfg : rcfg) (c : rconn) (w : bool) (h : rhalf) (x : rctx)
    (r0 : cont) (acts : Z) : rconn * bool * rctx * Z :=
  let '(h1, x1, nextSeq, isEnd) := send v cfg (rc_sid c) (rc_ncalls c) h x r0 acts in
  let c1 := bump_calls (put_half c w h1) in
  if x_panic x1 then (c1, false, x1, nextSeq)
  else if isEnd then let '(c2, rm, x2) := close_half v cfg c1 w x1 in (c2, rm, x2, nextSeq)
  else (c1, false, x1, nextSeq).

(* ---- skipFlush :1181-1197 *)
Definition skip_flush (v : variant) (cfg : rcfg) (c : rconn) (w : bool) (x : rctx)
    : rconn * bool * rctx :=
  let h := get_half c w in
  match h_queue h with
  | [] => close_half v cfg c w x
  | p :: q' =>
    let h1 := mkH (h_pages h) (h_saved h) q' (h_next h) (h_seen h) (h_closed h) in
    let '(c1, rm, x1, nextSeq) :=
      send_conn v cfg c w h1 x (CPage p) (if rp_first p then rp_seen p else -1) in
    let c2 := if nextSeq =? INVALID then c1 else put_half c1 w (set_next (get_half c1 w) nextSeq) in
    (c2, rm, x1)
  end.

(* ---- flushClose :1297-1316: (connection, removed, ctx, flushed, closed) *)
Definition conn_last_seen (c : rconn) : Z :=
  if h_seen (rc_c2s c) <? h_seen (rc_s2c c) then h_seen (rc_s2c c) else h_seen (rc_c2s c).

Fixpoint fc_loop (fuel : nat) (v : variant) (cfg : rcfg) (c : rconn) (w : bool) (rm : bool) (x : rctx) (t : Z)
    : rconn * bool * rctx :=
  match fuel with
  | O => (c, rm, x)
  | S f =>
    if h_closed (get_half c w) || x_panic x then (c, rm, x) else
    match h_queue (get_half c w) with
    | [] => (c, rm, x)
    | p :: _ =>
      if rp_seen p <? t then
        let '(c1, rm1, x1) := skip_flush v cfg c w x in fc_loop f v cfg c1 w (rm || rm1) x1 t
      else (c, rm, x)
    end
  end.

Definition qhead_older (h : rhalf) (t : Z) : bool :=
  match h_queue h with p :: _ => rp_seen p <? t | [] => false end.

Definition flush_close (v : variant) (cfg : rcfg) (c : rconn) (w : bool) (x : rctx) (t tc : Z)
    : rconn * bool * rctx * bool * bool :=
  let h := get_half c w in
  if h_closed h then (c, false, x, false, false)
  else
    let flushed := qhead_older h t in
    let '(c1, rm1, x1) := fc_loop (S (length (h_queue h))) v cfg c w false x t in
    if x_panic x1 then (c1, rm1, x1, flushed, false)
    else if h_closed (get_half c1 w) then (c1, rm1, x1, flushed, true)
    else
      match h_queue (get_half c1 w) with
      | [] =>
        if conn_last_seen c1 <? tc then
          let '(c2, rm2, x2) := close_half v cfg c1 w x1 in (c2, rm1 || rm2, x2, flushed, true)
        else (c1, rm1, x1, flushed, false)
      | _ => (c1, rm1, x1, flushed, false)
      end.

Definition b2z (b : bool) : Z := if b then 1 else 0.

(* ---- FlushWithOptions :1265-1290, one connection: s2c first, then c2s; then the removal of
   a connection whose halves are closed and both last seen before TC.
   Returns (connection, removed, ctx, flushes, closes) *)
Definition flush_conn (v : variant) (cfg : rcfg) (t tc : Z) (c : rconn) (x : rctx)
    : rconn * bool * rctx * Z * Z :=
  let '(c1, rm1, x1, f1, k1) := flush_close v cfg c false x t tc in
  if x_panic x1 then (c1, rm1, x1, b2z f1, b2z k1) else
  let '(c2, rm2, x2, f2, k2) := flush_close v cfg c1 true x1 t tc in
  let rm3 := both_closed c2 && (h_seen (rc_s2c c2) <? tc) && (h_seen (rc_c2s c2) <? tc) in
  (c2, rm1 || rm2 || rm3, x2, b2z f1 + b2z f2, b2z k1 + b2z k2).

(* ---- FlushAll :1321-1337, one half: `for !half.closed { skipFlush }` *)
Fixpoint fa_loop (fuel : nat) (v : variant) (cfg : rcfg) (c : rconn) (w : bool) (rm : bool) (x : rctx)
    : rconn * bool * rctx :=
  match fuel with
  | O => (c, rm, x)
  | S f =>
    if h_closed (get_half c w) || x_panic x then (c, rm, x)
    else let '(c1, rm1, x1) := skip_flush v cfg c w x in fa_loop f v cfg c1 w (rm || rm1) x1
  end.

Definition flush_all_conn (v : variant) (cfg : rcfg) (c : rconn) (x : rctx)
    : rconn * bool * rctx * Z * Z :=
  let '(c1, rm1, x1) := fa_loop (S (S (length (h_queue (rc_s2c c))))) v cfg c false false x in
  if x_panic x1 then (c1, rm1, x1, 0, 0) else
  let '(c2, rm2, x2) := fa_loop (S (S (length (h_queue (rc_c2s c1))))) v cfg c1 true false x1 in
  (c2, rm1 || rm2, x2, 0, 0).

(* ---- AssembleWithContext :640-739 with handleBytes :959-986, on the connection found or
   created by getConnection.  w: the half the packet belongs to. *)
Definition limit_hit (c : rcfg) (pages used : Z) : bool :=
  ((0 <? r_mpc c) && (r_mpc c <=? pages)) || ((0 <? r_mt c) && (r_mt c <=? used)).

Definition with_used (x : rctx) (u : Z) : rctx := mkCtx u (x_ev x) (x_panic x).
Definition with_panic (x : rctx) : rctx := mkCtx (x_used x) (x_ev x) true.

(* :693-724: (sequence number of the first payload byte, nextSeq, queue?) *)
Definition classify (next gseq : Z) (syn : bool) : Z * Z * bool :=
  if next =? INVALID then
    if syn then (sadd gseq 1, sadd gseq 1, false)
    else (gseq, INVALID, true)
  else
    let seq := if syn then sadd gseq 1 else gseq in
    (seq, next, (rdiff next seq >? 0)).

Definition assemble_conn (v : variant) (cfg : rcfg) (c : rconn) (w : bool) (x : rctx)
    (gseq : Z) (syn fin rst : bool) (glen ts : Z) : rconn * bool * rctx :=
  let h0 := get_half c w in
  (* :659 *)
  let h := mkH (h_pages h0) (h_saved h0) (h_queue h0) (h_next h0)
               (if h_seen h0 <? ts then ts else h_seen h0) (h_closed h0) in
  (* :675 *)
  if h_closed h then (put_half c w h, false, x)
  else
    (* :693-724 *)
    let '(seq, next1, queue) := classify (h_next h) gseq syn in
    let h := set_next h next1 in
    let lend_ := rst || fin in
    if queue then
      (* handleBytes, queue branch :966-976 *)
      let r := check_overlap (h_queue h) glen seq ts lend_ true in
      if c2_panic r then (put_half c w h, false, with_panic x)
      else
        let pages1 := h_pages h - c2_rel r + c2_added r in
        let used1 := x_used x - c2_rel r + c2_added r in
        let h1 := mkH pages1 (h_saved h) (c2_queue r) (h_next h) (h_seen h) (h_closed h) in
        if limit_hit cfg pages1 used1 then
          match c2_queue r with
          | [] => (put_half c w h1, false, with_used x used1)
          | p :: q' =>
            let h2 := mkH pages1 (h_saved h) q' (h_next h) (h_seen h) (h_closed h) in
            let '(c1, rm, x1, nextSeq) := send_conn v cfg c w h2 (with_used x used1) (CPage p) ts in
            (* :739-744 (agent-c09 repair: no FIN bump for a queued segment) *)
            let c2 := if nextSeq =? INVALID then c1 else put_half c1 w (set_next (get_half c1 w) nextSeq) in
            (c2, rm, x1)
          end
        else (put_half c w h1, false, with_used x used1)
    else
      (* handleBytes, in-order branch :977-984 *)
      let '(b1, seq1, pk0) := overlap_existing (h_next h) seq glen in
      if pk0 then (put_half c w h, false, with_panic x)
      else
        let r := check_overlap (h_queue h) b1 seq1 ts lend_ false in
        if c2_panic r then (put_half c w h, false, with_panic x)
        else
          let pages1 := h_pages h - c2_rel r in
          let used1 := x_used x - c2_rel r in
          let h1 := mkH pages1 (h_saved h) (c2_queue r) (h_next h) (h_seen h) (h_closed h) in
          if (0 <? c2_len r) || lend_ || syn then
            let lp := mkLive (c2_len r) seq1 syn lend_ ts in
            let '(c1, rm, x1, nextSeq) := send_conn v cfg c w h1 (with_used x used1) (CLive lp) ts in
            let c2 :=
              if nextSeq =? INVALID then c1
              else put_half c1 w (set_next (get_half c1 w) (if fin then sadd nextSeq 1 else nextSeq)) in
            (c2, rm, x1)
          else (put_half c w h1, false, with_used x used1).

(* ---- the pool *)
Record rstate := mkRS {
  rs_conns : list rconn;     (* StreamPool.conns *)
  rs_free : Z;               (* len(StreamPool.free) *)
  rs_alloc : Z;              (* nextAlloc *)
  rs_used : Z;               (* pageCache.used *)
  rs_cfg : rcfg;
  rs_nstreams : Z;
  rs_dead : bool
}.

Definition rinit (cfg : rcfg) : rstate := mkRS [] 0 1024 0 cfg 0 false.

Record rout := mkRO { ro_ev : list event; ro_a : Z; ro_b : Z; ro_panic : bool }.

Fixpoint rsplit_key (k : Z) (l : list rconn) : option (list rconn * rconn * list rconn) :=
  match l with
  | [] => None
  | c :: t =>
    if rc_key c =? k then Some ([], c, t)
    else match rsplit_key k t with
         | Some (a, x, b) => Some (c :: a, x, b)
         | None => None
         end
  end.

Definition rdead (st : rstate) : rstate :=
  mkRS (rs_conns st) (rs_free st) (rs_alloc st) (rs_used st) (rs_cfg st) (rs_nstreams st) true.

(* getConnection m:185-209, newConnection m:153-167, remove m:123-130 *)
Definition rassemble (v : variant) (st : rstate) (k : Z) (dir : bool) (seq : Z) (syn fin rst : bool) (len ts : Z)
    : rstate * rout :=
  let x0 := mkCtx (rs_used st) [] false in
  match rsplit_key k (rs_conns st) with
  | Some (pre, c, post) =>
    let '(c1, rm, x1) := assemble_conn v (rs_cfg st) c (Bool.eqb dir (rc_dir c)) x0 seq syn fin rst len ts in
    if x_panic x1 then (rdead st, mkRO (x_ev x1) 0 0 true) else
    (mkRS (if rm then pre ++ post else pre ++ c1 :: post) (if rm then rs_free st + 1 else rs_free st)
          (rs_alloc st) (x_used x1) (rs_cfg st) (rs_nstreams st) false,
     mkRO (x_ev x1) 0 0 false)
  | None =>
    let sid := rs_nstreams st + 1 in
    let '(free1, alloc1) := if rs_free st <=? 0 then (rs_alloc st - 1, 2 * rs_alloc st)
                            else (rs_free st - 1, rs_alloc st) in
    let c := mkRC k dir sid 0 (new_half ts) (new_half ts) in
    let '(c1, rm, x1) := assemble_conn v (rs_cfg st) c true x0 seq syn fin rst len ts in
    if x_panic x1 then (rdead st, mkRO (ENew sid :: x_ev x1) 0 0 true) else
    (mkRS (if rm then rs_conns st else rs_conns st ++ [c1]) (if rm then free1 + 1 else free1)
          alloc1 (x_used x1) (rs_cfg st) sid false,
     mkRO (ENew sid :: x_ev x1) 0 0 false)
  end.

(* all connections of the pool, in list order *)
Record racc := mkRA { ra_keep : list rconn; ra_removed : Z; ra_x : rctx; ra_a : Z; ra_b : Z }.

Fixpoint rflush_conns (f : rconn -> rctx -> rconn * bool * rctx * Z * Z) (l : list rconn) (x : rctx) : racc :=
  match l with
  | [] => mkRA [] 0 x 0 0
  | c :: t =>
    if x_panic x then mkRA (c :: t) 0 x 0 0 else
    let '(c1, rm, x1, a, b) := f c x in
    let r := rflush_conns f t x1 in
    mkRA (if rm then ra_keep r else c1 :: ra_keep r) (b2z rm + ra_removed r) (ra_x r) (a + ra_a r) (b + ra_b r)
  end.

Definition rflush_with (f : rconn -> rctx -> rconn * bool * rctx * Z * Z) (st : rstate) (fixed_a : option Z)
    : rstate * rout :=
  let r := rflush_conns f (rs_conns st) (mkCtx (rs_used st) [] false) in
  if x_panic (ra_x r) then (rdead st, mkRO (x_ev (ra_x r)) 0 0 true) else
  (mkRS (ra_keep r) (rs_free st + ra_removed r) (rs_alloc st) (x_used (ra_x r)) (rs_cfg st)
        (rs_nstreams st) false,
   mkRO (x_ev (ra_x r)) (match fixed_a with Some a => a | None => ra_a r end) (ra_b r) false).

Inductive rop :=
| RSeg (key : Z) (dir : bool) (seq : Z) (syn fin rst : bool) (len ts : Z)
| RFlush (t tc : Z)          (* FlushWithOptions{T,TC}; FlushCloseOlderThan t = RFlush t t *)
| RFlushAll.

Definition rstep (v : variant) (st : rstate) (o : rop) : rstate * rout :=
  if rs_dead st then (st, mkRO [] 0 0 true) else
  match o with
  | RSeg k d seq syn fin rst len ts => rassemble v st k d seq syn fin rst len ts
  | RFlush t tc => rflush_with (flush_conn v (rs_cfg st) t tc) st None
  | RFlushAll => rflush_with (flush_all_conn v (rs_cfg st)) st (Some (zlen (rs_conns st)))
  end.

Record robs := mkRObs {
  rb_out : rout; rb_used : Z; rb_live : Z; rb_free : Z;
  rb_pages : list (Z * (Z * Z * Z) * (Z * Z * Z))
     (* per connection: stream, then for c2s and s2c: pages counter, queued, saved *)
}.

Definition half_obs (h : rhalf) : Z * Z * Z := (h_pages h, zlen (h_queue h), zlen (h_saved h)).

Definition robserve (st : rstate) (o : rout) : robs :=
  mkRObs o (rs_used st) (zlen (rs_conns st)) (rs_free st)
         (map (fun c => (rc_sid c, half_obs (rc_c2s c), half_obs (rc_s2c c))) (rs_conns st)).

Fixpoint rrun_trace (v : variant) (st : rstate) (ops : list rop) : list robs :=
  match ops with
  | [] => []
  | o :: t => let '(st', ou) := rstep v st o in robserve st' ou :: rrun_trace v st' t
  end.

Definition rrun (v : variant) (cfg : rcfg) (ops : list rop) : list robs := rrun_trace v (rinit cfg) ops.
Definition rrun_fixed := rrun fixedv.

Fixpoint rrun_state (v : variant) (st : rstate) (ops : list rop) : rstate * list event :=
  match ops with
  | [] => (st, [])
  | o :: t =>
    let '(st', ou) := rstep v st o in
    let '(st2, ev) := rrun_state v st' t in (st2, ro_ev ou ++ ev)
  end.
