(* C09: the stream statement as an executable predicate over a trace of the model
   (definitions only).  A history is given with ghost absolute offsets ([hop]); [op_of]
   turns it into the operations the assembler sees.  [trace_okb] is the property:
   every delivered byte at absolute offset a equals S[a], nothing twice, a skip is exactly the
   number of bytes that never arrived and occurs only on a flush or a page limit, kept bytes are
   presented again unchanged directly in front of the next new data, after FlushAll everything
   received has been delivered and every stream is complete. *)
From GP Require Import Base C09Model.
Open Scope Z_scope.

Inductive hop :=
| HCfg (mpc mt : Z)
| HKeep (k : list (Z * Z))
| HSyn (n ts : Z)                           (* SYN carrying S[0,n) *)
| HData (o n : Z) (fin rst : bool) (ts : Z)   (* S[o,o+n); FIN only on a segment ending at |S| *)
| HFlush (t tc : Z)
| HFlushAll.

Definition op_of (S : list Z) (i : Z) (h : hop) : op :=
  match h with
  | HCfg a b => OCfg a b
  | HKeep k => OKeep k
  | HSyn n ts => OSeg (mkSeg (i mod M32) true false false false ts (sub S 0 n))
  | HData o n fin rst ts => OSeg (mkSeg (sq i o) false fin rst false ts (sub S o n))
  | HFlush t tc => OFlush t tc
  | HFlushAll => OFlushAll
  end.

Definition hop_okb (S : list Z) (h : hop) : bool :=
  match h with
  | HSyn n _ => (0 <=? n) && (n <=? zlen S)
  | HData o n fin _ _ => (0 <=? o) && (0 <=? n) && (o + n <=? zlen S) && (negb fin || (o + n =? zlen S))
  | _ => true
  end.

(* oracle state for the stream currently in the pool *)
Record ost := mkOst {
  o_live : bool;                 (* a stream exists (between New and Complete) *)
  o_known : bool;                (* start seen or assumed: o_pos is meaningful *)
  o_pos : Z;                     (* absolute offset of the next new byte *)
  o_start : Z;                   (* offset at which delivery started *)
  o_recv : list (Z * Z);         (* non-empty ranges (o, n) handed to the stream while its half was open *)
  o_ended : bool;                (* an SG with End was delivered *)
  o_prev : option (list Z);      (* bytes the stream asked to keep at the previous SG (None: no previous SG) *)
  o_ncalls : nat;                (* ReassembledSG calls so far, all streams (index into the KeepFrom script) *)
  o_cfg : cfg
}.

Definition ost0 : ost := mkOst false false 0 0 [] false None 0 (mkCfg 0 0 []).

Definition min_recv (l : list (Z * Z)) : Z :=
  match l with [] => 0 | (o, _) :: t => fold_left (fun m r => Z.min m (fst r)) t o end.
Definition max_recv (l : list (Z * Z)) : Z := fold_left (fun m r => Z.max m (fst r + snd r)) l 0.
Definition hits (l : list (Z * Z)) (a b : Z) : bool :=   (* some received range meets [a,b) *)
  existsb (fun r => (fst r <? b) && (a <? fst r + snd r)) l.

(* what the stream has been given: bookkeeping before the events of a segment are examined *)
Definition note_seg (st : ost) (h : hop) : ost :=
  if negb (o_live st) || o_ended st then st
  else
    let '(off, n, syn) := match h with HSyn n _ => (0, n, true) | HData o n _ _ _ => (o, n, false) | _ => (0, 0, false) end in
    let st1 := if negb (o_known st) && syn
               then mkOst true true 0 0 (o_recv st) false (o_prev st) (o_ncalls st) (o_cfg st) else st in
    if (0 <? n) && (negb (o_known st1) || (o_pos st1 <? off + n)) then
      mkOst true (o_known st1) (o_pos st1) (o_start st1)
            ((Z.max off (if o_known st1 then o_pos st1 else off), off + n - Z.max off (if o_known st1 then o_pos st1 else off)) :: o_recv st1)
            false (o_prev st1) (o_ncalls st1) (o_cfg st1)
    else st1.

Definition is_seg (h : hop) : bool := match h with HSyn _ _ | HData _ _ _ _ _ => true | _ => false end.
Definition limits_on (c : cfg) : bool := (0 <? c_mpc c) || (0 <? c_mt c).

Definition list_eqb (a b : list Z) : bool :=
  (zlen a =? zlen b) && forallb (fun p => fst p =? snd p) (combine a b).

(* one event; returns the new state and whether the event is acceptable *)
Definition check_event (S : list Z) (h : hop) (st : ost) (e : event) : ost * bool :=
  match e with
  | ENew _ =>
    let st1 := mkOst true false 0 0 [] false None (o_ncalls st) (o_cfg st) in
    ((if is_seg h then note_seg st1 h else st1), negb (o_live st))
  | EDone _ =>
    (mkOst false (o_known st) (o_pos st) (o_start st) (o_recv st) (o_ended st) (o_prev st) (o_ncalls st) (o_cfg st),
     o_live st)
  | EPanic _ => (st, false)
  | ETag _ => (st, true)
  | ESG _ bytes _ en skip avail saved =>
    let k := keep_choice (o_cfg st) (o_ncalls st) avail saved in
    let shape := o_live st && negb (o_ended st) && (0 <=? saved) && (saved <=? avail) && (avail =? zlen bytes) in
    let newb := zskip saved bytes in
    let '(known1, pos1, start1, okskip) :=
      if skip =? -1 then
        let p := min_recv (o_recv st) in (true, p, p, negb (o_known st))
      else if skip <? 0 then (o_known st, o_pos st, o_start st, false)
      else (o_known st, o_pos st + skip, o_start st,
            o_known st && ((skip =? 0) || ((negb (is_seg h) || limits_on (o_cfg st)) &&
                                            negb (hits (o_recv st) (o_pos st) (o_pos st + skip))))) in
    let okkept :=
      match o_prev st with
      | None => saved =? 0
      | Some K => if skip =? 0 then list_eqb (ztake saved bytes) K
                  else (saved =? 0) || list_eqb (ztake saved bytes) K
      end in
    let okdata := (0 <=? pos1) && (pos1 + zlen newb <=? zlen S) && list_eqb newb (sub S pos1 (zlen newb)) in
    (mkOst (o_live st) known1 (pos1 + zlen newb) start1 (o_recv st) en
           (Some (if (0 <=? k) && (k <? avail) then zskip k bytes else []))
           (Datatypes.S (o_ncalls st)) (o_cfg st),
     shape && okskip && okkept && okdata)
  end.

Fixpoint check_events (S : list Z) (h : hop) (st : ost) (evs : list event) : ost * bool :=
  match evs with
  | [] => (st, true)
  | e :: t =>
    let '(st1, ok1) := check_event S h st e in
    let '(st2, ok2) := check_events S h st1 t in (st2, ok1 && ok2)
  end.

Definition set_cfg (st : ost) (c : cfg) : ost :=
  mkOst (o_live st) (o_known st) (o_pos st) (o_start st) (o_recv st) (o_ended st) (o_prev st) (o_ncalls st) c.

Definition check_step (S : list Z) (st : ost) (h : hop) (evs : list event) : ost * bool :=
  let st0 :=
    match h with
    | HCfg a b => set_cfg st (mkCfg a b (c_keep (o_cfg st)))
    | HKeep k => set_cfg st (mkCfg (c_mpc (o_cfg st)) (c_mt (o_cfg st)) k)
    | _ => if is_seg h then note_seg st h else st
    end in
  let '(st1, ok) := check_events S h st0 evs in
  match h with
  | HFlushAll =>
    (st1, ok && negb (o_live st1) &&
          (negb (o_known st1) || o_ended st1 ||
           match o_recv st1 with [] => true | _ => o_pos st1 =? Z.max (max_recv (o_recv st1)) (o_start st1) end))
  | _ => (st1, ok)
  end.

Fixpoint check_trace (S : list Z) (st : ost) (hs : list hop) (tr : list (list event * Z)) : bool :=
  match hs, tr with
  | [], [] => true
  | h :: hs', (evs, _) :: tr' =>
    let '(st1, ok) := check_step S st h evs in ok && check_trace S st1 hs' tr'
  | _, _ => false          (* the trace stops early only after a panic *)
  end.

Definition trace_okb (S : list Z) (hs : list hop) (tr : list (list event * Z)) : bool :=
  check_trace S ost0 hs tr.

(* the run of a history on a variant of the code, and its verdict *)
Definition run_hist (v : variant) (S : list Z) (i : Z) (hs : list hop) : list (list event * Z) :=
  run_trace v init (map (op_of S i) hs).
Definition hist_okb (v : variant) (S : list Z) (i : Z) (hs : list hop) : bool :=
  trace_okb S hs (run_hist v S i hs).
Definition hist_ok_variant (d f k y a b : bool) (S : list Z) (i : Z) (hs : list hop) : bool :=
  hist_okb (mkVariant d f k y a b) S i hs.

(* the new bytes of all SG events, in order (what the stream receives as new data) *)
Definition delivered (tr : list (list event * Z)) : list Z :=
  concat (map (fun ev => match ev with ESG _ b _ _ _ _ sv => zskip sv b | _ => [] end)
              (concat (map fst tr))).
