(* C02: decoding as a function of (bytes, first layer, options) over read-only global
   tables, and read-only accessors of an eager packet with explicit write-sets.
   - packet.go:725-769: every NewPacket allocates its own packet / layers / data copy;
   - source fact F4 (re-extracted from the repository on every run): no package-level
     variable of the root package or of layers/ is written outside initialisation, so the
     global tables [g] are threaded through decoding unchanged;
   - layers/tcp.go:626-640 (and udp, icmp4, icmp6, gre): VerifyChecksum concatenated header
     and payload with append(t.Contents, t.Payload...) which, Contents having spare capacity
     inside the packet buffer, WRITES the payload over itself in the shared buffer;
     layers/tcpip.go:26-37 pseudoheaderChecksum called AddressTo4, which ASSIGNS
     ip.SrcIP/ip.DstIP.  Both are modelled ([verify_orig]) next to the repaired code
     ([verify_fixed]: three-index slice forces a private copy; addresses read, not assigned).
   Executable definitions only. *)
From GP Require Import Base.
Open Scope nat_scope.

Section Decode.
  (* global tables, decoders: parameters (any pure functions) *)
  Variable G : Type.
  Variable Pkt : Type.
  Variable decode : G -> list Z -> Z -> Z -> Pkt.   (* tables, bytes, first layer type, options *)

  (* one NewPacket call: the tables are read, never written (F4) *)
  Definition new_packet (g : G) (x : list Z * Z * Z) : Pkt * G :=
    let '(d, f, o) := x in (decode g d f o, g).

  (* a history of NewPacket calls *)
  Fixpoint run_hist (g : G) (h : list (list Z * Z * Z)) : list Pkt * G :=
    match h with
    | [] => ([], g)
    | x :: r => let '(p, g1) := new_packet g x in
                let '(ps, g2) := run_hist g1 r in (p :: ps, g2)
    end.
End Decode.

(* ---- readers of one eager packet ---- *)
(* shared state: the packet buffer, the transport header length (Contents = buf[:hl],
   Payload = buf[hl:]), the network layer's address fields, the stored checksum *)
Record shared := { buf : list Z; hl : nat; src : list Z; dst : list Z }.

Inductive loc := LBuf (i : nat) | LSrc | LDst.

Inductive rop := RLayers | RString | RDump | RVerify.

(* an answer is a function of the shared state only *)
Fixpoint wsum (l : list Z) (acc : Z) : Z :=
  match l with
  | [] => acc
  | [b] => (acc + b * 256)%Z
  | a :: b :: t => wsum t (acc + a * 256 + b)%Z
  end.

Definition answer (s : shared) (o : rop) : Z :=
  match o with
  | RLayers => Z.of_nat (length (buf s))
  | RString => wsum (firstn (hl s) (buf s)) 1%Z
  | RDump => wsum (buf s) 2%Z
  | RVerify => wsum (src s ++ dst s ++ buf s) 0%Z
  end.

(* write-set of one reader step, as (location, value written) *)
Fixpoint payload_writes (i : nat) (l : list Z) : list (loc * Z) :=
  match l with [] => [] | b :: t => (LBuf i, b) :: payload_writes (S i) t end.

(* the code as it was: append in place + AddressTo4 assignment *)
Definition writes_orig (s : shared) (o : rop) : list (loc * Z) :=
  match o with
  | RVerify => payload_writes (hl s) (skipn (hl s) (buf s)) ++ [(LSrc, wsum (src s) 0%Z); (LDst, wsum (dst s) 0%Z)]
  | _ => []
  end.

(* the repaired code *)
Definition writes_fixed (s : shared) (o : rop) : list (loc * Z) := [].

(* applying a write-set *)
Definition apply_write (s : shared) (w : loc * Z) : shared :=
  match fst w with
  | LBuf i => {| buf := upd (buf s) i (snd w); hl := hl s; src := src s; dst := dst s |}
  | LSrc => s   (* the slice header is re-assigned to an equal slice: the value is unchanged *)
  | LDst => s
  end.

Definition rstep (writes : shared -> rop -> list (loc * Z)) (s : shared) (o : rop) : shared * Z :=
  (fold_left apply_write (writes s o) s, answer s o).

(* an interleaving of reader programs is a list of (thread id, op); the run collects each answer *)
Fixpoint run_sched (writes : shared -> rop -> list (loc * Z)) (s : shared) (sched : list (nat * rop))
  : list (nat * rop * Z) :=
  match sched with
  | [] => []
  | (t, o) :: r => let '(s', a) := rstep writes s o in (t, o, a) :: run_sched writes s' r
  end.

(* two steps of different threads race when one writes a location the other reads or writes;
   every op reads the whole shared state, so: race-free iff no step writes anything *)
Definition race_free (writes : shared -> rop -> list (loc * Z)) (s : shared) (sched : list (nat * rop)) : bool :=
  forallb (fun x => match writes s (snd x) with [] => true | _ => false end) sched.
