(* A total flattening of a state of the C12 interleaving model (pool, free list, every connection
   object with its per-connection machine state, threads with program counters and remaining
   programs, the whole event log, tags) into a list of numbers.  Used only by the extraction
   cross-check (runner/c12.ml `to_coq`): the extracted OCaml runner prints the digest of the final
   state it computed for a case and Coq re-evaluates the same expression with vm_compute.  Every
   field is included and every list is length-prefixed, so equal digests mean equal states. *)
From GP Require Import Base C12Model.
Open Scope Z_scope.

Definition dn (n : nat) : Z := Z.of_nat n.
Definition dl (l : list Z) : list Z := zlen l :: l.
Definition dnl (l : list nat) : list Z := dl (map dn l).
Definition dbool (b : bool) : Z := if b then 1 else 0.
Definition dopt (o : option Z) : list Z := match o with None => [0] | Some v => [1; v] end.
Definition dflat {A} (f : A -> list Z) (l : list A) : list Z := Z.of_nat (length l) :: flat_map f l.

Definition d_key (k : key) : list Z := [dn (k_flow k); dbool (k_dir k)].
Definition d_pkt (p : packet) : list Z :=
  d_key (p_key p) ++ [dbool (p_syn p); dbool (p_fin p); p_seq p] ++ dl (p_bytes p) ++ [p_ts p].
Definition d_chunk (c : chunk) : list Z := dl (ch_bytes c) ++ [ch_skip c; dbool (ch_start c); dbool (ch_end c)].
Definition d_cevent (e : cevent) : list Z :=
  match e with CReasm dir chs => [1; dbool dir] ++ dflat d_chunk chs | CComplete => [2] end.
Definition d_event (e : event) : list Z :=
  match e with
  | ENew t k sid => [1; dn t] ++ d_key k ++ [dn sid]
  | ECall t sid c ev => [2; dn t; dn sid; dn c] ++ d_cevent ev
  | EProc t p c ck sid => [3; dn t] ++ d_pkt p ++ [dn c] ++ d_key ck ++ [dn sid]
  | EPanic t => [4; dn t]
  end.
Definition d_op (o : op) : list Z := match o with OPkt p => 1 :: d_pkt p | OFlush a => 2 :: dopt a end.
Definition d_pc (p : pc) : list Z :=
  match p with
  | PStart => [1]
  | PMiss pk => 2 :: d_pkt pk
  | PWant c (WPkt pk fwd) => [3; dn c; 1] ++ d_pkt pk ++ [dbool fwd]
  | PWant c (WFlush a r) => [3; dn c; 2] ++ dopt a ++ dnl r
  | PRemove c KNext => [4; dn c; 1]
  | PRemove c (KFlush a r tr) => [4; dn c; 2] ++ dopt a ++ dnl r ++ [dbool tr]
  | PRetry pk => 5 :: d_pkt pk
  | PRemove2 c a r => [6; dn c] ++ dopt a ++ dnl r
  | PDone => [7]
  | PPanic => [8]
  end.
Definition d_thread (th : thread) : list Z := d_pc (t_pc th) ++ dflat d_op (t_prog th).
Definition d_tag (t : tag) : Z :=
  match t with
  | TgRaceLost => 1 | TgBothDir => 2 | TgCloseLL => 3 | TgRecycle => 4 | TgStale => 5 | TgRetry => 6
  | TgFlushStale => 7 | TgTrail => 8 | TgAgeFlush => 9
  end.

Definition d_conn {cstate} (dst : cstate -> list Z) (c : conn cstate) : list Z :=
  d_key (c_key c) ++ [dn (c_stream c)] ++ dst (c_st c) ++ (match c_lock c with None => [0] | Some t => [1; dn t] end).
Definition d_state {cstate} (dst : cstate -> list Z) (s : state cstate) : list Z :=
  dflat (fun e : key * nat => d_key (fst e) ++ [dn (snd e)]) (s_conns s)
  ++ dnl (s_free s) ++ dflat (d_conn dst) (s_objs s) ++ [dn (s_nsid s)] ++ dnl (s_kept s)
  ++ dflat d_thread (s_thr s) ++ dflat d_event (s_log s) ++ dl (map d_tag (s_tags s)).

Definition d_tpage (p : tpage) : list Z := [tp_seq p] ++ dl (tp_bytes p) ++ [dbool (tp_end p); tp_seen p].
Definition d_tconn (c : tconn) : list Z :=
  dopt (tc_next c) ++ dflat d_tpage (tc_q c) ++ [dbool (tc_closed c); tc_last c].
Definition d_rpage (p : rpage) : list Z := [rp_seq p] ++ dl (rp_bytes p) ++ [dbool (rp_end p); rp_seen p].
Definition d_half (h : half) : list Z := dopt (h_next h) ++ dflat d_rpage (h_q h) ++ [dbool (h_closed h); h_last h].
Definition d_rconn (c : rconn) : list Z := d_half (r_c2s c) ++ d_half (r_s2c c) ++ [dbool (r_unsup c)].

(* the digest of the final state of a whole case (schedule, default continuation, final FlushAll)
   followed by the "race seen" flag *)
Definition c12_digest_tcp (g : config) (fuel : nat) (progs : list (list op)) (sched : list nat) : list Z :=
  let '(s, raced) := run_tcp g fuel progs sched in d_state d_tconn s ++ [dbool raced].
Definition c12_digest_rsm (g : config) (fuel : nat) (progs : list (list op)) (sched : list nat) : list Z :=
  let '(s, raced) := run_rsm g fuel progs sched in d_state d_rconn s ++ [dbool raced].
