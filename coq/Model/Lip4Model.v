(* Lip4 — executable model of layers/ip4.go (IPv4 header codec).  Definitions only.
   Transcribed from /repo/layers/ip4.go (line numbers of the unchanged file):
     getIPv4OptionSize :79-99, SerializeTo :103-169, flagsfrags :171-175,
     DecodeFromBytes :178-271, NextLayerType :277-282, checkIPv4Address/AddressTo4 :295-321,
     NetworkFlow :63-65 (+ flows.go:214-224 NewFlow's panic condition).
   `fixed = true` is the code after the four `fix:` commits of branch agent-lnet4 of /repo
   (Padding reset; options area zeroed; option lists longer than 40 bytes refused; option
   length checked before the option header is written);
   `fixed = false` is the unchanged code (`*_orig`).
   Machine integers: uint8/uint16 wraps are written out (mod 256 / mod 65536); `x & 0x0F` is
   `x mod 16`, `x >> k` is `x / 2^k`, `x & 0x1FFF` is `x mod 8192` (x >= 0); `|` is Z.lor.
   Slices are checked against len (stricter than Go's cap, see Codec.v). *)
From GP Require Import Base Codec.
Open Scope Z_scope.

Record ip4opt := mkOpt { ot : Z; ol : Z; od : list Z }.

Record ip4 := mkIp4 {
  i4_contents : list Z; i4_payload : list Z;
  i4_version : Z; i4_ihl : Z; i4_tos : Z; i4_length : Z; i4_id : Z; i4_flags : Z; i4_frag : Z;
  i4_ttl : Z; i4_proto : Z; i4_csum : Z; i4_src : list Z; i4_dst : list Z;
  i4_opts : list ip4opt; i4_padding : list Z }.

(* &layers.IPv4{} *)
Definition ip4_fresh : ip4 := mkIp4 [] [] 0 0 0 0 0 0 0 0 0 0 [] [] [] [].

Definition set_len_ihl (l : ip4) (len ihl : Z) : ip4 :=
  mkIp4 (i4_contents l) (i4_payload l) (i4_version l) ihl (i4_tos l) len (i4_id l) (i4_flags l)
        (i4_frag l) (i4_ttl l) (i4_proto l) (i4_csum l) (i4_src l) (i4_dst l) (i4_opts l) (i4_padding l).
Definition set_opts_pad (l : ip4) (opts : list ip4opt) (pad : list Z) : ip4 :=
  mkIp4 (i4_contents l) (i4_payload l) (i4_version l) (i4_ihl l) (i4_tos l) (i4_length l) (i4_id l) (i4_flags l)
        (i4_frag l) (i4_ttl l) (i4_proto l) (i4_csum l) (i4_src l) (i4_dst l) opts pad.
Definition set_cp (l : ip4) (c p : list Z) : ip4 :=
  mkIp4 c p (i4_version l) (i4_ihl l) (i4_tos l) (i4_length l) (i4_id l) (i4_flags l)
        (i4_frag l) (i4_ttl l) (i4_proto l) (i4_csum l) (i4_src l) (i4_dst l) (i4_opts l) (i4_padding l).
Definition set_addrs (l : ip4) (s d : list Z) : ip4 :=
  mkIp4 (i4_contents l) (i4_payload l) (i4_version l) (i4_ihl l) (i4_tos l) (i4_length l) (i4_id l) (i4_flags l)
        (i4_frag l) (i4_ttl l) (i4_proto l) (i4_csum l) s d (i4_opts l) (i4_padding l).
Definition set_csum (l : ip4) (c : Z) : ip4 :=
  mkIp4 (i4_contents l) (i4_payload l) (i4_version l) (i4_ihl l) (i4_tos l) (i4_length l) (i4_id l) (i4_flags l)
        (i4_frag l) (i4_ttl l) (i4_proto l) c (i4_src l) (i4_dst l) (i4_opts l) (i4_padding l).

(* ------------------------------------------------------------------ decoding *)

(* result of the option loop :219-256 *)
Record optparse := mkOP {
  op_opts : list ip4opt;          (* options appended so far *)
  op_pad : option (list Z);       (* Some p: `ip.Padding = p` was executed (end-of-options seen) *)
  op_out : outcome unit;
  op_tr : bool }.                 (* df.SetTruncated() called *)

Definition op_cons (o : ip4opt) (r : optparse) : optparse :=
  mkOP (o :: op_opts r) (op_pad r) (op_out r) (op_tr r).

Definition ip4_fuel_err : Z := 99.

(* `for len(headerOptionsData) > 0 { ... }`; every iteration consumes >= 1 byte, fuel = len+1 *)
Fixpoint ip4_parse_opts (fuel : nat) (hd : list Z) : optparse :=
  match fuel with
  | O => mkOP [] None (Err ip4_fuel_err) false
  | S f =>
    match hd with
    | [] => mkOP [] None (Ok tt) false
    | t :: rest =>
      if t =? 0 then                                   (* :228-233 *)
        mkOP [mkOpt 0 1 []] (Some rest) (Ok tt) false
      else if t =? 1 then                              (* :234-237 *)
        op_cons (mkOpt 1 1 []) (ip4_parse_opts f rest)
      else
        match rest with
        | [] => mkOP [] None (Err 6) true              (* :239-242 *)
        | len :: _ =>
          if zlen hd <? len then mkOP [] None (Err 7) true       (* :245-248 *)
          else if len <=? 2 then mkOP [] None (Err 8) false      (* :249-251 *)
          else
            match cd_slc hd 2 len, cd_slc hd len (zlen hd) with  (* :252-253 *)
            | Ok d, Ok rest' => op_cons (mkOpt t len d) (ip4_parse_opts f rest')
            | Panic s, _ => mkOP [] None (Panic s) false
            | _, Panic s => mkOP [] None (Panic s) false
            | _, _ => mkOP [] None (Err 98) false                (* cd_slc never returns Err *)
            end
        end
    end
  end.

Definition dbind {A} (o : outcome A) (st : ip4) (tr : bool)
    (f : A -> ip4 * outcome unit * bool) : ip4 * outcome unit * bool :=
  match o with Ok v => f v | Err c => (st, Err c, tr) | Panic s => (st, Panic s, tr) end.

Definition ip4_decode_gen (fixed : bool) (old : ip4) (data : list Z) : ip4 * outcome unit * bool :=
  let n := zlen data in
  if n <? 20 then (old, Err 1, true) else                            (* :179-182 *)
  dbind (cd_rd16 data 2) old false (fun len0 =>                      (* :184 *)
  dbind (cd_idx data 0) old false (fun b0 =>                         (* :185 *)
  let ihl := b0 mod 16 in
  let len1 := if len0 =? 0 then n mod 65536 else len0 in             (* :189-193 uint16(len(data)) *)
  let l1 := set_len_ihl old len1 ihl in
  if len1 <? 20 then (l1, Err 2, false) else                         (* :195 *)
  if ihl <? 5 then (l1, Err 3, false) else                           (* :197 *)
  if (ihl * 4) mod 256 >? len1 then (l1, Err 4, false) else          (* :199 uint8 product *)
  let cmp := n - len1 in
  dbind (if cmp >? 0 then cd_slc data 0 len1 else Ok data) l1 false (fun data1 =>   (* :203-204 *)
  let tr := cmp <? 0 in
  if tr && (ihl * 4 >? zlen data1) then (l1, Err 5, true) else       (* :205-210 *)
  let hl := (ihl * 4) mod 256 in
  (* :212 Options = Options[:0]; fixed: Padding = nil *)
  let l2 := set_opts_pad l1 [] (if fixed then [] else i4_padding l1) in
  dbind (cd_slc data1 0 hl) l2 tr (fun contents =>                   (* :213 *)
  dbind (cd_slc data1 hl (zlen data1)) (set_cp l2 contents (i4_payload l2)) tr (fun payload =>   (* :214 *)
  let l3 := set_cp l2 contents payload in
  dbind (cd_slc data1 20 hl) l3 tr (fun hod =>                       (* :217 *)
  let r := ip4_parse_opts (S (length hod)) hod in                    (* :219-256 *)
  let pad := match op_pad r with Some p => p | None => i4_padding l3 end in
  let l4 := set_opts_pad l3 (op_opts r) pad in
  let tr' := tr || op_tr r in
  match op_out r with
  | Err c => (l4, Err c, tr')
  | Panic s => (l4, Panic s, tr')
  | Ok _ =>
    dbind (cd_rd16 data1 6) l4 tr' (fun ff =>                        (* :258 *)
    dbind (cd_idx data1 0) l4 tr' (fun v0 =>                         (* :259 *)
    dbind (cd_idx data1 1) l4 tr' (fun tos =>
    dbind (cd_rd16 data1 4) l4 tr' (fun id =>
    dbind (cd_idx data1 8) l4 tr' (fun ttl =>
    dbind (cd_idx data1 9) l4 tr' (fun proto =>
    dbind (cd_rd16 data1 10) l4 tr' (fun ck =>
    dbind (cd_slc data1 12 16) l4 tr' (fun src =>
    dbind (cd_slc data1 16 20) l4 tr' (fun dst =>
    (mkIp4 contents payload (v0 / 16) ihl tos len1 id (ff / 8192) (ff mod 8192) ttl proto ck
           src dst (op_opts r) pad, Ok tt, tr'))))))))))
  end)))))).

Definition ip4_decode_into : ip4 -> list Z -> ip4 * outcome unit * bool := ip4_decode_gen true.
Definition ip4_decode_into_orig : ip4 -> list Z -> ip4 * outcome unit * bool := ip4_decode_gen false.

(* NextLayerType :277-282; abstract id: -1 = LayerTypeFragment, p >= 0 = IPProtocol(p).LayerType()
   (the protocol -> layer type table is not modelled) *)
Definition ip4_next (l : ip4) : Z :=
  if negb (i4_flags l mod 2 =? 0) || negb (i4_frag l =? 0) then -1 else i4_proto l.

(* ------------------------------------------------------------------ serialization *)

Definition opt_size1 (o : ip4opt) : Z := if (ot o =? 0) || (ot o =? 1) then 1 else ol o.

(* getIPv4OptionSize :79-99, uint8 arithmetic *)
Definition ip4_opt_size (opts : list ip4opt) : Z :=
  let s := fold_left (fun s o => (s + opt_size1 o) mod 256) opts 0 in
  if s mod 4 =? 0 then s else (s + (4 - s mod 4)) mod 256.

(* the same sum without wrap (fix: refuse more than 40 option bytes) *)
Definition ip4_opt_total (opts : list ip4opt) : Z :=
  fold_left (fun s o => s + opt_size1 o) opts 0.

(* net.IP.To4 + checkIPv4Address :295-303 *)
Definition ip4_to4 (a : list Z) : option (list Z) :=
  if zlen a =? 4 then Some a
  else if (zlen a =? 16) && forallb (fun x => x =? 0) (firstn 10 a)
          && (nth 10 a 0 =? 255) && (nth 11 a 0 =? 255) then Some (skipn 12 a)
  else None.

(* checked write: bytes[i : i+len vs] must be inside len(bytes) *)
Definition cd_wrc (b : list Z) (i : Z) (vs : list Z) : outcome (list Z) :=
  if (0 <=? i) && (i + zlen vs <=? zlen b) then Ok (cd_wr b i vs) else Panic 3.

(* option loop :128-157 over the array `bytes`, cur = curLocation.
   fixed: the `OptionLength < 2` guard precedes the two header writes (4th fix: commit). *)
Fixpoint ip4_ser_opts (fixed : bool) (opts : list ip4opt) (bytes : list Z) (cur : Z) : outcome (list Z) :=
  match opts with
  | [] => Ok bytes
  | o :: t =>
    if ot o =? 0 then obind (cd_wrc bytes cur [0]) (fun b => ip4_ser_opts fixed t b (cur + 1))
    else if ot o =? 1 then obind (cd_wrc bytes cur [1]) (fun b => ip4_ser_opts fixed t b (cur + 1))
    else
      if fixed && (ol o <? 2) then Err 20 else
      obind (cd_wrc bytes cur [ot o]) (fun b1 =>
      obind (cd_wrc b1 (cur + 1) [ol o]) (fun b2 =>
      if ol o <? 2 then Err 20                                      (* :146-148 *)
      else if zlen (od o) >? ol o - 2 then Err 21                   (* :151-153 *)
      else
        (* copy(bytes[cur+2:cur+ol], data): the slice expression is checked (against len here,
           against cap in Go), the copy writes len(data) bytes *)
        if cur + ol o <=? zlen b2
        then ip4_ser_opts fixed t (cd_wr b2 (cur + 2) (od o)) (cur + ol o)
        else Panic 11))
  end.

Definition ip4_fix_lengths (l : ip4) (optlen total : Z) : ip4 :=
  set_len_ihl l (total mod 65536) ((5 + optlen / 4) mod 256).

(* :113-168, everything after FixLengths; bytes0 = the region PrependBytes returned *)
Definition ip4_ser_body (fixed : bool) (l1 : ip4) (optlen : Z) (csum : bool) (payload bytes0 : list Z)
    : outcome (list Z) * ip4 :=
  let hdr :=
    obind (cd_wrc bytes0 0 [Z.lor ((i4_version l1 * 16) mod 256) (i4_ihl l1)]) (fun b =>   (* :113 *)
    obind (cd_wrc b 1 [i4_tos l1]) (fun b =>
    obind (cd_wrc b 2 (cd_put16 (i4_length l1))) (fun b =>
    obind (cd_wrc b 4 (cd_put16 (i4_id l1))) (fun b =>
    obind (cd_wrc b 6 (cd_put16 (Z.lor ((i4_flags l1 * 8192) mod 65536) (i4_frag l1)))) (fun b =>  (* :117,:171-175 *)
    obind (cd_wrc b 8 [i4_ttl l1]) (fun b =>
    cd_wrc b 9 [i4_proto l1])))))) in
  match hdr with
  | Err c => (Err c, l1) | Panic s => (Panic s, l1)
  | Ok b =>
    match ip4_to4 (i4_src l1), ip4_to4 (i4_dst l1) with                 (* :120-122, :305-321 *)
    | Some s4, Some d4 =>
      let l2 := set_addrs l1 s4 d4 in
      let body :=
        obind (cd_wrc b 12 s4) (fun b =>                                (* :123 *)
        obind (cd_wrc b 16 d4) (fun b =>                                (* :124 *)
        (* fix: zero the options area (padding, short option data) *)
        let b := if fixed then cd_wr b 20 (repeat 0 (Z.to_nat optlen)) else b in
        obind (ip4_ser_opts fixed (i4_opts l2) b 20) (fun b =>          (* :126-157 *)
        if csum then
          obind (cd_wrc b 10 [0]) (fun b =>                             (* :161-162 *)
          obind (cd_wrc b 11 [0]) (fun b =>
          let ck := cd_fold (cd_csum b 0) in                            (* :164-165 *)
          obind (cd_wrc b 10 (cd_put16 ck)) (fun b => Ok (b, ck))))     (* :167 *)
        else obind (cd_wrc b 10 (cd_put16 (i4_csum l2))) (fun b => Ok (b, i4_csum l2))))) in
      match body with
      | Ok (b, ck) => (Ok (b ++ payload), set_csum l2 ck)
      | Err c => (Err c, l2)
      | Panic s => (Panic s, l2)
      end
    | _, _ => (Err 31, l1)
    end
  end.

Definition ip4_serialize_gen (fixed : bool) (l : ip4) (payload : list Z) (fixl csum : bool)
    (junk : list Z) : outcome (list Z) * ip4 :=
  if fixed && (ip4_opt_total (i4_opts l) >? 40) then (Err 30, l) else   (* fix: > 40 option bytes *)
  let optlen := ip4_opt_size (i4_opts l) in                             (* :104 *)
  let n := 20 + optlen in
  let bytes0 := cd_region n junk in                                     (* :105 PrependBytes *)
  let l1 := if fixl then ip4_fix_lengths l optlen (n + zlen payload) else l in   (* :109-112 *)
  ip4_ser_body fixed l1 optlen csum payload bytes0.

Definition ip4_serialize := ip4_serialize_gen true.
Definition ip4_serialize_orig := ip4_serialize_gen false.

(* ------------------------------------------------------------------ renderers *)
(* gopacket.LayerString/LayerDump/LayerGoString are reflective and total on non-nil layers;
   IPv4Option.String and IPv4Flag.String are total.  The only panic condition among the
   read-only accessors is NetworkFlow -> gopacket.NewFlow (flows.go:217): an address longer
   than MaxEndpointSize = 16. *)
Definition ip4_render_panics (l : ip4) : bool :=
  (zlen (i4_src l) >? 16) || (zlen (i4_dst l) >? 16).

(* ------------------------------------------------------------------ runner entry points *)
Definition ip4_dec2 (a b : list Z) : ip4 * outcome unit * bool :=
  let '(l, _, _) := ip4_decode_into ip4_fresh a in ip4_decode_into l b.
