(* Lague — executable model of layers/ague_var0.go (Generic UDP Encapsulation variant 0 header codec) as repaired
   (fixer: header and extension length checks).  Definitions only.
   /repo/layers/ague_var0.go: LayerContents :38-51, SerializeTo :59-67, DecodeFromBytes :75-93, NextLayerType :96-98
   (l.Protocol.LayerType(): the IPProtocol metadata table, abstract — the id is the protocol number).
   AGUEVar0 has no BaseLayer: LayerContents() re-encodes the fields, LayerPayload() is Data.  Value receivers:
   SerializeTo cannot change the layer; no length or checksum fields to fix. *)
From GP Require Import Base Codec MiscLib.
Open Scope Z_scope.

Record ague := mkAg { ag_version : Z; ag_c : bool; ag_proto : Z; ag_flags : Z; ag_ext : list Z; ag_data : list Z }.
Definition ag_fresh : ague := mkAg 0 false 0 0 [] [].

Definition ag_decode_into (old : ague) (data : list Z) : ague * outcome unit * bool :=
  let n := zlen data in
  if n <? 4 then (old, Err 1, true) else                                  (* :76-79 *)
  ml_bind (cd_idx data 0) old false (fun b0 =>
  ml_bind (cd_idx data 1) old false (fun pr =>
  ml_bind (cd_idx data 2) old false (fun f0 =>
  ml_bind (cd_idx data 3) old false (fun f1 =>
  let l1 := mkAg (b0 / 64) ((b0 / 32) mod 2 =? 1) pr (f0 * 256 + f1) (ag_ext old) (ag_data old) in   (* :80-83 *)
  let hlen := b0 mod 32 in                                                (* :84 *)
  if n <? 4 + hlen then (l1, Err 2, true) else                            (* :85-88 *)
  ml_bind (cd_slc data 4 (4 + hlen)) l1 false (fun e =>                   (* :89 *)
  ml_bind (cd_slc data (4 + hlen) n) l1 false (fun d =>                   (* :90 *)
  (mkAg (b0 / 64) ((b0 / 32) mod 2 =? 1) pr (f0 * 256 + f1) e d, Ok tt, false))))))).

Definition ag_next (l : ague) : Z := ag_proto l.                          (* :96-98 *)

(* LayerContents :38-51.  hlen := uint8(len(Extensions)); b[0] = Version<<6 | hlen (uint8 arithmetic), |= 0x20 for C,
   |= hlen again; then Protocol, Flags big-endian, then all of Extensions appended *)
Definition ag_b0 (l : ague) : Z :=
  let hlen := zlen (ag_ext l) mod 256 in
  Z.lor (Z.lor (Z.lor ((ag_version l * 64) mod 256) hlen) (if ag_c l then 32 else 0)) hlen.
Definition ag_hdr (l : ague) : list Z :=
  [ag_b0 l; ag_proto l mod 256; (ag_flags l / 256) mod 256; ag_flags l mod 256] ++ ag_ext l.

(* SerializeTo :59-67: PrependBytes(len(b)) then copy *)
Definition ag_serialize (l : ague) (payload : list Z) (fixl csum : bool) (junk : list Z) : outcome (list Z) * ague :=
  match ml_copy (cd_region (zlen (ag_hdr l)) junk) 0 (ag_hdr l) with
  | Ok b => (Ok (b ++ payload), l) | Err c => (Err c, l) | Panic s => (Panic s, l)
  end.

Definition ag_render_panics (l : ague) : bool := false.
