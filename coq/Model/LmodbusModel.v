(* Lmodbus — executable model of layers/modbustcp.go (Modbus/TCP MBAP header decoder).  Definitions only.
   /repo/layers/modbustcp.go: DecodeFromBytes :104-131, NextLayerType :141-143 (LayerTypePayload), Payload() :148-150.
   No SerializeTo (C06/C07 n/a). *)
From GP Require Import Base Codec MiscLib.
Open Scope Z_scope.
Record modbus := mkMb { mb_contents : list Z; mb_payload : list Z; mb_tid : Z; mb_pid : Z; mb_length : Z; mb_unit : Z }.
Definition mb_fresh : modbus := mkMb [] [] 0 0 0 0.
Definition mb_decode_into (old : modbus) (data : list Z) : modbus * outcome unit * bool :=
  let n := zlen data in
  if n <? 9 then (old, Err 1, true) else                                  (* :105-108 7 + 2 *)
  if 260 <? n then (old, Err 2, true) else                                (* :110-113 7 + 253 *)
  ml_bind (cd_slc data 0 7) old false (fun c =>                           (* :118 *)
  ml_bind (cd_slc data 7 n) old false (fun p =>
  ml_bind (cd_rd16 data 0) old false (fun tid =>                          (* :121 *)
  ml_bind (cd_rd16 data 2) old false (fun pid =>                          (* :122 *)
  ml_bind (cd_rd16 data 4) old false (fun len =>                          (* :123 *)
  let l1 := mkMb c p tid pid len (mb_unit old) in
  if negb (len =? (zlen p + 1) mod 65536) then (l1, Err 3, true) else     (* :124-127 *)
  ml_bind (cd_idx data 6) l1 false (fun u =>                              (* :128 *)
  (mkMb c p tid pid len u, Ok tt, false))))))).
Definition mb_next (l : modbus) : Z := 0.
Definition mb_render_panics (l : modbus) : bool := false.
