(* Ldot11data / Ldot11ctrl — executable model of the 802.11 data and control sub-layers of layers/dot11.go
   (agent-ldot11 branch).  None of them decodes a field; there are three decoder shapes:
     KContents  Dot11Ctrl.DecodeFromBytes :1312-1315 (and the nine control types :1731-1878 that delegate to it),
                Dot11WEP.DecodeFromBytes :1332-1335:             m.Contents = data
     KPayload   Dot11Data.DecodeFromBytes :1353-1356 (and the seven plain data types :1363-1472):   m.Payload = data
     KBase      Dot11DataQOS.DecodeFromBytes :1478-1481 (the seven QoS data types):  m.BaseLayer = BaseLayer{Payload: data}
   No SerializeTo, no String.  The chain is what decodeDot11 :1008-1019 and the packet loop make of a whole frame:
   Dot11, its DataLayer, then the layers chosen by NextLayerType as long as they are of these kinds. *)
From GP Require Import Base Codec MiscLib Ldot11Model.
Open Scope Z_scope.

Record sub := mkSub { sb_contents : list Z; sb_payload : list Z }.
Definition sb_fresh : sub := mkSub [] [].
Inductive sbkind := KContents | KPayload | KBase.

Definition sb_decode_into (k : sbkind) (old : sub) (data : list Z) : sub * outcome unit * bool :=
  match k with
  | KContents => (mkSub data (sb_payload old), Ok tt, false)
  | KPayload => (mkSub (sb_contents old) data, Ok tt, false)
  | KBase => (mkSub [] data, Ok tt, false)
  end.
Definition sb_render_panics (l : sub) : bool := false.

(* control types with a registered decoder (layers/enums.go:423-432) *)
Definition sb_ctrl_registered (ty : Z) : bool :=
  existsb (Z.eqb ty) [1; 29; 33; 37; 41; 45; 49; 53; 57; 61].

(* a layer of the chain: code (0 = Dot11; 100+type = the layer Dot11Type.LayerType() names; 200+type = the layer the QoS data
   layer of that type names next; 300 = Dot11WEP), len(Contents), len(Payload) *)
Definition sb_chain (data : list Z) : list (Z * Z * Z) * bool (* something follows *) :=
  match d11_decode_into d11_fresh data with
  | (d, Ok _, _) =>
    let p := d_payload d in let n := zlen p in let ty := d_type d in
    let l0 := (0, zlen (d_contents d), n) in
    if d_data d then
      let dl := (100 + ty, 0, n) in                                                (* the DataLayer: a new object, Payload = payload *)
      if n =? 0 then ([l0; dl], false) else
      if bitb (d_flags d) 6 then ([l0; dl; (300, n, 0)], false) else               (* Dot11WEP: Contents = payload, nothing follows *)
      if d11_is_qos ty then ([l0; dl; (200 + ty, 0, n)], true)                     (* then LLC *)
      else ([l0; dl], true)                                                        (* LLC *)
    else
      if n =? 0 then ([l0], false) else
      if (ty mod 4 =? 1) && sb_ctrl_registered ty then ([l0; (100 + ty, n, 0)], false)
      else ([l0], true)                                                            (* a management body, or no decoder: failure layer *)
  | (_, _, _) => ([], true)                                                        (* DecodeFailure *)
  end.
