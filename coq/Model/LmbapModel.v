(* Lmbap — executable model of layers/modbus.go (the Modbus layer: MBAP header, function code, request/response data)
   and of layers/base.go decodingLayerDecoder, through which the registered decoder decodeModbus runs it.
   Definitions only.  /repo/layers/modbus.go: DecodeFromBytes :173-193, NextLayerType :199-201 (LayerTypeZero),
   decodeModbus :207-214, Validate :217-227, GetExceptionCode :241-246; /repo/layers/base.go:38-49 decodingLayerDecoder.
   No SerializeTo (C06/C07 n/a).  (layers/modbustcp.go, the older ModbusTCP layer, is Lmodbus.) *)
From GP Require Import Base Codec MiscLib.
Open Scope Z_scope.

Record mbap := mkMbap { mq_contents : list Z; mq_payload : list Z; mq_tid : Z; mq_pid : Z; mq_length : Z; mq_unit : Z;
                        mq_fc : Z; mq_exc : bool; mq_reqresp : list Z }.
Definition mq_fresh : mbap := mkMbap [] [] 0 0 0 0 0 false [].

Definition mq_decode_into (old : mbap) (data : list Z) : mbap * outcome unit * bool :=
  let n := zlen data in
  if n <? 8 then (old, Err 1, true) else                                  (* :174-177 *)
  ml_bind (cd_rd16 data 0) old false (fun tid =>                          (* :178 *)
  ml_bind (cd_rd16 data 2) old false (fun pid =>
  ml_bind (cd_rd16 data 4) old false (fun len =>
  ml_bind (cd_idx data 6) old false (fun u =>
  ml_bind (cd_idx data 7) old false (fun fc =>                            (* :182 *)
  let l1 := mkMbap (mq_contents old) (mq_payload old) tid pid len u fc (fc / 128 =? 1) (mq_reqresp old) in   (* :183 *)
  let e := len + 6 in                                                     (* :184 *)
  if (n <? e) || (e <? 8) then (l1, Err 2, true) else                     (* :185-188 *)
  ml_bind (cd_slc data 8 e) l1 false (fun rr =>                           (* :189 *)
  ml_bind (cd_slc data 0 e) l1 false (fun c =>                            (* :190 *)
  ml_bind (cd_slc data e n) l1 false (fun p =>                            (* :191 *)
  (mkMbap c p tid pid len u fc (fc / 128 =? 1) rr, Ok tt, false))))))))).

Definition mq_next (l : mbap) : Z := 0.                                   (* :199-201 LayerTypeZero *)

(* base.go:38-49 decodingLayerDecoder for any DecodingLayer: decode into the given object with the packet builder as
   feedback; on success add the layer and hand the next layer type (0 = LayerTypeZero: nothing) to NextDecoder.
   Result: the object, whether it was added, the next decoder asked for, outcome, truncated flag. *)
Definition dld_run {T : Type} (dec : T -> list Z -> T * outcome unit * bool) (next : T -> Z) (obj : T) (data : list Z)
    : T * bool * option Z * outcome unit * bool :=
  let '(l, o, tr) := dec obj data in
  match o with
  | Ok _ => let nx := next l in (l, true, if nx =? 0 then None else Some nx, Ok tt, tr)   (* :43-48 *)
  | _ => (l, false, None, o, tr)                                                           (* :40-42 *)
  end.

(* decodeModbus :207-214 *)
Definition mq_decode_fn (data : list Z) : mbap * bool * option Z * outcome unit * bool :=
  if zlen data <? 8 then (mq_fresh, false, None, Err 3, true)             (* :208-211 *)
  else dld_run mq_decode_into mq_next mq_fresh data.                      (* :212-213 *)

(* accessors: Validate :217-227 (0 = nil, 1 = invalid protocol, 2 = length mismatch), GetExceptionCode :241-246 *)
Definition mq_validate (l : mbap) : Z :=
  if negb (mq_pid l =? 0) then 1 else if negb (mq_length l =? 2 + zlen (mq_reqresp l)) then 2 else 0.
Definition mq_exc_code (l : mbap) : outcome Z :=
  if negb (mq_exc l) || (zlen (mq_reqresp l) =? 0) then Ok 0 else cd_idx (mq_reqresp l) 0.
Definition mq_render_panics (l : mbap) : bool := is_panic (mq_exc_code l).
