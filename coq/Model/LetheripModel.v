(* Letherip — executable model of layers/etherip.go (EtherIP header decoder).  Definitions only.
   /repo/layers/etherip.go: DecodeFromBytes :27-37, NextLayerType :44-46 (LayerTypeEthernet).  No SerializeTo. *)
From GP Require Import Base Codec MiscLib.
Open Scope Z_scope.
Record etherip := mkEi { ei_contents : list Z; ei_payload : list Z; ei_version : Z; ei_reserved : Z }.
Definition ei_fresh : etherip := mkEi [] [] 0 0.
Definition ei_decode_into (old : etherip) (data : list Z) : etherip * outcome unit * bool :=
  let n := zlen data in
  if n <? 2 then (old, Err 1, true) else                                  (* :28-31 *)
  ml_bind (cd_idx data 0) old false (fun b0 =>                            (* :32 data[0] >> 4 *)
  ml_bind (cd_rd16 data 0) old false (fun w =>                            (* :33 & 0x0fff *)
  ml_bind (cd_slc data 0 2) old false (fun c =>                           (* :34 *)
  ml_bind (cd_slc data 2 n) old false (fun p =>
  (mkEi c p (b0 / 16) (w mod 4096), Ok tt, false))))).
Definition ei_next (l : etherip) : Z := 0.
Definition ei_render_panics (l : etherip) : bool := false.
