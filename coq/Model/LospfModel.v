(* Lospf — executable model of layers/ospf.go (as repaired): OSPFv2.DecodeFromBytes :542-660, OSPFv3.DecodeFromBytes
   :662-772, getLSAsv2 :247-279, getLSAs :506-540, extractLSAInformation :281-504 (all LSA body types),
   NextLayerType :781-786 (LayerTypeZero).  Definitions only.  The layers have no SerializeTo (C06, C07 do not
   apply) and never assign BaseLayer (Contents/Payload stay what they were).
   Content (an interface{} holding one of 16 struct/slice types) is modelled as a tagged tree `cval`; the tags
   are listed beside each constructor use.  uint32 offsets (getLSAs, extractLSAInformation) are not wrapped: they
   stay below len(data) + 2^16.  `rc` = the repaired code resets Content first (false: the original). *)
From GP Require Import Base Codec MiscLib MidLib.
Open Scope Z_scope.

Inductive cval : Type := CNil | CN (n : Z) | CB (b : list Z) | CL (l : list cval).

Record ospf := mkOs {
  os_contents : list Z; os_payload : list Z; os_version : Z; os_type : Z; os_plen : Z; os_rid : Z; os_aid : Z;
  os_csum : Z; os_autype : Z; os_auth : Z; os_inst : Z; os_rsv : Z; os_content : cval }.
Definition os_fresh : ospf := mkOs [] [] 0 0 0 0 0 0 0 0 0 0 CNil.

Definition os_rd64 (l : list Z) (i : Z) : outcome Z :=
  obind (ml_rd32 l i) (fun a => obind (ml_rd32 l (i + 4)) (fun b => Ok (a * 4294967296 + b))).
Definition m24 (x : Z) : Z := x mod 16777216.

(* `for i := start; i+step <= limit; i += step { rd(i) }` *)
Definition os_steps (data : list Z) (start step limit : Z) (rd : Z -> outcome cval) : outcome (list cval) :=
  md_loop (S (length data)) (fun i => if i + step <=? limit then obind (rd i) (fun a => Ok (Some (a, i + step))) else Ok None) start.

(* `for j = 24; j < n; j += step { if short(j+step) { return err }; rd(j) }` (extractLSAInformation) *)
Definition os_body_steps (data : list Z) (step : Z) (rd : Z -> outcome cval) : outcome (list cval) :=
  md_loop (S (length data)) (fun j => if j <? zlen data then
      (if zlen data <? j + step then Err 30 else obind (rd j) (fun a => Ok (Some (a, j + step)))) else Ok None) 24.

(* LSAheader, struct order: LSAge LSType LinkStateID AdvRouter LSSeqNumber LSChecksum Length LSOptions *)
Definition os_hdr (v2 : bool) (data : list Z) (i : Z) : outcome cval :=
  obind (cd_rd16 data i) (fun age =>
  obind (if v2 then cd_idx data (i + 2) else Ok 0) (fun opts =>
  obind (if v2 then cd_idx data (i + 3) else cd_rd16 data (i + 2)) (fun ty =>
  obind (ml_rd32 data (i + 4)) (fun lsid => obind (ml_rd32 data (i + 8)) (fun adv =>
  obind (ml_rd32 data (i + 12)) (fun seq => obind (cd_rd16 data (i + 16)) (fun csum =>
  obind (cd_rd16 data (i + 18)) (fun len =>
  Ok (CL [CN age; CN ty; CN lsid; CN adv; CN seq; CN csum; CN len; CN opts]))))))))).

Definition os_lsreq (data : list Z) (i : Z) : outcome cval :=
  obind (cd_rd16 data (i + 2)) (fun ty => obind (ml_rd32 data (i + 4)) (fun id => obind (ml_rd32 data (i + 8)) (fun adv =>
  Ok (CL [CN ty; CN id; CN adv])))).

(* prefixes of LinkLSA (metric = false, advance 4 + len/8) and IntraAreaPrefixLSA (metric = true, advance 4 + len) :447-459, :478-491 *)
Definition os_prefixes (data : list Z) (num : Z) (po0 : Z) (intra : bool) : outcome (list cval) :=
  let n := zlen data in
  md_loop (S (length data)) (fun st : Z * Z => let (j, po) := st in
    if j <? num then
      if n <? po + 4 then Err 31 else
      obind (cd_idx data po) (fun pl =>
      if n <? po + 4 + pl / 8 then Err 31 else
      obind (cd_idx data (po + 1)) (fun popts =>
      obind (if intra then cd_rd16 data (po + 2) else Ok 0) (fun metric =>
      obind (cd_slc data (po + 4) (po + 4 + pl / 8)) (fun addr =>
      Ok (Some (CL [CN pl; CN popts; CN metric; CB addr], (j + 1, po + 4 + (if intra then pl else pl / 8))))))))
    else Ok None) (0, po0).

(* extractLSAInformation :281-504 *)
Definition os_extract (lstype lsalen : Z) (data0 : list Z) : outcome cval :=
  if lsalen <? 20 then Err 20 else                                                (* :282-284 *)
  if zlen data0 <? lsalen then Err 21 else                                        (* :285-287 *)
  obind (cd_slc data0 0 lsalen) (fun data =>                                      (* :288 *)
  let n := zlen data in
  let short := fun k => n <? k in
  if lstype =? 1 then                                                             (* RouterLSAtypeV2 :293-317 *)
    obind (os_body_steps data 12 (fun j =>
      obind (ml_rd32 data j) (fun lid => obind (ml_rd32 data (j + 4)) (fun ld => obind (cd_idx data (j + 8)) (fun ty =>
      obind (cd_rd16 data (j + 10)) (fun me => Ok (CL [CN ty; CN lid; CN ld; CN me]))))))) (fun routers =>
    if short 24 then Err 32 else
    obind (cd_rd16 data 22) (fun links => obind (cd_idx data 20) (fun fl =>
    Ok (CL [CN 11; CN fl; CN links; CL routers]))))
  else if (lstype =? 7) || (lstype =? 5) then                                     (* NSSA / ASExternal V2 :318-331 *)
    if short 36 then Err 33 else
    obind (ml_rd32 data 20) (fun mask => obind (cd_idx data 24) (fun b24 => obind (ml_rd32 data 24) (fun me =>
    obind (ml_rd32 data 28) (fun fwd => obind (ml_rd32 data 32) (fun tag =>
    Ok (CL [CN 12; CN mask; CN (b24 / 128 * 128); CN (m24 me); CN fwd; CN tag]))))))
  else if lstype =? 2 then                                                        (* NetworkLSAtypeV2 :332-347 *)
    obind (os_body_steps data 4 (fun j => obind (ml_rd32 data j) (fun r => Ok (CN r)))) (fun routers =>
    if short 24 then Err 34 else
    obind (ml_rd32 data 20) (fun mask => Ok (CL [CN 13; CN mask; CL routers])))
  else if lstype =? 8193 then                                                     (* RouterLSAtype 0x2001 :348-372 *)
    obind (os_body_steps data 16 (fun j =>
      obind (cd_idx data j) (fun ty => obind (cd_rd16 data (j + 2)) (fun me => obind (ml_rd32 data (j + 4)) (fun ifid =>
      obind (ml_rd32 data (j + 8)) (fun nif => obind (ml_rd32 data (j + 12)) (fun nr =>
      Ok (CL [CN ty; CN me; CN ifid; CN nif; CN nr])))))))) (fun routers =>
    if short 24 then Err 35 else
    obind (cd_idx data 20) (fun fl => obind (ml_rd32 data 20) (fun op =>
    Ok (CL [CN 14; CN fl; CN (m24 op); CL routers]))))
  else if lstype =? 8194 then                                                     (* NetworkLSAtype 0x2002 :373-388 *)
    obind (os_body_steps data 4 (fun j => obind (ml_rd32 data j) (fun r => Ok (CN r)))) (fun routers =>
    if short 24 then Err 36 else
    obind (ml_rd32 data 20) (fun op => Ok (CL [CN 15; CN (m24 op); CL routers])))
  else if lstype =? 8195 then                                                     (* InterAreaPrefixLSAtype 0x2003 :389-398 *)
    if short 28 then Err 37 else
    obind (ml_rd32 data 20) (fun me => obind (cd_idx data 24) (fun pl => obind (cd_idx data 25) (fun po =>
    obind (cd_slc data 28 lsalen) (fun pre => Ok (CL [CN 16; CN (m24 me); CN pl; CN po; CB pre])))))
  else if lstype =? 8196 then                                                     (* InterAreaRouterLSAtype 0x2004 :399-407 *)
    if short 32 then Err 38 else
    obind (ml_rd32 data 20) (fun op => obind (ml_rd32 data 24) (fun me => obind (ml_rd32 data 28) (fun dst =>
    Ok (CL [CN 17; CN (m24 op); CN (m24 me); CN dst]))))
  else if (lstype =? 16389) || (lstype =? 8199) then                              (* ASExternal 0x4005 / NSSA 0x2007 :408-434 *)
    if short 28 then Err 39 else
    obind (cd_idx data 20) (fun fl => obind (cd_idx data 24) (fun b24 =>
    let pl := b24 / 8 in
    if short (28 + pl) then Err 39 else
    obind (if (fl / 2) mod 2 =? 1 then (if short (28 + pl + 16) then Err 39 else cd_slc data (28 + pl) (28 + pl + 16)) else Ok []) (fun fwd =>
    obind (ml_rd32 data 20) (fun me => obind (cd_idx data 25) (fun po => obind (cd_rd16 data 26) (fun rt =>
    obind (cd_slc data 28 (28 + pl)) (fun pre =>
    Ok (CL [CN 18; CN fl; CN (m24 me); CN pl; CN po; CN rt; CB pre; CB fwd]))))))))
  else if lstype =? 8 then                                                        (* LinkLSAtype 0x0008 :435-467 *)
    if short 44 then Err 40 else
    obind (ml_rd32 data 40) (fun num =>
    obind (os_prefixes data num 44 false) (fun prefixes =>
    obind (cd_idx data 20) (fun pr => obind (ml_rd32 data 20) (fun op => obind (cd_slc data 24 40) (fun lla =>
    Ok (CL [CN 19; CN pr; CN (m24 op); CB lla; CN num; CL prefixes]))))))
  else if lstype =? 8201 then                                                     (* IntraAreaPrefixLSAtype 0x2009 :468-499 *)
    if short 32 then Err 41 else
    obind (cd_rd16 data 20) (fun num =>
    obind (os_prefixes data num 32 true) (fun prefixes =>
    obind (cd_rd16 data 22) (fun rt => obind (ml_rd32 data 24) (fun rid => obind (ml_rd32 data 28) (fun radv =>
    Ok (CL [CN 20; CN num; CN rt; CN rid; CN radv; CL prefixes]))))))
  else Err 42).                                                                   (* :500-502 *)

(* getLSAsv2 :247-279 / getLSAs :506-540 *)
Definition os_lsas (v2 : bool) (num : Z) (data : list Z) : outcome (list cval) :=
  let n := zlen data in
  md_loop (S (length data)) (fun st : Z * Z => let (i, off) := st in
    if i <? num then
      if off + 20 >? n then Err 50 else
      obind (if v2 then cd_idx data (off + 3) else cd_rd16 data (off + 2)) (fun lstype =>
      obind (cd_rd16 data (off + 18)) (fun lsalen =>
      obind (cd_slc data off n) (fun tail =>
      match os_extract lstype lsalen tail with
      | Panic s => Panic s
      | Err e => if e =? 99 then Err 99 else Err 51
      | Ok content =>
        obind (os_hdr v2 data off) (fun h => Ok (Some (CL [h; content], (i + 1, off + lsalen))))
      end)))
    else Ok None) (0, 0).

Definition os_set_content (l : ospf) (c : cval) : ospf :=
  mkOs (os_contents l) (os_payload l) (os_version l) (os_type l) (os_plen l) (os_rid l) (os_aid l) (os_csum l)
       (os_autype l) (os_auth l) (os_inst l) (os_rsv l) c.

Definition os_finish (l : ospf) (o : outcome cval) (tr : bool) : ospf * outcome unit * bool :=
  match o with
  | Ok c => (os_set_content l c, Ok tt, tr)
  | Err e => (l, Err e, tr)
  | Panic s => (l, Panic s, tr)
  end.

(* OSPFv2.DecodeFromBytes :542-660 *)
Definition os2_decode_gen (rc : bool) (old : ospf) (data : list Z) : ospf * outcome unit * bool :=
  let n := zlen data in
  if n <? 24 then (old, Err 1, false) else                                        (* :543-545 *)
  let c0 := if rc then CNil else os_content old in
  match cd_idx data 0, cd_idx data 1, cd_rd16 data 2, ml_rd32 data 4, ml_rd32 data 8, cd_rd16 data 12, cd_rd16 data 14, os_rd64 data 16 with
  | Ok ver, Ok ty, Ok pl, Ok rid, Ok aid, Ok cs, Ok au, Ok auth =>                (* :547-554 *)
    let l := mkOs (os_contents old) (os_payload old) ver ty pl rid aid cs au auth (os_inst old) (os_rsv old) c0 in
    if pl >? n then (l, Err 2, true) else                                         (* :555-558 *)
    if ((ty =? 1) && (n <? 44)) || ((ty =? 2) && (n <? 32)) || ((ty =? 4) && (n <? 28)) then (l, Err 3, true) else   (* :559-575 *)
    if ty =? 1 then                                                               (* Hello :578-595 *)
      os_finish l (obind (os_steps data 44 4 pl (fun i => obind (ml_rd32 data i) (fun r => Ok (CN r)))) (fun nb =>
        obind (ml_rd32 data 24) (fun mask => obind (cd_rd16 data 28) (fun hi => obind (cd_idx data 30) (fun op =>
        obind (cd_idx data 31) (fun pr => obind (ml_rd32 data 32) (fun dead => obind (ml_rd32 data 36) (fun dr =>
        obind (ml_rd32 data 40) (fun bdr =>
        Ok (CL [CN 1; CN 0; CN pr; CN op; CN hi; CN dead; CN dr; CN bdr; CL nb; CN mask])))))))))) false
    else if ty =? 2 then                                                          (* Database Description :596-617 *)
      os_finish l (obind (os_steps data 32 20 pl (os_hdr true data)) (fun lsas =>
        obind (cd_rd16 data 24) (fun mtu => obind (cd_idx data 26) (fun op => obind (cd_idx data 27) (fun fl =>
        obind (ml_rd32 data 28) (fun seq => Ok (CL [CN 3; CN op; CN mtu; CN fl; CN seq; CL lsas])))))))  false
    else if ty =? 3 then                                                          (* Link State Request :618-628 *)
      os_finish l (obind (os_steps data 24 12 pl (os_lsreq data)) (fun rs => Ok (CL [CN 4; CL rs]))) false
    else if ty =? 4 then                                                          (* Link State Update :629-639 *)
      os_finish l (obind (ml_rd32 data 24) (fun num => obind (cd_slc data 28 n) (fun rest =>
        obind (os_lsas true num rest) (fun lsas => Ok (CL [CN 5; CN num; CL lsas]))))) false
    else if ty =? 5 then                                                          (* Link State Acknowledgment :640-657 *)
      os_finish l (obind (os_steps data 24 20 pl (os_hdr true data)) (fun lsas => Ok (CL [CN 6; CL lsas]))) false
    else (l, Ok tt, false)
  | _, _, _, _, _, _, _, _ => (old, Panic 1, false)
  end.

(* OSPFv3.DecodeFromBytes :662-772 *)
Definition os3_decode_gen (rc : bool) (old : ospf) (data : list Z) : ospf * outcome unit * bool :=
  let n := zlen data in
  if n <? 16 then (old, Err 1, false) else                                        (* :664-666 *)
  let c0 := if rc then CNil else os_content old in
  match cd_idx data 0, cd_idx data 1, cd_rd16 data 2, ml_rd32 data 4, ml_rd32 data 8, cd_rd16 data 12, cd_idx data 14, cd_idx data 15 with
  | Ok ver, Ok ty, Ok pl, Ok rid, Ok aid, Ok cs, Ok inst, Ok rsv =>               (* :668-675 *)
    let l := mkOs (os_contents old) (os_payload old) ver ty pl rid aid cs (os_autype old) (os_auth old) inst rsv c0 in
    if pl >? n then (l, Err 2, true) else                                         (* :676-679 *)
    if ((ty =? 1) && (n <? 36)) || ((ty =? 2) && (n <? 28)) || ((ty =? 4) && (n <? 20)) then (l, Err 3, true) else   (* :680-696 *)
    if ty =? 1 then                                                               (* Hello :699-713 *)
      os_finish l (obind (os_steps data 36 4 pl (fun i => obind (ml_rd32 data i) (fun r => Ok (CN r)))) (fun nb =>
        obind (ml_rd32 data 16) (fun ifid => obind (cd_idx data 20) (fun pr => obind (ml_rd32 data 21) (fun op =>
        obind (cd_rd16 data 24) (fun hi => obind (cd_rd16 data 26) (fun dead => obind (ml_rd32 data 28) (fun dr =>
        obind (ml_rd32 data 32) (fun bdr =>
        Ok (CL [CN 2; CN ifid; CN pr; CN (op / 256); CN hi; CN dead; CN dr; CN bdr; CL nb])))))))))) false
    else if ty =? 2 then                                                          (* Database Description :714-735 *)
      os_finish l (obind (os_steps data 28 20 pl (os_hdr false data)) (fun lsas =>
        obind (ml_rd32 data 16) (fun op => obind (cd_rd16 data 20) (fun mtu => obind (cd_rd16 data 22) (fun fl =>
        obind (ml_rd32 data 24) (fun seq => Ok (CL [CN 3; CN (m24 op); CN mtu; CN fl; CN seq; CL lsas]))))))) false
    else if ty =? 3 then                                                          (* Link State Request :736-746 *)
      os_finish l (obind (os_steps data 16 12 pl (os_lsreq data)) (fun rs => Ok (CL [CN 4; CL rs]))) false
    else if ty =? 4 then                                                          (* Link State Update :747-757 *)
      os_finish l (obind (ml_rd32 data 16) (fun num => obind (cd_slc data 20 n) (fun rest =>
        obind (os_lsas false num rest) (fun lsas => Ok (CL [CN 5; CN num; CL lsas]))))) false
    else if ty =? 5 then                                                          (* Link State Acknowledgment :759-775 *)
      os_finish l (obind (os_steps data 16 20 pl (os_hdr false data)) (fun lsas => Ok (CL [CN 6; CL lsas]))) false
    else (l, Ok tt, false)
  | _, _, _, _, _, _, _, _ => (old, Panic 1, false)
  end.

Definition os2_decode_into := os2_decode_gen true.
Definition os3_decode_into := os3_decode_gen true.
Definition os2_decode_into_orig := os2_decode_gen false.
Definition os3_decode_into_orig := os3_decode_gen false.

Definition os_next (l : ospf) : Z := 0.
(* LayerString/LayerDump/LayerGoString are reflective (Content is an interface holding plain structs and slices);
   OSPFType.String is a switch with a default *)
Definition os_render_panics (l : ospf) : bool := false.
