(* Lpktap — executable model of layers/pktap.go (Apple PKTAP v1 header decoder).  Definitions only.
   /repo/layers/pktap.go: NextLayerType :97-99, DecodeFromBytes :102-156.  No SerializeTo (C06/C07 n/a).
   `orig = true` is the code before the repair: data[:HeaderLength] is taken without comparing the header length with
   the data, which panics; repaired, a header length beyond the data is a truncation error. *)
From GP Require Import Base Codec MiscLib MiscLE.
Open Scope Z_scope.
Record pktap := mkPk { pk_contents : list Z; pk_payload : list Z; pk_hl : Z; pk_rt : Z; pk_dlt : Z; pk_ifname : list Z; pk_flags : Z;
  pk_pf : Z; pk_llh : Z; pk_llt : Z; pk_pid : Z; pk_cmd : list Z; pk_svc : Z; pk_iftype : Z; pk_ifunit : Z; pk_epid : Z; pk_ecmd : list Z }.
Definition pk_fresh : pktap := mkPk [] [] 0 0 0 [] 0 0 0 0 0 [] 0 0 0 0 [].
Definition pk_set_hl (l : pktap) hl := mkPk (pk_contents l) (pk_payload l) hl (pk_rt l) (pk_dlt l) (pk_ifname l) (pk_flags l)
  (pk_pf l) (pk_llh l) (pk_llt l) (pk_pid l) (pk_cmd l) (pk_svc l) (pk_iftype l) (pk_ifunit l) (pk_epid l) (pk_ecmd l).
Definition pk_set_rt (l : pktap) rt := mkPk (pk_contents l) (pk_payload l) (pk_hl l) rt (pk_dlt l) (pk_ifname l) (pk_flags l)
  (pk_pf l) (pk_llh l) (pk_llt l) (pk_pid l) (pk_cmd l) (pk_svc l) (pk_iftype l) (pk_ifunit l) (pk_epid l) (pk_ecmd l).
Definition pk_decode_gen (orig : bool) (old : pktap) (data : list Z) : pktap * outcome unit * bool :=
  let n := zlen data in
  if n <? 156 then (old, Err 1, false) else                                 (* :103-105 no SetTruncated *)
  ml_bind (ml_rd32le data 0) old false (fun hl =>
  let l1 := pk_set_hl old hl in
  if hl <? 156 then (l1, Err 2, false) else
  if negb orig && (n <? hl) then (l1, Err 4, true) else                     (* the repair *)
  ml_bind (ml_rd32le data 4) l1 false (fun rt =>
  let l2 := pk_set_rt l1 rt in
  if negb (rt =? 1) then (l2, Err 3, false) else
  (* the fields between here and the slicing at :153 are set one by one; only a panic can leave them half set,
     and what a panic leaves behind is not observed *)
  ml_bind (ml_rd32le data 8) l2 false (fun dlt =>
  ml_bind (cd_slc data 12 36) l2 false (fun ifn =>
  ml_bind (ml_rd32le data 36) l2 false (fun fl =>
  ml_bind (ml_rd32le data 40) l2 false (fun pf =>
  ml_bind (ml_rd32le data 44) l2 false (fun llh =>
  ml_bind (ml_rd32le data 48) l2 false (fun llt =>
  ml_bind (ml_rd32le data 52) l2 false (fun pid =>
  ml_bind (cd_slc data 56 76) l2 false (fun cmd =>
  ml_bind (ml_rd32le data 76) l2 false (fun svc =>
  ml_bind (ml_rd16le data 80) l2 false (fun ift =>
  ml_bind (ml_rd16le data 82) l2 false (fun ifu =>
  ml_bind (ml_rd32le data 84) l2 false (fun epid =>
  ml_bind (cd_slc data 88 108) l2 false (fun ecmd =>
  ml_bind (cd_slc data 0 hl) l2 false (fun c =>                             (* :153 data[:HeaderLength] *)
  ml_bind (cd_slc data hl n) l2 false (fun p =>
  (mkPk c p hl rt dlt (ml_cstr ifn) fl pf llh llt pid (ml_cstr cmd) svc ift ifu epid (ml_cstr ecmd), Ok tt, false)))))))))))))))))).
Definition pk_decode_into := pk_decode_gen false.
(* NextLayerType: LinkType(p.DLT).LayerType(); LinkType is uint16, so the DLT is taken modulo 65536; abstract id = that value *)
Definition pk_next (l : pktap) : Z := pk_dlt l mod 65536.
Definition pk_render_panics (l : pktap) : bool := false.
