(* Lip6 — executable model of gopacket's IPv6 layer: fixed header incl. jumbograms, hop-by-hop
   and destination-options extension headers with their TLV options.
   Transcribed from layers/ip6.go of the REPAIRED tree (fix: commits listed in known_findings.json);
   the differences of the unchanged code that carry a refuted theorem are kept as *_orig flags.
   Not modelled: IPv6Routing, IPv6Fragment, IPv6ExtensionSkipper; the "hop-by-hop layer already
   serialized" branch of IPv6.SerializeTo (ip6.go:164-172, the buffer's layer list is taken to
   contain no IPv6HopByHop).  No proofs in this file. *)
From GP Require Import Base N6Lib.
Open Scope Z_scope.

Definition dres6 (T : Type) : Type := (T * outcome unit * bool)%type.

(* ================================================================ TLV options *)

(* ipv6HeaderTLVOption (ip6.go:307-312) = IPv6HopByHopOption = IPv6DestinationOption *)
Record tlv := mkTlv {
  t_type : Z;            (* OptionType uint8 *)
  t_olen : Z;            (* OptionLength uint8 *)
  t_alen : Z;            (* ActualLength int *)
  t_data : list Z;       (* OptionData *)
  t_ax : Z; t_ay : Z }.  (* OptionAlignment [2]uint8: Xn+Y *)

(* decodeIPv6HeaderTLVOption (repaired: Pad1 needs one octet only).  Result and SetTruncated. *)
Definition tlv_decode (data : list Z) : outcome tlv * bool :=
  if n6_len data <? 1 then (Err 1, true)
  else
    match n6_idx data 0 with
    | None => (Panic 1, false)
    | Some t =>
        if t =? 0 then (Ok (mkTlv 0 0 1 [] 0 0), false)
        else if n6_len data <? 2 then (Err 1, true)
        else
          match n6_idx data 1 with
          | None => (Panic 2, false)
          | Some ol =>
              let al := ol + 2 in
              if n6_len data <? al then (Err 2, true)
              else
                match n6_slice data 2 al with
                | Some d => (Ok (mkTlv t ol al d 0 0), false)
                | None => (Panic 3, false)
                end
          end
    end.

(* the unchanged code asked for two octets before looking at the type *)
Definition tlv_decode_orig (data : list Z) : outcome tlv * bool :=
  if n6_len data <? 2 then (Err 1, true) else tlv_decode data.

(* ================================================================ extension headers *)

(* IPv6HopByHop / IPv6Destination: ipv6ExtensionBase (ip6.go:411-416) + Options *)
Record ext := mkExt {
  e_next : Z;            (* NextHeader *)
  e_hlen : Z;            (* HeaderLength uint8 *)
  e_alen : Z;            (* ActualLength int *)
  e_opts : list tlv;
  e_contents : list Z; e_payload : list Z }.

Definition ext_fresh : ext := mkExt 0 0 0 [] [] [].

(* the option loop of DecodeFromBytes (HopByHop 509-526, Destination 679-695, repaired: an option may
   not extend beyond the header).  offset grows by >= 1 per round and stays <= al <= len(data). *)
Fixpoint ext_loop (fuel : nat) (acc : list tlv) (offset : Z) (data : list Z) (al : Z) : dres6 (list tlv) :=
  match fuel with
  | O => (acc, Panic N6_FUEL, false)
  | S f =>
      if offset <? al then
        match n6_from data offset with
        | None => (acc, Panic 4, false)
        | Some rest =>
            match tlv_decode rest with
            | (Ok o, _) =>
                if al <? offset + t_alen o then (acc, Err 3, false)
                else ext_loop f (acc ++ [o]) (offset + t_alen o) data al
            | (Err e, tr) => (acc, Err e, tr)
            | (Panic s, _) => (acc, Panic s, false)
            end
        end
      else (acc, Ok tt, false)
  end.

(* kind of extension header: the unchanged IPv6Destination did not reset its Options *)
Definition ext_decode_gen (keep_old : bool) (old : ext) (data : list Z) : dres6 ext :=
  (* decodeIPv6ExtensionBase 418-432; on error the embedded base becomes the zero value and
     Options keeps its previous content *)
  if n6_len data <? 2 then (mkExt 0 0 0 (e_opts old) [] [], Err 1, true)
  else
    match n6_idx data 0, n6_idx data 1 with
    | Some nh, Some hl =>
        let al := hl * 8 + 8 in
        if n6_len data <? al then (mkExt 0 0 0 (e_opts old) [] [], Err 2, false)
        else
          match n6_slice data 0 al, n6_from data al with
          | Some c, Some p =>
              let start := if keep_old then e_opts old else [] in
              let '(os, r, tr) := ext_loop (S (length data)) start 2 data al in
              (mkExt nh hl al os c p, r, tr)
          | _, _ => (old, Panic 5, false)
          end
    | _, _ => (old, Panic 6, false)
    end.

Definition ext_decode_into := ext_decode_gen false.
Definition ext_decode_into_dst_orig := ext_decode_gen true.

(* serializeTLVOptionPadding 358-372: the octets written for a pad of the given length *)
Definition pad_seg (pad : Z) : list Z :=
  if pad <=? 0 then []
  else if pad =? 1 then [0]
  else [1; u8 (u8 pad - 2)] ++ repeat 0 (Z.to_nat (pad - 2)).

(* ipv6HeaderTLVOption.serializeTo 321-343 (repaired): the octets written and the option afterwards
   (FixLengths stores OptionLength) *)
Definition tlv_seg (fix_ : bool) (o : tlv) : list Z * tlv :=
  if t_type o =? 0 then ([0], o)
  else
    let ol := if fix_ then u8 (n6_len (t_data o)) else t_olen o in
    let o' := mkTlv (t_type o) ol (t_alen o) (t_data o) (t_ax o) (t_ay o) in
    let d := firstn (Z.to_nat ol) (t_data o) in
    ([u8 (t_type o); u8 ol] ++ d ++ repeat 0 (Z.to_nat ol - length d), o').

(* serializeIPv6HeaderTLVOptions 375-418: the segments written one after the other starting at
   buf[0], the options afterwards, and the final value of `length`.
   pad8_orig: the unchanged code's final pad  length % 8 . *)
Fixpoint tlvs_ser (pad8_orig : bool) (fix_ : bool) (os : list tlv) (length : Z)
  : list (list Z) * list tlv * Z :=
  match os with
  | [] =>
      if fix_ then
        let pad := if pad8_orig then length mod 8 else (8 - length mod 8) mod 8 in
        if pad =? 0 then ([], [], length) else ([pad_seg pad], [], length + pad)
      else ([], [], length)
  | o :: t =>
      let x := t_ax o in let y := t_ay o in
      let pad :=
        if fix_ && negb (x =? 0) then
          let n := length / x in
          let offset := x * n + y in
          let offset := if offset <? length then offset + x else offset in
          offset - length
        else 0 in
      let '(seg, o') := tlv_seg fix_ o in
      let '(segs, t', total) := tlvs_ser pad8_orig fix_ t (length + pad + n6_len seg) in
      ((if pad =? 0 then [] else [pad_seg pad]) ++ seg :: segs, o' :: t', total)
  end.

(* the real run writes each segment into the region returned by PrependBytes(l): N6Lib.write_segs *)

(* IPv6HopByHop.SerializeTo 485-515 = IPv6Destination.SerializeTo 726-756.
   Returns the buffer contents afterwards and the layer afterwards (also on the error path:
   the options are updated by the dry run and the option octets are already in the buffer). *)
Definition ext_serialize_gen (pad8_orig : bool) (l : ext) (payload : list Z) (fix_ : bool) (junk : list Z)
  : outcome (list Z) * ext * list Z :=
  let '(segs, os', total) := tlvs_ser pad8_orig fix_ (e_opts l) 2 in
  let n := total - 2 in
  let '(region, junk1) := n6_take (Z.to_nat n) junk in
  let l1 := mkExt (e_next l) (e_hlen l) (e_alen l) os' (e_contents l) (e_payload l) in
  match write_segs region 0 segs with
  | None => (Panic 7, l1, junk1)
  | Some body =>
      let length := n6_len body + 2 in
      if negb (length mod 8 =? 0) then (Err 4, l1, junk1)
      else
        let '(region2, junk2) := n6_take 2 junk1 in
        let hl := if fix_ then u8 (length / 8 - 1) else e_hlen l in
        (Ok (n6_put (n6_put region2 0 [u8 (e_next l)]) 1 [u8 hl] ++ body ++ payload),
         mkExt (e_next l) hl (e_alen l) os' (e_contents l) (e_payload l), junk2)
  end.

Definition ext_serialize (l : ext) (payload : list Z) (fix_ csum : bool) (junk : list Z) : outcome (list Z) * ext :=
  let '(r, l', _) := ext_serialize_gen false l payload fix_ junk in (r, l').
Definition ext_serialize_orig (l : ext) (payload : list Z) (fix_ csum : bool) (junk : list Z) : outcome (list Z) * ext :=
  let '(r, l', _) := ext_serialize_gen true l payload fix_ junk in (r, l').

(* IPProtocol.LayerType(): enums_generated.go:146-154 over the table of enums.go:331-353
   (layer type numbers of layers/layertypes.go); 0 = LayerTypeZero for the other protocols *)
Definition ipproto_table : list (Z * Z) :=
  [(0, 46); (1, 19); (2, 62); (4, 20); (6, 44); (17, 45); (27, 27); (41, 21); (43, 47); (44, 48);
   (47, 18); (50, 51); (51, 50); (58, 57); (59, 2); (60, 49); (89, 123); (94, 20); (97, 16);
   (112, 119); (132, 28); (136, 52); (137, 24)].

Fixpoint assocZ (t : list (Z * Z)) (k : Z) : Z :=
  match t with [] => 0 | (a, b) :: r => if a =? k then b else assocZ r k end.

Definition ipproto_layertype (p : Z) : Z := assocZ ipproto_table p.

(* ================================================================ IPv6 *)

Record ip6 := mkIp6 {
  p_version : Z; p_tclass : Z; p_flow : Z; p_length : Z; p_next : Z; p_hop : Z;
  p_src : list Z; p_dst : list Z;
  p_hbh : option ext;           (* HopByHop: nil, or &ipv6.hbh *)
  p_contents : list Z; p_payload : list Z }.

Definition ip6_fresh : ip6 := mkIp6 0 0 0 0 0 0 [] [] None [] [].

Definition JUMBO := 194.  (* IPv6HopByHopOptionJumbogram 0xC2 *)

(* getIPv6HopByHopJumboLength 54-76: (length, found) *)
Definition get_jumbo (h : ext) : outcome (Z * bool) :=
  match find (fun o => t_type o =? JUMBO) (e_opts h) with
  | None => Ok (0, false)
  | Some o =>
      if negb (n6_len (t_data o) =? 4) then Err 5
      else let l := be_val (t_data o) in
        if l <=? 65535 then Err 6 else Ok (l, true)
  end.

Definition set_payload (l : ip6) (h : option ext) (p : list Z) : ip6 :=
  mkIp6 (p_version l) (p_tclass l) (p_flow l) (p_length l) (p_next l) (p_hop l) (p_src l) (p_dst l)
        h (p_contents l) p.

Definition ext_set_payload (h : ext) (p : list Z) : ext :=
  mkExt (e_next h) (e_hlen h) (e_alen h) (e_opts h) (e_contents h) p.

(* the final trimming of the payload to the length field; sub = octets of the hop-by-hop header
   already taken off the payload (0 in the unchanged code: sub_orig) *)
Definition ip6_trim (l : ip6) (sub : Z) : dres6 ip6 :=
  if p_length l =? 0 then (l, Err 7, false)
  else
    let pEnd := p_length l - sub in
    if pEnd <? 0 then (l, Err 8, false)
    else
      let trunc := n6_len (p_payload l) <? pEnd in
      let pEnd := if trunc then n6_len (p_payload l) else pEnd in
      match n6_slice (p_payload l) 0 pEnd with
      | None => (l, Panic 8, false)
      | Some p =>
          (* repaired: the hop-by-hop layer's payload ends with the IPv6 payload *)
          (set_payload l (match p_hbh l with Some h => Some (ext_set_payload h p) | None => None end) p,
           Ok tt, trunc)
      end.

(* ip6.go:221-290 DecodeFromBytes.  orig = the unchanged treatment of the hop-by-hop length. *)
Definition ip6_decode_gen (orig : bool) (old : ip6) (data : list Z) : dres6 ip6 :=
  if n6_len data <? 40 then (old, Err 1, true)
  else
    match n6_idx data 0, n6_slice data 0 2, n6_slice data 0 4, n6_slice data 4 6, n6_idx data 6, n6_idx data 7 with
    | Some b0, Some w0, Some d0, Some ln, Some nh, Some hop =>
      match n6_slice data 8 24, n6_slice data 24 40, n6_slice data 0 40, n6_from data 40 with
      | Some src, Some dst, Some cont, Some pl =>
        let l0 := mkIp6 (b0 / 16) ((be_val w0 / 16) mod 256) (be_val d0 mod 1048576) (be_val ln) nh hop
                        src dst None cont pl in
        if nh =? 0 then
          match ext_decode_into ext_fresh pl with
          | (_, Err e, tr) => (l0, Err e, tr)
          | (_, Panic s, _) => (l0, Panic s, false)
          | (h, Ok _, _) =>
              let l1 := set_payload l0 (Some h) pl in
              match get_jumbo h with
              | Err e => (l1, Err e, false)
              | Panic s => (l1, Panic s, false)
              | Ok (jl, jumbo) =>
                  if jumbo && (p_length l0 =? 0) then
                    let trunc := n6_len pl <? jl in
                    let pEnd := if trunc then n6_len pl else jl in
                    match n6_slice pl 0 pEnd with
                    | None => (l1, Panic 9, false)
                    | Some p =>
                        if orig then (set_payload l0 (Some h) p, Ok tt, trunc)
                        else
                          match n6_from p (e_alen h) with
                          | None => (l1, Panic 10, false)
                          | Some hp => (set_payload l0 (Some (ext_set_payload h hp)) p, Ok tt, trunc)
                          end
                    end
                  else if jumbo then (l1, Err 9, false)
                  else if p_length l0 =? 0 then (l1, Err 10, false)
                  else
                    match n6_from pl (e_alen h) with
                    | None => (l1, Panic 11, false)
                    | Some p =>
                        let l2 := set_payload l0 (Some h) p in
                        if orig then
                          (* unchanged: pEnd = Length, and hbh.Payload stays untrimmed *)
                          let trunc := n6_len p <? p_length l0 in
                          let pEnd := if trunc then n6_len p else p_length l0 in
                          match n6_slice p 0 pEnd with
                          | None => (l2, Panic 12, false)
                          | Some p' => (set_payload l0 (Some h) p', Ok tt, trunc)
                          end
                        else ip6_trim l2 (e_alen h)
                    end
              end
          end
        else ip6_trim l0 0
      | _, _, _, _ => (old, Panic 13, false)
      end
    | _, _, _, _, _, _ => (old, Panic 14, false)
    end.

Definition ip6_decode_into := ip6_decode_gen false.
Definition ip6_decode_into_orig := ip6_decode_gen true.

(* NextLayerType 297-302 *)
Definition ip6_next (l : ip6) : Z :=
  match p_hbh l with
  | Some h => ipproto_layertype (e_next h)
  | None => ipproto_layertype (p_next l)
  end.
(* IPv6HopByHop / IPv6Destination are continued by decodeIPv6HopByHop/Destination with
   p.NextDecoder(i.NextHeader); as layer objects they have no NextLayerType *)
Definition ext_next (l : ext) : Z := ipproto_layertype (e_next l).

(* SetJumboLength(v) (repaired: always fresh option data, so nothing is written through a decoded
   option into the packet it came from) *)
Definition set_jumbo (v : Z) (o : tlv) : tlv := mkTlv JUMBO 4 6 (be_bytes 4 (u32 v)) 4 2.

Fixpoint replace_first_jumbo (v : Z) (os : list tlv) : option (list tlv) :=
  match os with
  | [] => None
  | o :: t =>
      if t_type o =? JUMBO then Some (set_jumbo v o :: t)
      else match replace_first_jumbo v t with Some t' => Some (o :: t') | None => None end
  end.

(* addIPv6JumboOption 80-102 *)
Definition add_jumbo (l : ip6) : ip6 :=
  let '(h, nh) :=
    match p_hbh l with
    | None => (mkExt (p_next l) 0 0 [] [] [], 0)
    | Some h => (h, p_next l)
    end in
  let os := match replace_first_jumbo 0 (e_opts h) with
            | Some os' => os'
            | None => e_opts h ++ [set_jumbo 0 (mkTlv 0 0 0 [] 0 0)]
            end in
  mkIp6 (p_version l) (p_tclass l) (p_flow l) (p_length l) nh (p_hop l) (p_src l) (p_dst l)
        (Some (mkExt (e_next h) (e_hlen h) (e_alen h) os (e_contents h) (e_payload h)))
        (p_contents l) (p_payload l).

(* setIPv6PayloadJumboLength 105-134 (repaired: header length computed in int), the search loop *)
Fixpoint jumbo_loop (fuel : nat) (hbh : list Z) (offset hbhLen : Z) : outcome (list Z) :=
  match fuel with
  | O => Panic N6_FUEL
  | S f =>
      if offset <? hbhLen then
        match n6_idx hbh offset with
        | None => Panic 15
        | Some opt =>
            if opt =? 0 then jumbo_loop f hbh (offset + 1) hbhLen
            else
              match n6_idx hbh (offset + 1) with
              | None => Panic 16
              | Some optLen =>
                  if opt =? JUMBO then
                    if optLen =? 4 then
                      (* PutUint32(hbh[offset+2:], uint32(pLen)) *)
                      if n6_len hbh <? offset + 6 then Panic 17
                      else Ok (n6_put hbh (Z.to_nat (offset + 2)) (be_bytes 4 (u32 (n6_len hbh))))
                    else Err 11
                  else jumbo_loop f hbh (offset + 2 + optLen) hbhLen
              end
        end
      else Err 12
  end.

Definition set_jumbo_len (hbh : list Z) : outcome (list Z) :=
  let pLen := n6_len hbh in
  if pLen <? 8 then Err 13
  else
    match n6_idx hbh 1 with
    | None => Panic 18
    | Some hl =>
        let hbhLen := (hl + 1) * 8 in
        if pLen <? hbhLen then Err 14
        else jumbo_loop (S (Z.to_nat hbhLen)) hbh 2 hbhLen
    end.

Definition set_len_next (l : ip6) (len nh : Z) (h : option ext) : ip6 :=
  mkIp6 (p_version l) (p_tclass l) (p_flow l) len nh (p_hop l) (p_src l) (p_dst l) h
        (p_contents l) (p_payload l).

(* the 40 octets of the fixed header written into the PrependBytes(40) region, 195-216 *)
Definition ip6_header (l : ip6) (region : list Z) : list Z :=
  let b0 := Z.lor (u8 (p_version l * 16)) (p_tclass l / 16) in
  let b1 := Z.lor (u8 (p_tclass l * 16)) (u8 (p_flow l / 65536)) in
  let r := n6_put region 0 ([b0; b1] ++ be_bytes 2 (p_flow l) ++ be_bytes 2 (p_length l)
                            ++ [u8 (p_next l); u8 (p_hop l)]) in
  n6_put (n6_put r 8 (p_src l)) 24 (p_dst l).

(* ip6.go:139-218 SerializeTo *)
Definition ip6_serialize (l : ip6) (payload : list Z) (fix_ csum : bool) (junk : list Z)
  : outcome (list Z) * ip6 :=
  let jumbo := 65535 <? n6_len payload in
  (* 145-162 *)
  let step1 : outcome ip6 :=
    if jumbo then
      if fix_ then Ok (add_jumbo l)
      else match p_hbh l with
           | None => Err 15
           | Some h => match get_jumbo h with
                       | Err e => Err e | Panic s => Panic s
                       | Ok (_, false) => Err 16
                       | Ok (_, true) => Ok l
                       end
           end
    else Ok l in
  match step1 with
  | Err e => (Err e, l)
  | Panic s => (Panic s, l)
  | Ok l1 =>
      (* 173-190 *)
      let step2 : outcome (list Z) * ip6 * list Z :=
        match p_hbh l1 with
        | None => (Ok payload, l1, junk)
        | Some h =>
            let '(r, h', junk') := ext_serialize_gen false h payload fix_ junk in
            let l2 := set_len_next l1 (p_length l1) 0 (Some h') in   (* NextHeader "just fixed" *)
            match r with
            | Ok bytes =>
                if fix_ && jumbo then
                  match set_jumbo_len bytes with
                  | Ok bytes' =>
                      (* repaired: the layer's jumbo option is brought in step with the bytes *)
                      let os := match replace_first_jumbo (n6_len bytes) (e_opts h') with
                                | Some os' => os' | None => e_opts h' end in
                      (Ok bytes', set_len_next l1 (p_length l1) 0
                         (Some (mkExt (e_next h') (e_hlen h') (e_alen h') os (e_contents h') (e_payload h'))), junk')
                  | Err e => (Err e, l2, junk')
                  | Panic s => (Panic s, l2, junk')
                  end
                else (Ok bytes, l2, junk')
            | Err e => (Err e, l2, junk')
            | Panic s => (Panic s, l2, junk')
            end
        end in
      match step2 with
      | (Err e, l2, _) => (Err e, l2)
      | (Panic s, l2, _) => (Panic s, l2)
      | (Ok pl, l2, junk2) =>
          let pLen := n6_len pl in
          if negb jumbo && (65535 <? pLen) then (Err 17, l2)
          else
            let region := fst (n6_take 40 junk2) in
            let len' := if fix_ then (if jumbo then 0 else u16 pLen) else p_length l2 in
            let l3 := set_len_next l2 len' (p_next l2) (p_hbh l2) in
            (* AddressTo16 212-214, after the first 8 octets were written *)
            if negb (n6_len (p_src l3) =? 16) then (Err 18, l3)
            else if negb (n6_len (p_dst l3) =? 16) then (Err 18, l3)
            else (Ok (ip6_header l3 region ++ pl), l3)
      end
  end.

(* the same with the buffer's layer list: ip6.go:139-218 SerializeTo with the list of layer types already pushed in the serialize buffer
   (b.Layers(), an explicit argument as the junk is): when IPv6.HopByHop is set and the buffer already
   holds an IPv6HopByHop layer (type 46: the header was serialized as a layer of its own, e.g. by
   SerializePacket of a decoded stack) the header is NOT written again, NextHeader is not touched and
   no jumbo length is patched (ip6.go:164-190). *)
Definition LT_IPv6HopByHop := 46.
Definition hbh_done (layers : list Z) : bool := existsb (fun t => t =? LT_IPv6HopByHop) layers.

Definition ip6_serialize_in (layers : list Z) (l : ip6) (payload : list Z) (fix_ csum : bool) (junk : list Z)
  : outcome (list Z) * ip6 :=
  let jumbo := 65535 <? n6_len payload in
  (* 145-162 *)
  let step1 : outcome ip6 :=
    if jumbo then
      if fix_ then Ok (add_jumbo l)
      else match p_hbh l with
           | None => Err 15
           | Some h => match get_jumbo h with
                       | Err e => Err e | Panic s => Panic s
                       | Ok (_, false) => Err 16
                       | Ok (_, true) => Ok l
                       end
           end
    else Ok l in
  match step1 with
  | Err e => (Err e, l)
  | Panic s => (Panic s, l)
  | Ok l1 =>
      (* 173-190 *)
      let step2 : outcome (list Z) * ip6 * list Z :=
        match p_hbh l1 with
        | None => (Ok payload, l1, junk)
        | Some h =>
          if hbh_done layers then (Ok payload, l1, junk) else
            let '(r, h', junk') := ext_serialize_gen false h payload fix_ junk in
            let l2 := set_len_next l1 (p_length l1) 0 (Some h') in   (* NextHeader "just fixed" *)
            match r with
            | Ok bytes =>
                if fix_ && jumbo then
                  match set_jumbo_len bytes with
                  | Ok bytes' =>
                      (* repaired: the layer's jumbo option is brought in step with the bytes *)
                      let os := match replace_first_jumbo (n6_len bytes) (e_opts h') with
                                | Some os' => os' | None => e_opts h' end in
                      (Ok bytes', set_len_next l1 (p_length l1) 0
                         (Some (mkExt (e_next h') (e_hlen h') (e_alen h') os (e_contents h') (e_payload h'))), junk')
                  | Err e => (Err e, l2, junk')
                  | Panic s => (Panic s, l2, junk')
                  end
                else (Ok bytes, l2, junk')
            | Err e => (Err e, l2, junk')
            | Panic s => (Panic s, l2, junk')
            end
        end in
      match step2 with
      | (Err e, l2, _) => (Err e, l2)
      | (Panic s, l2, _) => (Panic s, l2)
      | (Ok pl, l2, junk2) =>
          let pLen := n6_len pl in
          if negb jumbo && (65535 <? pLen) then (Err 17, l2)
          else
            let region := fst (n6_take 40 junk2) in
            let len' := if fix_ then (if jumbo then 0 else u16 pLen) else p_length l2 in
            let l3 := set_len_next l2 len' (p_next l2) (p_hbh l2) in
            (* AddressTo16 212-214, after the first 8 octets were written *)
            if negb (n6_len (p_src l3) =? 16) then (Err 18, l3)
            else if negb (n6_len (p_dst l3) =? 16) then (Err 18, l3)
            else (Ok (ip6_header l3 region ++ pl), l3)
      end
  end.


(* renderers: LayerString/LayerDump are reflective and total (net.IP.String, IPProtocol.String,
   nested structs and slices of non-nil pointers).  LayerGoString (packet.go, repaired) is total; the
   unchanged one dereferenced the nil HopByHop pointer.  NetworkFlow() calls gopacket.NewFlow which
   panics on addresses longer than 16 octets (flows.go MaxEndpointSize). *)
Definition ip6_gostring_panics_orig (l : ip6) : bool :=
  match p_hbh l with None => true | Some _ => false end.
Definition ip6_render_panics (l : ip6) : bool := false.
Definition ext_render_panics (l : ext) : bool := false.
Definition ip6_flow_panics (l : ip6) : bool := (16 <? n6_len (p_src l)) || (16 <? n6_len (p_dst l)).

(* ================================================================ what the theorems use *)

(* non-padding options as (type, data) *)
Definition tlv_nonpad (os : list tlv) : list (Z * list Z) :=
  map (fun o => (t_type o, t_data o)) (filter (fun o => negb ((t_type o =? 0) || (t_type o =? 1))) os).

Definition ext_roundtrip (l : ext) (payload : list Z) (junk : list Z) : outcome (list Z) * dres6 ext :=
  match ext_serialize l payload true true junk with
  | (Ok bytes, _) => (Ok bytes, ext_decode_into ext_fresh bytes)
  | (Err e, l') => (Err e, (l', Err e, false))
  | (Panic s, l') => (Panic s, (l', Panic s, false))
  end.

Definition ip6_roundtrip (l : ip6) (payload : list Z) (junk : list Z) : outcome (list Z) * dres6 ip6 :=
  match ip6_serialize l payload true true junk with
  | (Ok bytes, _) => (Ok bytes, ip6_decode_into ip6_fresh bytes)
  | (Err e, l') => (Err e, (l', Err e, false))
  | (Panic s, l') => (Panic s, (l', Panic s, false))
  end.

(* in-range values (C06): what the wire format can carry *)
Definition tlv_okb (o : tlv) : bool :=
  bytes_okb (t_data o) && byte_okb (t_type o) && (n6_len (t_data o) <=? 255)
  && (0 <=? t_ax o) && (t_ax o <? 256) && (0 <=? t_ay o) && ((t_ax o =? 0) || (t_ay o <? t_ax o))
  && (0 <=? t_olen o).

Definition ext_okb (l : ext) : bool :=
  forallb tlv_okb (e_opts l) && byte_okb (e_next l) &&
  (let '(_, _, total) := tlvs_ser false true (e_opts l) 2 in total <=? 2048).

Definition ip6_okb (l : ip6) : bool :=
  (0 <=? p_version l) && (p_version l <? 16) && byte_okb (p_tclass l) && (0 <=? p_flow l) && (p_flow l <? 1048576)
  && byte_okb (p_next l) && byte_okb (p_hop l) && bytes_okb (p_src l) && (n6_len (p_src l) =? 16)
  && bytes_okb (p_dst l) && (n6_len (p_dst l) =? 16)
  && match p_hbh l with Some h => ext_okb h && (p_next l =? 0) | None => negb (p_next l =? 0) end.

(* the fields C06 compares for IPv6 *)
Definition ip6_fields (l : ip6) :=
  (p_version l, p_tclass l, p_flow l, p_length l, p_next l, p_hop l, p_src l, p_dst l,
   match p_hbh l with Some h => Some (e_next h, e_hlen h, tlv_nonpad (e_opts h)) | None => None end).
