(* C16 — PacketSource: executable model of packet.go (repaired tree)
     :786-809  ConcatFinitePacketDataSources / concat.ReadPacketData
     :918-946  NewZeroCopyPacketSource / NewPacketSource (+ the NoCopy option)
     :948-958  NextPacket
     :963-994  packetsToChannel (loop, error classification, select, deferred close)
     :1024-1035 PacketsCtx (zero-copy/NoCopy guard, lazy channel creation)
   plus the environment the harness scripts: data sources given by a history, a zero-copy
   source that reuses one buffer (explicit memory: a store of arrays, slices are views),
   a FIFO channel of capacity c, a consumer and a cancel event, as a transition system.
   Decoding is abstract: a decoder is a function telling whether it marks the packet
   truncated.  No proofs in this file. *)
From GP Require Import Base.
Open Scope nat_scope.

(* ---------------------------------------------------------------- capture metadata *)
Record cinfo := mkci { ci_ts : Z; ci_cap : Z; ci_len : Z; ci_if : Z }.

(* ---------------------------------------------------------------- errors
   The error values the scripted sources return, and the features packetsToChannel
   and concat look at (errors.As net.Error + Timeout(), errors.Is against the sentinels,
   strings.Contains "use of closed file"). *)
Inductive ekind :=
| KTo        (* a net.Error with Timeout() = true *)
| KToEof     (* a net.Error with Timeout() = true that also wraps io.EOF *)
| KEagain    (* syscall.EAGAIN: syscall.Errno implements net.Error, Timeout() true *)
| KNetTemp   (* a net.Error with Timeout() = false *)
| KEintr     (* syscall.EINTR: net.Error, Timeout() false *)
| KTmp       (* errors.New("transient") *)
| KOsClosed  (* os.ErrClosed "file already closed": in none of the lists *)
| KEof       (* io.EOF *)
| KWEof      (* fmt.Errorf("...%w", io.EOF) *)
| KUeof      (* io.ErrUnexpectedEOF *)
| KNoProg    (* io.ErrNoProgress *)
| KCPipe     (* io.ErrClosedPipe *)
| KSBuf      (* io.ErrShortBuffer *)
| KEbadf     (* syscall.EBADF *)
| KPEbadf    (* &os.PathError{Err: syscall.EBADF} *)
| KCFile.    (* errors.New("read: use of closed file") *)

Record efeat := mkfeat {
  f_timeout : bool;  (* errors.As(err,&netErr) && netErr.Timeout() *)
  f_eof : bool; f_unexp : bool; f_noprog : bool; f_cpipe : bool; f_sbuf : bool; (* errors.Is … *)
  f_ebadf : bool;    (* errors.Is(err, syscall.EBADF) *)
  f_cfile : bool     (* strings.Contains(err.Error(), "use of closed file") *)
}.

Definition nofeat := mkfeat false false false false false false false false.

Definition feat (k : ekind) : efeat :=
  match k with
  | KTo => mkfeat true false false false false false false false
  | KToEof => mkfeat true true false false false false false false
  | KEagain => mkfeat true false false false false false false false
  | KNetTemp | KEintr | KTmp | KOsClosed => nofeat
  | KEof | KWEof => mkfeat false true false false false false false false
  | KUeof => mkfeat false false true false false false false false
  | KNoProg => mkfeat false false false true false false false false
  | KCPipe => mkfeat false false false false true false false false
  | KSBuf => mkfeat false false false false false true false false
  | KEbadf | KPEbadf => mkfeat false false false false false false true false
  | KCFile => mkfeat false false false false false false false true
  end.

(* packet.go:976-992, in the order of the code *)
Inductive eclass := CTimeout | CStop | CTemp.
Definition classify (k : ekind) : eclass :=
  let f := feat k in
  if f_timeout f then CTimeout
  else if f_eof f || f_unexp f || f_noprog f || f_cpipe f || f_sbuf f || f_ebadf f || f_cfile f then CStop
  else CTemp.

(* ---------------------------------------------------------------- memory *)
Definition mem := list (list Z).                 (* array id -> contents *)
Record view := mkview { v_arr : nat; v_len : nat }.  (* slice arr[0:len] *)

Definition vread (m : mem) (v : view) : list Z := firstn (v_len v) (nth (v_arr v) m []).

(* make + copy: a fresh array *)
Definition alloc (m : mem) (d : list Z) : mem * view := (m ++ [d], mkview (length m) (length d)).

(* the zero-copy source: n := copy(buf, d); return buf[:n]  — buf is array 0 *)
Definition bufwrite (m : mem) (d : list Z) : mem * view :=
  match m with
  | [] => ([], mkview 0 0)
  | b :: rest => let n := Nat.min (length d) (length b) in
                 ((firstn n d ++ skipn n b) :: rest, mkview 0 n)
  end.

(* ---------------------------------------------------------------- data sources *)
Inductive item := IPkt (d : list Z) (c : cinfo) | IErr (k : ekind).

Inductive skind := SPlain | SZero | SConcat.
Record src := mksrc { s_kind : skind; s_h : list (list item) }.

(* a scripted source returns its history in order, then io.EOF for ever *)
Definition plain_read (hs : list (list item)) : item * list (list item) :=
  match hs with
  | (it :: h) :: rest => (it, h :: rest)
  | _ => (IErr KEof, hs)
  end.

(* packet.go:799-809 over scripted sub-sources *)
Fixpoint concat_read (hs : list (list item)) : item * list (list item) :=
  match hs with
  | [] => (IErr KEof, [])
  | h :: rest =>
    match h with
    | [] => concat_read rest                       (* sub-source exhausted: io.EOF, dropped *)
    | IErr k :: h' => if f_eof (feat k) then concat_read rest else (IErr k, h' :: rest)
    | it :: h' => (it, h' :: rest)
    end
  end.

Inductive rres := RData (v : view) (c : cinfo) | RErr (k : ekind).

Definition src_read (s : src) (m : mem) : rres * src * mem :=
  let '(it, hs') := match s_kind s with SConcat => concat_read (s_h s) | _ => plain_read (s_h s) end in
  let s' := mksrc (s_kind s) hs' in
  match it with
  | IErr k => (RErr k, s', m)
  | IPkt d c =>
    match s_kind s with
    | SZero => let '(m', v) := bufwrite m d in (RData v c, s', m')
    | _ => let '(m', v) := alloc m d in (RData v c, s', m')
    end
  end.

(* ---------------------------------------------------------------- PacketSource *)
Record pcfg := mkcfg { p_zero : bool (* PacketSource.zeroCopy *); p_nocopy : bool (* DecodeOptions.NoCopy *) }.

(* packet.go:933-944 *)
Definition new_packet_source (nocopy : bool) : pcfg := mkcfg false nocopy.
(* packet.go:919-930, repaired: zeroCopy: true *)
Definition new_zero_copy_packet_source (nocopy : bool) : pcfg := mkcfg true nocopy.
(* packet.go:919-930 as it was (ab0373b): the flag is never set *)
Definition new_zero_copy_packet_source_orig (nocopy : bool) : pcfg := mkcfg false nocopy.

Definition make_cfg (k : skind) (nocopy : bool) : pcfg :=
  match k with SZero => new_zero_copy_packet_source nocopy | _ => new_packet_source nocopy end.
Definition make_cfg_orig (k : skind) (nocopy : bool) : pcfg :=
  match k with SZero => new_zero_copy_packet_source_orig nocopy | _ => new_packet_source nocopy end.

Record packet := mkpkt { k_data : view; k_ci : cinfo; k_trunc : bool }.

Inductive nres := NPkt (p : packet) | NErr (k : ekind).

Section WithDecoder.
Variable dec : list Z -> bool.   (* does the decoder call SetTruncated on these bytes *)

(* packet.go:725-769 as far as the property sees it: copy unless NoCopy, decode *)
Definition new_packet (nocopy : bool) (m : mem) (dv : view) : mem * view * bool :=
  let '(m', pv) := if nocopy then (m, dv) else alloc m (vread m dv) in
  (m', pv, dec (vread m' pv)).

(* packet.go:948-958 *)
Definition next_packet (cfg : pcfg) (s : src) (m : mem) : nres * src * mem :=
  match src_read s m with
  | (RErr k, s', m') => (NErr k, s', m')
  | (RData dv c, s', m') =>
    let '(m'', pv, tr) := new_packet (p_nocopy cfg) m' dv in
    (NPkt (mkpkt pv c (tr || (ci_cap c <? ci_len c)%Z)), s', m'')
  end.

(* ---------------------------------------------------------------- transition system *)
Inductive pc :=
| PIdle            (* p.c == nil: PacketsCtx not called yet *)
| PTop             (* packetsToChannel: about to evaluate ctx.Err() == nil *)
| PRead            (* inside NextPacket *)
| PSel (p : packet)(* at the select with a packet in hand *)
| PDone.           (* returned; deferred close(p.c) done *)

Record st := mkst {
  t_cfg : pcfg;
  t_src : src;
  t_mem : mem;
  t_pc : pc;
  t_chan : list packet;    (* buffer of p.c, oldest first *)
  t_closed : bool;
  t_cancel : bool;         (* ctx cancelled *)
  t_recv : list packet;    (* what the consumer has received, oldest first *)
  t_seen_closed : bool;    (* the consumer has received the zero value of a closed channel *)
  t_reads : nat;           (* source reads completed *)
  (* ghosts for C16_cancel *)
  t_reads_ac : nat;        (* source reads started after the cancel *)
  t_sends_ac : nat         (* sends performed after the cancel *)
}.

Inductive ev :=
| EvProd (choose_ret : bool)  (* producer step; the bit resolves the select when both cases are ready *)
| EvRecv                      (* consumer: one receive *)
| EvCancel
| EvSetOpt (nocopy : bool).   (* the user assigns ps.DecodeOptions.NoCopy (public field; read by NextPacket on every packet) *)

Definition set_pc (s : st) (p : pc) : st :=
  mkst (t_cfg s) (t_src s) (t_mem s) p (t_chan s) (t_closed s) (t_cancel s) (t_recv s)
       (t_seen_closed s) (t_reads s) (t_reads_ac s) (t_sends_ac s).

Definition close_done (s : st) : st :=
  mkst (t_cfg s) (t_src s) (t_mem s) PDone (t_chan s) true (t_cancel s) (t_recv s)
       (t_seen_closed s) (t_reads s) (t_reads_ac s) (t_sends_ac s).

Definition send (s : st) (p : packet) : st :=
  mkst (t_cfg s) (t_src s) (t_mem s) PTop (t_chan s ++ [p]) (t_closed s) (t_cancel s) (t_recv s)
       (t_seen_closed s) (t_reads s) (t_reads_ac s)
       (if t_cancel s then S (t_sends_ac s) else t_sends_ac s).

Definition step_prod (c : nat) (choose_ret : bool) (s : st) : st :=
  match t_pc s with
  | PIdle => s
  | PDone => s
  | PTop =>                                   (* for ctx.Err() == nil *)
    if t_cancel s then close_done s else
    mkst (t_cfg s) (t_src s) (t_mem s) PRead (t_chan s) (t_closed s) (t_cancel s) (t_recv s)
         (t_seen_closed s) (t_reads s) (t_reads_ac s) (t_sends_ac s)
  | PRead =>                                  (* packet, err := p.NextPacket() *)
    let '(r, s', m') := next_packet (t_cfg s) (t_src s) (t_mem s) in
    let pc' := match r with
               | NPkt p => PSel p
               | NErr k => match classify k with
                           | CTimeout => PTop      (* sleep 5ms; continue *)
                           | CStop => PDone        (* break *)
                           | CTemp => PTop         (* sleep 5ms *)
                           end
               end in
    mkst (t_cfg s) s' m' pc' (t_chan s)
         (match pc' with PDone => true | _ => t_closed s end)
         (t_cancel s) (t_recv s) (t_seen_closed s) (S (t_reads s))
         (if t_cancel s then S (t_reads_ac s) else t_reads_ac s) (t_sends_ac s)
  | PSel p =>                                 (* select { case p.c <- packet; case <-ctx.Done() } *)
    let room := length (t_chan s) <? c in
    if t_cancel s then
      if room && negb choose_ret then send s p else close_done s
    else if room then send s p else s         (* blocked *)
  end.

Definition step_recv (s : st) : st :=
  match t_chan s with
  | p :: rest =>
    mkst (t_cfg s) (t_src s) (t_mem s) (t_pc s) rest (t_closed s) (t_cancel s) (t_recv s ++ [p])
         (t_seen_closed s) (t_reads s) (t_reads_ac s) (t_sends_ac s)
  | [] =>
    if t_closed s then
      mkst (t_cfg s) (t_src s) (t_mem s) (t_pc s) [] (t_closed s) (t_cancel s) (t_recv s)
           true (t_reads s) (t_reads_ac s) (t_sends_ac s)
    else s                                    (* blocked *)
  end.

Definition step_cancel (s : st) : st :=
  mkst (t_cfg s) (t_src s) (t_mem s) (t_pc s) (t_chan s) (t_closed s) true (t_recv s)
       (t_seen_closed s) (t_reads s) (t_reads_ac s) (t_sends_ac s).

Definition step_setopt (b : bool) (s : st) : st :=
  mkst (mkcfg (p_zero (t_cfg s)) b) (t_src s) (t_mem s) (t_pc s) (t_chan s) (t_closed s) (t_cancel s) (t_recv s)
       (t_seen_closed s) (t_reads s) (t_reads_ac s) (t_sends_ac s).

Definition step (c : nat) (s : st) (e : ev) : st :=
  match e with
  | EvProd b => step_prod c b s
  | EvRecv => step_recv s
  | EvCancel => step_cancel s
  | EvSetOpt b => step_setopt b s
  end.

Definition run (c : nat) (s : st) (evs : list ev) : st := fold_left (step c) evs s.

(* the zero-copy buffer is array 0 of the initial memory *)
Definition init (cfg : pcfg) (s : src) (buf : list Z) : st :=
  mkst cfg s [buf] PIdle [] false false [] false 0 0 0.

(* packet.go:1024-1035; callable any number of times, the guard is evaluated on every call
   with the options as they are now *)
Definition packets_ctx (s : st) : outcome st :=
  if p_nocopy (t_cfg s) && p_zero (t_cfg s) then Panic 1%Z
  else match t_pc s with
       | PIdle => Ok (set_pc s PTop)      (* make(chan Packet, c); go p.packetsToChannel(ctx) *)
       | _ => Ok s                        (* same channel, nothing started *)
       end.

(* NextPacket called directly (pull interface) *)
Definition pull (s : st) : nres * st :=
  let '(r, s', m') := next_packet (t_cfg s) (t_src s) (t_mem s) in
  (r, mkst (t_cfg s) s' m' (t_pc s) (t_chan s) (t_closed s) (t_cancel s) (t_recv s)
           (t_seen_closed s) (S (t_reads s)) (t_reads_ac s) (t_sends_ac s)).

(* what a holder of the packet sees now *)
Record pobs := mkpobs { po_data : list Z; po_ci : cinfo; po_trunc : bool }.
Definition observe (m : mem) (p : packet) : pobs := mkpobs (vread m (k_data p)) (k_ci p) (k_trunc p).

(* n calls of NextPacket, each result observed when it is returned *)
Fixpoint pull_n (n : nat) (s : st) : list (pobs + ekind) * st :=
  match n with
  | O => ([], s)
  | S n' =>
    let '(r, s1) := pull s in
    let o := match r with NPkt p => inl (observe (t_mem s1) p) | NErr k => inr k end in
    let '(l, s2) := pull_n n' s1 in
    (o :: l, s2)
  end.

(* ---------------------------------------------------------------- measure (progress) *)
Definition items_left (s : src) : nat := fold_right (fun h a => length h + a) 0 (s_h s).
Definition pc_weight (p : pc) : nat :=
  match p with PIdle => 0 | PDone => 0 | PRead => 1 | PTop => 2 | PSel _ => 4 end.
Definition measure (s : st) : nat :=
  match t_pc s with PIdle | PDone => 0 | _ => 4 * items_left (t_src s) end
  + pc_weight (t_pc s) + length (t_chan s)
  + (if t_seen_closed s then 0 else 1) + (if t_cancel s then 0 else 1).

(* ---------------------------------------------------------------- the harness script
   One scheduler among all: before every action of the harness the producer has run as far
   as it can (the harness waits for that), reads are handed out by tokens. *)
Inductive sop :=
| SNext | SStart | SRestart | SGrant (n : nat) | SGrantAll | SRecv (n : nat) | SCancel | SFin | SFcan (n : nat)
| SSetOpt (nocopy : bool).

Inductive obs :=
| ONextOk (p : pobs) | ONextErr (k : ekind) | ONextSkip
| OStart (ok : bool) | ORestart (ok : bool)
| ONoStart
| OSync (reads len : nat)
| ORecv (ps : list pobs) (closed : bool) (reads len : nat)
| OFin (ps : list pobs) (closed : bool) (reads gor : nat) (final : list (list Z))
| OFcan (closed : bool) (gor : nat)
| OSetOpt
| OOutOfFuel.

Record sst := mksst {
  x_t : st;
  x_tok : option nat;        (* None: the gate is open *)
  x_deliv : list packet;     (* every packet handed to the caller, by either interface *)
  x_oof : bool
}.

(* run the producer until it waits for a token, is blocked on the full channel, or is done.
   After a cancel a ready select is resolved towards ctx.Done() (the harness projects the
   other outcome away; C16_cancel covers both). *)
Fixpoint quiesce (c : nat) (fuel : nat) (s : st) (tok : option nat) : st * option nat * bool :=
  match fuel with
  | O => (s, tok, match t_pc s with
                  | PTop => true
                  | PRead => match tok with Some O => false | _ => true end
                  | PSel _ => (t_cancel s || (length (t_chan s) <? c))
                  | _ => false end)
  | S f =>
    match t_pc s with
    | PIdle | PDone => (s, tok, false)
    | PTop => quiesce c f (step_prod c true s) tok
    | PRead =>
      match tok with
      | Some O => (s, tok, false)
      | Some (S k) => quiesce c f (step_prod c true s) (Some k)
      | None => quiesce c f (step_prod c true s) None
      end
    | PSel _ =>
      if t_cancel s || (length (t_chan s) <? c) then quiesce c f (step_prod c true s) tok
      else (s, tok, false)
    end
  end.

Definition q (c : nat) (x : sst) : sst :=
  let '(s, tok, oof) := quiesce c (S (measure (x_t x))) (x_t x) (x_tok x) in
  mksst s tok (x_deliv x) (x_oof x || oof).

(* up to n receives, the producer settling before each *)
Fixpoint recv_n (c : nat) (n : nat) (x : sst) (acc : list packet) : sst * list packet * bool :=
  match n with
  | O => (x, acc, false)
  | S n' =>
    let x1 := q c x in
    match t_chan (x_t x1) with
    | p :: _ =>
      let x2 := mksst (step_recv (x_t x1)) (x_tok x1) (x_deliv x1 ++ [p]) (x_oof x1) in
      recv_n c n' x2 (acc ++ [p])
    | [] =>
      if t_closed (x_t x1)
      then (mksst (step_recv (x_t x1)) (x_tok x1) (x_deliv x1) (x_oof x1), acc, true)
      else (x1, acc, false)
    end
  end.

Definition gor (s : st) : nat := match t_pc s with PIdle | PDone => 0 | _ => 1 end.

Definition started (s : st) : bool := match t_pc s with PIdle => false | _ => true end.

Definition sstep (c : nat) (x : sst) (o : sop) : sst * obs :=
  match o with
  | SNext =>
    if started (x_t x) then (x, ONextSkip) else
    let '(r, s1) := pull (x_t x) in
    match r with
    | NPkt p => (mksst s1 (x_tok x) (x_deliv x ++ [p]) (x_oof x), ONextOk (observe (t_mem s1) p))
    | NErr k => (mksst s1 (x_tok x) (x_deliv x) (x_oof x), ONextErr k)
    end
  | SStart =>
    match packets_ctx (x_t x) with
    | Ok s1 => (mksst s1 (x_tok x) (x_deliv x) (x_oof x), OStart true)
    | _ => (x, OStart false)
    end
  | SRestart =>
    let x1 := q c x in
    match packets_ctx (x_t x1) with
    | Ok s1 => (mksst s1 (x_tok x1) (x_deliv x1) (x_oof x1), ORestart true)
    | _ => (x1, ORestart false)
    end
  | SGrant n =>
    if negb (started (x_t x)) then (x, ONoStart) else
    let x1 := q c x in
    let tok := match x_tok x1 with Some k => Some (k + n) | None => None end in
    let x2 := q c (mksst (x_t x1) tok (x_deliv x1) (x_oof x1)) in
    (x2, OSync (t_reads (x_t x2)) (length (t_chan (x_t x2))))
  | SGrantAll =>
    if negb (started (x_t x)) then (x, ONoStart) else
    let x1 := q c x in
    let x2 := q c (mksst (x_t x1) None (x_deliv x1) (x_oof x1)) in
    (x2, OSync (t_reads (x_t x2)) (length (t_chan (x_t x2))))
  | SCancel =>
    let x1 := q c x in
    let x2 := q c (mksst (step_cancel (x_t x1)) (x_tok x1) (x_deliv x1) (x_oof x1)) in
    (x2, OSync (t_reads (x_t x2)) (length (t_chan (x_t x2))))
  | SRecv n =>
    if negb (started (x_t x)) then (x, ONoStart) else
    let '(x1, ps, cl) := recv_n c n x [] in
    let x2 := q c x1 in
    (x2, ORecv (map (observe (t_mem (x_t x2))) ps) cl (t_reads (x_t x2)) (length (t_chan (x_t x2))))
  | SFin =>
    if negb (started (x_t x)) then (x, ONoStart) else
    let x0 := mksst (x_t x) None (x_deliv x) (x_oof x) in
    let '(x1, ps, cl) := recv_n c (S (measure (x_t x0))) x0 [] in
    let x2 := q c x1 in
    let m := t_mem (x_t x2) in
    (x2, OFin (map (observe m) ps) cl (t_reads (x_t x2)) (gor (x_t x2))
              (map (fun p => vread m (k_data p)) (x_deliv x2)))
  | SFcan n =>
    if negb (started (x_t x)) then (x, ONoStart) else
    let x0 := mksst (x_t x) None (x_deliv x) (x_oof x) in
    let '(x1, _, _) := recv_n c n x0 [] in
    let x2 := mksst (step_cancel (x_t x1)) (x_tok x1) (x_deliv x1) (x_oof x1) in
    let '(x3, _, cl) := recv_n c (S (measure (x_t x2))) x2 [] in
    let x4 := q c x3 in
    (x4, OFcan cl (gor (x_t x4)))
  | SSetOpt b =>
    let x1 := q c x in
    (mksst (step_setopt b (x_t x1)) (x_tok x1) (x_deliv x1) (x_oof x1), OSetOpt)
  end.

Fixpoint srun (c : nat) (x : sst) (ops : list sop) : list obs :=
  match ops with
  | [] => []
  | o :: rest =>
    let '(x1, ob) := sstep c x o in
    (if x_oof x1 then OOutOfFuel else ob) :: srun c x1 rest
  end.

End WithDecoder.

(* the size of the zero-copy buffer the harness allocates: the longest packet of the history *)
Definition max_len (hs : list (list item)) : nat :=
  fold_right (fun h a => fold_right (fun it b => match it with IPkt d _ => Nat.max (length d) b | _ => b end) a h) 0 hs.

(* entry point of the runner *)
Definition run_script (dec : list Z -> bool) (c : nat) (k : skind) (nocopy : bool)
           (hs : list (list item)) (ops : list sop) : list obs :=
  let s0 := init (make_cfg k nocopy) (mksrc k hs) (repeat 0%Z (max_len hs)) in
  srun dec c (mksst s0 (Some 0) [] false) ops.

(* the same on the tree as it was: NewZeroCopyPacketSource without the flag *)
Definition run_script_orig (dec : list Z -> bool) (c : nat) (k : skind) (nocopy : bool)
           (hs : list (list item)) (ops : list sop) : list obs :=
  let s0 := init (make_cfg_orig k nocopy) (mksrc k hs) (repeat 0%Z (max_len hs)) in
  srun dec c (mksst s0 (Some 0) [] false) ops.
