(* C09: one half-connection of reassembly/tcpassembly.go driven through the public API
   (Assembler.AssembleWithContext / FlushWithOptions / FlushCloseOlderThan / FlushAll with a
   scripted Stream: Accept = true, optionally forcing *start; ReassembledSG calls sg.KeepFrom
   according to a script; ReassemblyComplete = true).
   Executable definitions only.  Line numbers refer to reassembly/tcpassembly.go.

   The model is parametric in a [variant]: which of the repairs of the repository
   (commits "fix: ..." on branch agent-c09) are in effect.  [fixedv] is the code as it
   stands after the repairs and is what the theorems are about; [origv] is the code of the
   unchanged tree and is kept so that the refutation witnesses stay executable.

   Deliberate simplifications (none observable through the compared outputs):
   - the doubly linked page lists (first/last, saved) are Coq lists; the cursor walk of
     checkOverlap is a zipper (left part reversed, head = cur; right part, head = next);
   - slice capacities are not modelled: a re-slice beyond len is reported as a panic even
     when the Go slice would still have capacity (only reachable with inconsistent
     sequence arithmetic, i.e. outside the window hypothesis);
   - statistics counters (queuedBytes, overlapBytes, ...) and ackSeq are not modelled;
   - page.start is never assigned in the Go code and is therefore constantly false;
     page.end of a recycled page that is not the last page of its packet keeps a stale value
     in Go (pageCache.next does not reset it); the model uses false.  *)
From GP Require Import Base.
Open Scope Z_scope.

Definition M32 : Z := 4294967296.
Definition UMAX : Z := 4294967295.          (* uint32Max, :45 *)
Definition QLO : Z := 1073741823.           (* uint32Max/4 *)
Definition QHI : Z := 3221225472.           (* uint32Max - uint32Max/4 *)
Definition INVALID : Z := -1.               (* invalidSequence, :44 *)
Definition PAGE : Z := 1900.                (* pageBytes, :197 *)

(* Sequence.Difference as in the unchanged tree, :66-73 (int64 arithmetic, no overflow) *)
Definition diff_orig (s t : Z) : Z :=
  if (QHI <? s) && (t <? QLO) then (t + UMAX) - s
  else if (QHI <? t) && (s <? QLO) then t - (s + UMAX)
  else t - s.

(* repaired: adds 2^32 at the wrap (as tcpassembly/assembly.go:57-64 does) *)
Definition diff (s t : Z) : Z :=
  if (QHI <? s) && (t <? QLO) then (t + M32) - s
  else if (QHI <? t) && (s <? QLO) then t - (s + M32)
  else t - s.

(* Sequence.Add, :76-78: (s + t) & 0xFFFFFFFF on int64 *)
Definition sadd (s t : Z) : Z := (s + t) mod M32.

Record variant := mkVariant {
  v_diff : bool;     (* Difference adds 2^32 *)
  v_fin : bool;      (* FIN bumps nextSeq only when the FIN segment itself was handled in order *)
  v_keep : bool;     (* cleanSG: the KeepFrom offset applies to the first kept container only *)
  v_syn : bool;      (* a SYN seen after nextSeq is known still takes one sequence number *)
  (* page-accounting repairs made for C11 on top of these (branch agent-c11 of the repository);
     they change pageCache.used / half.pages only, and only when KeepFrom is used *)
  v_relsaved : bool; (* closeHalfConnection also releases the saved (KeepFrom) pages *)
  v_pagecount : bool (* half.pages counts the saved pages: cleanSG adds the pages allocated for kept
                        bytes of the live packet, addPending's drop and the close subtract *)
}.
Definition origv : variant := mkVariant false false false false false false.
Definition fixedv : variant := mkVariant true true true true false false.   (* branch agent-c09 *)
Definition fullv : variant := mkVariant true true true true true true.      (* with the C11 repairs *)

Definition diffv (v : variant) (s t : Z) : Z := if v_diff v then diff s t else diff_orig s t.

Definition zlen {A} (l : list A) : Z := Z.of_nat (length l).
Definition ztake {A} (k : Z) (l : list A) : list A := firstn (Z.to_nat k) l.
Definition zskip {A} (k : Z) (l : list A) : list A := skipn (Z.to_nat k) l.

(* page, :234-242 (buf/prev/next/ac omitted; start constantly false) *)
Record page := mkPage { pbytes : list Z; pseq : Z; pseen : Z; pend : bool }.
(* livePacket, :285-291 *)
Record live := mkLive { lbytes : list Z; lseq : Z; lstart : bool; lend : bool; lts : Z }.
(* byteContainer *)
Inductive cont := CPage (p : page) | CLive (l : live).

Definition cbytes (c : cont) : list Z := match c with CPage p => pbytes p | CLive l => lbytes l end.
Definition clen (c : cont) : Z := zlen (cbytes c).
Definition cseq (c : cont) : Z := match c with CPage p => pseq p | CLive l => lseq l end.
Definition cstart (c : cont) : bool := match c with CPage _ => false | CLive l => lstart l end.
Definition cend (c : cont) : bool := match c with CPage p => pend p | CLive l => lend l end.
Definition is_page (c : cont) : bool := match c with CPage _ => true | CLive _ => false end.

Definition set_bytes (p : page) (b : list Z) : page := mkPage b (pseq p) (pseen p) (pend p).

(* halfconnection, :407-422 *)
Record half := mkHalf {
  h_pages : Z;             (* half.pages as the code counts it *)
  h_saved : list page;     (* half.saved *)
  h_queue : list page;     (* half.first .. half.last *)
  h_next : Z;              (* half.nextSeq, INVALID = -1 *)
  h_seen : Z;              (* half.lastSeen *)
  h_closed : bool }.

Definition new_half (ts : Z) : half := mkHalf 0 [] [] INVALID ts false.

(* assembler options + the script of the stream: for the n-th ReassembledSG call the entry
   (mode, x): 0 no KeepFrom call; 1 KeepFrom(x); 2 KeepFrom(saved + x); 3 KeepFrom(available + x) *)
Record cfg := mkCfg { c_mpc : Z; c_mt : Z; c_keep : list (Z * Z) }.

Record st := mkSt {
  s_cfg : cfg;
  s_exists : bool;         (* the connection is in the pool *)
  s_half : half;           (* c2s *)
  s_rev_closed : bool;     (* s2c.closed *)
  s_rev_seen : Z;          (* s2c.lastSeen = creation time *)
  s_used : Z;              (* pageCache.used: pages in use by this assembler *)
  s_sid : nat;             (* streams created so far; the current stream is number s_sid *)
  s_ncalls : nat           (* ReassembledSG calls so far (index into the KeepFrom script) *)
}.

Definition init : st := mkSt (mkCfg 0 0 []) false (new_half 0) false 0 0 0 0.

Inductive event :=
| ENew (sid : nat)
| ESG (sid : nat) (bytes : list Z) (start end_ : bool) (skip avail saved : Z)
| EDone (sid : nat)
| EPanic (site : Z)
| ETag (t : Z).
(* tags: 1..6 checkOverlap cases; 10 queued out of order; 11 duplicate dropped; 12 limit flush;
   13 flush released data; 14 saved bytes re-presented; 15 packet split into several pages;
   16 saved pages dropped (not contiguous); 17 start forced; 18 late SYN (pages queued before it) *)

(* ---------------------------------------------------------------- convertToPages, :320-347 *)
Fixpoint split_pages (fuel : nat) (seq ts : Z) (e : bool) (bytes : list Z) : list page :=
  match fuel with
  | O => []
  | S f =>
    let length := Z.min (zlen bytes) PAGE in
    let rest := zskip length bytes in
    match rest with
    | [] => [mkPage (ztake length bytes) seq ts e]
    | _ => mkPage (ztake length bytes) seq ts false :: split_pages f (sadd seq length) ts e rest
    end
  end.
Definition to_pages (seq ts : Z) (e : bool) (bytes : list Z) : list page :=
  split_pages (S (Z.to_nat (zlen bytes / PAGE))) seq ts e bytes.

(* ---------------------------------------------------------------- checkOverlap, :752-887 *)
Record cores := mkCores {
  co_left : list page;     (* reversed; head = cur (nil when empty) *)
  co_right : list page;    (* head = next *)
  co_bytes : list Z;
  co_rel : Z;              (* pages released by case 3 *)
  co_tags : list Z;
  co_panic : bool }.

Fixpoint co_loop (v : variant) (start end_ : Z) (left right : list page) (bytes : list Z)
                 (rel : Z) (tags : list Z) : cores :=
  match left with
  | [] => mkCores [] right bytes rel tags false
  | cur :: rest =>
    (* :771 end < cur.start: continue (5) *)
    if diffv v end_ (pseq cur) >? 0 then co_loop v start end_ rest (cur :: right) bytes rel (5 :: tags)
    else
      let curEnd := sadd (pseq cur) (zlen (pbytes cur)) in
      (* :782 start > cur.end: stop (1) *)
      if diffv v start curEnd <=? 0 then mkCores left right bytes rel (1 :: tags) false
      else
        let dS := diffv v start (pseq cur) in
        let dE := diffv v end_ curEnd in
        (* :793 drop (3) *)
        if (dE <=? 0) && (dS >=? 0) then co_loop v start end_ rest right bytes (rel + 1) (3 :: tags)
        (* :819 drop cur's end (2) *)
        else if (dE <? 0) && (diffv v start curEnd >? 0) then
          let n := - diffv v start (pseq cur) in
          if (0 <=? n) && (n <=? zlen (pbytes cur)) then
            mkCores (set_bytes cur (ztake n (pbytes cur)) :: rest) right bytes rel (2 :: tags) false
          else mkCores left right bytes rel tags true
        (* :828 drop cur's start (4) *)
        else if (dS >? 0) && (diffv v end_ (pseq cur) <? 0) then
          let k := - diffv v end_ (pseq cur) in
          if (0 <=? k) && (k <=? zlen (pbytes cur)) then
            co_loop v start end_ rest
              (mkPage (zskip k (pbytes cur)) (sadd (pseq cur) k) (pseen cur) (pend cur) :: right)
              bytes rel (4 :: tags)
          else mkCores left right bytes rel tags true
        (* :838 replace bytes inside cur (6) *)
        else if (dE >=? 0) && (dS <=? 0) then
          let a := - dS in
          let b := a + zlen bytes in
          if (0 <=? a) && (b <=? zlen (pbytes cur)) then
            co_loop v start end_ rest
              (set_bytes cur (ztake a (pbytes cur) ++ bytes ++ zskip b (pbytes cur)) :: right)
              [] rel (6 :: tags)
          else mkCores left right bytes rel tags true
        else co_loop v start end_ rest (cur :: right) bytes rel tags
  end.

Record cores2 := mkCores2 {
  c2_queue : list page; c2_bytes : list Z; c2_added : Z; c2_rel : Z; c2_tags : list Z; c2_panic : bool }.

Definition check_overlap (v : variant) (queue : list page) (bytes : list Z) (start ts : Z) (e : bool)
                         (doqueue : bool) : cores2 :=
  let end_ := sadd start (zlen bytes) in
  let r := co_loop v start end_ (rev queue) [] bytes 0 [] in
  if co_panic r then mkCores2 queue bytes 0 0 (co_tags r) true
  else if (0 <? zlen (co_bytes r)) && doqueue then
    let ps := to_pages start ts e (co_bytes r) in
    mkCores2 (rev (co_left r) ++ ps ++ co_right r) (co_bytes r) (zlen ps) (co_rel r)
             ((if 1 <? zlen ps then [15] else []) ++ 10 :: co_tags r) false
  else mkCores2 (rev (co_left r) ++ co_right r) (co_bytes r) 0 (co_rel r) (co_tags r) false.

(* ---------------------------------------------------------------- overlapExisting, :930-956 *)
(* returns (bytes', seq', panic) *)
Definition overlap_existing (v : variant) (next start : Z) (bytes : list Z) : list Z * Z * bool :=
  if next =? INVALID then (bytes, start, false)
  else
    let d := diffv v start next in
    if d =? 0 then (bytes, start, false)
    else
      let e := zlen bytes in
      let s := if d >=? e then e else d in
      if s <? 0 then (bytes, start, true) else (zskip s bytes, next, false).

(* ---------------------------------------------------------------- addPending, :1119-1146 *)
Definition sum_len (l : list page) : Z := fold_right (fun p a => zlen (pbytes p) + a) 0 l.

(* returns (pages prepended to ret, their total length, half.saved afterwards, pages released) *)
Definition add_pending (saved : list page) (firstSeq : Z) : list page * Z * list page * Z :=
  match saved with
  | [] => ([], 0, [], 0)
  | p0 :: _ =>
    let s := sum_len saved in
    if sadd (pseq p0) s =? firstSeq then (saved, s, saved, 0)
    else ([], 0, [], zlen saved)
  end.

(* ---------------------------------------------------------------- addContiguous, :1149-1176 *)
Fixpoint contig_loop (v : variant) (q : list page) (lastSeq : Z) : list page * list page * Z :=
  match q with
  | [] => ([], [], lastSeq)
  | p :: t =>
    if diffv v lastSeq (pseq p) =? 0 then
      let '(tk, q', l) := contig_loop v t (sadd lastSeq (zlen (pbytes p))) in (p :: tk, q', l)
    else ([], q, lastSeq)
  end.
Definition add_contiguous (v : variant) (q : list page) (lastSeq : Z) : list page * list page * Z :=
  match q with
  | [] => ([], [], lastSeq)
  | p :: _ => contig_loop v q (if lastSeq =? INVALID then pseq p else lastSeq)
  end.

(* ---------------------------------------------------------------- cleanSG, :1022-1099 *)
(* the search loop :1036-1048: (ndx, skip) *)
Fixpoint find_keep (all : list cont) (toKeep cur skip : Z) (ndx : nat) : nat * Z :=
  match all with
  | [] => (ndx, skip)
  | r :: t =>
    if toKeep <? cur + clen r then (ndx, skip)
    else find_keep t toKeep (cur + clen r) (if skip >=? clen r then skip - clen r else skip) (S ndx)
  end.

(* the conversion loop :1074-1093: (saved pages, pages allocated, panic) *)
Fixpoint keep_conv (v : variant) (l : list cont) (skip : Z) : list page * Z * bool :=
  match l with
  | [] => ([], 0, false)
  | CPage p :: t =>
    if (0 <=? skip) && (skip <=? zlen (pbytes p)) then
      let p' := if skip =? 0 then p else mkPage (zskip skip (pbytes p)) (sadd (pseq p) skip) (pseen p) (pend p) in
      (* delta = skip, so skip becomes 0 *)
      let '(ps, n, pk) := keep_conv v t 0 in (p' :: ps, n, pk)
    else ([], 0, true)
  | CLive lp :: t =>
    if (0 <=? skip) && (skip <=? zlen (lbytes lp)) then
      let mine := to_pages (sadd (lseq lp) skip) (lts lp) (lend lp) (zskip skip (lbytes lp)) in
      (* unchanged tree: r.length() of a livePacket does not change, delta = 0, skip is kept
         and applied again to the next container; repaired: skip := 0 *)
      let '(ps, n, pk) := keep_conv v t (if v_keep v then 0 else skip) in
      (mine ++ ps, zlen mine + n, pk)
    else ([], 0, true)
  end.

Definition count_pages (l : list cont) : Z := zlen (filter is_page l).

Definition keep_choice (c : cfg) (n : nat) (avail saved : Z) : Z :=
  match c_keep c with
  | [] => -1
  | _ =>
    let '(m, x) := nth (Nat.modulo n (length (c_keep c))) (c_keep c) (0, 0) in
    if m =? 0 then -1 else if m =? 1 then x else if m =? 2 then saved + x else avail + x
  end.

(* ---------------------------------------------------------------- sendToConnection, :1103-1117
   with buildSG :1001-1020 and cleanSG; closeHalfConnection is done by the caller *)
Record sres := mkSres {
  sr_half : half; sr_used : Z; sr_next : Z; sr_end : bool; sr_ev : list event; sr_panic : bool }.

Definition last_end (all : list cont) : bool := match rev all with [] => false | c :: _ => cend c end.
Definition first_start (all : list cont) : bool := match all with [] => false | c :: _ => cstart c end.

Definition send (v : variant) (c : cfg) (h : half) (used : Z) (r0 : cont) (sid ncalls : nat) : sres :=
  let skip := if h_next h =? INVALID then -1 else diffv v (h_next h) (cseq r0) in
  let last := sadd (cseq r0) (clen r0) in
  let '(pre, savedLen, saved1, reld) := add_pending (h_saved h) (cseq r0) in
  let '(tk, q1, nextSeq) := add_contiguous v (h_queue h) last in
  let all := map CPage pre ++ r0 :: map CPage tk in
  let bytes := concat (map cbytes all) in
  let avail := zlen bytes in
  let isEnd := last_end all in
  let ev := ESG sid bytes (first_start all) isEnd skip avail savedLen in
  let toKeep := keep_choice c ncalls avail savedLen in
  let '(ndx, kskip) := if toKeep <? 0 then (length all, 0) else find_keep all toKeep 0 toKeep O in
  let relc := count_pages (firstn ndx all) in
  let '(saved2, alloc, pk) := keep_conv v (skipn ndx all) kskip in
  mkSres (mkHalf (if v_pagecount v then h_pages h - relc - reld + alloc else h_pages h - relc)
                 saved2 q1 (h_next h) (h_seen h) (h_closed h))
         (used - reld - relc + alloc) nextSeq isEnd
         ((if reld >? 0 then [ETag 16] else []) ++ (if savedLen >? 0 then [ETag 14] else []) ++ [ev])
         pk.

(* ---------------------------------------------------------------- closeHalfConnection, :1199-1218 *)
Definition close_c2s (v : variant) (s : st) : st * list event :=
  let h := s_half s in
  let n := zlen (h_queue h) in
  let m := if v_relsaved v then zlen (h_saved h) else 0 in
  let h' := mkHalf (if v_pagecount v then h_pages h - n - m else h_pages h - n)
                   (if v_relsaved v then [] else h_saved h) [] (h_next h) (h_seen h) true in
  if s_rev_closed s then
    (mkSt (s_cfg s) false h' true (s_rev_seen s) (s_used s - n - m) (s_sid s) (s_ncalls s), [EDone (s_sid s)])
  else
    (mkSt (s_cfg s) (s_exists s) h' false (s_rev_seen s) (s_used s - n - m) (s_sid s) (s_ncalls s), []).

Definition close_rev (s : st) : st * list event :=
  if h_closed (s_half s) then
    (mkSt (s_cfg s) false (s_half s) true (s_rev_seen s) (s_used s) (s_sid s) (s_ncalls s), [EDone (s_sid s)])
  else
    (mkSt (s_cfg s) (s_exists s) (s_half s) true (s_rev_seen s) (s_used s) (s_sid s) (s_ncalls s), []).

Definition set_half (s : st) (h : half) : st :=
  mkSt (s_cfg s) (s_exists s) h (s_rev_closed s) (s_rev_seen s) (s_used s) (s_sid s) (s_ncalls s).
Definition set_next (h : half) (n : Z) : half :=
  mkHalf (h_pages h) (h_saved h) (h_queue h) n (h_seen h) (h_closed h).

(* send + close when the last container carried End; returns also the nextSeq of buildSG *)
Definition send_st (v : variant) (s : st) (h : half) (used : Z) (r0 : cont) : st * Z * list event * bool :=
  let r := send v (s_cfg s) h used r0 (s_sid s) (s_ncalls s) in
  let s1 := mkSt (s_cfg s) (s_exists s) (sr_half r) (s_rev_closed s) (s_rev_seen s) (sr_used r)
                 (s_sid s) (S (s_ncalls s)) in
  if sr_panic r then (s1, sr_next r, sr_ev r ++ [EPanic 5], true)
  else if sr_end r then
    let '(s2, ev2) := close_c2s v s1 in (s2, sr_next r, sr_ev r ++ ev2, false)
  else (s1, sr_next r, sr_ev r, false).

(* ---------------------------------------------------------------- skipFlush, :1181-1197 *)
Definition skip_flush (v : variant) (s : st) : st * list event * bool :=
  let h := s_half s in
  match h_queue h with
  | [] => let '(s', ev) := close_c2s v s in (s', ev, false)
  | p :: q' =>
    let h1 := mkHalf (h_pages h) (h_saved h) q' (h_next h) (h_seen h) (h_closed h) in
    let '(s1, nextSeq, ev, pk) := send_st v s h1 (s_used s) (CPage p) in
    let s2 := if nextSeq =? INVALID then s1 else set_half s1 (set_next (s_half s1) nextSeq) in
    (s2, ETag 13 :: ev, pk)
  end.

(* ---------------------------------------------------------------- flushClose, :1297-1316 (c2s half) *)
Definition conn_last_seen (s : st) : Z :=
  if h_seen (s_half s) <? s_rev_seen s then s_rev_seen s else h_seen (s_half s).

Fixpoint fc_loop (fuel : nat) (v : variant) (s : st) (t : Z) : st * list event * bool :=
  match fuel with
  | O => (s, [], false)
  | S f =>
    match h_queue (s_half s) with
    | [] => (s, [], false)
    | p :: _ =>
      if pseen p <? t then
        let '(s1, ev1, pk) := skip_flush v s in
        if pk then (s1, ev1, true)
        else if h_closed (s_half s1) then (s1, ev1, false)
        else let '(s2, ev2, pk2) := fc_loop f v s1 t in (s2, ev1 ++ ev2, pk2)
      else (s, [], false)
    end
  end.

Definition flush_close_c2s (v : variant) (s : st) (t tc : Z) : st * list event * bool :=
  if h_closed (s_half s) then (s, [], false)
  else
    let '(s1, ev1, pk) := fc_loop (S (length (h_queue (s_half s)))) v s t in
    if pk then (s1, ev1, true)
    else if h_closed (s_half s1) then (s1, ev1, false)
    else
      match h_queue (s_half s1) with
      | [] => if conn_last_seen s1 <? tc then let '(s2, ev2) := close_c2s v s1 in (s2, ev1 ++ ev2, false)
              else (s1, ev1, false)
      | _ => (s1, ev1, false)
      end.

Definition flush_close_rev (s : st) (tc : Z) : st * list event :=
  if s_rev_closed s then (s, [])
  else if conn_last_seen s <? tc then close_rev s else (s, []).

(* FlushWithOptions, :1265-1290: s2c first, then c2s *)
Definition flush_opts (v : variant) (s : st) (t tc : Z) : st * list event * bool :=
  if negb (s_exists s) then (s, [], false)
  else
    let '(s1, ev1) := flush_close_rev s tc in
    let '(s2, ev2, pk) := flush_close_c2s v s1 t tc in
    (s2, ev1 ++ ev2, pk).

(* FlushAll, :1321-1337 *)
Fixpoint fa_loop (fuel : nat) (v : variant) (s : st) : st * list event * bool :=
  match fuel with
  | O => (s, [], false)
  | S f =>
    if h_closed (s_half s) then (s, [], false)
    else
      let '(s1, ev1, pk) := skip_flush v s in
      if pk then (s1, ev1, true)
      else let '(s2, ev2, pk2) := fa_loop f v s1 in (s2, ev1 ++ ev2, pk2)
  end.

Definition flush_all (v : variant) (s : st) : st * list event * bool :=
  if negb (s_exists s) then (s, [], false)
  else
    let '(s1, ev1) := if s_rev_closed s then (s, []) else close_rev s in
    let '(s2, ev2, pk) := fa_loop (S (S (length (h_queue (s_half s1))))) v s1 in
    (s2, ev1 ++ ev2, pk).

(* ---------------------------------------------------------------- AssembleWithContext, :640-739
   with handleBytes :959-986 *)
Record segment := mkSeg {
  g_seq : Z; g_syn : bool; g_fin : bool; g_rst : bool; g_force : bool; g_ts : Z; g_bytes : list Z }.

Definition limit_hit (c : cfg) (pages used : Z) : bool :=
  ((0 <? c_mpc c) && (c_mpc c <=? pages)) || ((0 <? c_mt c) && (c_mt c <=? used)).

Definition assemble (v : variant) (s0 : st) (g : segment) : st * list event * bool :=
  (* getConnection :650 *)
  let '(s, evn) :=
    if s_exists s0 then (s0, [])
    else (mkSt (s_cfg s0) true (new_half (g_ts g)) false (g_ts g) (s_used s0) (S (s_sid s0)) (s_ncalls s0),
          [ENew (S (s_sid s0))]) in
  let h0 := s_half s in
  (* :659 *)
  let h := mkHalf (h_pages h0) (h_saved h0) (h_queue h0) (h_next h0)
                  (if h_seen h0 <? g_ts g then g_ts g else h_seen h0) (h_closed h0) in
  (* :662, Accept may force *start *)
  let start := ((h_next h =? INVALID) && g_syn g) || g_force g in
  if h_closed h then (set_half s h, evn, false)
  else
    (* :693-724 *)
    let '(seq, next1, queue, tg0) :=
      if h_next h =? INVALID then
        if g_syn g then (sadd (g_seq g) 1, sadd (g_seq g) 1, false,
                         (match h_queue h with [] => [] | _ => [ETag 18] end))
        else if start then (g_seq g, g_seq g, false, [ETag 17])
        else (g_seq g, INVALID, true, [])
      else
        let seq := if v_syn v && g_syn g then sadd (g_seq g) 1 else g_seq g in
        (seq, h_next h, (diffv v (h_next h) seq >? 0), []) in
    let h := set_next h next1 in
    let lend_ := g_rst g || g_fin g in
    if queue then
      (* handleBytes, queue branch :966-976 *)
      let r := check_overlap v (h_queue h) (g_bytes g) seq (g_ts g) lend_ true in
      let tags := map ETag (c2_tags r) in
      if c2_panic r then (set_half s h, evn ++ tg0 ++ tags ++ [EPanic 1], true)
      else
        let pages1 := h_pages h - c2_rel r + c2_added r in
        let used1 := s_used s - c2_rel r + c2_added r in
        let h1 := mkHalf pages1 (h_saved h) (c2_queue r) (h_next h) (h_seen h) (h_closed h) in
        if limit_hit (s_cfg s) pages1 used1 then
          match c2_queue r with
          | [] => (* addNextFromConn on an empty queue: nothing to send *)
            (mkSt (s_cfg s) (s_exists s) h1 (s_rev_closed s) (s_rev_seen s) used1 (s_sid s) (s_ncalls s),
             evn ++ tg0 ++ tags, false)
          | p :: q' =>
            let h2 := mkHalf pages1 (h_saved h) q' (h_next h) (h_seen h) (h_closed h) in
            let '(s1, nextSeq, ev, pk) := send_st v s h2 used1 (CPage p) in
            (* :730-735 *)
            let s2 :=
              if nextSeq =? INVALID then s1
              else set_half s1 (set_next (s_half s1)
                     (if g_fin g && negb (v_fin v) then sadd nextSeq 1 else nextSeq)) in
            (s2, evn ++ tg0 ++ tags ++ ETag 12 :: ev, pk)
          end
        else
          (mkSt (s_cfg s) (s_exists s) h1 (s_rev_closed s) (s_rev_seen s) used1 (s_sid s) (s_ncalls s),
           evn ++ tg0 ++ tags, false)
    else
      (* handleBytes, in-order branch :977-984 *)
      let '(b1, seq1, pk0) := overlap_existing v (h_next h) seq (g_bytes g) in
      if pk0 then (set_half s h, evn ++ tg0 ++ [EPanic 2], true)
      else
        let r := check_overlap v (h_queue h) b1 seq1 (g_ts g) lend_ false in
        let tags := map ETag (c2_tags r) ++
                    (if (0 <? zlen (g_bytes g)) && (zlen (c2_bytes r) =? 0) then [ETag 11] else []) in
        if c2_panic r then (set_half s h, evn ++ tg0 ++ tags ++ [EPanic 3], true)
        else
          let pages1 := h_pages h - c2_rel r in
          let used1 := s_used s - c2_rel r in
          let h1 := mkHalf pages1 (h_saved h) (c2_queue r) (h_next h) (h_seen h) (h_closed h) in
          if (0 <? zlen (c2_bytes r)) || lend_ || g_syn g then
            let lp := mkLive (c2_bytes r) seq1 (g_syn g) lend_ (g_ts g) in
            let '(s1, nextSeq, ev, pk) := send_st v s h1 used1 (CLive lp) in
            let s2 :=
              if nextSeq =? INVALID then s1
              else set_half s1 (set_next (s_half s1) (if g_fin g then sadd nextSeq 1 else nextSeq)) in
            (s2, evn ++ tg0 ++ tags ++ ev, pk)
          else
            (mkSt (s_cfg s) (s_exists s) h1 (s_rev_closed s) (s_rev_seen s) used1 (s_sid s) (s_ncalls s),
             evn ++ tg0 ++ tags, false)
  .

(* ---------------------------------------------------------------- operations *)
Inductive op :=
| OCfg (mpc mt : Z)
| OKeep (script : list (Z * Z))
| OSeg (g : segment)
| OFlush (t tc : Z)          (* FlushWithOptions{T,TC}; FlushCloseOlderThan t = OFlush t t *)
| OFlushAll.

Definition step (v : variant) (s : st) (o : op) : st * list event * bool :=
  match o with
  | OCfg a b => (mkSt (mkCfg a b (c_keep (s_cfg s))) (s_exists s) (s_half s) (s_rev_closed s) (s_rev_seen s)
                      (s_used s) (s_sid s) (s_ncalls s), [], false)
  | OKeep k => (mkSt (mkCfg (c_mpc (s_cfg s)) (c_mt (s_cfg s)) k) (s_exists s) (s_half s) (s_rev_closed s)
                     (s_rev_seen s) (s_used s) (s_sid s) (s_ncalls s), [], false)
  | OSeg g => assemble v s g
  | OFlush t tc => flush_opts v s t tc
  | OFlushAll => flush_all v s
  end.

(* the trace of a case: per op the events and pageCache.used afterwards; stops after a panic *)
Fixpoint run_trace (v : variant) (s : st) (ops : list op) : list (list event * Z) :=
  match ops with
  | [] => []
  | o :: t =>
    let '(s', ev, pk) := step v s o in
    (ev, s_used s') :: (if pk then [] else run_trace v s' t)
  end.

Definition run_fixed (ops : list op) := run_trace fixedv init ops.
Definition run_variant (d f k y a b : bool) (ops : list op) := run_trace (mkVariant d f k y a b) init ops.

(* ghost notions used by the statements: the sequence number of the byte at absolute stream
   offset o for initial sequence number i (the SYN takes i, the first data byte i+1), and the
   slice S[a, a+n) of the sender stream *)
Definition sq (i o : Z) : Z := (i + 1 + o) mod M32.
Definition sub (S : list Z) (a n : Z) : list Z := ztake n (zskip a S).
