(* Lnortel — executable model of layers/ndp.go (Nortel Discovery Protocol decoder).  Definitions only.
   /repo/layers/ndp.go: decodeNortelDiscovery :255-269.  No DecodeFromBytes (the decoder function builds a new layer per call:
   C05 n/a), no SerializeTo (C06/C07 n/a).  The decoder sets neither Contents nor Payload and names no next decoder. *)
From GP Require Import Base Codec MiscLib.
Open Scope Z_scope.
Record nortel := mkNt { nt_contents : list Z; nt_payload : list Z; nt_ip : list Z; nt_seg : list Z; nt_chassis : Z; nt_backplane : Z; nt_state : Z; nt_links : Z }.
Definition nt_fresh : nortel := mkNt [] [] [] [] 0 0 0 0.
Definition nt_decode (data : list Z) : nortel * outcome unit * bool :=
  let n := zlen data in
  if n <? 11 then (nt_fresh, Err 1, false) else                           (* no SetTruncated *)
  ml_bind (cd_slc data 0 4) nt_fresh false (fun ip =>
  ml_bind (cd_slc data 4 7) nt_fresh false (fun sg =>
  ml_bind (cd_idx data 7) nt_fresh false (fun ch =>
  ml_bind (cd_idx data 8) nt_fresh false (fun bp =>
  ml_bind (cd_idx data 9) nt_fresh false (fun st =>
  ml_bind (cd_idx data 10) nt_fresh false (fun nl =>
  (mkNt [] [] ip sg ch bp st nl, Ok tt, false))))))).
(* the String methods of the three enumerations are switch tables with a default *)
Definition nt_render_panics (l : nortel) : bool := false.
