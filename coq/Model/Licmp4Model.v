(* Licmp4 — executable model of layers/icmp4.go (ICMPv4 header codec).  Definitions only.
   Line numbers of /repo/layers/icmp4.go: CreateICMPv4TypeCode :199-201, DecodeFromBytes :216-227,
   SerializeTo :232-247, NextLayerType :255-257, ICMPv4TypeCode.String/GoString :161-192. *)
From GP Require Import Base Codec.
Open Scope Z_scope.

Record icmp4 := mkIcmp4 {
  ic_contents : list Z; ic_payload : list Z;
  ic_typecode : Z; ic_csum : Z; ic_id : Z; ic_seq : Z }.

Definition icmp4_fresh : icmp4 := mkIcmp4 [] [] 0 0 0 0.

Definition ibind {A} (o : outcome A) (st : icmp4) (tr : bool)
    (f : A -> icmp4 * outcome unit * bool) : icmp4 * outcome unit * bool :=
  match o with Ok v => f v | Err c => (st, Err c, tr) | Panic s => (st, Panic s, tr) end.

Definition icmp4_decode_into (old : icmp4) (data : list Z) : icmp4 * outcome unit * bool :=
  let n := zlen data in
  if n <? 8 then (old, Err 1, true) else                               (* :217-220 *)
  ibind (cd_rd16 data 0) old false (fun tc =>                          (* :221 *)
  ibind (cd_rd16 data 2) old false (fun ck =>                          (* :222 *)
  ibind (cd_rd16 data 4) old false (fun id =>                          (* :223 *)
  ibind (cd_rd16 data 6) old false (fun sq =>                          (* :224 *)
  ibind (cd_slc data 0 8) old false (fun contents =>                   (* :225 *)
  ibind (cd_slc data 8 n) old false (fun payload =>
  (mkIcmp4 contents payload tc ck id sq, Ok tt, false))))))).

(* NextLayerType :255-257 is the constant gopacket.LayerTypePayload *)

Definition ic_wrc (b : list Z) (i : Z) (vs : list Z) : outcome (list Z) :=
  if (0 <=? i) && (i + zlen vs <=? zlen b) then Ok (cd_wr b i vs) else Panic 3.

Definition ic_set_csum (l : icmp4) (c : Z) : icmp4 :=
  mkIcmp4 (ic_contents l) (ic_payload l) (ic_typecode l) c (ic_id l) (ic_seq l).

Definition icmp4_serialize (l : icmp4) (payload : list Z) (fixl csum : bool) (junk : list Z)
    : outcome (list Z) * icmp4 :=
  let bytes0 := cd_region 8 junk in                                    (* :233 *)
  let w :=
    obind (ic_wrc bytes0 0 (cd_put16 (ic_typecode l))) (fun b =>       (* :237 *)
    obind (ic_wrc b 4 (cd_put16 (ic_id l))) (fun b =>                  (* :238 *)
    obind (ic_wrc b 6 (cd_put16 (ic_seq l))) (fun b =>                 (* :239 *)
    if csum then
      obind (ic_wrc b 2 [0]) (fun b =>                                 (* :241-242 *)
      obind (ic_wrc b 3 [0]) (fun b =>
      let ck := cd_fold (cd_csum (b ++ payload) 0) in                  (* :243-244 *)
      obind (ic_wrc b 2 (cd_put16 ck)) (fun b => Ok (b, ck))))         (* :246 *)
    else obind (ic_wrc b 2 (cd_put16 (ic_csum l))) (fun b => Ok (b, ic_csum l))))) in
  match w with
  | Ok (b, ck) => (Ok (b ++ payload), ic_set_csum l ck)
  | Err c => (Err c, l)
  | Panic s => (Panic s, l)
  end.

(* ICMPv4TypeCode.String: a map lookup on the type, then — only when the entry has a code table —
   a lookup in it (the nil table is tested on both earlier returns): total.  GoString and the
   layer renderers are reflective.  No flow accessor. *)
Definition icmp4_render_panics (l : icmp4) : bool := false.

Definition icmp4_dec2 (a b : list Z) : icmp4 * outcome unit * bool :=
  let '(l, _, _) := icmp4_decode_into icmp4_fresh a in icmp4_decode_into l b.
