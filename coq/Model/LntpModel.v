(* Lntp — executable model of layers/ntp.go (NTP header codec).  Definitions only.
   Line numbers of /repo/layers/ntp.go: DecodeFromBytes :294-349, SerializeTo :352-388,
   NextLayerType :400-402 (LayerTypeZero), Payload() :409-411 (nil).
   (f & 0xC0) >> 6 is f / 64; (f & 0x38) >> 3 is (f / 8) mod 8; f & 7 is f mod 8; int8(b) is sint 8 b.
   (uint8(x) << 6) & 0xC0 | (uint8(y) << 3) & 0x38 | uint8(z) & 7 is (x mod 4)*64 + (y mod 8)*8 + z mod 8. *)
From GP Require Import Base Codec MiscLib.
Open Scope Z_scope.

Record ntp := mkNtp {
  n_contents : list Z; n_payload : list Z;
  n_li : Z; n_version : Z; n_mode : Z; n_stratum : Z; n_poll : Z; n_precision : Z;
  n_rootdelay : Z; n_rootdisp : Z; n_refid : Z; n_reft : Z; n_origt : Z; n_recvt : Z; n_xmitt : Z;
  n_ext : list Z }.
Definition ntp_fresh : ntp := mkNtp [] [] 0 0 0 0 0 0 0 0 0 0 0 0 0 [].

Definition ml_rd64 (l : list Z) (i : Z) : outcome Z :=
  obind (ml_rd32 l i) (fun a => obind (ml_rd32 l (i + 4)) (fun b => Ok (a * 4294967296 + b))).
Definition ml_put64 (x : Z) : list Z := ml_put32 ((x / 4294967296) mod 4294967296) ++ ml_put32 (x mod 4294967296).

Definition ntp_decode_into (old : ntp) (data : list Z) : ntp * outcome unit * bool :=
  let n := zlen data in
  if n <? 48 then (old, Err 1, true) else
  ml_bind (cd_slc data 0 n) old false (fun contents => (* BaseLayer{Contents: data[:len(data)]} *)
  ml_bind (cd_idx data 0) old false (fun f =>
  ml_bind (cd_idx data 1) old false (fun st =>
  ml_bind (cd_idx data 2) old false (fun po =>
  ml_bind (cd_idx data 3) old false (fun pr =>
  ml_bind (ml_rd32 data 4) old false (fun rd =>
  ml_bind (ml_rd32 data 8) old false (fun rdisp =>
  ml_bind (ml_rd32 data 12) old false (fun rid =>
  ml_bind (ml_rd64 data 16) old false (fun t1 =>
  ml_bind (ml_rd64 data 24) old false (fun t2 =>
  ml_bind (ml_rd64 data 32) old false (fun t3 =>
  ml_bind (ml_rd64 data 40) old false (fun t4 =>
  ml_bind (cd_slc data 48 n) old false (fun ext =>
  (mkNtp contents [] (f / 64) ((f / 8) mod 8) (f mod 8) st (sint 8 po) (sint 8 pr) rd rdisp rid t1 t2 t3 t4 ext,
   Ok tt, false)))))))))))))).

(* NextLayerType: LayerTypeZero *)
Definition ntp_next (l : ntp) : Z := 0.

Definition ntp_hdr (l : ntp) : list Z :=
  [(n_li l mod 4) * 64 + (n_version l mod 8) * 8 + n_mode l mod 8;
   n_stratum l mod 256; n_poll l mod 256; n_precision l mod 256] ++
  ml_put32 (n_rootdelay l mod 4294967296) ++ ml_put32 (n_rootdisp l mod 4294967296) ++ ml_put32 (n_refid l mod 4294967296) ++
  ml_put64 (n_reft l) ++ ml_put64 (n_origt l) ++ ml_put64 (n_recvt l) ++ ml_put64 (n_xmitt l).

(* PrependBytes(48) for the header, then AppendBytes(len(ExtensionBytes)): the extensions go BEHIND
   whatever the buffer already holds (the payload) :391-396 *)
Definition ntp_serialize (l : ntp) (payload : list Z) (fixl csum : bool) (junk : list Z)
    : outcome (list Z) * ntp :=
  let r :=
    obind (ml_wrc (cd_region 48 junk) 0 (ntp_hdr l)) (fun h =>
    obind (ml_copy (cd_region (zlen (n_ext l)) (skipn 48 junk)) 0 (n_ext l)) (fun ex =>
    Ok (h ++ payload ++ ex))) in
  match r with
  | Ok b => (Ok b, l)
  | Err c => (Err c, l)
  | Panic s => (Panic s, l)
  end.

Definition ntp_render_panics (l : ntp) : bool := false.
