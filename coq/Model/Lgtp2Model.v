(* Lgtp2 — executable model of layers/gtp2.go (GTPv2-C header decoder: optional TEID, piggybacking flag,
   message length, information elements) as repaired (fixer: int offsets and IE header check; agent-lsmall:
   TEID and IEs cleared on decode).  Definitions only.
   Line numbers of the repaired file: DecodeFromBytes :36-98, decodeGTPv2 :100-109, NextLayerType :132-134 (LayerTypePayload).
   No SerializeTo (C06/C07 n/a).  `orig` selects the behaviour before the two agent-lsmall repairs
   (TEID kept from the earlier packet when the T flag is clear; IEs appended to those of the earlier packet). *)
From GP Require Import Base Codec MiscLib.
Open Scope Z_scope.

Record g2ie := mkIe { ie_type : Z; ie_content : list Z }.
Record gtp2 := mkG2 {
  g2_contents : list Z; g2_payload : list Z;
  g2_version : Z; g2_piggy : bool; g2_teidflag : bool; g2_prio : Z; g2_mtype : Z; g2_mlen : Z;
  g2_teid : Z; g2_seq : Z; g2_spare : Z; g2_ies : list g2ie }.
Definition g2_fresh : gtp2 := mkG2 [] [] 0 false false 0 0 0 0 0 0 [].

(* the IE loop :80-92; Err 99 = out of fuel.  Returns the IEs appended so far (g.IEs is assigned on every
   iteration, so an error return leaves them behind) and the final offset. *)
Fixpoint g2_ie_loop (fuel : nat) (data : list Z) (ci : Z) (acc : list g2ie) : list g2ie * outcome Z :=
  if negb (ci <? zlen data) then (acc, Ok ci) else                                    (* :80 *)
  match fuel with
  | O => (acc, Err 99)
  | S f =>
    if zlen data <? ci + 4 then (acc, Err 5) else                                     (* :81-83 *)
    match obind (cd_idx data ci) (fun t => obind (cd_slc data (ci + 1) (ci + 3)) (fun _ =>
          obind (cd_rd16 data (ci + 1)) (fun len => Ok (t, len)))) with               (* :84-85 *)
    | Ok (t, len) =>
      if zlen data <? ci + 4 + len then (acc, Err 6) else                             (* :86-88 *)
      match cd_slc data (ci + 4) (ci + 4 + len) with                                  (* :89 *)
      | Ok c => g2_ie_loop f data (ci + 4 + len) (acc ++ [mkIe t c])                  (* :90-91 *)
      | Err e => (acc, Err e) | Panic s => (acc, Panic s)
      end
    | Err e => (acc, Err e) | Panic s => (acc, Panic s)
    end
  end.

Definition g2_decode_gen (orig : bool) (old : gtp2) (data : list Z) : gtp2 * outcome unit * bool :=
  let n := zlen data in
  if n <? 4 then (old, Err 1, false) else                                             (* :39-41 no SetTruncated anywhere *)
  ml_bind (cd_idx data 0) old false (fun b0 =>
  ml_bind (cd_idx data 1) old false (fun mt =>
  ml_bind (cd_rd16 data 2) old false (fun ml =>
  let tf := (b0 / 8) mod 2 =? 1 in
  let te0 := if orig then g2_teid old else 0 in                                       (* :50 repaired *)
  let ie0 := if orig then g2_ies old else [] in                                       (* :53 repaired *)
  let mk := fun c p teid sq sp ies => mkG2 c p ((b0 / 32) mod 8) ((b0 / 16) mod 2 =? 1) tf ((b0 / 4) mod 2) mt ml teid sq sp ies in
  let oc := g2_contents old in let op := g2_payload old in
  let l1 := mk oc op te0 (g2_seq old) (g2_spare old) ie0 in                           (* :42-53 *)
  if n <? 4 + ml then (l1, Err 2, false) else                                         (* :57-60 *)
  let go := fun ci teid =>
    let l2 := mk oc op teid (g2_seq old) (g2_spare old) ie0 in
    if n <? ci + 4 then (l2, Err 4, false) else                                       (* :72-74 *)
    ml_bind (cd_idx data ci) l2 false (fun s0 =>
    ml_bind (cd_idx data (ci + 1)) l2 false (fun s1 =>
    ml_bind (cd_idx data (ci + 2)) l2 false (fun s2 =>
    ml_bind (cd_idx data (ci + 3)) l2 false (fun sp =>
    let sq := s0 * 65536 + s1 * 256 + s2 in                                           (* :75-76 *)
    let '(ies, o) := g2_ie_loop (S (length data)) data (ci + 4) ie0 in                (* :80-92 *)
    let l3 := mk oc op teid sq sp ies in
    match o with
    | Ok ce =>
      ml_bind (cd_slc data 0 ce) l3 false (fun c =>                                   (* :94 *)
      ml_bind (cd_slc data ce n) l3 false (fun p =>
      (mk c p teid sq sp ies, Ok tt, false)))
    | Err e => (l3, Err e, false)
    | Panic s => (l3, Panic s, false)
    end)))) in
  if tf then
    if n <? 8 then (l1, Err 3, false) else                                            (* :63-70 *)
    ml_bind (ml_rd32 data 4) l1 false (fun teid => go 8 teid)
  else go 4 te0))).

Definition g2_decode_into := g2_decode_gen false.
Definition g2_decode_orig := g2_decode_gen true.

Definition g2_next (l : gtp2) : Z := 0.                                               (* :132-134 LayerTypePayload *)
Definition g2_render_panics (l : gtp2) : bool := false.

(* decodeGTPv2 :100-109, the registered decoder: a new object, the packet builder as feedback; on success the layer is
   added and NextLayerType() (LayerTypePayload, id 0) handed to NextDecoder.  Result: the object, whether it was added,
   the next decoder asked for, outcome, truncated flag. *)
Definition g2_decode_fn (data : list Z) : gtp2 * bool * option Z * outcome unit * bool :=
  let '(l, o, tr) := g2_decode_into g2_fresh data in
  match o with
  | Ok _ => (l, true, Some (g2_next l), Ok tt, tr)
  | _ => (l, false, None, o, tr)
  end.
