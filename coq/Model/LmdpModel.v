(* Lmdp — executable model of layers/mdp.go (Cisco Meraki discovery protocol: 28-octet preamble, then type/length/value
   items holding strings, decimal numbers, an IP address and a boolean as text) as repaired (fixer: every TLV checked
   against the packet length; agent-lsmall: the layer is reset at the start of a decode).  Definitions only.
   /repo/layers/mdp.go: DecodeFromBytes :52-141, SerializeTo :144-150 (writes nothing), NextLayerType :158-160, decodeMDP :162-170
   (m.Type.LayerType(): EthernetType metadata table, abstract — the id is the EthernetType number).
   strconv.ParseFloat, net.ParseIP and strconv.ParseBool are library functions of the text alone: parameters
   `pf` (the float64 bits), `pip` (nil or 16 octets) and `pb` of the model (results on error: 0 / nil / false, which the
   decoder assigns like any other result).  `orig` selects the behaviour before the agent-lsmall repair (every field
   of the earlier packet kept unless the new packet carries the TLV). *)
From GP Require Import Base Codec MiscLib.
Open Scope Z_scope.

Record mdp := mkMd {
  md_contents : list Z; md_payload : list Z;
  md_preamble : list Z; md_devinfo : list Z; md_netinfo : list Z; md_lon : Z; md_lat : Z; md_t6 : list Z; md_t7 : list Z;
  md_ip : list Z; md_b13 : bool; md_type : Z; md_length : Z }.
Definition md_fresh : mdp := mkMd [] [] [] [] [] 0 0 [] [] [] false 0 0.

Section Parsers.
Variable pf : list Z -> Z.
Variable pip : list Z -> list Z.
Variable pb : list Z -> bool.

(* the switch :76-135 for one TLV of type t (not 255) with value v; tlv = the whole item (type, length, value) *)
Definition md_set (l : mdp) (t : Z) (v tlv : list Z) : mdp :=
  let '(mkMd c p pre di ni lon lat t6 t7 ip b13 ty len) := l in
  if t =? 2 then mkMd (c ++ tlv) p pre v ni lon lat t6 t7 ip b13 ty len                (* :77-83 appends the item to Contents *)
  else if t =? 3 then mkMd c p pre di v lon lat t6 t7 ip b13 ty len                    (* :84-89 *)
  else if t =? 4 then mkMd c p pre di ni (pf v) lat t6 t7 ip b13 ty len                (* :90-95 *)
  else if t =? 5 then mkMd c p pre di ni lon (pf v) t6 t7 ip b13 ty len                (* :96-101 *)
  else if t =? 6 then mkMd c p pre di ni lon lat v t7 ip b13 ty len                    (* :102-107 *)
  else if t =? 7 then mkMd c p pre di ni lon lat t6 v ip b13 ty len                    (* :108-113 *)
  else if t =? 11 then mkMd c p pre di ni lon lat t6 t7 (pip v) b13 ty len             (* :114-119 *)
  else if t =? 13 then mkMd c p pre di ni lon lat t6 t7 ip (pb v) ty len               (* :120-125 *)
  else l.                                                                              (* :129-134 unknown: skipped *)

(* the loop :64-136; Err 99 = out of fuel *)
Fixpoint md_loop (fuel : nat) (data : list Z) (off : Z) (l : mdp) : mdp * outcome unit * bool :=
  let n := zlen data in
  if n <=? off then (l, Ok tt, false) else                                            (* :65-67 *)
  match fuel with
  | O => (l, Err 99, false)
  | S f =>
    ml_bind (cd_idx data off) l false (fun t =>                                       (* :68 *)
    if t =? 255 then (l, Ok tt, false) else                                           (* :126-128 offset = Length: the loop ends *)
    if n <? off + 2 then (l, Err 2, true) else                                        (* :69-75 *)
    ml_bind (cd_idx data (off + 1)) l false (fun len =>
    if n <? off + 2 + len then (l, Err 2, true) else
    ml_bind (cd_slc data off (off + 2 + len)) l false (fun tlv =>
    ml_bind (cd_slc data (off + 2) (off + 2 + len)) l false (fun v =>
    md_loop f data (off + 2 + len) (md_set l t v tlv)))))
  end.

Definition md_decode_gen (orig : bool) (old : mdp) (data : list Z) : mdp * outcome unit * bool :=
  let n := zlen data in
  if n <? 28 then (old, Err 1, true) else                                             (* :54-57 *)
  let base := if orig then old else md_fresh in                                       (* :60 repaired *)
  ml_bind (cd_slc data 0 28) old false (fun pre =>                                    (* :62 *)
  let l0 := mkMd (md_contents base) (md_payload base) pre (md_devinfo base) (md_netinfo base) (md_lon base) (md_lat base)
                 (md_t6 base) (md_t7 base) (md_ip base) (md_b13 base) 1810 n in       (* :60-62  0x0712 *)
  let '(l1, o, tr) := md_loop (S (length data)) data 28 l0 in
  match o with
  | Ok _ => (mkMd data [] (md_preamble l1) (md_devinfo l1) (md_netinfo l1) (md_lon l1) (md_lat l1) (md_t6 l1) (md_t7 l1)
                  (md_ip l1) (md_b13 l1) (md_type l1) (md_length l1), Ok tt, false)   (* :138 *)
  | _ => (l1, o, tr)
  end).

Definition md_decode_into := md_decode_gen false.
Definition md_decode_orig := md_decode_gen true.

(* decodeMDP :162-170, the registered decoder: a new object, the packet builder as feedback; on success the layer is added
   and NextLayerType() = m.Type.LayerType() handed to NextDecoder (LayerTypeMDP itself; Payload is nil, so the packet stops) *)
Definition md_decode_fn (data : list Z) : mdp * bool * option Z * outcome unit * bool :=
  let '(l, o, tr) := md_decode_into md_fresh data in
  match o with
  | Ok _ => (l, true, Some (md_type l), Ok tt, tr)
  | _ => (l, false, None, o, tr)
  end.
End Parsers.

Definition md_next (l : mdp) : Z := md_type l.                                        (* :158-160 *)

(* SerializeTo :145-151 returns nil without touching the buffer *)
Definition md_serialize (l : mdp) (payload : list Z) (fixl csum : bool) (junk : list Z) : outcome (list Z) * mdp := (Ok payload, l).

(* reflective renderers; net.IP.String is total on every length *)
Definition md_render_panics (l : mdp) : bool := false.
