(* Lsflow — executable model of layers/sflow.go (sFlow v5 datagram decoder).  Definitions only.
   Line numbers (sflow.go after the `fix:` commit "SFlowDatagram.DecodeFromBytes starts from empty sample lists"):
     SFlowDatagram.DecodeFromBytes :302-368 (reset :305-308, header :310-325, sample loop :330-366),
     skipRecord :471-482, decodeFlowSample :484-712 (record loop :560-710), decodeCounterSample :814-909 (record loop :837-907),
     SFlowDataSource.decode :95-99, SFlowDataSourceExpanded.decode :106-110, SFlowDataFormat.decode :192-196,
     SFlowFlowDataFormat.decode :455-459, SFlowCounterDataFormat.decode :747-751, SFlowIPType.Length :291-300,
     decodeRawPacketFlowRecord :1102, decodeExtendedSwitchFlowRecord :1155, decodeExtendedRouterFlowRecord :1200,
     SFlowASDestination.decodePath :1326, decodeExtendedGatewayFlowRecord :1348, decodeExtendedURLRecord :1443,
     decodeExtendedUserFlow :1768, decodeSFlowIpv4Record :1846, decodeSFlowIpv6Record :1907, the four tunnel decoders
     :1945-2083, decapsulate / VNI decoders :2088-2221, decodeGenericInterfaceCounters :2335, decodeEthernetCounters :2398,
     decodeVLANCounters :2475, decodeLACPCounters :2517, decodeProcessorCounters :2576, decodeEthernetFrameFlowRecord :2627,
     decodeOpenflowportCounters :2652, decodeAppresourcesCounters :2681, decodeOVSDPCounters :2714, decodeString :2741,
     decodePortnameCounters :2758 (first lines of the functions).
   The decoder works on a cursor: ` *data, x = ( *data)[n:], f(( *data)[:n])`; a parser here is a function
   from the remaining bytes to an outcome of (value, remaining bytes); every such statement is a
   checked read (Panic when fewer than n bytes remain).  Go int is 64 bits; uint32 arithmetic wraps explicitly.
   Decoded samples and records are generic trees (`sv`): unsigned numbers, byte strings, lists; the
   harness prints the real structures in the same shape.  The packet embedded in a raw packet flow
   record (gopacket.NewPacket(header, LayerTypeEthernet, gopacket.Default): total, recovers panics)
   is opaque: the model keeps the header bytes handed to it.
   BaseLayer (Contents/Payload) is never written by this decoder (the repository's tests pin that),
   so it is not part of the modelled state.
   Behaviour modelled as it is, although surprising (none of it is a C19/C05/C01 matter): SFlowDataSource is an int32, so
   source-id classes 2 and 3 of compact samples decode to 0xfffffffe / 0xffffffff; skipRecord rounds lengths above 4
   DOWN to a multiple of 4 (Go % on a negative int); SFlowPORTNAME.Len is the padded length; FreeMemory = high + low
   (no shift); IPv4/IPv6 flow records (types 3, 4) read the tag and length words as Length and Protocol. *)
From GP Require Import Base Codec.
Open Scope Z_scope.

Inductive sv : Type := SU (v : Z) | SB (b : list Z) | SL (l : list sv).

Definition P (A : Type) := list Z -> outcome (A * list Z).
Definition pret {A} (a : A) : P A := fun d => Ok (a, d).
Definition pbind {A B} (p : P A) (f : A -> P B) : P B := fun d =>
  match p d with Ok (a, r) => f a r | Err e => Err e | Panic s => Panic s end.
Definition perr {A} (e : Z) : P A := fun _ => Err e.

(* `*data, x = ( *data)[4:], binary.BigEndian.Uint32(( *data)[:4])` *)
Definition p_u32 : P Z := fun d =>
  match d with a :: b :: c :: e :: r => Ok (u32 (((a * 256 + b) * 256 + c) * 256 + e), r) | _ => Panic 1 end.

Fixpoint sf_split (n : nat) (d : list Z) : option (list Z * list Z) :=
  match n with
  | O => Some ([], d)
  | S k => match d with
           | [] => None
           | x :: t => match sf_split k t with Some (a, r) => Some (x :: a, r) | None => None end
           end
  end.
(* `*data, x = ( *data)[n:], ( *data)[:n]` for a constant (or 0/4/16) n *)
Definition p_bytes (n : nat) : P (list Z) := fun d =>
  match sf_split n d with Some x => Ok x | None => Panic 2 end.
(* the same with n computed from the input (callers have compared it with len) *)
Definition p_take (n : Z) : P (list Z) := fun d =>
  if (0 <=? n) && (n <=? zlen d) then Ok (firstn (Z.to_nat n) d, skipn (Z.to_nat n) d) else Panic 3.

(* len( *data) < n *)
Fixpoint sf_short (n : nat) (d : list Z) : bool :=
  match n with O => false | S k => match d with [] => true | _ :: t => sf_short k t end end.
(* `if len( *data) < n { return err }` *)
Definition p_short (n : nat) (e : Z) : P unit := fun d => if sf_short n d then Err e else Ok (tt, d).
(* a word read behind its own `len < 4` check (decodeFlowSample, decodeEthernetCounters) *)
Definition p_w (e : Z) : P Z := fun d => if sf_short 4 d then Err e else p_u32 d.

(* fixed-shape records: one length check up front, then unchecked reads *)
Inductive fspec := FFmt | FW32 | FW64 | FSum | FB (n : nat) | FSk (n : nat).
Definition fsize (f : fspec) : nat :=
  match f with FFmt | FW32 => 4%nat | FW64 | FSum => 8%nat | FB n | FSk n => n end.
Definition p_field (f : fspec) : P (list sv) :=
  match f with
  | FFmt => pbind p_u32 (fun v => pret [SU (v / 4096); SU (v mod 4096)])      (* SFlow*DataFormat.decode: >>12, &0xFFF *)
  | FW32 => pbind p_u32 (fun v => pret [SU v])
  | FW64 => pbind p_u32 (fun h => pbind p_u32 (fun l => pret [SU (h * 4294967296 + l)]))
  | FSum => pbind p_u32 (fun h => pbind p_u32 (fun l => pret [SU (h + l)]))  (* FreeMemory = uint64(high32) + uint64(low32) *)
  | FB n => pbind (p_bytes n) (fun b => pret [SB b])
  | FSk n => pbind (p_bytes n) (fun _ => pret [])
  end.
Fixpoint p_shape (sh : list fspec) : P (list sv) :=
  match sh with
  | [] => pret []
  | f :: t => pbind (p_field f) (fun vs => pbind (p_shape t) (fun ws => pret (vs ++ ws)))
  end.
Definition p_fixed (min : nat) (sh : list fspec) : P (list sv) :=
  pbind (p_short min 1) (fun _ => p_shape sh).

(* uint32 arithmetic: n + ((4 - n) % 4) *)
Definition pad32 (n : Z) : Z := (n + ((4 - n) mod 4294967296) mod 4) mod 4294967296.

(* skipRecord :471-482 (Go int arithmetic, % truncates toward zero) *)
Definition p_skip : P unit := fun d =>
  if sf_short 8 d then Err 20 else
  match p_u32 (skipn 4 d) with
  | Ok (rl, _) =>
    let skip := rl + Z.rem (4 - rl) 4 + 8 in
    if (skip <? 8) || (skip >? zlen d) then Err 21 else
    match p_take skip d with Ok (_, r) => Ok (tt, r) | Err e => Err e | Panic s => Panic s end
  | Err e => Err e
  | Panic s => Panic s
  end.

Definition ip_len (t : Z) : nat := if t =? 1 then 4%nat else if t =? 2 then 16%nat else 0%nat.   (* SFlowIPType.Length *)

(* decodeRawPacketFlowRecord *)
Definition p_raw : P (list sv) :=
  pbind (p_fixed 24 [FFmt; FW32; FW32; FW32; FW32]) (fun a =>
  pbind p_u32 (fun hl =>
  let hp := pad32 hl in
  fun d =>
  if (hl >? zlen d) || (hp >? zlen d) then Err 30 else
  match p_take hp d with
  | Ok (hdr, r) => Ok (a ++ [SU hl; SB hdr], r)        (* Header = gopacket.NewPacket(header, ...) *)
  | Err e => Err e | Panic s => Panic s
  end)).

(* decodeExtendedRouterFlowRecord *)
Definition p_router : P (list sv) :=
  pbind (p_fixed 12 [FFmt; FW32]) (fun a =>
  pbind p_u32 (fun at_ =>
  pbind (p_short (ip_len at_ + 8) 31) (fun _ =>
  pbind (p_shape [FB (ip_len at_); FW32; FW32]) (fun b => pret (a ++ b))))).

(* n words, unchecked (the caller has compared n with len/4) *)
Fixpoint p_words (n : nat) : P (list sv) :=
  match n with
  | O => pret []
  | S k => pbind p_u32 (fun v => pbind (p_words k) (fun l => pret (SU v :: l)))
  end.

(* `count > uint32(len( *data)/4)` *)
Definition cnt_too_big (c : Z) (d : list Z) : bool := c >? (zlen d / 4) mod 4294967296.

(* SFlowASDestination.decodePath *)
Definition p_path : P sv :=
  pbind (p_short 8 32) (fun _ =>
  pbind p_u32 (fun ty => pbind p_u32 (fun c => fun d =>
  if cnt_too_big c d then Err 33 else
  match p_words (Z.to_nat c) d with
  | Ok (ms, r) => Ok (SL [SU ty; SU c; SL ms], r)
  | Err e => Err e | Panic s => Panic s
  end))).

(* `for i := uint32(0); i < eg.ASPathCount; i++ { decodePath; append }` *)
Fixpoint p_paths (fuel : nat) (cnt : Z) : P (list sv) := fun d =>
  if cnt <=? 0 then Ok ([], d) else
  match fuel with
  | O => Err 99
  | S f =>
    match p_path d with
    | Ok (x, r) => match p_paths f (cnt - 1) r with Ok (l, r') => Ok (x :: l, r') | Err e => Err e | Panic s => Panic s end
    | Err e => Err e
    | Panic s => Panic s
    end
  end.

(* decodeExtendedGatewayFlowRecord *)
Definition p_gateway : P (list sv) :=
  pbind (p_fixed 12 [FFmt; FW32]) (fun a =>
  pbind p_u32 (fun at_ =>
  pbind (p_short (ip_len at_ + 16) 34) (fun _ =>
  pbind (p_shape [FB (ip_len at_); FW32; FW32; FW32]) (fun b =>
  pbind p_u32 (fun pc => fun d =>
  match p_paths (S (length d)) pc d with
  | Ok (paths, r) =>
    (pbind (p_w 35) (fun cl => fun d2 =>
     if cnt_too_big cl d2 then Err 36 else
     match p_words (Z.to_nat cl) d2 with
     | Ok (cs, r2) =>
       pbind (p_w 37) (fun lp => pret (a ++ b ++ [SU pc; SL paths; SL cs; SU lp])) r2
     | Err e => Err e | Panic s => Panic s
     end)) r
  | Err e => Err e
  | Panic s => Panic s
  end))))).

(* an XDR string of decodeExtendedURLRecord / decodeExtendedUserFlow: length word (already read: n), padded
   bytes; `extra` more bytes must remain behind it.  string(bytes[:n]) is taken from the padded slice (n <= cap). *)
Definition p_xstr (n : Z) (extra : Z) (e : Z) : P sv := fun d =>
  let np := pad32 n in
  if (n >? zlen d) || (np + extra >? zlen d) then Err e else
  match p_take np d with
  | Ok (_, r) => Ok (SB (firstn (Z.to_nat n) d), r)
  | Err e => Err e | Panic s => Panic s
  end.

(* decodeExtendedURLRecord *)
Definition p_url : P (list sv) :=
  pbind (p_fixed 16 [FFmt; FW32; FW32]) (fun a =>
  pbind p_u32 (fun ul => pbind (p_xstr ul 4 38) (fun url =>
  pbind p_u32 (fun hl => pbind (p_xstr hl 0 39) (fun host => pret (a ++ [url; host])))))).

(* decodeExtendedUserFlow *)
Definition p_user : P (list sv) :=
  pbind (p_fixed 16 [FFmt; FW32; FW32]) (fun a =>
  pbind p_u32 (fun sl => pbind (p_xstr sl 8 40) (fun su =>
  pbind p_u32 (fun dcs => pbind p_u32 (fun dl => pbind (p_xstr dl 0 41) (fun du =>
  pret (a ++ [su; SU dcs; du]))))))).

Definition ipv4_sh : list fspec := [FW32; FW32; FB 4; FB 4; FW32; FW32; FW32; FW32].
Definition ipv6_sh : list fspec := [FW32; FW32; FB 16; FB 16; FW32; FW32; FW32; FW32].

(* decodeExtendedIpv{4,6}Tunnel{Egress,Ingress} *)
Definition p_tunnel (min : nat) (sh : list fspec) : P (list sv) :=
  pbind (p_fixed 8 [FFmt; FW32]) (fun a => pbind (p_fixed min sh) (fun b => pret (a ++ b))).

(* flow records decoded by one up-front length check and fixed reads *)
Definition flow_fixed (ty : Z) : option (nat * list fspec) :=
  if ty =? 2 then Some (32%nat, [FFmt; FW32; FW32; FB 6; FSk 2; FB 6; FSk 2; FW32]) else   (* ethernet frame *)
  if ty =? 3 then Some (32%nat, ipv4_sh) else
  if ty =? 4 then Some (56%nat, ipv6_sh) else
  if ty =? 1001 then Some (24%nat, [FFmt; FW32; FW32; FW32; FW32; FW32]) else             (* extended switch *)
  if (1027 <=? ty) && (ty <=? 1030) then Some (12%nat, [FFmt; FW32; FW32]) else           (* decapsulate, VNI *)
  None.

(* `skipRecord(data); return s, errors.New("skipping ...")` *)
Definition p_skip_err {A} (e : Z) : P A := fun d =>
  match p_skip d with Panic s => Panic s | _ => Err e end.

(* the switch of decodeFlowSample :570-704 (enterprise 0) *)
Definition p_flow_record (ty : Z) : P (list sv) :=
  match flow_fixed ty with
  | Some (m, sh) => p_fixed m sh
  | None =>
    if ty =? 1 then p_raw else
    if ty =? 1002 then p_router else
    if ty =? 1003 then p_gateway else
    if ty =? 1004 then p_user else
    if ty =? 1005 then p_url else
    if (ty =? 1023) || (ty =? 1024) then p_tunnel 32 ipv4_sh else
    if (ty =? 1025) || (ty =? 1026) then p_tunnel 56 ipv6_sh else
    if (1006 <=? ty) && (ty <=? 1012) then p_skip_err 42 else
    perr 43
  end.

(* record loop of decodeFlowSample :560-710 *)
Fixpoint p_frecs (fuel : nat) (cnt : Z) : P (list sv) := fun d =>
  if cnt <=? 0 then Ok ([], d) else
  match fuel with
  | O => Err 99
  | S f =>
    if sf_short 4 d then Err 44 else
    match p_u32 d with
    | Ok (tag, _) =>
      if tag / 4096 =? 0 then
        match p_flow_record (tag mod 4096) d with
        | Ok (fs, r) =>
          match p_frecs f (cnt - 1) r with
          | Ok (l, r') => Ok (SL (SU (tag mod 4096) :: fs) :: l, r')
          | Err e => Err e | Panic s => Panic s
          end
        | Err e => Err e
        | Panic s => Panic s
        end
      else
        match p_skip d with
        | Ok (_, r) => p_frecs f (cnt - 1) r
        | Err e => Err e
        | Panic s => Panic s
        end
    | Err e => Err e
    | Panic s => Panic s
    end
  end.

(* SFlowDataSource(int32).decode :95-99: arithmetic shift of a signed value, converted to uint32 *)
Definition src_compact (v : Z) : Z * Z :=
  ((if v <? 2147483648 then v / 1073741824 else 4294967296 + (v - 4294967296) / 1073741824), v mod 1073741824).

(* decodeFlowSample :484-712 *)
Definition p_flow_sample (expanded : bool) : P sv :=
  pbind p_u32 (fun sdf =>                                                        (* :487, the caller checked len >= 4 *)
  pbind (p_w 45) (fun slen => pbind (p_w 45) (fun seq =>
  pbind (if expanded then pbind (p_w 45) (fun c => pbind (p_w 45) (fun i => pret (c, i)))
         else pbind (p_w 45) (fun v => pret (src_compact v))) (fun ci =>
  pbind (p_w 45) (fun rate => pbind (p_w 45) (fun pool => pbind (p_w 45) (fun drop =>
  pbind (if expanded
         then pbind (p_w 45) (fun a => pbind (p_w 45) (fun b => pbind (p_w 45) (fun c => pbind (p_w 45) (fun e => pret [SU a; SU b; SU c; SU e]))))
         else pbind (p_w 45) (fun b => pbind (p_w 45) (fun e => pret [SU 0; SU b; SU 0; SU e]))) (fun io =>
  pbind (p_w 45) (fun rc => fun d =>
  match p_frecs (S (length d)) rc d with
  | Ok (recs, r) =>
    Ok (SL ([SU (sdf / 4096); SU (sdf mod 4096); SU slen; SU seq; SU (fst ci); SU (snd ci); SU rate; SU pool; SU drop]
            ++ io ++ [SU rc; SL recs]), r)
  | Err e => Err e
  | Panic s => Panic s
  end))))))))).

(* decodeEthernetCounters: format word unchecked (the caller checked 4), then 14 words each behind `len < 4` *)
Fixpoint p_words_err (n : nat) (e : Z) : P (list sv) :=
  match n with
  | O => pret []
  | S k => pbind (p_w e) (fun v => pbind (p_words_err k e) (fun l => pret (SU v :: l)))
  end.
Definition p_ethc : P (list sv) :=
  pbind (p_field FFmt) (fun a => pbind (p_words_err 14 50) (fun b => pret (a ++ b))).

(* decodeString + decodePortnameCounters: Len is the PADDED length (named result modified before return) *)
Definition p_portname : P (list sv) :=
  pbind (p_fixed 8 [FFmt; FW32]) (fun a =>
  pbind (p_w 51) (fun n => fun d =>
  if (n + 3) / 4 * 4 >? zlen d then Err 52 else
  let np := if n mod 4 =? 0 then n else (n + (4 - n mod 4)) mod 4294967296 in
  match p_take np d with
  | Ok (_, r) => Ok (a ++ [SU np; SB (firstn (Z.to_nat n) d)], r)
  | Err e => Err e | Panic s => Panic s
  end)).

Definition counter_fixed (ty : Z) : option (nat * list fspec) :=
  if ty =? 1 then Some (96%nat, [FFmt; FW32; FW32; FW32; FW64; FW32; FW32; FW64; FW32; FW32; FW32; FW32; FW32; FW32;
                                 FW64; FW32; FW32; FW32; FW32; FW32; FW32]) else         (* generic interface *)
  if ty =? 5 then Some (36%nat, [FFmt; FW32; FW32; FW64; FW32; FW32; FW32; FW32]) else   (* VLAN *)
  if ty =? 7 then Some (64%nat, [FFmt; FW32; FB 6; FSk 2; FB 6; FSk 2; FW32; FW32; FW32; FW32; FW32; FW32; FW32; FW32; FW32; FW32]) else  (* LACP *)
  if ty =? 1001 then Some (36%nat, [FFmt; FW32; FW32; FW32; FW32; FW64; FSum]) else      (* processor *)
  if ty =? 1004 then Some (20%nat, [FFmt; FW32; FW64; FW32]) else                        (* openflow port *)
  if ty =? 2203 then Some (48%nat, [FFmt; FW32; FW32; FW32; FW64; FW64; FW32; FW32; FW32; FW32]) else   (* app resources *)
  if ty =? 2207 then Some (32%nat, [FFmt; FW32; FW32; FW32; FW32; FW32; FW32; FW32]) else   (* OVS datapath *)
  None.

(* the switch of decodeCounterSample :843-906 (the enterprise part of the tag is ignored) *)
Definition p_counter_record (ty : Z) : P (list sv) :=
  match counter_fixed ty with
  | Some (m, sh) => p_fixed m sh
  | None =>
    if ty =? 2 then p_ethc else
    if ty =? 1005 then p_portname else
    if (ty =? 3) || (ty =? 4) then p_skip_err 53 else
    perr 54
  end.

Fixpoint p_crecs (fuel : nat) (cnt : Z) : P (list sv) := fun d =>
  if cnt <=? 0 then Ok ([], d) else
  match fuel with
  | O => Err 99
  | S f =>
    if sf_short 4 d then Err 55 else
    match p_u32 d with
    | Ok (tag, _) =>
      match p_counter_record (tag mod 4096) d with
      | Ok (fs, r) =>
        match p_crecs f (cnt - 1) r with
        | Ok (l, r') => Ok (SL (SU (tag mod 4096) :: fs) :: l, r')
        | Err e => Err e | Panic s => Panic s
        end
      | Err e => Err e
      | Panic s => Panic s
      end
    | Err e => Err e
    | Panic s => Panic s
    end
  end.

(* decodeCounterSample :814-909 *)
Definition p_counter_sample (expanded : bool) : P sv :=
  pbind (p_short (if expanded then 24 else 20) 56) (fun _ =>
  pbind p_u32 (fun sdf => pbind p_u32 (fun slen => pbind p_u32 (fun seq =>
  pbind (if expanded then pbind p_u32 (fun c => pbind p_u32 (fun i => pret (c / 1073741824, i mod 1073741824)))
         else pbind p_u32 (fun v => pret (src_compact v))) (fun ci =>
  pbind p_u32 (fun rc => fun d =>
  match p_crecs (S (length d)) rc d with
  | Ok (recs, r) =>
    Ok (SL [SU (sdf / 4096); SU (sdf mod 4096); SU slen; SU seq; SU (fst ci); SU (snd ci); SU rc; SL recs], r)
  | Err e => Err e
  | Panic s => Panic s
  end)))))).

Record sflow := mkSf {
  sf_ver : Z; sf_agent : list Z; sf_sub : Z; sf_seq : Z; sf_up : Z; sf_cnt : Z;
  sf_fs : list sv; sf_cs : list sv }.
Definition sf_fresh : sflow := mkSf 0 [] 0 0 0 0 [] [].

(* the sample loop :330-366: samples appended so far stay in the layer when a later one fails *)
Fixpoint sf_samples (fuel : nat) (cnt : Z) (fs cs : list sv) (d : list Z) : (list sv * list sv) * outcome unit * bool :=
  if cnt <=? 0 then ((fs, cs), Ok tt, false) else
  match fuel with
  | O => ((fs, cs), Err 99, false)
  | S f =>
    if sf_short 4 d then ((fs, cs), Err 4, true) else                              (* :331-334 SetTruncated *)
    match p_u32 d with
    | Ok (tag, _) =>
      let ty := tag mod 4096 in
      if (ty =? 1) || (ty =? 3) then
        match p_flow_sample (ty =? 3) d with
        | Ok (s, r) => sf_samples f (cnt - 1) (fs ++ [s]) cs r
        | Err e => ((fs, cs), Err e, false)
        | Panic s => ((fs, cs), Panic s, false)
        end
      else if (ty =? 2) || (ty =? 4) then
        match p_counter_sample (ty =? 4) d with
        | Ok (s, r) => sf_samples f (cnt - 1) fs (cs ++ [s]) r
        | Err e => ((fs, cs), Err e, false)
        | Panic s => ((fs, cs), Panic s, false)
        end
      else ((fs, cs), Err 5, false)                                                (* :363-364 *)
    | Err e => ((fs, cs), Err e, false)
    | Panic s => ((fs, cs), Panic s, false)
    end
  end.

(* DecodeFromBytes :302-368.  reset = true: the code as repaired (FlowSamples/CounterSamples set to nil first);
   reset = false: the original, which appends to whatever the layer held. *)
Definition sf_decode_gen (reset : bool) (old : sflow) (data : list Z) : sflow * outcome unit * bool :=
  let s0 := if reset then mkSf (sf_ver old) (sf_agent old) (sf_sub old) (sf_seq old) (sf_up old) (sf_cnt old) [] [] else old in
  if sf_short 8 data then (s0, Err 1, true) else                                   (* :310-313 *)
  match p_u32 data with
  | Ok (ver, d1) =>
    let s1 := mkSf ver (sf_agent s0) (sf_sub s0) (sf_seq s0) (sf_up s0) (sf_cnt s0) (sf_fs s0) (sf_cs s0) in
    match p_u32 d1 with
    | Ok (at_, d2) =>
      if sf_short (ip_len at_ + 16) d2 then (s1, Err 2, true) else                 (* :317-320 *)
      match p_bytes (ip_len at_) d2 with
      | Ok (agent, d3) =>
        let s2 := mkSf ver agent (sf_sub s0) (sf_seq s0) (sf_up s0) (sf_cnt s0) (sf_fs s0) (sf_cs s0) in
        match p_u32 d3 with
        | Ok (sub, d4) =>
          let s3 := mkSf ver agent sub (sf_seq s0) (sf_up s0) (sf_cnt s0) (sf_fs s0) (sf_cs s0) in
          match p_u32 d4 with
          | Ok (seq, d5) =>
            let s4 := mkSf ver agent sub seq (sf_up s0) (sf_cnt s0) (sf_fs s0) (sf_cs s0) in
            match p_u32 d5 with
            | Ok (up, d6) =>
              let s5 := mkSf ver agent sub seq up (sf_cnt s0) (sf_fs s0) (sf_cs s0) in
              match p_u32 d6 with
              | Ok (cnt, d7) =>
                let s6 := mkSf ver agent sub seq up cnt (sf_fs s0) (sf_cs s0) in
                if cnt <? 1 then (s6, Err 3, false) else                           (* :327-329 *)
                let '((fs, cs), o, tr) := sf_samples (S (length d7)) cnt (sf_fs s0) (sf_cs s0) d7 in
                (mkSf ver agent sub seq up cnt fs cs, o, tr)
              | Err e => (s5, Err e, false) | Panic s => (s5, Panic s, false)
              end
            | Err e => (s4, Err e, false) | Panic s => (s4, Panic s, false)
            end
          | Err e => (s3, Err e, false) | Panic s => (s3, Panic s, false)
          end
        | Err e => (s2, Err e, false) | Panic s => (s2, Panic s, false)
        end
      | Err e => (s1, Err e, false) | Panic s => (s1, Panic s, false)
      end
    | Err e => (s1, Err e, false) | Panic s => (s1, Panic s, false)
    end
  | Err e => (s0, Err e, false) | Panic s => (s0, Panic s, false)
  end.

Definition sf_decode_into := sf_decode_gen true.
Definition sf_decode_into_orig := sf_decode_gen false.

(* NextLayerType :269: LayerTypePayload; Payload() :265: nil *)
Definition sf_next (l : sflow) : Z := 0.

(* renderers: gopacket.LayerString/LayerDump/LayerGoString are reflective and total on non-nil values; the String
   methods of this file (SFlowASDestination.String, the enum String methods) are switches with defaults.  The two
   panicking accessors (SFlowSampleType.GetType, SFlowBaseCounterRecord.GetType) are not renderers and are only
   reachable with a Format the decoder has dispatched on. *)
Definition sf_render_panics (l : sflow) : bool := false.
