(* Lasf — executable model of layers/asf.go (ASF data header codec).  Definitions only.
   /repo/layers/asf.go: ASFDataIdentifier.LayerType :31-36, DecodeFromBytes :110-125, NextLayerType :129-131, SerializeTo :136-156.
   Octet 6 (reserved) is not kept by the decoder and written as 0. *)
From GP Require Import Base Codec MiscLib.
Open Scope Z_scope.
Record asf := mkAsf { as_contents : list Z; as_payload : list Z; as_ent : Z; as_type : Z; as_tag : Z; as_len : Z }.
Definition as_fresh : asf := mkAsf [] [] 0 0 0 0.
Definition as_decode_into (old : asf) (data : list Z) : asf * outcome unit * bool :=
  let n := zlen data in
  if n <? 8 then (old, Err 1, true) else
  ml_bind (cd_slc data 0 8) old false (fun c =>
  ml_bind (cd_slc data 8 n) old false (fun p =>
  ml_bind (ml_rd32 data 0) old false (fun ent =>
  ml_bind (cd_idx data 4) old false (fun ty =>
  ml_bind (cd_idx data 5) old false (fun tg =>
  ml_bind (cd_idx data 7) old false (fun ln =>
  (mkAsf c p ent ty tg ln, Ok tt, false))))))).
(* NextLayerType: 1 = ASF presence pong (enterprise 4542, type 0x40), 0 = payload *)
Definition as_next (l : asf) : Z := if (as_ent l =? 4542) && (as_type l =? 64) then 1 else 0.
Definition as_set_len (l : asf) (v : Z) : asf := mkAsf (as_contents l) (as_payload l) (as_ent l) (as_type l) (as_tag l) v.
Definition as_hdr (l : asf) : list Z := ml_put32 (as_ent l) ++ [as_type l mod 256; as_tag l mod 256; 0; as_len l mod 256].
Definition as_serialize (l : asf) (payload : list Z) (fixl csum : bool) (junk : list Z) : outcome (list Z) * asf :=
  let l' := if fixl then as_set_len l (zlen payload mod 256) else l in   (* :150-152 uint8(len(payload)) *)
  match ml_wrc (cd_region 8 junk) 0 (as_hdr l') with
  | Ok b => (Ok (b ++ payload), l') | Err c => (Err c, l) | Panic s => (Panic s, l)
  end.
Definition as_render_panics (l : asf) : bool := false.
