(* Lstp — executable model of layers/stp.go (spanning tree BPDU codec) as repaired (SerializeTo returns errors
   instead of panicking, priority 0 accepted, short addresses zero-filled).  Definitions only.
   /repo/layers/stp.go: DecodeFromBytes :49-77, NextLayerType :80-82 (LayerTypePayload), checkPriority :85-91, SerializeTo :97-141.
   x & 0xf000 is (x / 4096) * 4096, x & 0x0fff is x mod 4096 for a uint16. *)
From GP Require Import Base Codec MiscLib.
Open Scope Z_scope.
Record stp := mkStp {
  t_contents : list Z; t_payload : list Z;
  t_pid : Z; t_version : Z; t_type : Z; t_tc : bool; t_tca : bool;
  t_rprio : Z; t_rsys : Z; t_rhw : list Z; t_bprio : Z; t_bsys : Z; t_bhw : list Z;
  t_cost : Z; t_port : Z; t_msgage : Z; t_maxage : Z; t_hello : Z; t_fdelay : Z }.
Definition stp_fresh : stp := mkStp [] [] 0 0 0 false false 0 0 [] 0 0 [] 0 0 0 0 0 0.
Definition stp_decode_into (old : stp) (data : list Z) : stp * outcome unit * bool :=
  let n := zlen data in
  if n <? 35 then (old, Err 1, true) else
  ml_bind (cd_rd16 data 0) old false (fun pid => ml_bind (cd_idx data 2) old false (fun ver => ml_bind (cd_idx data 3) old false (fun ty =>
  ml_bind (cd_idx data 4) old false (fun fl => ml_bind (cd_rd16 data 5) old false (fun r =>
  ml_bind (cd_slc data 7 13) old false (fun rhw => ml_bind (ml_rd32 data 13) old false (fun cost =>
  ml_bind (cd_rd16 data 17) old false (fun b => ml_bind (cd_slc data 19 25) old false (fun bhw =>
  ml_bind (cd_rd16 data 25) old false (fun port => ml_bind (cd_rd16 data 27) old false (fun ma =>
  ml_bind (cd_rd16 data 29) old false (fun mx => ml_bind (cd_rd16 data 31) old false (fun he =>
  ml_bind (cd_rd16 data 33) old false (fun fd =>
  ml_bind (cd_slc data 0 35) old false (fun c => ml_bind (cd_slc data 35 n) old false (fun p =>
  (mkStp c p pid ver ty (fl mod 2 =? 1) ((fl / 128) mod 2 =? 1) ((r / 4096) * 4096) (r mod 4096) rhw ((b / 4096) * 4096) (b mod 4096) bhw
         cost port ma mx he fd, Ok tt, false))))))))))))))))).
Definition stp_next (l : stp) : Z := 0.
(* copy(bytes[a:a+6], make([]byte, 6)); copy(bytes[a:a+6], hw) *)
Definition stp_mac6 (hw : list Z) : list Z := firstn 6 (hw ++ repeat 0 6).
Definition stp_hdr (l : stp) : list Z :=
  cd_put16 (t_pid l) ++ [t_version l mod 256; t_type l mod 256; (if t_tc l then 1 else 0) + (if t_tca l then 128 else 0)] ++
  cd_put16 (Z.lor (t_rprio l) (t_rsys l)) ++ stp_mac6 (t_rhw l) ++ ml_put32 (t_cost l mod 4294967296) ++
  cd_put16 (Z.lor (t_bprio l) (t_bsys l)) ++ stp_mac6 (t_bhw l) ++
  cd_put16 (t_port l) ++ cd_put16 (t_msgage l) ++ cd_put16 (t_maxage l) ++ cd_put16 (t_hello l) ++ cd_put16 (t_fdelay l).
Definition stp_serialize (l : stp) (payload : list Z) (fixl csum : bool) (junk : list Z) : outcome (list Z) * stp :=
  if negb (t_rprio l mod 4096 =? 0) then (Err 1, l) else                    (* :99-102 *)
  if negb (t_bprio l mod 4096 =? 0) then (Err 2, l) else                    (* :103-106 *)
  if (4096 <=? t_rsys l) || (4096 <=? t_bsys l) then (Err 3, l) else        (* :107-109 *)
  match ml_wrc (cd_region 35 junk) 0 (stp_hdr l) with                       (* :110-139 *)
  | Ok b => (Ok (b ++ payload), l) | Err c => (Err c, l) | Panic s => (Panic s, l)
  end.
Definition stp_render_panics (l : stp) : bool := false.
