(* Lpppoe — executable model of layers/pppoe.go (PPPoE codec).  Definitions only.
   Line numbers of /repo/layers/pppoe.go: decodePPPoE :32-52, SerializeTo :57-71.  PPPoE has no
   DecodeFromBytes: the decoder function builds a new layer per call (C05 does not apply).
   data[0] >> 4 is b / 16, data[0] & 0x0F is b mod 16; (Version << 4) | Type on uint8 is
   Z.lor ((v * 16) mod 256) t. *)
From GP Require Import Base Codec MiscLib.
Open Scope Z_scope.

Record pppoe := mkPoe {
  o_contents : list Z; o_payload : list Z;
  o_version : Z; o_type : Z; o_code : Z; o_session : Z; o_length : Z }.

Definition poe_fresh : pppoe := mkPoe [] [] 0 0 0 0 0.

(* on an error nothing is added: the layer observed is the zero value *)
Definition poe_decode (data : list Z) : pppoe * outcome unit * bool :=
  let n := zlen data in
  if n <? 6 then (poe_fresh, Err 1, true) else                                    (* :33-36 *)
  ml_bind (cd_idx data 0) poe_fresh false (fun b0 =>                              (* :38-39 *)
  ml_bind (cd_idx data 1) poe_fresh false (fun b1 =>                              (* :40 *)
  ml_bind (cd_rd16 data 2) poe_fresh false (fun sid =>                            (* :41 *)
  ml_bind (cd_rd16 data 4) poe_fresh false (fun len =>                            (* :42 *)
  let pend := 6 + len in                                                          (* :44 *)
  if n <? pend then (poe_fresh, Err 2, true) else                                 (* :45-48 *)
  ml_bind (cd_slc data 0 6) poe_fresh false (fun contents =>                      (* :49 *)
  ml_bind (cd_slc data 6 pend) poe_fresh false (fun payload =>
  (mkPoe contents payload (b0 / 16) (b0 mod 16) b1 sid len, Ok tt, false))))))).

(* NextDecoder(pppoe.Code) :51: abstract id = the code value *)
Definition poe_next (l : pppoe) : Z := o_code l.

Definition poe_serialize (l : pppoe) (payload : list Z) (fixl csum : bool) (junk : list Z)
    : outcome (list Z) * pppoe :=
  let bytes0 := cd_region 6 junk in                                               (* :58-59 *)
  let l1 := if fixl then mkPoe (o_contents l) (o_payload l) (o_version l) (o_type l) (o_code l) (o_session l)
                               (zlen payload mod 65536) else l in                 (* :66-68 *)
  let r :=
    obind (ml_wrc bytes0 0 [Z.lor ((o_version l * 16) mod 256) (o_type l)]) (fun b =>   (* :63 *)
    obind (ml_wrc b 1 [o_code l mod 256]) (fun b =>                               (* :64 *)
    obind (ml_wrc b 2 (cd_put16 (o_session l))) (fun b =>                         (* :65 *)
    ml_wrc b 4 (cd_put16 (o_length l1))))) in                                     (* :69 *)
  match r with
  | Ok b => (Ok (b ++ payload), l1)
  | Err c => (Err c, l1)
  | Panic s => (Panic s, l1)
  end.

(* PPPoE has no String method and no flow accessor *)
Definition poe_render_panics (l : pppoe) : bool := false.
