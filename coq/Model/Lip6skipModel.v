(* Lip6skip — executable model of layers/ip6.go IPv6ExtensionSkipper (a DecodingLayer that steps over any IPv6 extension
   header: next header, length in 8-octet units) with decodeIPv6ExtensionBase.  Definitions only.
   /repo/layers/ip6.go: decodeIPv6ExtensionBase :453-467, IPv6ExtensionSkipper.DecodeFromBytes :478-486,
   NextLayerType :494-496 (IPProtocol metadata table, abstract: the id is the protocol number).
   The skipper is not a gopacket.Layer (no LayerType, no SerializeTo, no renderers): C06, C07, C01 do not apply. *)
From GP Require Import Base Codec MiscLib.
Open Scope Z_scope.

Record skipper := mkSk { sk_contents : list Z; sk_payload : list Z; sk_nh : Z }.
Definition sk_fresh : skipper := mkSk [] [] 0.

Definition sk_decode_into (old : skipper) (data : list Z) : skipper * outcome unit * bool :=
  let n := zlen data in
  if n <? 2 then (old, Err 1, true) else                                  (* :454-457 *)
  ml_bind (cd_idx data 0) old false (fun nh =>                            (* :458 *)
  ml_bind (cd_idx data 1) old false (fun hl =>                            (* :459 *)
  let al := hl * 8 + 8 in                                                 (* :460 *)
  if n <? al then (old, Err 2, false) else                                (* :461-463 no SetTruncated *)
  ml_bind (cd_slc data 0 al) old false (fun c =>                          (* :464, :483 *)
  ml_bind (cd_slc data al n) old false (fun p =>                          (* :465, :483 *)
  (mkSk c p nh, Ok tt, false))))).                                        (* :484 *)

Definition sk_next (l : skipper) : Z := sk_nh l.                          (* :494-496 *)
Definition sk_render_panics (l : skipper) : bool := false.
