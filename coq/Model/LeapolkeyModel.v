(* Leapolkey — executable model of the EAPOL-Key frame codec in layers/eapol.go (95-octet frame: descriptor type, key
   information word, key length, replay counter, nonce, IV, RSC, ID, MIC, key data length, then the key data) as
   repaired (fixer: SerializeTo zeroes the frame first; agent-lsmall: EncryptedKeyData cleared when the key data is
   not encrypted).  Definitions only.  (The EAPOL header of the same file is Leapol.)
   /repo/layers/eapol.go: NextLayerType :176-181, DecodeFromBytes :186-243, SerializeTo :248-305.
   SerializeTo ignores the options: KeyDataLength is written as it is.  Its zeroing loop :253-256 and the field writes are
   folded into one write of the assembled octets into the PrependBytes region: every octet of buf[:95] is assigned by
   the loop and buf[95:] by the final copy; a Nonce/IV/MIC shorter than its field leaves zeros (sl_pad), a longer one
   is cut by copy.  `orig` selects the behaviour before the agent-lsmall repair. *)
From GP Require Import Base Codec MiscLib SmallLib.
Open Scope Z_scope.

Record ekey := mkEk {
  ek_contents : list Z; ek_payload : list Z;
  ek_kdt : Z; ek_ver : Z; ek_kt : Z; ek_ki : Z;
  ek_install : bool; ek_ack : bool; ek_micf : bool; ek_secure : bool; ek_micerr : bool; ek_req : bool; ek_enc : bool; ek_smk : bool;
  ek_klen : Z; ek_rc : Z; ek_nonce : list Z; ek_iv : list Z; ek_rsc : Z; ek_id : Z; ek_mic : list Z; ek_kdl : Z; ek_ekd : list Z }.
Definition ek_fresh : ekey := mkEk [] [] 0 0 0 0 false false false false false false false false 0 0 [] [] 0 0 [] 0 [].

Definition ek_bit (info k : Z) : bool := (info / 2 ^ k) mod 2 =? 1.

Definition ek_decode_gen (orig : bool) (old : ekey) (data : list Z) : ekey * outcome unit * bool :=
  let n := zlen data in
  if n <? 95 then (old, Err 1, true) else                                 (* :187-191 *)
  ml_bind (cd_idx data 0) old false (fun kdt =>                           (* :193 *)
  ml_bind (cd_rd16 data 1) old false (fun info =>                         (* :195 *)
  ml_bind (cd_rd16 data 3) old false (fun klen =>                         (* :208 *)
  ml_bind (sl_rd64 data 5) old false (fun rc =>                           (* :209 *)
  ml_bind (cd_slc data 13 45) old false (fun nonce =>                     (* :211 *)
  ml_bind (cd_slc data 45 61) old false (fun iv =>
  ml_bind (sl_rd64 data 61) old false (fun rsc =>
  ml_bind (sl_rd64 data 69) old false (fun id =>
  ml_bind (cd_slc data 77 93) old false (fun mic =>                       (* :215 *)
  ml_bind (cd_rd16 data 93) old false (fun kdl =>                         (* :217 *)
  let enc := ek_bit info 12 in
  let mk := fun c p ekd => mkEk c p kdt (info mod 8) ((info / 8) mod 2) ((info / 16) mod 4)            (* :196-198 *)
                  (ek_bit info 6) (ek_bit info 7) (ek_bit info 8) (ek_bit info 9) (ek_bit info 10) (ek_bit info 11) enc (ek_bit info 13)   (* :199-206 *)
                  klen rc nonce iv rsc id mic kdl ekd in
  let l1 := mk (ek_contents old) (ek_payload old) (ek_ekd old) in
  let total := 95 + kdl in                                                (* :219 *)
  if n <? total then (l1, Err 2, true) else                               (* :220-224 *)
  if enc then
    ml_bind (cd_slc data 95 total) l1 false (fun ekd =>                   (* :227 *)
    ml_bind (cd_slc data 0 total) l1 false (fun c =>                      (* :228-231 *)
    ml_bind (cd_slc data total n) l1 false (fun p =>
    (mk c p ekd, Ok tt, false))))
  else
    ml_bind (cd_slc data 0 95) l1 false (fun c =>                         (* :236-239 *)
    ml_bind (cd_slc data 95 n) l1 false (fun p =>
    (mk c p (if orig then ek_ekd old else []), Ok tt, false))))))))))))). (* :235 repaired *)

Definition ek_decode_into := ek_decode_gen false.
Definition ek_decode_orig := ek_decode_gen true.

(* NextLayerType :176-181: 1 = LayerTypeDot11InformationElement, 0 = LayerTypePayload *)
Definition ek_next (l : ekey) : Z := if negb (ek_enc l) && (0 <? ek_kdl l) then 1 else 0.

(* the key information word :259-285: uint16 ORs of unmasked uint8 fields and flag bits *)
Definition ek_info (l : ekey) : Z :=
  let i0 := Z.lor (Z.lor (ek_ver l mod 256) ((ek_kt l mod 256) * 8)) ((ek_ki l mod 256) * 16) in
  let i1 := if ek_install l then Z.lor i0 64 else i0 in
  let i2 := if ek_ack l then Z.lor i1 128 else i1 in
  let i3 := if ek_micf l then Z.lor i2 256 else i2 in
  let i4 := if ek_secure l then Z.lor i3 512 else i3 in
  let i5 := if ek_micerr l then Z.lor i4 1024 else i4 in
  let i6 := if ek_req l then Z.lor i5 2048 else i5 in
  let i7 := if ek_enc l then Z.lor i6 4096 else i6 in
  if ek_smk l then Z.lor i7 8192 else i7.

Definition ek_hdr (l : ekey) : list Z :=
  [ek_kdt l mod 256] ++ cd_put16 (ek_info l) ++ cd_put16 (ek_klen l) ++ sl_put64 (ek_rc l) ++ sl_pad 32 (ek_nonce l) ++ sl_pad 16 (ek_iv l) ++
  sl_put64 (ek_rsc l) ++ sl_put64 (ek_id l) ++ sl_pad 16 (ek_mic l) ++ cd_put16 (ek_kdl l).

Definition ek_serialize (l : ekey) (payload : list Z) (fixl csum : bool) (junk : list Z) : outcome (list Z) * ekey :=
  match sl_region (95 + zlen (ek_ekd l)) junk (ek_hdr l ++ ek_ekd l) with   (* :249, :257-302 *)
  | Ok b => (Ok (b ++ payload), l) | Err c => (Err c, l) | Panic s => (Panic s, l)
  end.

Definition ek_render_panics (l : ekey) : bool := false.
