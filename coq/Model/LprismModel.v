(* Lprism — executable model of layers/prism.go (Prism monitor-mode header decoder) as repaired (header and value lengths
   checked against the data).  Definitions only.  /repo/layers/prism.go: decodePrismValue :17-26, DecodeFromBytes :113-151.
   No SerializeTo (C06/C07 n/a).  Code and Length are the low 16 bits of their 4-octet little-endian fields. *)
From GP Require Import Base Codec MiscLib MiscLE.
Open Scope Z_scope.
Record pval := mkPv { pv_did : Z; pv_status : Z; pv_len : Z; pv_data : list Z }.
Definition pv_zero : pval := mkPv 0 0 0 [].
Record prism := mkPr { pr_contents : list Z; pr_payload : list Z; pr_code : Z; pr_len : Z; pr_dev : list Z; pr_vals : list pval }.
Definition pr_fresh : prism := mkPr [] [] 0 0 [] [].
(* the loop :139-145 over k values from offset off; the bool is false when decodePrismValue returned an error: then the
   value in hand has its three numbers set and no Data and the rest of the made slice is zero *)
Fixpoint pr_loop (data : list Z) (off : Z) (k : nat) : outcome (list pval * bool) :=
  match k with
  | O => Ok ([], true)
  | S k' =>
    obind (cd_slc data off (off + 12)) (fun ch =>
    obind (ml_rd32le ch 0) (fun did => obind (ml_rd16le ch 4) (fun st => obind (ml_rd16le ch 6) (fun ln =>
    if 12 <? 8 + ln then Ok (mkPv did st ln [] :: repeat pv_zero k', false) else
    obind (cd_slc ch 8 (8 + ln)) (fun d =>
    obind (pr_loop data (off + 12) k') (fun r => Ok (mkPv did st ln d :: fst r, snd r)))))))
  end.
Definition pr_decode_into (old : prism) (data : list Z) : prism * outcome unit * bool :=
  let n := zlen data in
  if n <? 24 then (old, Err 1, true) else
  ml_bind (ml_rd16le data 0) old false (fun code =>
  ml_bind (ml_rd16le data 4) old false (fun ln =>
  let l1 := mkPr (pr_contents old) (pr_payload old) code ln (pr_dev old) (pr_vals old) in
  if ln <? 24 then (l1, Err 2, false) else
  if n <? ln then (l1, Err 3, true) else
  ml_bind (cd_slc data 8 24) l1 false (fun dev =>
  ml_bind (cd_slc data 0 ln) l1 false (fun c =>
  ml_bind (cd_slc data ln n) l1 false (fun p =>
  let l2 := mkPr c p code ln dev (pr_vals old) in
  if negb ((code =? 68) || (code =? 65)) then (l2, Err 4, false) else
  let k := (ln - 24) / 12 in
  ml_bind (pr_loop data 24 (Z.to_nat k)) l2 false (fun r =>
  let l3 := mkPr c p code ln dev (fst r) in
  if negb (snd r) then (l3, Err 5, false) else
  if negb (24 + 12 * k =? ln) then (l3, Err 6, false) else (l3, Ok tt, false))))))).
Definition pr_render_panics (l : prism) : bool := false.
