(* Lrmcp — executable model of layers/rmcp.go (RMCP header codec).  Definitions only.
   /repo/layers/rmcp.go: RMCPClass.LayerType :26-31, DecodeFromBytes :108-122, NextLayerType :126-128, SerializeTo :138-150.
   Octet 1 (reserved) is not kept and written as 0; the decoder keeps the low 4 bits of the class octet and bit 7. *)
From GP Require Import Base Codec MiscLib.
Open Scope Z_scope.
Record rmcp := mkRm { rm_contents : list Z; rm_payload : list Z; rm_ver : Z; rm_seq : Z; rm_ack : bool; rm_class : Z }.
Definition rm_fresh : rmcp := mkRm [] [] 0 0 false 0.
Definition rm_decode_into (old : rmcp) (data : list Z) : rmcp * outcome unit * bool :=
  let n := zlen data in
  if n <? 4 then (old, Err 1, true) else
  ml_bind (cd_slc data 0 4) old false (fun c =>
  ml_bind (cd_slc data 4 n) old false (fun p =>
  ml_bind (cd_idx data 0) old false (fun v =>
  ml_bind (cd_idx data 2) old false (fun s =>
  ml_bind (cd_idx data 3) old false (fun b3 =>
  (mkRm c p v s ((b3 / 128) mod 2 =? 1) (b3 mod 16), Ok tt, false)))))).
(* NextLayerType: 1 = ASF (class 6), 0 = payload.  The table has 16 entries: a class above 15 (never decoded) indexes outside it *)
Definition rm_next (l : rmcp) : Z := if rm_class l =? 6 then 1 else 0.
Definition rm_hdr (l : rmcp) : list Z :=
  [rm_ver l mod 256; 0; rm_seq l mod 256; Z.lor ((if rm_ack l then 1 else 0) * 2 ^ 7) (rm_class l mod 256)].
Definition rm_serialize (l : rmcp) (payload : list Z) (fixl csum : bool) (junk : list Z) : outcome (list Z) * rmcp :=
  match ml_wrc (cd_region 4 junk) 0 (rm_hdr l) with
  | Ok b => (Ok (b ++ payload), l) | Err c => (Err c, l) | Panic s => (Panic s, l)
  end.
(* RMCPClass.String (used by the renderers) indexes the 16-entry table *)
Definition rm_render_panics (l : rmcp) : bool := 16 <=? rm_class l.
