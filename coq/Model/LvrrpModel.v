(* Lvrrp — executable model of layers/vrrp.go (VRRPv2 decoder).  Definitions only.
   Line numbers of /repo/layers/vrrp.go: DecodeFromBytes :93-143, NextLayerType :150-152
   (LayerTypeZero), Payload() :155-157 (nil).  VRRPv2 has no SerializeTo (C06/C07 do not apply). *)
From GP Require Import Base Codec MiscLib.
Open Scope Z_scope.

Record vrrp := mkVr {
  vr_contents : list Z; vr_payload : list Z;
  vr_version : Z; vr_type : Z; vr_vrid : Z; vr_prio : Z; vr_count : Z;
  vr_authtype : Z; vr_adver : Z; vr_csum : Z; vr_ips : list (list Z) }.
Definition vr_fresh : vrrp := mkVr [] [] 0 0 0 0 0 0 0 0 [].

(* :129-132  for i := uint8(0); i < CountIPAddr; i++ { append(data[offset:offset+4]); offset += 4 } *)
Fixpoint vr_addrs (k : nat) (data : list Z) (off : Z) : outcome (list (list Z)) :=
  match k with
  | O => Ok []
  | S k' => obind (cd_slc data off (off + 4)) (fun s =>
            obind (vr_addrs k' data (off + 4)) (fun r => Ok (s :: r)))
  end.

Definition vr_decode_into (old : vrrp) (data : list Z) : vrrp * outcome unit * bool :=
  let n := zlen data in
  if n <? 8 then (old, Err 1, true) else                                            (* :94-97 *)
  ml_bind (cd_slc data 0 n) old false (fun contents =>                              (* :99 BaseLayer{Contents: data[:len(data)]} *)
  ml_bind (cd_idx data 0) old false (fun b0 =>
  let l1 := mkVr contents [] (b0 / 16) (b0 mod 16) (vr_vrid old) (vr_prio old) (vr_count old)   (* :100-102 *)
                 (vr_authtype old) (vr_adver old) (vr_csum old) (vr_ips old) in
  if negb (b0 mod 16 =? 1) then (l1, Err 2, false) else                             (* :103-106 *)
  ml_bind (cd_idx data 1) l1 false (fun vrid =>                                     (* :108 *)
  ml_bind (cd_idx data 2) l1 false (fun prio =>                                     (* :109 *)
  ml_bind (cd_idx data 3) l1 false (fun cnt =>                                      (* :111 *)
  let l2 := mkVr contents [] (b0 / 16) (b0 mod 16) vrid prio cnt
                 (vr_authtype old) (vr_adver old) (vr_csum old) (vr_ips old) in
  if cnt <? 1 then (l2, Err 3, false) else                                          (* :112-114 *)
  if n <? 8 + 4 * cnt then (l2, Err 4, true) else                                   (* :115-119 *)
  ml_bind (cd_idx data 4) l2 false (fun at_ =>                                      (* :121 *)
  ml_bind (cd_idx data 5) l2 false (fun adv =>                                      (* :122 *)
  ml_bind (cd_rd16 data 6) l2 false (fun cs =>                                      (* :123 *)
  ml_bind (vr_addrs (Z.to_nat cnt) data 8) l2 false (fun ips =>                     (* :127-132 *)
  (mkVr contents [] (b0 / 16) (b0 mod 16) vrid prio cnt at_ adv cs ips, Ok tt, false)))))))))).

(* NextLayerType: LayerTypeZero *)
Definition vr_next (l : vrrp) : Z := 0.
(* VRRPv2Type and VRRPv2AuthType have total String methods (a switch with a default) *)
Definition vr_render_panics (l : vrrp) : bool := false.
