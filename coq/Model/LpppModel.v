(* Lppp — executable model of layers/ppp.go (PPP codec) as repaired by "fix: PPP decoder checks
   lengths instead of panicking on short input".  Definitions only.
   Line numbers of /repo/layers/ppp.go: LinkFlow :37 (a constant), decodePPP :39-70, SerializeTo :74-97.
   PPP has no DecodeFromBytes: the decoder function builds a new layer per call (C05 n/a).
   PPPType & 0x100 == 0 is (t / 256) mod 2 = 0. *)
From GP Require Import Base Codec MiscLib.
Open Scope Z_scope.

Record ppp := mkPpp { p_contents : list Z; p_payload : list Z; p_type : Z; p_pptp : bool }.
Definition ppp_fresh : ppp := mkPpp [] [] 0 false.

(* the layer is added only on success: on an error the zero value is observed *)
Definition ppp_decode (data : list Z) : ppp * outcome unit * bool :=
  let n := zlen data in
  let pptp := (2 <=? n) && (nth 0 data 0 =? 255) && (nth 1 data 0 =? 3) in        (* :42-45 guarded by len >= 2 *)
  let off := if pptp then 2 else 0 in
  if n <? off + 1 then (ppp_fresh, Err 1, true) else                              (* :46-49 *)
  ml_bind (cd_idx data off) ppp_fresh false (fun b =>                             (* :50 *)
  if b mod 2 =? 0 then
    if n <? off + 2 then (ppp_fresh, Err 2, true) else                            (* :51-54 *)
    ml_bind (cd_idx data (off + 1)) ppp_fresh false (fun b1 =>                    (* :55 *)
    if b1 mod 2 =? 0 then (ppp_fresh, Err 3, false) else                          (* :55-57 no SetTruncated *)
    ml_bind (cd_slc data off (off + 2)) ppp_fresh false (fun contents =>          (* :58-59 *)
    ml_bind (cd_slc data (off + 2) n) ppp_fresh false (fun payload =>             (* :60 *)
    (mkPpp contents payload (b * 256 + b1) pptp, Ok tt, false))))
  else
    ml_bind (cd_slc data off (off + 1)) ppp_fresh false (fun contents =>          (* :62-63 *)
    ml_bind (cd_slc data (off + 1) n) ppp_fresh false (fun payload =>             (* :64 *)
    (mkPpp contents payload b pptp, Ok tt, false)))).

(* NextDecoder(ppp.PPPType) :69: abstract id = the type value *)
Definition ppp_next (l : ppp) : Z := p_type l.

(* two PrependBytes calls: the type (1 or 2 bytes), then ff 03 in front of it; the junk of the
   second region is whatever follows the first region's junk *)
Definition ppp_serialize (l : ppp) (payload : list Z) (fixl csum : bool) (junk : list Z)
    : outcome (list Z) * ppp :=
  let two := (p_type l / 256) mod 2 =? 0 in                                       (* :75 *)
  let k := if two then 2 else 1 in
  let r1 := if two then ml_wrc (cd_region 2 junk) 0 (cd_put16 (p_type l))         (* :76-80 *)
            else ml_wrc (cd_region 1 junk) 0 [p_type l mod 256] in                (* :82-86 *)
  let r := obind r1 (fun b1 =>
    if p_pptp l then                                                              (* :88-95 *)
      obind (ml_wrc (cd_region 2 (skipn (Z.to_nat k) junk)) 0 [255]) (fun b2 =>
      obind (ml_wrc b2 1 [3]) (fun b2 => Ok (b2 ++ b1)))
    else Ok b1) in
  match r with
  | Ok b => (Ok (b ++ payload), l)
  | Err c => (Err c, l)
  | Panic s => (Panic s, l)
  end.

(* PPP has no String method; LinkFlow returns a package constant *)
Definition ppp_render_panics (l : ppp) : bool := false.
