(* Ldot1q — executable model of layers/dot1q.go (802.1Q tag codec).  Definitions only.
   Line numbers of /repo/layers/dot1q.go: DecodeFromBytes :30-41, NextLayerType :49-51,
   SerializeTo :61-77.  `(x & 0xE0) >> 5` is `x / 32` and `x & 0x10 != 0` is `(x / 16) mod 2 = 1`
   for a byte x; `& 0x0FFF` is `mod 4096`; `|` is Z.lor; uint16 wrap written out. *)
From GP Require Import Base Codec.
Open Scope Z_scope.

Record dot1q := mkQ {
  q_contents : list Z; q_payload : list Z;
  q_prio : Z; q_dei : bool; q_vid : Z; q_type : Z }.

Definition q_fresh : dot1q := mkQ [] [] 0 false 0 0.

Definition qbind {A} (o : outcome A) (st : dot1q) (tr : bool)
    (f : A -> dot1q * outcome unit * bool) : dot1q * outcome unit * bool :=
  match o with Ok v => f v | Err c => (st, Err c, tr) | Panic s => (st, Panic s, tr) end.

Definition q_decode_into (old : dot1q) (data : list Z) : dot1q * outcome unit * bool :=
  let n := zlen data in
  if n <? 4 then (old, Err 1, true) else                              (* :31-34 *)
  qbind (cd_idx data 0) old false (fun b0 =>                          (* :35-36 *)
  qbind (cd_rd16 data 0) old false (fun w0 =>                         (* :37 *)
  qbind (cd_rd16 data 2) old false (fun ty =>                         (* :38 *)
  qbind (cd_slc data 0 4) old false (fun contents =>                  (* :39 *)
  qbind (cd_slc data 4 n) old false (fun payload =>
  (mkQ contents payload (b0 / 32) ((b0 / 16) mod 2 =? 1) (w0 mod 4096) ty, Ok tt, false)))))).

(* NextLayerType :49-51: Type.LayerType(); abstract id = the EthernetType value *)
Definition q_next (l : dot1q) : Z := q_type l.

Definition q_wrc (b : list Z) (i : Z) (vs : list Z) : outcome (list Z) :=
  if (0 <=? i) && (i + zlen vs <=? zlen b) then Ok (cd_wr b i vs) else Panic 3.

Definition q_serialize (l : dot1q) (payload : list Z) (fixl csum : bool) (junk : list Z)
    : outcome (list Z) * dot1q :=
  let bytes0 := cd_region 4 junk in                                   (* :62 *)
  if q_vid l >? 4095 then (Err 1, l) else                             (* :66-68 *)
  let fb := Z.lor ((q_prio l * 8192) mod 65536) (q_vid l) in          (* :69 *)
  let fb := if q_dei l then Z.lor fb 4096 else fb in                  (* :70-72 *)
  match obind (q_wrc bytes0 0 (cd_put16 fb)) (fun b => q_wrc b 2 (cd_put16 (q_type l))) with   (* :73-74 *)
  | Ok b => (Ok (b ++ payload), l)
  | Err c => (Err c, l)
  | Panic s => (Panic s, l)
  end.

(* Dot1Q has no flow accessor and no String method: the reflective renderers are total *)
Definition q_render_panics (l : dot1q) : bool := false.

Definition q_dec2 (a b : list Z) : dot1q * outcome unit * bool :=
  let '(l, _, _) := q_decode_into q_fresh a in q_decode_into l b.
