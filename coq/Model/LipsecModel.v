(* Lipsec — executable model of layers/ipsec.go (IPSec AH and ESP decoders).  Definitions only.
   Line numbers of /repo/layers/ipsec.go: IPSecAH.DecodeFromBytes :37-68, NextLayerType :76-78,
   IPSecESP.DecodeFromBytes :98-110, NextLayerType :118-120.  Neither type has SerializeTo
   (C06 and C07 do not apply). *)
From GP Require Import Base Codec MiscLib.
Open Scope Z_scope.

Record ah := mkAh {
  ah_contents : list Z; ah_payload : list Z;
  ah_nh : Z; ah_hl : Z; ah_actual : Z; ah_reserved : Z; ah_spi : Z; ah_seq : Z; ah_auth : list Z }.
Definition ah_fresh : ah := mkAh [] [] 0 0 0 0 0 0 [].

Definition ah_decode_into (old : ah) (data : list Z) : ah * outcome unit * bool :=
  let n := zlen data in
  if n <? 12 then (old, Err 1, true) else                                          (* :38-41 *)
  ml_bind (cd_idx data 0) old false (fun nh =>                                     (* :43-46: the embedded base is *)
  ml_bind (cd_idx data 1) old false (fun hl =>                                     (* replaced: Contents/Payload nil, ActualLength 0 *)
  ml_bind (cd_rd16 data 2) old false (fun rsv =>                                   (* :48 *)
  ml_bind (ml_rd32 data 4) old false (fun spi =>                                   (* :49 *)
  ml_bind (ml_rd32 data 8) old false (fun sq =>                                    (* :50 *)
  let al := (hl + 2) * 4 in                                                        (* :52 *)
  let l1 := mkAh [] [] nh hl al rsv spi sq (ah_auth old) in
  if al <? 12 then (l1, Err 2, true) else                                          (* :53-58 *)
  if n <? al then (l1, Err 3, true) else                                           (* :59-62 *)
  ml_bind (cd_slc data 12 al) l1 false (fun auth =>                                (* :63 *)
  ml_bind (cd_slc data 0 al) l1 false (fun contents =>                             (* :64 *)
  ml_bind (cd_slc data al n) l1 false (fun payload =>                              (* :65 *)
  (mkAh contents payload nh hl al rsv spi sq auth, Ok tt, false))))))))).

(* NextLayerType: NextHeader.LayerType(); abstract id = the protocol number *)
Definition ah_next (l : ah) : Z := ah_nh l.
Definition ah_render_panics (l : ah) : bool := false.

Record esp := mkEsp { esp_contents : list Z; esp_payload : list Z; esp_spi : Z; esp_seq : Z; esp_enc : list Z }.
Definition esp_fresh : esp := mkEsp [] [] 0 0 [].

Definition esp_decode_into (old : esp) (data : list Z) : esp * outcome unit * bool :=
  let n := zlen data in
  if n <? 8 then (old, Err 1, true) else                                           (* :99-102 *)
  ml_bind (ml_rd32 data 0) old false (fun spi =>                                   (* :105 *)
  ml_bind (ml_rd32 data 4) old false (fun sq =>                                    (* :106 *)
  ml_bind (cd_slc data 8 n) old false (fun enc =>                                  (* :107 *)
  (mkEsp data [] spi sq enc, Ok tt, false)))).                                     (* :104 BaseLayer{data, nil} *)

(* NextLayerType: LayerTypePayload *)
Definition esp_next (l : esp) : Z := 0.
Definition esp_render_panics (l : esp) : bool := false.
