(* Lctp — executable model of layers/ctp.go (Ethernet Configuration Testing Protocol: the EthernetCTP layer, then
   zero or more EthernetCTPForwardData layers, then an EthernetCTPReply layer) as repaired (Sweep: length checks).
   Definitions only.  /repo/layers/ctp.go: decodeEthernetCTP :74-88, decodeEthernetCTPFromFunctionType :92-127.
   The layers have no DecodeFromBytes (every decode allocates new layer objects: C05 n/a) and no SerializeTo
   (C06/C07 n/a).  The chain is driven as the eager packet builder drives it (packet.go:512-525 NextDecoder):
   the next decoder runs on the payload of the layer added last, and decoding stops without error when that
   payload is empty. *)
From GP Require Import Base Codec MiscLib.
Open Scope Z_scope.

Inductive ctpl :=
| CtpTop (skip : Z) (c p : list Z)                    (* EthernetCTP{SkipCount, Contents, Payload} *)
| CtpFwd (fn : Z) (addr c p : list Z)                 (* EthernetCTPForwardData{Function, ForwardAddress, Contents, Payload} *)
| CtpReply (fn rn : Z) (dat c : list Z).              (* EthernetCTPReply{Function, ReceiptNumber, Data, Contents}; Payload nil *)

(* binary.LittleEndian.Uint16(data[i:i+2]) *)
Definition ctp_le16 (data : list Z) (i : Z) : outcome Z :=
  obind (cd_slc data i (i + 2)) (fun _ => obind (cd_idx data i) (fun a => obind (cd_idx data (i + 1)) (fun b => Ok (a + 256 * b)))).

(* decodeEthernetCTPFromFunctionType :92-127 together with the NextDecoder calls; Err 99 = out of fuel *)
Fixpoint ctp_fn (fuel : nat) (data : list Z) (acc : list ctpl) : list ctpl * outcome unit * bool :=
  match fuel with
  | O => (acc, Err 99, false)
  | S f =>
    let n := zlen data in
    if n <? 2 then (acc, Err 3, true) else                                            (* :93-96 *)
    ml_bind (ctp_le16 data 0) acc false (fun fn =>                                    (* :97 *)
    if fn =? 1 then                                                                   (* :99 *)
      if n <? 4 then (acc, Err 4, true) else                                          (* :100-103 *)
      ml_bind (ctp_le16 data 2) acc false (fun rn =>                                  (* :106 *)
      ml_bind (cd_slc data 4 n) acc false (fun d =>                                   (* :107 *)
      (acc ++ [CtpReply fn rn d data], Ok tt, false)))                                (* :108-112 *)
    else if fn =? 2 then                                                              (* :113 *)
      if n <? 8 then (acc, Err 5, true) else                                          (* :114-117 *)
      ml_bind (cd_slc data 2 8) acc false (fun addr =>                                (* :120 *)
      ml_bind (cd_slc data 0 8) acc false (fun c =>                                   (* :121 *)
      ml_bind (cd_slc data 8 n) acc false (fun p =>
      let acc' := acc ++ [CtpFwd fn addr c p] in                                      (* :123 *)
      if zlen p =? 0 then (acc', Ok tt, false) else ctp_fn f p acc')))                (* :124, packet.go:519-524 *)
    else (acc, Err 6, false))                                                         (* :126 *)
  end.

(* decodeEthernetCTP :74-88 *)
Definition ctp_decode (data : list Z) : list ctpl * outcome unit * bool :=
  let n := zlen data in
  if n <? 2 then ([], Err 1, true) else                                               (* :75-78 *)
  ml_bind (ctp_le16 data 0) [] false (fun skip =>                                     (* :80 *)
  ml_bind (cd_slc data 0 2) [] false (fun c =>                                        (* :81 *)
  ml_bind (cd_slc data 2 n) [] false (fun p =>
  if negb (skip mod 2 =? 0) then ([], Err 2, false) else                              (* :83-85 *)
  let acc := [CtpTop skip c p] in                                                     (* :86 *)
  if zlen p =? 0 then (acc, Ok tt, false) else ctp_fn (S (length data)) p acc))).     (* :87, packet.go:519-524 *)

(* runner interface: the "layer" is the list of layers added *)
Definition ctp_fresh : list ctpl := [].
Definition ctp_decode_into (old : list ctpl) (data : list Z) : list ctpl * outcome unit * bool := ctp_decode data.

(* LayerString/LayerDump/LayerGoString are reflective and total; ForwardEndpoint builds a 6-octet endpoint
   (NewEndpoint panics above 16 octets only); EthernetCTPReply.Payload returns Data *)
Definition ctp_render_panics (l : list ctpl) : bool :=
  existsb (fun x => match x with CtpFwd _ addr _ _ => 16 <? zlen addr | _ => false end) l.

Definition ctp_contents (x : ctpl) : list Z :=
  match x with CtpTop _ c _ => c | CtpFwd _ _ c _ => c | CtpReply _ _ _ c => c end.
