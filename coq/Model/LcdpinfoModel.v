(* Lcdpinfo — executable model of the CiscoDiscoveryInfo layer of layers/cdp.go: the typed interpretation of the CDP TLVs.
   Definitions only.  /repo/layers/cdp.go: decodeCiscoDiscoveryInfo :274-516 (every checkCDPTLVLen site, every slice),
   decodeAddresses :534-590, checkCDPTLVLen :700-705; the TLV walk decodeCiscoDiscoveryTLVs :250-272 is LcdpModel.cdp_loop.
   Decoder function only (a new layer per call: C05 n/a), no SerializeTo (C06/C07 n/a).  The layer is added BEFORE the TLVs
   are parsed, so on every error the partly filled layer is in the packet (error-after-add) and renderers run on it.

   State: the layer is the ordered LOG of field assignments the decoder made (ci_upd); the value of a field is the last
   assignment (UStr/UNum/UAddrs) or the concatenation of the appends (UPrefix, UPow, UUnknown) — accessors at the end.
   All straight-line cases read after their length check, so reads are grouped before the assignments of the case.

   `orig = true` selects the code before the two repairs of this sub-check:
     - IP prefix TLV: `_, ipnet, _ := net.ParseCIDR(...)` then `*ipnet` — nil dereference when the prefix length is > 32;
     - power requested/available: `for n := 4; n < len(v); n += 4 { v[n:n+4] }` — slice past the value when (len-4)%4 != 0
       (Go checks that slice against the capacity, i.e. the end of the packet: a panic when the TLV is the last one, a read of
       the next TLV's octets otherwise; the model checks against the value, which is stricter). *)
From GP Require Import Base Codec MiscLib LcdpModel.
Open Scope Z_scope.

Inductive ci_upd :=
| UStr (k : Z) (s : list Z)            (* byte-string / string field k := s *)
| UNum (k n : Z)                       (* numeric field k := n *)
| UAddrs (k : Z) (a : list (list Z))   (* 0 Addresses / 1 MgmtAddresses := a (each net.IP of 16 octets) *)
| UPrefix (p : list Z)                 (* IPPrefixes = append(IPPrefixes, p): 4 masked address octets ++ [prefix length] *)
| UPow (k n : Z)                       (* 0 PowerRequest.Values / 1 PowerAvailable.Values append n *)
| UUnknown (v : cdpv).                 (* Unknown = append(Unknown, v) *)
Definition ci_res := (list ci_upd * outcome unit)%type.
Definition ci_bind {A} (o : outcome A) (f : A -> ci_res) : ci_res :=
  match o with Ok x => f x | Err c => ([], Err c) | Panic s => ([], Panic s) end.
Notation "'rd!' x ':=' e 'in' f" := (ci_bind e (fun x => f)) (at level 200, x name, right associativity).

(* string-valued TLVs (DevID, PortID, Version, Platform, VTPDomain, SysName, SysOID): no length check, no index *)
Definition ci_string (k : Z) (v : list Z) : ci_res := ([UStr k v], Ok tt).
(* checkCDPTLVLen(val, 1); val.Value[0] *)
Definition ci_u8 (k : Z) (g : Z -> Z) (v : list Z) : ci_res :=
  if zlen v <? 1 then ([], Err 20) else rd! x := cd_idx v 0 in ([UNum k (g x)], Ok tt).
(* checkCDPTLVLen(val, 2); Uint16(val.Value[0:2]) *)
Definition ci_u16 (k : Z) (v : list Z) : ci_res :=
  if zlen v <? 2 then ([], Err 20) else rd! x := cd_rd16 v 0 in ([UNum k x], Ok tt).
(* checkCDPTLVLen(val, 4); Uint32(val.Value[0:4]) *)
Definition ci_u32 (k : Z) (g : Z -> Z) (v : list Z) : ci_res :=
  if zlen v <? 4 then ([], Err 20) else rd! x := ml_rd32 v 0 in ([UNum k (g x)], Ok tt).
(* VLANReply / VLANQuery :361-374 *)
Definition ci_vlan (k : Z) (v : list Z) : ci_res :=
  if zlen v <? 3 then ([], Err 20) else rd! x := cd_idx v 0 in rd! y := cd_rd16 v 1 in ([UNum k x; UNum (k + 1) y], Ok tt).
(* Location :407-412 *)
Definition ci_location (v : list Z) : ci_res :=
  if zlen v <? 2 then ([], Err 20) else rd! x := cd_idx v 0 in rd! s := cd_slc v 1 (zlen v) in ([UNum 18 x; UStr 7 s], Ok tt).
(* Hello :333-349 *)
Definition ci_hello (v : list Z) : ci_res :=
  if zlen v <? 32 then ([], Err 20) else
  rd! oui := cd_slc v 0 3 in rd! pid := cd_rd16 v 3 in rd! cm := cd_slc v 5 9 in rd! u1 := cd_slc v 9 13 in
  rd! ve := cd_idx v 13 in rd! sv := cd_idx v 14 in rd! st := cd_idx v 15 in rd! u2 := cd_idx v 16 in
  rd! cc := cd_slc v 17 23 in rd! sm := cd_slc v 23 29 in rd! u3 := cd_idx v 29 in rd! mv := cd_rd16 v 30 in
  ([UStr 8 oui; UNum 0 pid; UStr 9 cm; UStr 10 u1; UNum 1 ve; UNum 2 sv; UNum 3 st; UNum 4 u2; UStr 11 cc; UStr 12 sm; UNum 5 u3; UNum 6 mv], Ok tt).

(* IP prefix :319-332.  l%5 == 0 && l >= 5: exactly l/5 rounds of `for len(v) > 0 { ...; v = v[5:] }` (structural on the count).
   net.ParseCIDR("a.b.c.d/m") fails exactly when m > 32 (octets printed with %d are always valid); the IPNet has the masked
   4-octet address and the mask CIDRMask(m, 32). *)
Definition ci_maskoct (x m k : Z) : Z := let b := Z.max 0 (Z.min 8 (m - 8 * k)) in x - x mod 2 ^ (8 - b).
Fixpoint ci_pfx_loop (orig : bool) (v : list Z) (o : Z) (n : nat) (log : list ci_upd) : ci_res :=
  match n with
  | O => (log, Ok tt)
  | S n' =>
    match cd_idx v o, cd_idx v (o + 1), cd_idx v (o + 2), cd_idx v (o + 3), cd_idx v (o + 4) with
    | Ok a, Ok b, Ok c, Ok d, Ok m =>
      if 32 <? m then (log, if orig then Panic 21 else Err 21) else
      ci_pfx_loop orig v (o + 5) n' (log ++ [UPrefix [ci_maskoct a m 0; ci_maskoct b m 1; ci_maskoct c m 2; ci_maskoct d m 3; m]])
    | _, _, _, _, _ => (log, Panic 1)
    end
  end.
Definition ci_prefix (orig : bool) (v : list Z) : ci_res :=
  let l := zlen v in
  if (l mod 5 =? 0) && (5 <=? l) then ci_pfx_loop orig v 0 (Z.to_nat (l / 5)) [] else ([], Err 22).

(* Power requested / available :416-437; the loop from offset n, at most len/4+1 rounds; fuel exhaustion is a Panic so that
   the no-panic theorem also proves the fuel bound *)
Fixpoint ci_pow_loop (orig : bool) (w : Z) (v : list Z) (n : Z) (fuel : nat) (log : list ci_upd) : ci_res :=
  match fuel with
  | O => (log, Panic 99)
  | S f =>
    if (if orig then n <? zlen v else n + 4 <=? zlen v) then
      match ml_rd32 v n with
      | Ok x => ci_pow_loop orig w v (n + 4) f (log ++ [UPow w x])
      | Err c => (log, Err c) | Panic s => (log, Panic s)
      end
    else (log, Ok tt)
  end.
Definition ci_power (orig : bool) (w : Z) (v : list Z) : ci_res :=
  if zlen v <? 4 then ([], Err 20) else
  rd! id := cd_rd16 v 0 in rd! mg := cd_rd16 v 2 in
  ci_pow_loop orig w v 4 (Z.to_nat (zlen v + 1)) [UNum (19 + 2 * w) id; UNum (20 + 2 * w) mg].

(* decodeAddresses :534-590 (with the earlier repair: protocol and address lengths checked against the TLV); v = value[o:] *)
Definition ci_be (l : list Z) : Z := fold_left (fun a b => a * 256 + b) l 0.
Definition ci_ipv6_proto : Z := 12297645031023446016. (* 0xaaaa030000000800 *)
Fixpoint ci_addr_loop (v : list Z) (o i numaddr : Z) (fuel : nat) (acc : list (list Z)) : outcome (list (list Z)) :=
  match fuel with
  | O => Panic 99
  | S f =>
    if numaddr <=? i then Ok acc else
    obind (cd_idx v o) (fun pt =>
    if negb ((pt =? 1) || (pt =? 2)) then Err 12 else
    obind (cd_idx v (o + 1)) (fun pl =>
    if ((pt =? 1) && negb (pl =? 1)) || ((pt =? 2) && negb (pl =? 3) && negb (pl =? 8)) then Err 13 else
    if zlen v - o <? 2 + pl + 2 then Err 14 else
    obind (cd_slc v (o + 2) (o + 2 + pl)) (fun pb =>
    let proto := ci_be pb in
    let o1 := o + 2 + pl in
    obind (cd_rd16 v o1) (fun al =>
    if zlen v - o1 <? 2 + al then Err 15 else
    obind (cd_slc v (o1 + 2) (o1 + 2 + al)) (fun ab =>
    let acc' := if (proto =? 204) && (al =? 4) then acc ++ [repeat 0 10 ++ [255; 255] ++ ab]
                else if (proto =? ci_ipv6_proto) && (al =? 16) then acc ++ [ab] else acc in
    let o2 := o1 + 2 + al in
    if zlen v - o2 <? 8 then Ok acc' else ci_addr_loop v o2 (i + 1) numaddr f acc')))))
  end.
Definition ci_addresses (v : list Z) : outcome (list (list Z)) :=
  if zlen v <? 4 then Err 10 else
  obind (ml_rd32 v 0) (fun na =>
  if na <? 1 then Err 11 else
  if zlen v - 4 <? na * 8 then Err 16 else
  ci_addr_loop v 4 0 na (Z.to_nat (zlen v + 1)) []).
(* `info.Addresses, err = decodeAddresses(val.Value)`: the field is assigned (nil) on the error path too *)
Definition ci_addrs (k : Z) (v : list Z) : ci_res :=
  if zlen v <? 4 then ([], Err 20) else
  match ci_addresses v with
  | Ok a => ([UAddrs k a], Ok tt) | Err c => ([UAddrs k []], Err c) | Panic s => ([], Panic s)
  end.

(* EnergyWise :440-494; data = value[o:] *)
Fixpoint ci_ew_loop (v : list Z) (o seen tlvnum : Z) (fuel : nat) (log : list ci_upd) : ci_res :=
  match fuel with
  | O => (log, Panic 99)
  | S f =>
    if zlen v - o <=? 8 then (log, Ok tt) else
    let seen' := seen + 1 in
    if tlvnum <? seen' then (log, Err 31) else
    match ml_rd32 v o, ml_rd32 v (o + 4) with
    | Ok ty, Ok tl =>
      if zlen v - o - 8 <? tl then (log, Err 32) else
      let o8 := o + 8 in
      match cd_slc v o8 (zlen v) with
      | Ok rest =>
        let r :=
          if ty =? 7 then Ok [UStr 18 rest] else if ty =? 8 then Ok [UStr 19 rest] else if ty =? 9 then Ok [UStr 20 rest] else
          if ty =? 23 then
            if 18 <=? zlen rest then
              obind (cd_slc rest 0 2) (fun a => obind (cd_slc rest 2 4) (fun b => obind (cd_slc rest 4 8) (fun c =>
              obind (cd_slc rest 8 10) (fun d => obind (cd_slc rest 10 14) (fun e =>
              Ok [UStr 21 a; UStr 22 b; UStr 23 c; UStr 24 d; UStr 25 e])))))
            else Ok []
          else Ok [] in
        match r, cd_slc rest tl (zlen rest) with
        | Ok us, Ok _ => ci_ew_loop v (o8 + tl) seen' tlvnum f (log ++ us)
        | Err c, _ => (log, Err c) | Panic s, _ => (log, Panic s)
        | _, Err c => (log, Err c) | _, Panic s => (log, Panic s)
        end
      | Err c => (log, Err c) | Panic s => (log, Panic s)
      end
    | _, _ => (log, Panic 1)
    end
  end.
Definition ci_energywise (v : list Z) : ci_res :=
  if zlen v <? 72 then ([], Err 20) else
  rd! enc := cd_slc v 0 20 in rd! u1 := ml_rd32 v 20 in rd! sq := ml_rd32 v 24 in rd! mn := cd_slc v 28 44 in
  rd! u2 := cd_rd16 v 44 in rd! hw := cd_slc v 46 49 in rd! sn := cd_slc v 49 60 in rd! u3 := cd_slc v 60 68 in
  rd! tlvlen := cd_rd16 v 68 in rd! tlvnum := cd_rd16 v 70 in
  let log0 := [UStr 13 enc; UNum 24 u1; UNum 25 sq; UStr 14 mn; UNum 26 u2; UStr 15 hw; UStr 16 sn; UStr 17 u3] in
  if zlen v - 72 <? tlvlen then (log0, Err 30) else
  ci_ew_loop v 72 0 tlvnum (Z.to_nat (zlen v + 1)) log0.

(* the switch on val.Type :283-509 *)
Definition ci_interp (orig : bool) (val : cdpv) : ci_res :=
  let t := cv_type val in let v := cv_value val in
  if t =? 1 then ci_string 0 v else
  if t =? 2 then ci_addrs 0 v else
  if t =? 3 then ci_string 1 v else
  if t =? 4 then ci_u32 7 (fun x => x mod 512) v else
  if t =? 5 then ci_string 2 v else
  if t =? 6 then ci_string 3 v else
  if t =? 7 then ci_prefix orig v else
  if t =? 8 then ci_hello v else
  if t =? 9 then ci_string 4 v else
  if t =? 10 then ci_u16 8 v else
  if t =? 11 then ci_u8 9 (fun x => if x =? 1 then 1 else 0) v else
  if t =? 14 then ci_vlan 10 v else
  if t =? 15 then ci_vlan 12 v else
  if t =? 16 then ci_u16 14 v else
  if t =? 17 then ci_u32 15 (fun x => x) v else
  if t =? 18 then ci_u8 16 (fun x => x) v else
  if t =? 19 then ci_u8 17 (fun x => x) v else
  if t =? 20 then ci_string 5 v else
  if t =? 21 then ci_string 6 v else
  if t =? 22 then ci_addrs 1 v else
  if t =? 23 then ci_location v else
  if t =? 25 then ci_power orig 0 v else
  if t =? 26 then ci_power orig 1 v else
  if t =? 29 then ci_energywise v else
  if t =? 31 then ci_u8 23 (fun x => x mod 16) v else
  ([UUnknown val], Ok tt).

Fixpoint ci_all (orig : bool) (vs : list cdpv) (log : list ci_upd) : ci_res :=
  match vs with
  | [] => (log, Ok tt)
  | v :: r => match ci_interp orig v with
              | (u, Ok _) => ci_all orig r (log ++ u)
              | (u, e) => (log ++ u, e)
              end
  end.

Record cdpinfo := mkCi { ci_contents : list Z; ci_log : list ci_upd }.
Definition ci_fresh : cdpinfo := mkCi [] [].
(* :274-282: the layer (Contents = data, no payload) is added first, then the TLV walk over the whole of data *)
Definition ci_decode_gen (orig : bool) (data : list Z) : cdpinfo * outcome unit * bool :=
  match cdp_loop data 0 (Z.to_nat (zlen data + 1)) with
  | (Ok vs, tr) => let r := ci_all orig vs [] in (mkCi data (fst r), snd r, tr)
  | (Err c, tr) => (mkCi data [], Err c, tr)
  | (Panic s, tr) => (mkCi data [], Panic s, tr)
  end.
Definition ci_decode (data : list Z) := ci_decode_gen false data.
Definition ci_decode_orig (data : list Z) := ci_decode_gen true data.
(* gopacket.LayerString/LayerDump/LayerGoString are reflective and total on the non-nil layer; the nested String methods
   (CDPTLVType, net.IP, net.HardwareAddr, net.IPNet) are total on every value the decoder can store *)
Definition ci_render_panics (l : cdpinfo) : bool := false.

(* field accessors over the log (used by the runner to print the canonical field list) *)
Definition ci_str (log : list ci_upd) (k : Z) : list Z :=
  fold_left (fun acc u => match u with UStr k' s => if k' =? k then s else acc | _ => acc end) log [].
Definition ci_num (log : list ci_upd) (k : Z) : Z :=
  fold_left (fun acc u => match u with UNum k' n => if k' =? k then n else acc | _ => acc end) log 0.
Definition ci_addrs_of (log : list ci_upd) (k : Z) : list (list Z) :=
  fold_left (fun acc u => match u with UAddrs k' a => if k' =? k then a else acc | _ => acc end) log [].
Definition ci_prefixes (log : list ci_upd) : list (list Z) :=
  flat_map (fun u => match u with UPrefix p => [p] | _ => [] end) log.
Definition ci_pow (log : list ci_upd) (k : Z) : list Z :=
  flat_map (fun u => match u with UPow k' n => if k' =? k then [n] else [] | _ => [] end) log.
Definition ci_unknown (log : list ci_upd) : list cdpv :=
  flat_map (fun u => match u with UUnknown v => [v] | _ => [] end) log.
