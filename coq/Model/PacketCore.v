(* PacketCore — the packet-building framework of gopacket (packet.go), parametric in
   every decoder.  Executable definitions only (no proofs).

   Transcribed from /repo/packet.go:
     :131-191  packet struct, SetTruncated, Set{Link,Network,Transport,Application,Error}Layer
               ("first wins"), AddLayer
     :234-251  addFinalDecodeError, recoverDecodeError
     :494-559  eagerPacket: NextDecoder (immediate recursion on last.LayerPayload(), stop
               when that payload is empty, ErrNoLayersAdded, errNilDecoder), initialDecode,
               accessors
     :560-671  lazyPacket: NextDecoder (stores the continuation), decodeNextLayer (clears
               next before decoding, recovers), every accessor loop
     :466-492  packetString / packetDump as functions of (len data, truncated, layers) /
               (data, layers)
     :725-769  NewPacket: NoCopy / Pool / plain copy decision, Lazy, SkipDecodeRecovery
   and /repo/layertype.go:87-98 (LayerType.Decode: no registered decoder => error).

   A DECODER IS A PARAMETER: any function  data -> options -> (list action * terminator).
   The actions are the PacketBuilder calls the decoder makes, in order; the terminator is
   how it ends: `return nil`, `return err`, `return p.NextDecoder(d)` (tail position,
   source fact F1), `return p.NextDecoder(nil)`, or a panic.  A panic after a prefix of
   the calls is the decoder whose action list is that prefix and whose terminator is
   PanicT.  A decoder family maps decoder ids (layer type numbers; DecodeFuncs get ids
   too) to decoders; an id without decoder behaves like LayerType.Decode of a type with
   no registered decoder. *)
From GP Require Import Base.
Open Scope Z_scope.

(* ------------------------------------------------------------------ layers *)
(* what the framework (and the properties C01/C03) can see of a layer *)
Record layer := mkLayer {
  l_type : Z;              (* LayerType() *)
  l_contents : list Z;     (* LayerContents() *)
  l_payload : list Z;      (* LayerPayload() *)
  l_fail : bool            (* is a *gopacket.DecodeFailure *)
}.

Definition LayerTypeDecodeFailure : Z := 1.   (* decode.go:109 *)

Fixpoint bytes_eqb (a b : list Z) : bool :=
  match a, b with
  | [], [] => true
  | x :: a', y :: b' => (x =? y) && bytes_eqb a' b'
  | _, _ => false
  end.

Definition layer_eqb (a b : layer) : bool :=
  (l_type a =? l_type b) && bytes_eqb (l_contents a) (l_contents b)
  && bytes_eqb (l_payload a) (l_payload b) && Bool.eqb (l_fail a) (l_fail b).

(* ------------------------------------------------------------------ options *)
Record dopts := mkOpts {       (* packet.go:674-702 DecodeOptions *)
  o_lazy : bool;
  o_nocopy : bool;
  o_pool : bool;
  o_skiprec : bool;            (* SkipDecodeRecovery *)
  o_dsad : bool                (* DecodeStreamsAsDatagrams *)
}.

(* ------------------------------------------------------------------ decoders *)
Inductive action :=
| Add (l : layer)
| SetLink (l : layer)
| SetNetwork (l : layer)
| SetTransport (l : layer)
| SetApplication (l : layer)
| SetError (l : layer)
| SetTruncated.

Inductive terminator :=
| Ret                 (* return nil *)
| Fail                (* return err *)
| Next (t : Z)        (* return p.NextDecoder(decoder t) *)
| NextNil             (* return p.NextDecoder(nil) *)
| PanicT.             (* panics after the listed actions *)

Definition decoder := list Z -> dopts -> list action * terminator.
Definition family := Z -> option decoder.

(* ------------------------------------------------------------------ NewPacket: where the data lives *)
(* packet.go:725-744.  DataAlias: the packet's data IS the caller's slice (NoCopy);
   DataPool: copied into a 1500-byte block taken from the pool (returned by Dispose);
   DataCopy: copied into a fresh array of exactly len(data) bytes. *)
Inductive data_origin := DataAlias | DataCopy | DataPool.
Definition maximumMTU : nat := 1500.

Definition new_packet_origin (o : dopts) (data : list Z) : data_origin :=
  if o_nocopy o then DataAlias
  else if o_pool o && (length data <=? maximumMTU)%nat then DataPool
  else DataCopy.

(* NewPacket returns a PooledPacket wrapper exactly when the pool branch was taken *)
Definition new_packet_pooled (o : dopts) (data : list Z) : bool :=
  match new_packet_origin o data with DataPool => true | _ => false end.

(* ------------------------------------------------------------------ the packet struct *)
Record packet := mkPacket {
  p_data : list Z;
  p_origin : data_origin;
  p_layers : list layer;
  p_last : option layer;
  p_trunc : bool;                 (* metadata.Truncated *)
  p_opts : dopts;
  p_link : option layer;
  p_network : option layer;
  p_transport : option layer;
  p_application : option layer;
  p_failure : option layer
}.

Definition empty_packet (data : list Z) (o : dopts) : packet :=
  mkPacket data (new_packet_origin o data) [] None false o None None None None None.

Definition set_first (cur : option layer) (l : layer) : option layer :=
  match cur with None => Some l | Some _ => cur end.

Definition add_layer (l : layer) (p : packet) : packet :=       (* :188-191 *)
  mkPacket (p_data p) (p_origin p) (p_layers p ++ [l]) (Some l) (p_trunc p) (p_opts p)
           (p_link p) (p_network p) (p_transport p) (p_application p) (p_failure p).
Definition set_truncated (p : packet) : packet :=               (* :154-156 *)
  mkPacket (p_data p) (p_origin p) (p_layers p) (p_last p) true (p_opts p)
           (p_link p) (p_network p) (p_transport p) (p_application p) (p_failure p).
Definition set_link (l : layer) (p : packet) : packet :=        (* :158-162 *)
  mkPacket (p_data p) (p_origin p) (p_layers p) (p_last p) (p_trunc p) (p_opts p)
           (set_first (p_link p) l) (p_network p) (p_transport p) (p_application p) (p_failure p).
Definition set_network (l : layer) (p : packet) : packet :=     (* :164-168 *)
  mkPacket (p_data p) (p_origin p) (p_layers p) (p_last p) (p_trunc p) (p_opts p)
           (p_link p) (set_first (p_network p) l) (p_transport p) (p_application p) (p_failure p).
Definition set_transport (l : layer) (p : packet) : packet :=   (* :170-174 *)
  mkPacket (p_data p) (p_origin p) (p_layers p) (p_last p) (p_trunc p) (p_opts p)
           (p_link p) (p_network p) (set_first (p_transport p) l) (p_application p) (p_failure p).
Definition set_application (l : layer) (p : packet) : packet := (* :176-180 *)
  mkPacket (p_data p) (p_origin p) (p_layers p) (p_last p) (p_trunc p) (p_opts p)
           (p_link p) (p_network p) (p_transport p) (set_first (p_application p) l) (p_failure p).
Definition set_error (l : layer) (p : packet) : packet :=       (* :182-186 *)
  mkPacket (p_data p) (p_origin p) (p_layers p) (p_last p) (p_trunc p) (p_opts p)
           (p_link p) (p_network p) (p_transport p) (p_application p) (set_first (p_failure p) l).

Definition do_action (p : packet) (a : action) : packet :=
  match a with
  | Add l => add_layer l p
  | SetLink l => set_link l p
  | SetNetwork l => set_network l p
  | SetTransport l => set_transport l p
  | SetApplication l => set_application l p
  | SetError l => set_error l p
  | SetTruncated => set_truncated p
  end.

Definition run_actions (acts : list action) (p : packet) : packet := fold_left do_action acts p.

(* the bytes the next decoder gets / the bytes a final DecodeFailure holds:
   p.data when no layer has been added, else p.last.LayerPayload()   (:236-240, :581-584) *)
Definition rest_of (p : packet) : list Z :=
  match p_last p with None => p_data p | Some l => l_payload l end.

Definition mk_failure (d : list Z) : layer := mkLayer LayerTypeDecodeFailure d [] true.

Definition add_final_decode_error (p : packet) : packet :=      (* :234-243 *)
  let fail := mk_failure (rest_of p) in
  set_error fail (add_layer fail p).

(* ------------------------------------------------------------------ one decoder call *)
(* What one call dec.Decode(data, p) does up to (not including) its NextDecoder call. *)
Inductive sres := SOk | SErr | SPanic | SNext (t : Z).

Definition decode_step (fam : family) (t : Z) (data : list Z) (p : packet) : packet * sres :=
  match fam t with
  | None => (p, SErr)            (* layertype.go:97 "has no associated decoder" *)
  | Some d =>
    let '(acts, term) := d data (p_opts p) in
    let p1 := run_actions acts p in
    (p1, match term with
         | Ret => SOk
         | Fail => SErr
         | PanicT => SPanic
         | NextNil => SErr       (* errNilDecoder, both packets: :504-506, :571-573 *)
         | Next t' => SNext t'
         end)
  end.

(* ------------------------------------------------------------------ eager *)
Inductive dres := DOk | DErr | DPanic | DFuel.

(* dec.Decode(data, p) on an eagerPacket, NextDecoder (:503-516) inlined at the tail.
   fuel bounds the recursion depth (the Go code has no bound of its own: it relies on
   every continuing decoder having shortened the payload). *)
Fixpoint eager_decode (fuel : nat) (fam : family) (t : Z) (data : list Z) (p : packet) : packet * dres :=
  match fuel with
  | O => (p, DFuel)
  | S f =>
    let '(p1, r) := decode_step fam t data p in
    match r with
    | SOk => (p1, DOk)
    | SErr => (p1, DErr)
    | SPanic => (p1, DPanic)
    | SNext t' =>
      match p_last p1 with
      | None => (p1, DErr)                           (* ErrNoLayersAdded *)
      | Some l =>
        match l_payload l with
        | [] => (p1, DOk)                            (* len(d) == 0: return nil *)
        | _ :: _ => eager_decode f fam t' (l_payload l) p1
        end
      end
    end
  end.

Inductive nresult (A : Type) := NewOk (v : A) | NewPanic | NewFuel.
Arguments NewOk {A} v.
Arguments NewPanic {A}.
Arguments NewFuel {A}.

(* initialDecode (:517-523) with recoverDecodeError (:245-251) *)
Definition finish_decode (pr : packet * dres) : nresult packet :=
  let '(p, r) := pr in
  match r with
  | DOk => NewOk p
  | DErr => NewOk (add_final_decode_error p)
  | DPanic => if o_skiprec (p_opts p) then NewPanic else NewOk (add_final_decode_error p)
  | DFuel => NewFuel
  end.

Definition new_eager (fuel : nat) (fam : family) (data : list Z) (first : Z) (o : dopts) : nresult packet :=
  finish_decode (eager_decode fuel fam first data (empty_packet data o)).

(* "some decoder returned an error or panicked" (including the framework's own errors
   ErrNoLayersAdded / nil decoder / no decoder registered): what the outermost Decode
   call returned. *)
Definition decode_failed (r : dres) : bool :=
  match r with DErr | DPanic => true | _ => false end.

(* ------------------------------------------------------------------ lazy *)
Record lazy_packet := mkLazy { lp_p : packet; lp_next : option Z }.

Definition new_lazy (data : list Z) (first : Z) (o : dopts) : lazy_packet :=
  mkLazy (empty_packet data o) (Some first).

(* decodeNextLayer (:577-597).  The boolean is true when a panic escaped (SkipDecodeRecovery). *)
Definition lazy_decode_next (fam : family) (lp : lazy_packet) : lazy_packet * bool :=
  match lp_next lp with
  | None => (lp, false)
  | Some t =>
    let p := lp_p lp in
    match rest_of p with
    | [] => (mkLazy p None, false)
    | _ :: _ =>
      let '(p1, r) := decode_step fam t (rest_of p) p in
      match r with
      | SNext t' => (mkLazy p1 (Some t'), false)     (* lazy NextDecoder :570-576 *)
      | SOk => (mkLazy p1 None, false)
      | SErr => (mkLazy (add_final_decode_error p1) None, false)
      | SPanic => if o_skiprec (p_opts p1) then (mkLazy p1 None, true)
                  else (mkLazy (add_final_decode_error p1) None, false)
      end
    end
  end.

(* "for <not found> && p.next != nil { p.decodeNextLayer() }"; None = out of fuel *)
Fixpoint lazy_loop (fuel : nat) (fam : family) (found : packet -> bool) (lp : lazy_packet)
  : option (lazy_packet * bool) :=
  if found (lp_p lp) then Some (lp, false) else
  match lp_next lp with
  | None => Some (lp, false)
  | Some _ =>
    match fuel with
    | O => None
    | S f =>
      let '(lp', pan) := lazy_decode_next fam lp in
      if pan then Some (lp', true) else lazy_loop f fam found lp'
    end
  end.

Definition is_some {A} (o : option A) : bool := match o with Some _ => true | None => false end.

(* Layer / LayerClass second loop (:640-650, :658-668): decode, look only at the new layers *)
Fixpoint lazy_find_loop (fuel : nat) (fam : family) (pred : layer -> bool) (numLayers : nat)
  (lp : lazy_packet) : option (lazy_packet * option (option layer)) :=
  (* result: Some (Some l) found, Some None not found, None (inner) = panic escaped *)
  match lp_next lp with
  | None => Some (lp, Some None)
  | Some _ =>
    match fuel with
    | O => None
    | S f =>
      let '(lp', pan) := lazy_decode_next fam lp in
      if pan then Some (lp', None) else
      match find pred (skipn numLayers (p_layers (lp_p lp'))) with
      | Some l => Some (lp', Some (Some l))
      | None => lazy_find_loop f fam pred (length (p_layers (lp_p lp'))) lp'
      end
    end
  end.

(* ------------------------------------------------------------------ the ten accessors *)
Inductive accessor :=
| ALayer (t : Z)
| ALayerClass (c : list Z)       (* a class is given by the list of types it contains *)
| ALinkLayer | ANetworkLayer | ATransportLayer | AApplicationLayer | AErrorLayer
| ALayers | AString | ADump.

Inductive aresult :=
| RLayer (l : option layer)
| RLayers (ls : list layer)
| RString (len : nat) (trunc : bool) (ls : list layer)   (* packetString's inputs *)
| RDump (data : list Z) (ls : list layer)                (* packetDump's inputs *)
| RPanic.

Definition class_contains (c : list Z) (t : Z) : bool := existsb (Z.eqb t) c.
Definition type_pred (t : Z) (l : layer) : bool := l_type l =? t.
Definition class_pred (c : list Z) (l : layer) : bool := class_contains c (l_type l).

Definition packet_string (p : packet) : aresult := RString (length (p_data p)) (p_trunc p) (p_layers p).
Definition packet_dump (p : packet) : aresult := RDump (p_data p) (p_layers p).

Definition eager_access (p : packet) (a : accessor) : aresult :=   (* :524-559 *)
  match a with
  | ALayer t => RLayer (find (type_pred t) (p_layers p))
  | ALayerClass c => RLayer (find (class_pred c) (p_layers p))
  | ALinkLayer => RLayer (p_link p)
  | ANetworkLayer => RLayer (p_network p)
  | ATransportLayer => RLayer (p_transport p)
  | AApplicationLayer => RLayer (p_application p)
  | AErrorLayer => RLayer (p_failure p)
  | ALayers => RLayers (p_layers p)
  | AString => packet_string p
  | ADump => packet_dump p
  end.

Definition lazy_kind (fuel : nat) (fam : family) (get : packet -> option layer) (lp : lazy_packet)
  : option (lazy_packet * aresult) :=
  match lazy_loop fuel fam (fun p => is_some (get p)) lp with
  | None => None
  | Some (lp', true) => Some (lp', RPanic)
  | Some (lp', false) => Some (lp', RLayer (get (lp_p lp')))
  end.

Definition lazy_all (fuel : nat) (fam : family) (render : packet -> aresult) (lp : lazy_packet)
  : option (lazy_packet * aresult) :=
  match lazy_loop fuel fam (fun _ => false) lp with
  | None => None
  | Some (lp', true) => Some (lp', RPanic)
  | Some (lp', false) => Some (lp', render (lp_p lp'))
  end.

Definition lazy_find (fuel : nat) (fam : family) (pred : layer -> bool) (lp : lazy_packet)
  : option (lazy_packet * aresult) :=
  match find pred (p_layers (lp_p lp)) with
  | Some l => Some (lp, RLayer (Some l))
  | None =>
    match lazy_find_loop fuel fam pred (length (p_layers (lp_p lp))) lp with
    | None => None
    | Some (lp', None) => Some (lp', RPanic)
    | Some (lp', Some r) => Some (lp', RLayer r)
    end
  end.

(* None = out of fuel *)
Definition lazy_access (fuel : nat) (fam : family) (lp : lazy_packet) (a : accessor)
  : option (lazy_packet * aresult) :=                               (* :598-671 *)
  match a with
  | ALayer t => lazy_find fuel fam (type_pred t) lp
  | ALayerClass c => lazy_find fuel fam (class_pred c) lp
  | ALinkLayer => lazy_kind fuel fam p_link lp
  | ANetworkLayer => lazy_kind fuel fam p_network lp
  | ATransportLayer => lazy_kind fuel fam p_transport lp
  | AApplicationLayer => lazy_kind fuel fam p_application lp
  | AErrorLayer => lazy_kind fuel fam p_failure lp
  | ALayers => lazy_all fuel fam (fun p => RLayers (p_layers p)) lp
  | AString => lazy_all fuel fam packet_string lp
  | ADump => lazy_all fuel fam packet_dump lp
  end.

(* ------------------------------------------------------------------ accessor programs *)
Definition eager_program (p : packet) (prog : list accessor) : list aresult :=
  map (eager_access p) prog.

(* None = some call ran out of fuel *)
Fixpoint lazy_program (fuel : nat) (fam : family) (lp : lazy_packet) (prog : list accessor)
  : option (lazy_packet * list aresult) :=
  match prog with
  | [] => Some (lp, [])
  | a :: rest =>
    match lazy_access fuel fam lp a with
    | None => None
    | Some (lp', r) =>
      match lazy_program fuel fam lp' rest with
      | None => None
      | Some (lp'', rs) => Some (lp'', r :: rs)
      end
    end
  end.

(* ------------------------------------------------------------------ NewPacket and a uniform runner *)
Inductive anypacket := PEager (p : packet) | PLazy (lp : lazy_packet).

Definition new_packet (fuel : nat) (fam : family) (data : list Z) (first : Z) (o : dopts)
  : nresult anypacket :=                                            (* :725-769 *)
  if o_lazy o then NewOk (PLazy (new_lazy data first o))
  else match new_eager fuel fam data first o with
       | NewOk p => NewOk (PEager p)
       | NewPanic => NewPanic
       | NewFuel => NewFuel
       end.

Definition any_packet (pk : anypacket) : packet :=
  match pk with PEager p => p | PLazy lp => lp_p lp end.

Definition access (fuel : nat) (fam : family) (pk : anypacket) (a : accessor)
  : option (anypacket * aresult) :=
  match pk with
  | PEager p => Some (pk, eager_access p a)
  | PLazy lp => match lazy_access fuel fam lp a with
                | None => None
                | Some (lp', r) => Some (PLazy lp', r)
                end
  end.

(* one observation per call; stops with None when fuel runs out *)
Fixpoint run_program (fuel : nat) (fam : family) (pk : anypacket) (prog : list accessor)
  : anypacket * list (option aresult) :=
  match prog with
  | [] => (pk, [])
  | a :: rest =>
    match access fuel fam pk a with
    | None => (pk, [None])
    | Some (pk', r) => let '(pk'', rs) := run_program fuel fam pk' rest in (pk'', Some r :: rs)
    end
  end.
