(* C11, tcpassembly: Assembler + StreamPool + pageCache of tcpassembly/assembly.go with any
   number of connections, driven through AssembleWithTimestamp / FlushWithOptions /
   FlushOlderThan / FlushAll.  Lifecycle level: lengths instead of byte contents.
   Executable definitions only.  Line numbers refer to tcpassembly/assembly.go (the
   repository branch agent-c11 = agent-c09 + agent-c10 + the C11 repairs).

   A key is one direction of a TCP connection (key{netFlow, transportFlow}); the two
   directions are two connections with two streams.  Map iteration order
   (StreamPool.connections) is replaced by list order: every per-connection flush is
   independent of the others and the counters are sums, so the order is not observable
   except in the interleaving of callbacks of different streams (the comparison sorts the
   events of a call by stream) and, in the UNCHANGED tree only, in the order in which
   connection objects enter the free list (observable through the stale lastSeen the
   repair removes). *)
From GP Require Import Base C11Common.
Open Scope Z_scope.

Definition QUARTER : Z := 1073741824.

(* Sequence.Difference, :57-64 *)
Definition tdiff (s t : Z) : Z :=
  if (s >? M32 - QUARTER) && (t <? QUARTER) then (t + M32) - s
  else if (t >? M32 - QUARTER) && (s <? QUARTER) then t - (s + M32)
  else t - s.

(* page :96-102: seq, len(Bytes), Seen, End (Skip/Start are zero in a queued page) *)
Record tpage := mkTP { tp_seq : Z; tp_len : Z; tp_seen : Z; tp_end : bool }.
(* Reassembly :74-88 without the bytes *)
Record chunk := mkCh { ch_len : Z; ch_skip : Z; ch_start : bool; ch_end : bool; ch_seen : Z }.
(* connection :377-386 *)
Record tconn := mkTC {
  tc_key : Z; tc_sid : Z;
  tc_pages : Z;              (* connection.pages, as the code counts *)
  tc_queue : list tpage;     (* first .. last *)
  tc_next : Z;               (* nextSeq *)
  tc_seen : Z                (* lastSeen *)
}.

Definition set_queue (c : tconn) (n : Z) (q : list tpage) (nx : Z) : tconn :=
  mkTC (tc_key c) (tc_sid c) n q nx (tc_seen c).

(* ---- byteSpan :612-623 on lengths: (len(toSend), next) *)
Definition span_len (expected received len : Z) : Z * Z :=
  if expected =? INVALID then (len, sadd received len)
  else
    let span := tdiff received expected in
    if span <=? 0 then (len, sadd received len)
    else if len <? span then (0, expected)
    else (len - span, sadd expected (len - span)).

(* ---- pagesFromTCP :737-759 *)
Fixpoint tsplit (fuel : nat) (seq len ts : Z) (e : bool) : list tpage :=
  match fuel with
  | O => [mkTP seq (Z.min len PAGE) ts e]
  | S f =>
    let l := Z.min len PAGE in
    if len - l <=? 0 then [mkTP seq l ts e]
    else mkTP seq l ts false :: tsplit f (sadd seq l) (len - l) ts e
  end.
Definition tpages_of (seq len ts : Z) (e : bool) : list tpage :=
  tsplit (Z.to_nat (len / PAGE)) seq len ts e.

(* ---- traverseConn :686-693 (c10's formulation): (first..prev, current..last) *)
Fixpoint traverse (q : list tpage) (seq : Z) : list tpage * list tpage :=
  match q with
  | [] => ([], [])
  | p :: t =>
    let '(a, b) := traverse t seq in
    match a with
    | _ :: _ => (p :: a, b)
    | [] => if tdiff (tp_seq p) seq <? 0 then ([], p :: b) else ([p], b)
    end
  end.

(* the part of addNextFromConn :763-773 that depends on the popped page *)
Definition pop_page (next : Z) (p : tpage) : chunk * Z :=
  let skip := if next =? INVALID then -1
              else let d := tdiff next (tp_seq p) in if d >? 0 then d else 0 in
  let '(l, nx) := span_len next (tp_seq p) (tp_len p) in
  (mkCh l skip false (tp_end p) (tp_seen p), nx).

(* inside one API call: the locked connection, pc.used, a.ret *)
Record twork := mkW { w_c : tconn; w_used : Z; w_ret : list chunk }.

(* ---- addNextFromConn :763-783.  Only called with a non-empty queue (after an insertion,
   or behind `conn.first == nil` in skipFlush); on an empty queue Go would dereference nil,
   the model returns the work unchanged. *)
Definition add_next (w : twork) : twork :=
  let c := w_c w in
  match tc_queue c with
  | [] => w
  | p :: rest =>
    let '(r, nx) := pop_page (tc_next c) p in
    mkW (set_queue c (tc_pages c - 1) rest nx) (w_used w - 1) (w_ret w ++ [r])
  end.

(* ---- addContiguous :639-643 *)
Fixpoint contiguous (q : list tpage) (ns : Z) : list chunk * list tpage * Z :=
  match q with
  | [] => ([], [], ns)
  | p :: t =>
    if tdiff ns (tp_seq p) <=? 0 then
      let '(r, ns1) := pop_page ns p in
      let '(rs, q', ns2) := contiguous t ns1 in
      (r :: rs, q', ns2)
    else ([], q, ns)
  end.

Definition add_contiguous (w : twork) : twork :=
  let c := w_c w in
  let '(rs, q', ns) := contiguous (tc_queue c) (tc_next c) in
  mkW (set_queue c (tc_pages c - zlen rs) q' ns) (w_used w - zlen rs) (w_ret w ++ rs).

(* result of the part of an API call that runs under the connection lock *)
Record tres := mkTR {
  tr_c : tconn;
  tr_closed : bool;                 (* closeConnection ran: removed from the pool *)
  tr_used : Z;
  tr_calls : list (list chunk)      (* Stream.Reassembled calls, in order *)
}.

(* ---- closeConnection :669-679: ReassemblyComplete, remove from pool, replace the pages
   still on the list *)
Definition close_connection (c : tconn) (used : Z) (calls : list (list chunk)) : tres :=
  mkTR c true (used - zlen (tc_queue c)) calls.

Definition last_end (l : list chunk) : bool :=
  match rev l with [] => false | r :: _ => ch_end r end.

(* ---- sendToConnection :627-636 *)
Definition send_to_connection (w : twork) (calls : list (list chunk)) : tres :=
  let w1 := add_contiguous w in
  let calls1 := calls ++ [w_ret w1] in
  if last_end (w_ret w1) then close_connection (w_c w1) (w_used w1) calls1
  else mkTR (w_c w1) false (w_used w1) calls1.

(* ---- skipFlush :648-660 *)
Definition skip_flush (c : tconn) (used : Z) (calls : list (list chunk)) : tres :=
  match tc_queue c with
  | [] => close_connection c used calls
  | _ => send_to_connection (add_contiguous (add_next (mkW c used []))) calls
  end.

Definition limit_hit (maxPer maxTotal pages used : Z) : bool :=
  ((maxPer >? 0) && (pages >=? maxPer)) || ((maxTotal >? 0) && (used >=? maxTotal)).

(* the loop of insertIntoConn (C11 repair): `for conn.first != nil && limit reached { addNextFromConn }`;
   every iteration pops one page, so the length of the queue is enough fuel *)
Fixpoint limit_loop (fuel : nat) (maxPer maxTotal : Z) (w : twork) : twork :=
  match fuel with
  | O => w
  | S f =>
    match tc_queue (w_c w) with
    | [] => w
    | _ => if limit_hit maxPer maxTotal (tc_pages (w_c w)) (w_used w)
           then limit_loop f maxPer maxTotal (add_next w) else w
    end
  end.

(* ---- insertIntoConn :715-733; None = panic("wtf") *)
Definition insert_into_conn (v : variant) (maxPer maxTotal seq len : Z) (e : bool) (ts : Z) (w : twork)
    : option twork :=
  let c := w_c w in
  let wtf := match tc_queue c with p :: _ => tp_seq p =? tc_next c | [] => false end in
  if wtf then None else
  let ps := tpages_of seq len ts e in
  let n := zlen ps in
  let used1 := w_used w + n in
  let '(a, b) := traverse (tc_queue c) seq in
  let c1 := set_queue c (tc_pages c + n) (a ++ ps ++ b) (tc_next c) in
  let w1 := mkW c1 used1 (w_ret w) in
  if v_limit v then Some (limit_loop (length (tc_queue c1)) maxPer maxTotal w1)
  else if limit_hit maxPer maxTotal (tc_pages c1) used1 then Some (add_next w1) else Some w1.

(* ---- the pool *)
Record tstate := mkTS {
  ts_conns : list tconn;     (* StreamPool.conns *)
  ts_free : list Z;          (* lastSeen of the recycled connection objects on the free list, top first *)
  ts_fresh : Z;              (* never used objects below them (lastSeen = zero time) *)
  ts_alloc : Z;              (* nextAlloc *)
  ts_used : Z;               (* pageCache.used *)
  ts_maxPer : Z; ts_maxTotal : Z;
  ts_nstreams : Z;           (* StreamFactory.New calls so far *)
  ts_dead : bool             (* a panic left a connection mutex locked: the harness stops *)
}.

Definition tinit (maxPer maxTotal : Z) : tstate := mkTS [] [] 0 1024 0 maxPer maxTotal 0 false.

Record tout := mkTO { to_ev : list event; to_a : Z; to_b : Z; to_panic : bool }.
Definition no_out : tout := mkTO [] 0 0 false.

Definition sum_len (l : list chunk) : Z := fold_right (fun r a => ch_len r + a) 0 l.

Definition call_event (sid : Z) (l : list chunk) : event :=
  match l with
  | [] => EData sid 0 0 0 false false (-1) 0
  | r :: _ => EData sid (zlen l) (sum_len l) (ch_skip r) (ch_start r) (last_end l) (ch_seen r) 0
  end.

Definition res_events (r : tres) : list event :=
  map (call_event (tc_sid (tr_c r))) (tr_calls r) ++
  (if tr_closed r then [EDone (tc_sid (tr_c r)) true] else []).

Fixpoint split_key (k : Z) (l : list tconn) : option (list tconn * tconn * list tconn) :=
  match l with
  | [] => None
  | c :: t =>
    if tc_key c =? k then Some ([], c, t)
    else match split_key k t with
         | Some (a, x, b) => Some (c :: a, x, b)
         | None => None
         end
  end.

(* ---- newConnection :479-493 with grow :324-334: (lastSeen of the object handed out, free', fresh', alloc') *)
Definition take_free (st : tstate) : Z * list Z * Z * Z :=
  match ts_free st with
  | x :: rest => (x, rest, ts_fresh st, ts_alloc st)
  | [] =>
    if ts_fresh st <=? 0 then (ZEROT, [], ts_alloc st - 1, 2 * ts_alloc st)
    else (ZEROT, [], ts_fresh st - 1, ts_alloc st)
  end.

(* put the result of a locked section back: StreamPool.remove :662-667 pushes the object *)
Definition put_back (st : tstate) (pre post : list tconn) (free : list Z) (fresh alloc nstreams : Z)
    (r : tres) : tstate :=
  if tr_closed r then
    mkTS (pre ++ post) (tc_seen (tr_c r) :: free) fresh alloc (tr_used r)
         (ts_maxPer st) (ts_maxTotal st) nstreams false
  else
    mkTS (pre ++ tr_c r :: post) free fresh alloc (tr_used r)
         (ts_maxPer st) (ts_maxTotal st) nstreams false.

(* ---- AssembleWithTimestamp :567-609, the part under the connection lock *)
Definition assemble_locked (v : variant) (st : tstate) (c0 : tconn)
    (seq : Z) (syn fin rst : bool) (len ts : Z) : option tres :=
  (* :567-569 *)
  let c := if tc_seen c0 <? ts then mkTC (tc_key c0) (tc_sid c0) (tc_pages c0) (tc_queue c0) (tc_next c0) ts
           else c0 in
  let w0 := mkW c (ts_used st) [] in
  (* :571-575 (agent-c10 repair): the payload of a SYN seen after the position is known starts at seq+1 *)
  let seq1 := if syn && negb (tc_next c =? INVALID) then sadd seq 1 else seq in
  let ow :=
    if tc_next c =? INVALID then
      if syn then
        Some (mkW (set_queue c (tc_pages c) (tc_queue c) (sadd seq (len + 1))) (ts_used st)
                  [mkCh len 0 true false ts])
      else insert_into_conn v (ts_maxPer st) (ts_maxTotal st) seq len (rst || fin) ts w0
    else if tdiff (tc_next c) seq1 >? 0 then
      insert_into_conn v (ts_maxPer st) (ts_maxTotal st) seq len (rst || fin) ts w0
    else
      let '(l, nx) := span_len (tc_next c) seq1 len in
      Some (mkW (set_queue c (tc_pages c) (tc_queue c) nx) (ts_used st)
                [mkCh l 0 false (rst || fin) ts]) in
  match ow with
  | None => None
  | Some w =>
    (* :606-608 *)
    match w_ret w with
    | [] => Some (mkTR (w_c w) false (w_used w) [])
    | _ => Some (send_to_connection w [])
    end
  end.

Definition dead_of (st : tstate) : tstate :=
  mkTS (ts_conns st) (ts_free st) (ts_fresh st) (ts_alloc st) (ts_used st)
       (ts_maxPer st) (ts_maxTotal st) (ts_nstreams st) true.

(* ---- AssembleWithTimestamp :536-566 with getConnection :498-515 and reset :388-396 *)
Definition tassemble (v : variant) (st : tstate) (k seq : Z) (syn fin rst : bool) (len ts : Z)
    : tstate * tout :=
  if negb syn && negb fin && negb rst && (len =? 0) then (st, no_out) else
  let endp := negb syn && (len =? 0) in
  match split_key k (ts_conns st) with
  | Some (pre, c, post) =>
    match assemble_locked v st c seq syn fin rst len ts with
    | None => (dead_of st, mkTO [] 0 0 true)
    | Some r =>
      (put_back st pre post (ts_free st) (ts_fresh st) (ts_alloc st) (ts_nstreams st) r,
       mkTO (res_events r) 0 0 false)
    end
  | None =>
    if endp then (st, no_out) else
    let sid := ts_nstreams st + 1 in
    let '(inh, free1, fresh1, alloc1) := take_free st in
    (* reset :388-396: the unchanged tree leaves lastSeen of the recycled object in place *)
    let c := mkTC k sid 0 [] INVALID (if v_lastseen v then ts else inh) in
    match assemble_locked v st c seq syn fin rst len ts with
    | None => (dead_of st, mkTO [] 0 0 true)
    | Some r =>
      (put_back st (ts_conns st) [] free1 fresh1 alloc1 sid r,
       mkTO (ENew sid :: res_events r) 0 0 false)
    end
  end.

(* ---- FlushWithOptions :238-269, one connection: the loop :250-257 *)
Fixpoint flush_loop (fuel : nat) (t : Z) (r : tres) : tres :=
  match fuel with
  | O => r
  | S f =>
    if tr_closed r then r else
    match tc_queue (tr_c r) with
    | p :: _ =>
      if tp_seen p <? t then flush_loop f t (skip_flush (tr_c r) (tr_used r) (tr_calls r))
      else r
    | [] => r
    end
  end.

Definition head_older (c : tconn) (t : Z) : bool :=
  match tc_queue c with p :: _ => tp_seen p <? t | [] => false end.

(* returns (result, flushed) *)
Definition flush_conn (t : Z) (closeAll : bool) (c : tconn) (used : Z) : tres * bool :=
  let r := flush_loop (S (length (tc_queue c))) t (mkTR c false used []) in
  if closeAll && negb (tr_closed r) &&
     (match tc_queue (tr_c r) with [] => true | _ => false end) && (tc_seen (tr_c r) <? t)
  then (close_connection (tr_c r) (tr_used r) (tr_calls r), true)
  else (r, head_older c t).

(* ---- FlushAll :279-290, one connection: `for !conn.closed { skipFlush }` *)
Fixpoint flush_all_loop (fuel : nat) (r : tres) : tres :=
  match fuel with
  | O => r
  | S f => if tr_closed r then r
           else flush_all_loop f (skip_flush (tr_c r) (tr_used r) (tr_calls r))
  end.

Definition flush_all_conn (c : tconn) (used : Z) : tres :=
  flush_all_loop (S (S (length (tc_queue c)))) (mkTR c false used []).

(* all connections of the pool, in list order.  Result: kept connections, lastSeen of the
   objects pushed on the free list (last pushed first), used, events, flushed, closed *)
Record facc := mkFA {
  fa_keep : list tconn; fa_freed : list Z; fa_used : Z; fa_ev : list event; fa_fl : Z; fa_cl : Z }.

Fixpoint flush_conns (f : tconn -> Z -> tres * bool) (l : list tconn) (used : Z) : facc :=
  match l with
  | [] => mkFA [] [] used [] 0 0
  | c :: t =>
    let '(r, fl) := f c used in
    let a := flush_conns f t (tr_used r) in
    mkFA (if tr_closed r then fa_keep a else tr_c r :: fa_keep a)
         (if tr_closed r then fa_freed a ++ [tc_seen (tr_c r)] else fa_freed a)
         (fa_used a) (res_events r ++ fa_ev a)
         ((if fl then 1 else 0) + fa_fl a) ((if tr_closed r then 1 else 0) + fa_cl a)
  end.

Definition tflush (st : tstate) (t : Z) (closeAll : bool) : tstate * tout :=
  let a := flush_conns (flush_conn t closeAll) (ts_conns st) (ts_used st) in
  (mkTS (fa_keep a) (fa_freed a ++ ts_free st) (ts_fresh st) (ts_alloc st) (fa_used a)
        (ts_maxPer st) (ts_maxTotal st) (ts_nstreams st) false,
   mkTO (fa_ev a) (fa_fl a) (fa_cl a) false).

Definition tflush_all (st : tstate) : tstate * tout :=
  let a := flush_conns (fun c u => (flush_all_conn c u, true)) (ts_conns st) (ts_used st) in
  (mkTS (fa_keep a) (fa_freed a ++ ts_free st) (ts_fresh st) (ts_alloc st) (fa_used a)
        (ts_maxPer st) (ts_maxTotal st) (ts_nstreams st) false,
   mkTO (fa_ev a) (zlen (ts_conns st)) 0 false).

Inductive top :=
| TSeg (key seq : Z) (syn fin rst : bool) (len ts : Z)
| TFlush (t : Z) (closeAll : bool)       (* FlushWithOptions; FlushOlderThan t = TFlush t true *)
| TFlushAll.

Definition tstep (v : variant) (st : tstate) (o : top) : tstate * tout :=
  if ts_dead st then (st, mkTO [] 0 0 true) else
  match o with
  | TSeg k seq syn fin rst len ts => tassemble v st k seq syn fin rst len ts
  | TFlush t ca => tflush st t ca
  | TFlushAll => tflush_all st
  end.

(* what the harness reads after every call *)
Record tobs := mkTObs {
  ob_out : tout;
  ob_used : Z; ob_live : Z; ob_free : Z;
  ob_pages : list (Z * Z * Z)          (* per live connection: stream, pages counter, listed pages *)
}.

Definition tobserve (st : tstate) (o : tout) : tobs :=
  mkTObs o (ts_used st) (zlen (ts_conns st)) (zlen (ts_free st) + ts_fresh st)
         (map (fun c => (tc_sid c, tc_pages c, zlen (tc_queue c))) (ts_conns st)).

Fixpoint trun_trace (v : variant) (st : tstate) (ops : list top) : list tobs :=
  match ops with
  | [] => []
  | o :: t => let '(st', ou) := tstep v st o in tobserve st' ou :: trun_trace v st' t
  end.

Definition trun (v : variant) (maxPer maxTotal : Z) (ops : list top) : list tobs :=
  trun_trace v (tinit maxPer maxTotal) ops.
Definition trun_fixed := trun fixedv.

(* the state after a history, and the whole event log *)
Fixpoint trun_state (v : variant) (st : tstate) (ops : list top) : tstate * list event :=
  match ops with
  | [] => (st, [])
  | o :: t =>
    let '(st', ou) := tstep v st o in
    let '(st2, ev) := trun_state v st' t in (st2, to_ev ou ++ ev)
  end.
