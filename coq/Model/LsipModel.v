(* Lsip — executable model of layers/sip.go (as repaired): SIP.DecodeFromBytes :232-291 (line loop), setBaseLayer
   :293-304, ParseFirstLine :306-352, ParseHeader :354-395, ParseSpecificHeaders :397-426, parsePositiveInt32 / parseUint32
   :428-446, GetSIPVersion :41-51, GetSIPMethod :115-152, NextLayerType (LayerTypePayload).  Definitions only.
   SIP has no SerializeTo (C06, C07 do not apply).
   Text: the model is byte-wise and covers ASCII input (every octet below 128): strings.ToUpper / ToLower /
   bytes.TrimSpace decode UTF-8 and rewrite invalid sequences, which is not modelled — other inputs answer
   Err 77 (unmodelled) and are kept out of the comparison by the generator.  Headers (a Go map) is an association
   list in insertion order; the harness prints it sorted by key.  strconv: Atoi / ParseInt(.,10,32) / ParseUint(.,10,32)
   as specified (sign, decimal digits, range), results on error as the callers assign them.
   `rs` = the repaired DecodeFromBytes, which first resets everything but BaseLayer (false: the original). *)
From GP Require Import Base Codec MiscLib MidLib.
Open Scope Z_scope.

Record sip := mkSp {
  sp_contents : list Z; sp_payload : list Z; sp_version : Z; sp_method : Z;
  sp_headers : list (list Z * list (list Z)); sp_uri : list Z; sp_isresp : bool; sp_code : Z; sp_status : list Z;
  sp_cseq : Z; sp_clen : Z; sp_last : list Z }.
(* &layers.SIP{} : contentLength 0 (NewSIP sets -1) *)
Definition sp_fresh : sip := mkSp [] [] 0 0 [] [] false 0 [] 0 0 [].
Definition sp_reset (old : sip) : sip := mkSp (sp_contents old) (sp_payload old) 0 0 [] [] false 0 [] 0 (-1) [].

(* ---- byte-string helpers *)
Fixpoint beq (a b : list Z) : bool :=
  match a, b with [], [] => true | x :: a', y :: b' => (x =? y) && beq a' b' | _, _ => false end.
Fixpoint dropw (f : Z -> bool) (l : list Z) : list Z :=
  match l with [] => [] | c :: t => if f c then dropw f t else l end.
Definition trimset (f : Z -> bool) (l : list Z) : list Z := rev (dropw f (rev (dropw f l))).      (* bytes.Trim(l, cutset) *)
Definition is_crlf (c : Z) := (c =? 13) || (c =? 10).
Definition is_sp (c : Z) := c =? 32.
Definition is_space (c : Z) := (c =? 9) || (c =? 10) || (c =? 11) || (c =? 12) || (c =? 13) || (c =? 32).   (* ASCII white space *)
Definition upper (c : Z) := if (97 <=? c) && (c <=? 122) then c - 32 else c.
Definition lower (c : Z) := if (65 <=? c) && (c <=? 90) then c + 32 else c.
(* first occurrence of c: (before, after) *)
Fixpoint cut (c : Z) (l : list Z) : option (list Z * list Z) :=
  match l with
  | [] => None
  | x :: t => if x =? c then Some ([], t) else match cut c t with Some (a, r) => Some (x :: a, r) | None => None end
  end.
(* buffer.ReadBytes('\n'): the line with its delimiter and the rest; None = EOF before a delimiter *)
Definition readline (l : list Z) : option (list Z * list Z) :=
  match cut 10 l with Some (a, r) => Some (a ++ [10], r) | None => None end.
Fixpoint prefix (p l : list Z) : bool :=
  match p, l with [] , _ => true | x :: p', y :: l' => (x =? y) && prefix p' l' | _, [] => false end.
Fixpoint digits (l : list Z) (acc : Z) : option Z :=
  match l with
  | [] => Some acc
  | c :: t => if (48 <=? c) && (c <=? 57) then digits t (acc * 10 + (c - 48)) else None
  end.
(* sign and digits: None = syntax error *)
Definition signed (l : list Z) : option Z :=
  match l with
  | [] => None
  | c :: t =>
    if c =? 45 then match t with [] => None | _ => option_map Z.opp (digits t 0) end
    else if c =? 43 then match t with [] => None | _ => digits t 0 end
    else digits l 0
  end.
(* strconv.Atoi: (value assigned, failed) *)
Definition atoi (l : list Z) : Z * bool :=
  match signed l with
  | None => (0, true)
  | Some v => if v >? 9223372036854775807 then (9223372036854775807, true)
              else if v <? -9223372036854775808 then (-9223372036854775808, true) else (v, false)
  end.
Definition parse_uint32 (l : list Z) : option Z :=                                (* :440-446 *)
  match l with [] => None | _ => match digits l 0 with Some v => if v >? 4294967295 then None else Some v | None => None end end.
Definition parse_pos_int32 (l : list Z) : option Z :=                             (* :428-438 *)
  match signed l with
  | Some v => if (v >? 2147483647) || (v <? -2147483648) || (v <? 0) then None else Some v
  | None => None
  end.

Definition get_version (l : list Z) : option Z :=                                 (* :41-51 *)
  let u := map upper l in
  if beq u [83;73;80;47;49;46;48] (* "SIP/1.0" *) then Some 1 else if beq u [83;73;80;47;50;46;48] (* "SIP/2.0" *) then Some 2 else None.
(* INVITE ACK BYE CANCEL OPTIONS REGISTER PRACK SUBSCRIBE NOTIFY PUBLISH INFO REFER MESSAGE UPDATE PING, as octets *)
Definition methods : list (list Z) :=
  [[73;78;86;73;84;69];
   [65;67;75];
   [66;89;69];
   [67;65;78;67;69;76];
   [79;80;84;73;79;78;83];
   [82;69;71;73;83;84;69;82];
   [80;82;65;67;75];
   [83;85;66;83;67;82;73;66;69];
   [78;79;84;73;70;89];
   [80;85;66;76;73;83;72];
   [73;78;70;79];
   [82;69;70;69;82];
   [77;69;83;83;65;71;69];
   [85;80;68;65;84;69];
   [80;73;78;71]].
Fixpoint find_method (u : list Z) (ms : list (list Z)) (k : Z) : option Z :=
  match ms with [] => None | m :: t => if beq u m then Some k else find_method u t (k + 1) end.
Definition get_method (l : list Z) : option Z := find_method (map upper l) methods 1.   (* :115-152 *)

(* ---- Headers: map[string][]string *)
Fixpoint hlookup (k : list Z) (h : list (list Z * list (list Z))) : list (list Z) :=
  match h with [] => [] | (k', v) :: t => if beq k k' then v else hlookup k t end.
Fixpoint hset (k : list Z) (v : list (list Z)) (h : list (list Z * list (list Z))) : list (list Z * list (list Z)) :=
  match h with [] => [(k, v)] | (k', v') :: t => if beq k k' then (k', v) :: t else (k', v') :: hset k v t end.

Definition sp_with_headers (s : sip) h last :=
  mkSp (sp_contents s) (sp_payload s) (sp_version s) (sp_method s) h (sp_uri s) (sp_isresp s) (sp_code s) (sp_status s) (sp_cseq s) (sp_clen s) last.
Definition sp_with_method (s : sip) m :=
  mkSp (sp_contents s) (sp_payload s) (sp_version s) m (sp_headers s) (sp_uri s) (sp_isresp s) (sp_code s) (sp_status s) (sp_cseq s) (sp_clen s) (sp_last s).
Definition sp_with_version (s : sip) v :=
  mkSp (sp_contents s) (sp_payload s) v (sp_method s) (sp_headers s) (sp_uri s) (sp_isresp s) (sp_code s) (sp_status s) (sp_cseq s) (sp_clen s) (sp_last s).
Definition sp_with_cseq (s : sip) c :=
  mkSp (sp_contents s) (sp_payload s) (sp_version s) (sp_method s) (sp_headers s) (sp_uri s) (sp_isresp s) (sp_code s) (sp_status s) c (sp_clen s) (sp_last s).
Definition sp_with_clen (s : sip) c :=
  mkSp (sp_contents s) (sp_payload s) (sp_version s) (sp_method s) (sp_headers s) (sp_uri s) (sp_isresp s) (sp_code s) (sp_status s) (sp_cseq s) c (sp_last s).

(* ParseFirstLine :306-352 *)
Definition sp_first_line (s : sip) (l : list Z) : sip * outcome unit :=
  match cut 32 l with
  | None => (s, Err 10)                                                           (* :312-314 fewer than 3 parts *)
  | Some (a, r1) =>
    match cut 32 r1 with
    | None => (s, Err 10)
    | Some (b, c) =>
      if prefix [83;73;80] (* "SIP" *) a then                                                (* :316-331 response *)
        let s1 := mkSp (sp_contents s) (sp_payload s) (sp_version s) (sp_method s) (sp_headers s) (sp_uri s) true (sp_code s) (sp_status s) (sp_cseq s) (sp_clen s) (sp_last s) in
        match get_version a with
        | None => (sp_with_version s1 0, Err 11)
        | Some v =>
          let s2 := sp_with_version s1 v in
          let (code, bad) := atoi b in
          let s3 := mkSp (sp_contents s2) (sp_payload s2) (sp_version s2) (sp_method s2) (sp_headers s2) (sp_uri s2) true code (sp_status s2) (sp_cseq s2) (sp_clen s2) (sp_last s2) in
          if bad then (s3, Err 12)
          else (mkSp (sp_contents s3) (sp_payload s3) (sp_version s3) (sp_method s3) (sp_headers s3) (sp_uri s3) true code c (sp_cseq s3) (sp_clen s3) (sp_last s3), Ok tt)
        end
      else                                                                        (* :332-349 request *)
        match get_method a with
        | None => (sp_with_method s 0, Err 13)
        | Some m =>
          let s1 := sp_with_method s m in
          let s2 := mkSp (sp_contents s1) (sp_payload s1) (sp_version s1) (sp_method s1) (sp_headers s1) b (sp_isresp s1) (sp_code s1) (sp_status s1) (sp_cseq s1) (sp_clen s1) (sp_last s1) in
          match get_version c with
          | None => (sp_with_version s2 0, Err 11)
          | Some v => (sp_with_version s2 v, Ok tt)
          end
        end
    end
  end.

(* ParseSpecificHeaders :397-426 *)
Definition sp_specific (s : sip) (name value : list Z) : sip * outcome unit :=
  if beq name [99;115;101;113] (* "cseq" *) then
    match cut 32 value with                                                       (* :401-402 len(splits) > 1 *)
    | None => (s, Ok tt)
    | Some (a, r) =>
      match parse_uint32 a with
      | None => (sp_with_cseq s 0, Err 20)                                        (* :403-406 *)
      | Some v =>
        let s1 := sp_with_cseq s v in
        if sp_isresp s1 then                                                      (* :407-412 *)
          let b := match cut 32 r with Some (b, _) => b | None => r end in
          match get_method b with
          | None => (sp_with_method s1 0, Err 13)
          | Some m => (sp_with_method s1 m, Ok tt)
          end
        else (s1, Ok tt)
      end
    end
  else if beq name [99;111;110;116;101;110;116;45;108;101;110;103;116;104] (* "content-length" *) then                                    (* :415-420 *)
    match parse_pos_int32 value with
    | None => (sp_with_clen s 0, Err 21)
    | Some v => (sp_with_clen s v, Ok tt)
    end
  else (s, Ok tt).

(* ParseHeader :354-395 on a non-empty line *)
Definition sp_header (s : sip) (l : list Z) : sip * outcome unit :=
  match cd_idx l 0 with                                                           (* :365 header[0] *)
  | Ok h0 =>
    if (h0 =? 9) || (h0 =? 32) then                                               (* :365-374 continuation *)
      let hdr := trimset is_space l in
      let vals := hlookup (sp_last s) (sp_headers s) in
      match rev vals with
      | [] => (s, Err 22)
      | lastv :: before => (sp_with_headers s (hset (sp_last s) (rev before ++ [lastv ++ [32] ++ hdr]) (sp_headers s)) (sp_last s), Ok tt)
      end
    else
      match cut 58 l with                                                         (* :376-377 *)
      | None => (s, Ok tt)
      | Some (a, r) =>
        match cd_slc l 0 (zlen a), cd_slc l (zlen a + 1) (zlen l) with             (* :379-380 header[:index], header[index+1:] *)
        | Ok na, Ok va =>
          let name := map lower (trimset is_sp na) in
          let value := trimset is_sp va in
          let s1 := sp_with_headers s (hset name (hlookup name (sp_headers s) ++ [value]) (sp_headers s)) name in   (* :382-383 *)
          sp_specific s1 name value                                               (* :385-388 *)
        | Panic p, _ => (s, Panic p) | _, Panic p => (s, Panic p)
        | Err e, _ => (s, Err e) | _, Err e => (s, Err e)
        end
      end
  | Err e => (s, Err e) | Panic p => (s, Panic p)
  end.

(* the line loop :241-285: (state, outcome, end of headers seen, offset); Err 99 = out of fuel *)
Fixpoint sp_lines (fuel : nat) (s : sip) (count offset : Z) (rest : list Z) : sip * outcome unit * bool * Z :=
  match fuel with
  | O => (s, Err 99, false, offset)
  | S f =>
    match readline rest with
    | None => (s, Ok tt, false, offset)                                           (* :244-251 EOF: the partial line is dropped *)
    | Some (line, rest') =>
      let offset' := offset + zlen line in                                        (* :256 *)
      let l := trimset is_crlf line in                                            (* :258 *)
      if zlen l =? 0 then                                                         (* :260-266 *)
        if count =? 0 then (s, Err 1, false, offset') else (s, Ok tt, true, offset')
      else
        let '(s', o) := if count =? 0 then sp_first_line s l else sp_header s l in   (* :268-279 *)
        match o with
        | Ok _ => sp_lines f s' (count + 1) offset' rest'
        | Err e => (s', Err e, false, offset')
        | Panic p => (s', Panic p, false, offset')
        end
    end
  end.

Definition ascii_ok (data : list Z) : bool := forallb (fun b => (0 <=? b) && (b <? 128)) data.

Definition sp_decode_gen (rs : bool) (old : sip) (data : list Z) : sip * outcome unit * bool :=
  if negb (ascii_ok data) then (old, Err 77, false) else
  let s0 := if rs then sp_reset old else old in
  let '(s, o, eoh, offset) := sp_lines (S (length data)) s0 0 0 data in
  match o with
  | Ok _ =>
    let tr := negb eoh in                                                         (* :286-288 *)
    let n := zlen data in
    let cl := sp_clen s in
    let fin := fun (tr : bool) (p : outcome (list Z)) =>
      match cd_slc data 0 offset, p with
      | Ok c, Ok p => (mkSp c p (sp_version s) (sp_method s) (sp_headers s) (sp_uri s) (sp_isresp s) (sp_code s) (sp_status s) (sp_cseq s) (sp_clen s) (sp_last s), Ok tt, tr)
      | Panic q, _ => (s, Panic q, tr) | _, Panic q => (s, Panic q, tr)
      | Err e, _ => (s, Err e, tr) | _, Err e => (s, Err e, tr)
      end in
    if cl =? -1 then fin tr (cd_slc data offset n)                                (* :294-295 *)
    else if cl =? 0 then fin tr (Ok [])                                           (* :296-297 *)
    else if n <? offset + cl then fin true (cd_slc data offset n)                 (* :298-300 *)
    else fin tr (cd_slc data offset (offset + cl))                                (* :301-303 *)
  | Err e => (s, Err e, false)
  | Panic p => (s, Panic p, false)
  end.
Definition sp_decode_into := sp_decode_gen true.
Definition sp_decode_into_orig := sp_decode_gen false.

Definition sp_next (l : sip) : Z := 0.
(* reflective renderers; SIPVersion/SIPMethod.String are switches with a default; GetHeader & co. are map lookups *)
Definition sp_render_panics (l : sip) : bool := false.
