(* C13: IP defragmentation.  Executable model of
     ip4defrag/defrag.go  (DefragIPv4WithTimestamp :84-133, DiscardOlderThan :138-149,
                           dontDefrag :160-170, securityChecks :173-203, insert :221-278,
                           build :283-348; line numbers of the repaired file)
     ip6defrag/defrag.go  (DefragIPv6 :82-178, DiscardOlderThan :183-194)
   Definitions only.  The model is parametric in a [variant]: [fixedv] is the code after the
   five `fix:` commits, [origv] the arithmetic of the unchanged tree; each flag switches one
   repaired defect back so that its witness stays documented (Props/C13.v, *_refuted). *)
From GP Require Import Base.
Open Scope Z_scope.

Record variant := {
  v_ihl : bool;    (* payload length = Length - 4*IHL            (orig: Length - 20) *)
  v_len : bool;    (* output Length = 4*IHL + |payload|          (orig: f.Highest) *)
  v_ovl : bool;    (* overlap branch advances to the fragment's end, trailing hole refused
                      (orig: currentOffset + FragOffset*8, no final test) *)
  v_sec : bool;    (* securityChecks in int                      (orig: uint16, wraps) *)
  v_trunc : bool;  (* build refuses |Payload| <> Length - 4*IHL  (orig: no test; slicing may panic) *)
  v_six : bool     (* ip6defrag: a non-final fragment must carry a multiple of 8 bytes (orig: no test) *)
}.
Definition fixedv := {| v_ihl := true; v_len := true; v_ovl := true; v_sec := true; v_trunc := true; v_six := true |}.
Definition origv := {| v_ihl := false; v_len := false; v_ovl := false; v_sec := false; v_trunc := false; v_six := false |}.

(* a layers.IPv4 value, as far as the defragmenter reads or copies it.  f_hdr stands for the
   fields that are only copied (Version, TOS, TTL, Protocol, Options, Padding), opaque. *)
Record frag := {
  f_src : Z; f_dst : Z; f_id : Z;       (* the map key: NetworkFlow() and Id *)
  f_ihl : Z;                             (* uint8 *)
  f_len : Z;                             (* Length, uint16 *)
  f_flags : Z;                           (* bit 0 MF, bit 1 DF, bit 2 evil *)
  f_off : Z;                             (* FragOffset, uint16, units of 8 bytes *)
  f_hdr : list Z;
  f_payload : list Z
}.

Definition key := (Z * Z * Z)%type.
Definition key_of (f : frag) : key := (f_src f, f_dst f, f_id f).
Definition key_eqb (a b : key) : bool :=
  let '(a1, a2, a3) := a in let '(b1, b2, b3) := b in (a1 =? b1) && (a2 =? b2) && (a3 =? b3).

Definition has_mf (f : frag) : bool := Z.odd (f_flags f).
Definition has_df (f : frag) : bool := Z.odd (f_flags f / 2).
Definition plen (f : frag) : Z := Z.of_nat (length (f_payload f)).

(* dontDefrag, :160-170 *)
Definition dont_defrag (f : frag) : bool :=
  if has_df f then true
  else if negb (has_mf f) && (f_off f =? 0) then true
  else false.

(* securityChecks, :173-203 *)
Definition security_ok (v : variant) (f : frag) : bool :=
  if v_sec v then
    let fs := f_len f - f_ihl f * 4 in
    if fs <? 0 then false
    else if has_mf f && (fs <? 8) then false
    else if 8183 <? f_off f then false
    else if 65535 <? f_off f * 8 + f_len f then false
    else true
  else
    let fs := u16 (f_len f - u16 (f_ihl f * 4)) in
    if has_mf f && (fs <? 8) then false
    else if 8183 <? f_off f then false
    else if 65535 <? u16 (u16 (f_off f * 8) + f_len f) then false
    else true.

(* payload length of a fragment as insert and build compute it (uint16) *)
Definition frag_len (v : variant) (f : frag) : Z :=
  if v_ihl v then u16 (f_len f - u16 (f_ihl f * 4)) else u16 (f_len f - 20).
Definition frag_off (f : frag) : Z := u16 (f_off f * 8).

(* fragmentList, :209-215 *)
Record fraglist := {
  fl_list : list frag;
  fl_highest : Z;
  fl_current : Z;
  fl_final : bool;
  fl_seen : Z
}.
Definition empty_fl := {| fl_list := []; fl_highest := 0; fl_current := 0; fl_final := false; fl_seen := 0 |}.

Inductive result :=
| RNone            (* nil, nil *)
| RErr             (* nil, err *)
| RPanic
| RPass            (* the input layer itself *)
| RDg (d : frag).  (* a new layer *)

(* the loop of insert, :228-253: (new list, duplicate?) ; running off the end inserts nothing *)
Fixpoint ins_walk (l : list frag) (f : frag) : list frag * bool :=
  match l with
  | [] => ([], false)
  | g :: r =>
    if f_off f =? f_off g then (l, true)
    else if f_off f <? f_off g then (f :: l, false)
    else let '(r', d) := ins_walk r f in (g :: r', d)
  end.

(* the loop of build, :288-320, from offset cur: (bytes appended, final offset) *)
Fixpoint build_walk (v : variant) (l : list frag) (cur : Z) : outcome (list Z * Z) :=
  match l with
  | [] => Ok ([], cur)
  | g :: r =>
    let flen := frag_len v g in
    let fo := frag_off g in
    if v_trunc v && negb (plen g =? f_len g - f_ihl g * 4) then Err 3
    else if fo =? cur then
      match build_walk v r (u16 (cur + flen)) with
      | Ok (rest, c) => Ok (f_payload g ++ rest, c)
      | Err e => Err e
      | Panic s => Panic s
      end
    else if fo <? cur then
      let start := u16 (cur - fo) in
      if flen <? start then Err 1
      else if plen g <? start then Panic 1      (* frag.Payload[startAt:] *)
      else
        match build_walk v r (if v_ovl v then u16 (fo + flen) else u16 (cur + fo)) with
        | Ok (rest, c) => Ok (skipn (Z.to_nat start) (f_payload g) ++ rest, c)
        | Err e => Err e
        | Panic s => Panic s
        end
    else Err 2
  end.

(* build, :283-348 *)
Definition build (v : variant) (fl : fraglist) (i : frag) : result :=
  match build_walk v (fl_list fl) 0 with
  | Err _ => RErr
  | Panic _ => RPanic
  | Ok (final, cur) =>
    if v_ovl v && negb (cur =? fl_highest fl) then RErr
    else
      let total := f_ihl i * 4 + Z.of_nat (length final) in
      if v_len v && (65535 <? total) then RErr
      else RDg {| f_src := f_src i; f_dst := f_dst i; f_id := f_id i; f_ihl := f_ihl i;
                  f_len := if v_len v then total else fl_highest fl;
                  f_flags := 0; f_off := 0; f_hdr := f_hdr i; f_payload := final |}
  end.

(* insert, :221-278 *)
Definition insert (v : variant) (fl : fraglist) (f : frag) (t : Z) : fraglist * result :=
  let fo := frag_off f in
  let '(l', dup) :=
    if fl_highest fl <=? fo then (fl_list fl ++ [f], false) else ins_walk (fl_list fl) f in
  if dup then (fl, RNone)
  else
    let flen := frag_len v f in
    let hi := if fl_highest fl <? u16 (fo + flen) then u16 (fo + flen) else fl_highest fl in
    let cu := u16 (fl_current fl + flen) in
    let fin := fl_final fl || negb (has_mf f) in
    let fl1 := {| fl_list := l'; fl_highest := hi; fl_current := cu; fl_final := fin; fl_seen := t |} in
    if fin && (hi =? cu) then (fl1, build v fl1 f) else (fl1, RNone).

(* the map ipFlows *)
Definition state := list (key * fraglist).
Fixpoint lookup (k : key) (st : state) : option fraglist :=
  match st with
  | [] => None
  | (k', fl) :: r => if key_eqb k k' then Some fl else lookup k r
  end.
Fixpoint remove (k : key) (st : state) : state :=
  match st with
  | [] => []
  | (k', fl) :: r => if key_eqb k k' then remove k r else (k', fl) :: remove k r
  end.
Definition set (k : key) (fl : fraglist) (st : state) : state := (k, fl) :: remove k st.

Definition max_list_len := 8192.

(* DefragIPv4WithTimestamp, :84-133 *)
Definition defrag4 (v : variant) (st : state) (f : frag) (t : Z) : state * result :=
  if dont_defrag f then (st, RPass)
  else if negb (security_ok v f) then (st, RErr)
  else
    let k := key_of f in
    let fl := match lookup k st with Some fl => fl | None => empty_fl end in
    let '(fl', r) := insert v fl f t in
    match r with
    | RDg d => (remove k st, RDg d)
    | RPanic => (set k fl' st, RPanic)
    | _ =>
      if max_list_len <? Z.of_nat (length (fl_list fl')) + 1 then (remove k st, RErr)
      else (set k fl' st, r)
    end.

(* DiscardOlderThan, :138-149 *)
Definition discard4 (st : state) (t : Z) : state * Z :=
  (filter (fun e => negb (fl_seen (snd e) <? t)) st,
   Z.of_nat (length (filter (fun e => fl_seen (snd e) <? t) st))).

Inductive op4 :=
| OFrag (f : frag) (t : Z)
| ODiscard (t : Z).

Inductive out4 :=
| Res (r : result)
| Discarded (n : Z).

Definition step4 (v : variant) (st : state) (o : op4) : state * out4 :=
  match o with
  | OFrag f t => let '(st', r) := defrag4 v st f t in (st', Res r)
  | ODiscard t => let '(st', n) := discard4 st t in (st', Discarded n)
  end.

Fixpoint run4 (v : variant) (st : state) (ops : list op4) : state * list out4 :=
  match ops with
  | [] => (st, [])
  | o :: r => let '(st1, x) := step4 v st o in let '(st2, xs) := run4 v st1 r in (st2, x :: xs)
  end.

(* ------------------------------------------------------------------ IPv6, ip6defrag/defrag.go *)
Record frag6 := {
  g_src : Z; g_dst : Z;                  (* of the IPv6 layer handed in with the fragment *)
  g_id : Z;                              (* Identification: the whole map key *)
  g_off : Z;                             (* FragmentOffset, uint16, units of 8 *)
  g_more : bool;
  g_nh : Z;
  g_hdr : list Z;                        (* TrafficClass, FlowLabel, HopLimit: copied *)
  g_payload : list Z
}.

Inductive result6 :=
| R6None
| R6Dg (nh : Z) (hd : frag6) (payload : list Z).  (* NextHeader of the last fragment, header of the first *)

(* the insertion loop, :106-129 *)
Fixpoint ins6 (l : list frag6) (f : frag6) : list frag6 :=
  match l with
  | [] => [f]
  | g :: r =>
    if g_off f =? g_off g then l
    else if g_off f <? g_off g then f :: l
    else g :: ins6 r f
  end.

(* the completeness walk, :137-149 *)
Fixpoint ok6 (v : variant) (l : list frag6) : bool :=
  match l with
  | [] => false
  | g :: r =>
    if negb (g_more g) then true
    else match r with
         | [] => false
         | h :: _ =>
           if v_six v && negb (Z.of_nat (length (g_payload g)) mod 8 =? 0) then false
           else if u16 (g_off g + u16 (Z.of_nat (length (g_payload g)) / 8)) =? g_off h then ok6 v r else false
         end
  end.

(* the payload loop, :156-164: (bytes, NextHeader of the fragment that ends it) *)
Fixpoint cat6 (l : list frag6) : list Z * Z :=
  match l with
  | [] => ([], 0)
  | g :: r => if g_more g then let '(b, nh) := cat6 r in (g_payload g ++ b, nh) else (g_payload g, g_nh g)
  end.

Definition state6 := list (Z * list frag6).
Fixpoint lookup6 (k : Z) (st : state6) : option (list frag6) :=
  match st with
  | [] => None
  | (k', l) :: r => if k =? k' then Some l else lookup6 k r
  end.
Fixpoint remove6 (k : Z) (st : state6) : state6 :=
  match st with
  | [] => []
  | (k', l) :: r => if k =? k' then remove6 k r else (k', l) :: remove6 k r
  end.

(* DefragIPv6, :82-178 *)
Definition defrag6 (v : variant) (st : state6) (f : frag6) : state6 * result6 :=
  match lookup6 (g_id f) st with
  | None => ((g_id f, [f]) :: st, R6None)
  | Some l =>
    let l' := ins6 l f in
    let st' := (g_id f, l') :: remove6 (g_id f) st in
    match l' with
    | [] => (st', R6None)
    | hd :: _ =>
      if negb (g_off hd =? 0) then (st', R6None)
      else if ok6 v l' then let '(b, nh) := cat6 l' in (st', R6Dg nh hd b)
      else (st', R6None)
    end
  end.

Inductive op6 :=
| O6Frag (f : frag6)
| O6Discard (all : bool).    (* cut-off in the far future / at the epoch *)

Inductive out6 :=
| Res6 (r : result6)
| Discarded6 (n : Z).

Definition step6 (v : variant) (st : state6) (o : op6) : state6 * out6 :=
  match o with
  | O6Frag f => let '(st', r) := defrag6 v st f in (st', Res6 r)
  | O6Discard true => ([], Discarded6 (Z.of_nat (length st)))
  | O6Discard false => (st, Discarded6 0)
  end.

(* ------------------------------------------------------------------ traces for the runner *)
Inductive op :=
| Op4 (o : op4)
| Op6 (o : op6).
Inductive out :=
| Out4 (o : out4)
| Out6 (o : out6).

(* branch tags: which interesting branches a step took (counted by the check) *)
Record tags := { t_dup : bool; t_overlap : bool; t_hole : bool; t_toomany : bool; t_fallthrough : bool }.

Fixpoint walk_tags (v : variant) (l : list frag) (cur : Z) : bool * bool :=   (* overlap, hole *)
  match l with
  | [] => (false, false)
  | g :: r =>
    let fo := frag_off g in
    if fo =? cur then walk_tags v r (u16 (cur + frag_len v g))
    else if fo <? cur then
      let '(_, h) := walk_tags v r (if v_ovl v then u16 (fo + frag_len v g) else u16 (cur + fo)) in (true, h)
    else (false, true)
  end.

Definition step_tags (v : variant) (st : state) (o : op4) : tags :=
  match o with
  | ODiscard _ => {| t_dup := false; t_overlap := false; t_hole := false; t_toomany := false; t_fallthrough := false |}
  | OFrag f t =>
    if dont_defrag f || negb (security_ok v f) then
      {| t_dup := false; t_overlap := false; t_hole := false; t_toomany := false; t_fallthrough := false |}
    else
      let fl := match lookup (key_of f) st with Some fl => fl | None => empty_fl end in
      let walked := negb (fl_highest fl <=? frag_off f) in
      let '(l', dup) := if walked then ins_walk (fl_list fl) f else ([], false) in
      let n := length (fl_list fl) in
      let n' := if walked then length l' else S n in
      let flen := frag_len v f in
      let e := u16 (frag_off f + flen) in
      let hi := if fl_highest fl <? e then e else fl_highest fl in
      let built := negb dup && (fl_final fl || negb (has_mf f)) && (hi =? u16 (fl_current fl + flen)) in
      let '(ov, ho) :=
        if built then walk_tags v (if walked then l' else fl_list fl ++ [f]) 0 else (false, false) in
      {| t_dup := dup; t_overlap := ov; t_hole := ho;
         t_toomany := negb dup && (max_list_len <? Z.of_nat n' + 1);
         t_fallthrough := walked && negb dup && (n' =? n)%nat |}
  end.

Definition or_tags (a b : tags) : tags :=
  {| t_dup := t_dup a || t_dup b; t_overlap := t_overlap a || t_overlap b; t_hole := t_hole a || t_hole b;
     t_toomany := t_toomany a || t_toomany b; t_fallthrough := t_fallthrough a || t_fallthrough b |}.
Definition no_tags := {| t_dup := false; t_overlap := false; t_hole := false; t_toomany := false; t_fallthrough := false |}.

Fixpoint run_trace_aux (v : variant) (s4 : state) (s6 : state6) (tg : tags) (acc : list out) (ops : list op) : list out * tags :=
  match ops with
  | [] => (rev_append acc [], tg)
  | Op4 o :: r =>
    let tg' := or_tags tg (step_tags v s4 o) in
    let '(s4', x) := step4 v s4 o in
    run_trace_aux v s4' s6 tg' (Out4 x :: acc) r
  | Op6 o :: r =>
    let '(s6', x) := step6 v s6 o in
    run_trace_aux v s4 s6' tg (Out6 x :: acc) r
  end.

Definition run_trace (v : variant) (ops : list op) : list out * tags := run_trace_aux v [] [] no_tags [] ops.
