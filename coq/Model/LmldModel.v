(* Licmp6mld — executable model of the MLD messages behind ICMPv6: layers/mldv1.go (query, report, done) and layers/mldv2.go
   (query, report with multicast address records).  Definitions only.  Separate from engineer lnet6's Licmp6 model (which
   picks the MLD layer type from the ICMPv6 type and payload length); this models the message layers themselves.
   mldv1.go: DecodeFromBytes :34-44 (+ query :92-101), SerializeTo :52-77.  mldv2.go: query DecodeFromBytes :56-83,
   SerializeTo :91-121 + serializeSourceAddressesTo :124-151; report DecodeFromBytes :305-325, SerializeTo :328-354;
   record decode :434-474, serializeTo :492-557.
   `orig = true` is the code before the repairs: (a) no decoder sets Contents, and only the v1 query sets Payload (when
   there are octets behind the message), so a reused object keeps the previous packet's; (b) the v2 decoders append to the
   source address / record lists without resetting them; (c) the auxiliary data of a record is padded with `remainder`
   instead of `4 - remainder` zero octets. *)
From GP Require Import Base Codec MiscLib.
Open Scope Z_scope.

Definition mld_cnt {A} (l : list A) : Z := Z.of_nat (length l).
(* net.IP.To16 *)
Definition mld_to16 (ip : list Z) : option (list Z) :=
  if zlen ip =? 16 then Some ip else if zlen ip =? 4 then Some ([0;0;0;0;0;0;0;0;0;0;255;255] ++ ip) else None.
(* source addresses are prepended last to first, 16 octets each *)
Fixpoint mld_addrs (junk : list Z) (l : list (list Z)) : outcome (list Z) :=
  match l with
  | [] => Ok []
  | a :: r => obind (mld_addrs junk r) (fun tl =>
      match mld_to16 a with None => Err 5 | Some a16 => obind (ml_wrc (cd_region 16 junk) 0 a16) (fun b => Ok (b ++ tl)) end)
  end.
(* k addresses of 16 octets from offset off; false = the data ended first (the ones before stay appended) *)
Fixpoint mld_take (data : list Z) (off : Z) (k : nat) : outcome (list (list Z) * bool) :=
  match k with
  | O => Ok ([], true)
  | S k' => if zlen data <? off + 16 then Ok ([], false) else
      obind (cd_slc data off (off + 16)) (fun a => obind (mld_take data (off + 16) k') (fun r => Ok (a :: fst r, snd r)))
  end.

(* ---------------------------------------------------------------- MLDv1: kind 0 = query, 1 = report, 2 = done *)
Record mld1 := mkM1 { m1_contents : list Z; m1_payload : list Z; m1_delay : Z (* time.Duration, ns *); m1_addr : list Z }.
Definition m1_fresh : mld1 := mkM1 [] [] 0 [].
Definition m1_decode_gen (orig : bool) (kind : Z) (old : mld1) (data : list Z) : mld1 * outcome unit * bool :=
  let n := zlen data in
  if n <? 20 then (old, Err 1, true) else
  ml_bind (cd_rd16 data 0) old false (fun d =>
  ml_bind (cd_slc data 4 20) old false (fun a =>
  ml_bind (cd_slc data 0 20) old false (fun c =>
  ml_bind (cd_slc data 20 n) old false (fun p =>
  if orig then (mkM1 (m1_contents old) (if (kind =? 0) && (20 <? n) then p else m1_payload old) (d * 1000000) a, Ok tt, false)
  else (mkM1 c p (d * 1000000) a, Ok tt, false))))).
Definition m1_hdr (dms : Z) (a16 : list Z) : list Z := cd_put16 dms ++ [0; 0] ++ a16.
Definition m1_serialize (l : mld1) (payload : list Z) (fixl csum : bool) (junk : list Z) : outcome (list Z) * mld1 :=
  if m1_delay l <? 0 then (Err 2, l) else
  let dms := m1_delay l / 1000000 in
  if 65535 <? dms then (Err 3, l) else
  match mld_to16 (m1_addr l) with
  | None => (Err 4, l)
  | Some a16 => match ml_wrc (cd_region 20 junk) 0 (m1_hdr dms a16) with
                | Ok b => (Ok (b ++ payload), l) | Err c => (Err c, l) | Panic s => (Panic s, l) end
  end.

(* ---------------------------------------------------------------- MLDv2 query *)
Record mldq := mkMq { q_contents : list Z; q_payload : list Z; q_mrc : Z; q_addr : list Z; q_s : bool; q_qrv : Z; q_qqic : Z; q_n : Z; q_srcs : list (list Z) }.
Definition mq_fresh : mldq := mkMq [] [] 0 [] false 0 0 0 [].
Definition mq_decode_gen (orig : bool) (old : mldq) (data : list Z) : mldq * outcome unit * bool :=
  let n := zlen data in
  if n <? 24 then (old, Err 1, true) else
  ml_bind (cd_rd16 data 0) old false (fun mrc =>
  ml_bind (cd_slc data 4 20) old false (fun a =>
  ml_bind (cd_idx data 20) old false (fun b20 =>
  ml_bind (cd_idx data 21) old false (fun qqic =>
  ml_bind (cd_rd16 data 22) old false (fun ns =>
  ml_bind (mld_take data 24 (Z.to_nat ns)) old false (fun r =>
  let base := if orig then q_srcs old else [] in
  let s := (b20 / 8) mod 2 =? 1 in
  if negb (snd r) then (mkMq (q_contents old) (q_payload old) mrc a s (b20 mod 8) qqic ns (base ++ fst r), Err 2, true) else
  let e := 24 + 16 * ns in
  ml_bind (cd_slc data 0 e) old false (fun c =>
  ml_bind (cd_slc data e n) old false (fun p =>
  (mkMq (if orig then q_contents old else c) (if orig then q_payload old else p) mrc a s (b20 mod 8) qqic ns (base ++ fst r), Ok tt, false))))))))).
Definition mq_decode_into := mq_decode_gen false.
Definition mq_hdr (l : mldq) (a16 : list Z) : list Z :=
  cd_put16 (q_mrc l) ++ [0; 0] ++ a16 ++ [q_qrv l mod 8 + (if q_s l then 8 else 0); q_qqic l mod 256] ++ cd_put16 (q_n l).
Definition mq_set_n (l : mldq) (v : Z) : mldq := mkMq (q_contents l) (q_payload l) (q_mrc l) (q_addr l) (q_s l) (q_qrv l) (q_qqic l) v (q_srcs l).
Definition mq_serialize (l : mldq) (payload : list Z) (fixl csum : bool) (junk : list Z) : outcome (list Z) * mldq :=
  if 65535 <? mld_cnt (q_srcs l) then (Err 2, l) else
  let l' := if fixl then mq_set_n l (mld_cnt (q_srcs l)) else l in
  match mld_addrs junk (q_srcs l') with
  | Ok srcs =>
    match mld_to16 (q_addr l') with
    | None => (Err 4, l')
    | Some a16 => match ml_wrc (cd_region 24 junk) 0 (mq_hdr l' a16) with
                  | Ok b => (Ok (b ++ srcs ++ payload), l') | Err c => (Err c, l') | Panic s => (Panic s, l') end
    end
  | Err c => (Err c, l') | Panic s => (Panic s, l')
  end.

(* ---------------------------------------------------------------- MLDv2 report *)
Record mar := mkMar { r_type : Z; r_auxlen : Z; r_n : Z; r_addr : list Z; r_srcs : list (list Z); r_aux : list Z }.
Record mldr := mkMr { mr_contents : list Z; mr_payload : list Z; mr_n : Z; mr_recs : list mar }.
Definition mr_fresh : mldr := mkMr [] [] 0 [].
(* one record from data[begin:]: Ok (record, octets read) | Err with the truncated flag in the code (1 = SetTruncated called) *)
Definition mar_decode (rest : list Z) : outcome (mar * Z) * bool :=
  if zlen rest <? 20 then (Err 2, true) else
  match cd_idx rest 0, cd_idx rest 1, cd_rd16 rest 2, cd_slc rest 4 20 with
  | Ok ty, Ok al, Ok ns, Ok a =>
    match mld_take rest 20 (Z.to_nat ns) with
    | Ok (srcs, true) =>
      let e1 := 20 + ns * 16 in
      let e2 := al * 4 + e1 in
      if zlen rest <? e2 then (Err 4, false) else
      match cd_slc rest e1 e2 with
      | Ok aux => (Ok (mkMar ty al ns a srcs aux, e2), false)
      | Err c => (Err c, false) | Panic s => (Panic s, false)
      end
    | Ok (_, false) => (Err 3, true)
    | Err c => (Err c, false) | Panic s => (Panic s, false)
    end
  | _, _, _, _ => (Panic 1, false)
  end.
(* k records from offset begin: (records decoded, end offset, Ok/Err/Panic, truncated) *)
Fixpoint mr_loop (data : list Z) (begin : Z) (k : nat) : list mar * Z * outcome unit * bool :=
  match k with
  | O => ([], begin, Ok tt, false)
  | S k' =>
    match cd_slc data begin (zlen data) with
    | Ok rest =>
      match mar_decode rest with
      | (Ok (m, rd), _) => let '(ms, e, o, tr) := mr_loop data (begin + rd) k' in (m :: ms, e, o, tr)
      | (Err c, tr) => ([], begin, Err c, tr)
      | (Panic s, tr) => ([], begin, Panic s, tr)
      end
    | Err c => ([], begin, Err c, false) | Panic s => ([], begin, Panic s, false)
    end
  end.
Definition mr_decode_gen (orig : bool) (old : mldr) (data : list Z) : mldr * outcome unit * bool :=
  let n := zlen data in
  if n <? 4 then (old, Err 1, true) else
  ml_bind (cd_rd16 data 2) old false (fun k =>
  let base := if orig then mr_recs old else [] in
  let '(ms, e, o, tr) := mr_loop data 4 (Z.to_nat k) in
  match o with
  | Ok _ =>
    ml_bind (cd_slc data 0 e) old false (fun c =>
    ml_bind (cd_slc data e n) old false (fun p =>
    (mkMr (if orig then mr_contents old else c) (if orig then mr_payload old else p) k (base ++ ms), Ok tt, false)))
  | Err c => (mkMr (mr_contents old) (mr_payload old) k (base ++ ms), Err c, tr)
  | Panic s => (old, Panic s, tr)
  end).
Definition mr_decode_into := mr_decode_gen false.
Definition mar_pad (orig : bool) (aux : list Z) : list Z :=
  let r := zlen aux mod 4 in
  if r =? 0 then aux else aux ++ repeat 0 (Z.to_nat (if orig then r else 4 - r)).
Definition mar_ser (orig fixl : bool) (junk : list Z) (r : mar) : outcome (list Z) * mar :=
  let aux := mar_pad orig (r_aux r) in
  let r1 := mkMar (r_type r) (r_auxlen r) (r_n r) (r_addr r) (r_srcs r) aux in
  if fixl && (255 <? zlen aux / 4) then (Err 6, r1) else
  let r2 := if fixl then mkMar (r_type r) (zlen aux / 4) (r_n r) (r_addr r) (r_srcs r) aux else r1 in
  match ml_wrc (cd_region (zlen aux) junk) 0 aux with
  | Ok auxb =>
    if fixl && (65535 <? mld_cnt (r_srcs r)) then (Err 7, r2) else
    let r3 := if fixl then mkMar (r_type r2) (r_auxlen r2) (mld_cnt (r_srcs r)) (r_addr r) (r_srcs r) aux else r2 in
    match mld_addrs junk (r_srcs r) with
    | Ok srcs =>
      match mld_to16 (r_addr r) with
      | None => (Err 4, r3)
      | Some a16 => match ml_wrc (cd_region 20 junk) 0 ([r_type r3 mod 256; r_auxlen r3 mod 256] ++ cd_put16 (r_n r3) ++ a16) with
                    | Ok b => (Ok (b ++ srcs ++ auxb), r3) | Err c => (Err c, r3) | Panic s => (Panic s, r3) end
      end
    | Err c => (Err c, r3) | Panic s => (Panic s, r3)
    end
  | Err c => (Err c, r2) | Panic s => (Panic s, r2)
  end.
(* records are serialized last to first; an error stops before the earlier ones are touched *)
Fixpoint mr_ser_recs (orig fixl : bool) (junk : list Z) (rs : list mar) : outcome (list Z) * list mar :=
  match rs with
  | [] => (Ok [], [])
  | r :: rest =>
    match mr_ser_recs orig fixl junk rest with
    | (Ok tl, rest') => match mar_ser orig fixl junk r with
                        | (Ok b, r') => (Ok (b ++ tl), r' :: rest')
                        | (Err c, r') => (Err c, r' :: rest') | (Panic s, r') => (Panic s, r' :: rest') end
    | (Err c, rest') => (Err c, r :: rest')
    | (Panic s, rest') => (Panic s, r :: rest')
    end
  end.
Definition mr_serialize_gen (orig : bool) (l : mldr) (payload : list Z) (fixl csum : bool) (junk : list Z) : outcome (list Z) * mldr :=
  match mr_ser_recs orig fixl junk (mr_recs l) with
  | (Ok recs, rs') =>
    let l1 := mkMr (mr_contents l) (mr_payload l) (mr_n l) rs' in
    if fixl && (65535 <? mld_cnt rs') then (Err 8, l1) else
    let l2 := if fixl then mkMr (mr_contents l) (mr_payload l) (mld_cnt rs') rs' else l1 in
    match ml_wrc (cd_region 4 junk) 0 ([0; 0] ++ cd_put16 (mr_n l2)) with
    | Ok b => (Ok (b ++ recs ++ payload), l2) | Err c => (Err c, l2) | Panic s => (Panic s, l2) end
  | (Err c, rs') => (Err c, mkMr (mr_contents l) (mr_payload l) (mr_n l) rs')
  | (Panic s, rs') => (Panic s, mkMr (mr_contents l) (mr_payload l) (mr_n l) rs')
  end.
Definition mr_serialize := mr_serialize_gen false.
Definition mld_render_panics : bool := false.
