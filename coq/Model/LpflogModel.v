(* Lpflog — executable model of layers/pflog.go (OpenBSD pf log header decoder) as repaired ("61 octets required").
   Definitions only.  /repo/layers/pflog.go DecodeFromBytes :47-77, NextLayerType :83-85.  No SerializeTo (C06/C07 n/a).
   PID and RulePID are int32 in Go; the model (and the harness) show them as the uint32 they are converted from. *)
From GP Require Import Base Codec MiscLib.
Open Scope Z_scope.
Record pflog := mkPf { pf_contents : list Z; pf_payload : list Z; pf_len : Z; pf_family : Z; pf_action : Z; pf_reason : Z;
  pf_ifname : list Z; pf_ruleset : list Z; pf_rulenum : Z; pf_subrulenum : Z; pf_uid : Z; pf_pid : Z; pf_ruleuid : Z; pf_rulepid : Z; pf_dir : Z }.
Definition pf_fresh : pflog := mkPf [] [] 0 0 0 0 [] [] 0 0 0 0 0 0 0.
Definition pf_decode_into (old : pflog) (data : list Z) : pflog * outcome unit * bool :=
  let n := zlen data in
  if n <? 61 then (old, Err 1, true) else                                   (* :48-51 *)
  ml_bind (cd_idx data 0) old false (fun ln =>
  ml_bind (cd_idx data 1) old false (fun fam =>
  ml_bind (cd_idx data 2) old false (fun act =>
  ml_bind (cd_idx data 3) old false (fun rsn =>
  ml_bind (cd_slc data 4 20) old false (fun ifn =>
  ml_bind (cd_slc data 20 36) old false (fun rs =>
  ml_bind (ml_rd32 data 36) old false (fun rn =>
  ml_bind (ml_rd32 data 40) old false (fun srn =>
  ml_bind (ml_rd32 data 44) old false (fun uid =>
  ml_bind (ml_rd32 data 48) old false (fun pid =>
  ml_bind (ml_rd32 data 52) old false (fun ruid =>
  ml_bind (ml_rd32 data 56) old false (fun rpid =>
  ml_bind (cd_idx data 60) old false (fun dir =>
  let l1 := mkPf (pf_contents old) (pf_payload old) ln fam act rsn ifn rs rn srn uid pid ruid rpid dir in
  let actual := if ln mod 4 =? 1 then ln + 3 else ln in                     (* :65-68 *)
  if n <? actual then (l1, Err 2, false) else                               (* :69-71 no SetTruncated *)
  ml_bind (cd_slc data 0 actual) l1 false (fun c =>
  ml_bind (cd_slc data actual n) l1 false (fun p =>
  (mkPf c p ln fam act rsn ifn rs rn srn uid pid ruid rpid dir, Ok tt, false)))))))))))))))).
(* NextLayerType: ProtocolFamily.LayerType(): 4 = IPv4, 6 = IPv6, 0 = LayerTypeZero *)
Definition pf_next (l : pflog) : Z :=
  let f := pf_family l in
  if f =? 2 then 4 else if (f =? 24) || (f =? 28) || (f =? 30) || (f =? 10) then 6 else 0.
Definition pf_render_panics (l : pflog) : bool := false.
