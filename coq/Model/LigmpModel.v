(* Ligmp — executable model of layers/igmp.go (IGMPv1/v2 and IGMPv3 decoders) as repaired by the two
   fix: commits of agent-lmisc2 (reset of a reused IGMP layer; IGMPv3 too-small errors reported).
   Definitions only.  Line numbers of the repaired file: decodeIGMPv3MembershipReport :172-224,
   decodeIGMPv3MembershipQuery :226-250, igmpTimeDecode :252-261, IGMPv1or2.DecodeFromBytes :265-276,
   IGMP.DecodeFromBytes :287-321, NextLayerType :278/:324 (LayerTypeZero), decodeIGMP :332-368.
   Neither type has SerializeTo (C06/C07 do not apply); neither decoder assigns BaseLayer.
   Durations are in nanoseconds. *)
From GP Require Import Base Codec MiscLib.
Open Scope Z_scope.

(* igmpTimeDecode: the shift is done in uint8, so the result wraps ((mant|0x10) << (exp+3)) mod 256 *)
Definition igmp_time (t : Z) : Z :=
  if t / 128 =? 0 then 100000000 * t
  else 100000000 * ((((t / 16) mod 8 + 16) * 2 ^ (t mod 16 + 3)) mod 256).

Record grec := mkGr { gr_type : Z; gr_auxlen : Z; gr_nsrc : Z; gr_mcast : list Z; gr_srcs : list (list Z) }.

Record igmp := mkIg {
  ig_contents : list Z; ig_payload : list Z;
  ig_type : Z; ig_maxresp : Z; ig_csum : Z; ig_group : list Z; ig_supress : bool; ig_robust : Z; ig_interval : Z;
  ig_srcs : list (list Z); ig_ngr : Z; ig_nsrc : Z; ig_grecs : list grec; ig_version : Z }.
Definition ig_fresh : igmp := mkIg [] [] 0 0 0 [] false 0 0 [] 0 0 [] 0.

(* k four-octet addresses starting at off (the callers have checked the length) *)
Fixpoint ig_addrs (k : nat) (data : list Z) (off : Z) : outcome (list (list Z)) :=
  match k with
  | O => Ok []
  | S k' => obind (cd_slc data off (off + 4)) (fun s => obind (ig_addrs k' data (off + 4)) (fun r => Ok (s :: r)))
  end.

(* result of a message decoder: the layer as left behind and Ok / Err *)
Definition ig_query (l : igmp) (data : list Z) : igmp * outcome unit :=
  let n := zlen data in
  if n <? 12 then (l, Err 1) else                                                       (* :227-229 *)
  match obind (cd_idx data 1) (fun d1 => obind (cd_rd16 data 2) (fun cs => obind (cd_idx data 8) (fun d8 =>
        obind (cd_slc data 4 8) (fun grp => obind (cd_idx data 9) (fun d9 => obind (cd_rd16 data 10) (fun ns =>
        Ok (d1, cs, d8, grp, d9, ns))))))) with
  | Ok (d1, cs, d8, grp, d9, ns) =>
    let l1 := mkIg (ig_contents l) (ig_payload l) (ig_type l) (igmp_time d1) cs grp ((d8 / 8) mod 2 =? 1) (d8 mod 8) (igmp_time d9)   (* :231-240 *)
                   (ig_srcs l) (ig_ngr l) ns (ig_grecs l) (ig_version l) in
    if n <? 12 + ns * 4 then (l1, Err 2) else                                           (* :242-244 *)
    match ig_addrs (Z.to_nat ns) data 12 with                                           (* :246-248 append *)
    | Ok a => (mkIg (ig_contents l) (ig_payload l) (ig_type l) (igmp_time d1) cs grp ((d8 / 8) mod 2 =? 1) (d8 mod 8) (igmp_time d9)
                    (ig_srcs l ++ a) (ig_ngr l) ns (ig_grecs l) (ig_version l), Ok tt)
    | Err e => (l1, Err e)
    | Panic s => (l1, Panic s)
    end
  | Err e => (l, Err e)
  | Panic s => (l, Panic s)
  end.

(* the record loop :181-221 *)
Fixpoint ig_records (k : nat) (data : list Z) (off : Z) (acc : list grec) : list grec * outcome unit :=
  match k with
  | O => (acc, Ok tt)
  | S k' =>
    if zlen data <? off + 8 then (acc, Err 2) else                                      (* :182-184 *)
    match obind (cd_idx data off) (fun t => obind (cd_idx data (off + 1)) (fun ax => obind (cd_rd16 data (off + 2)) (fun ns =>
          obind (cd_slc data (off + 4) (off + 8)) (fun mc => Ok (t, ax, ns, mc))))) with
    | Ok (t, ax, ns, mc) =>
      if zlen data <? off + 8 + ns * 4 then (acc, Err 3) else                           (* :202-204 *)
      match ig_addrs (Z.to_nat ns) data (off + 8) with                                  (* :207-213 *)
      | Ok a => ig_records k' data (off + 8 + 4 * ns) (acc ++ [mkGr t ax ns mc a])      (* :215-217 *)
      | Err e => (acc, Err e)
      | Panic s => (acc, Panic s)
      end
    | Err e => (acc, Err e)
    | Panic s => (acc, Panic s)
    end
  end.

Definition ig_report (l : igmp) (data : list Z) : igmp * outcome unit :=
  let n := zlen data in
  if n <? 8 then (l, Err 1) else                                                        (* :173-175 *)
  match obind (cd_rd16 data 2) (fun cs => obind (cd_rd16 data 6) (fun ng => Ok (cs, ng))) with
  | Ok (cs, ng) =>
    let '(recs, o) := ig_records (Z.to_nat ng) data 8 (ig_grecs l) in
    (mkIg (ig_contents l) (ig_payload l) (ig_type l) (ig_maxresp l) cs (ig_group l) (ig_supress l) (ig_robust l) (ig_interval l)
          (ig_srcs l) ng (ig_nsrc l) recs (ig_version l), o)
  | Err e => (l, Err e)
  | Panic s => (l, Panic s)
  end.

(* IGMP.DecodeFromBytes; orig = before the two repairs (no reset; message decoder errors dropped) *)
Definition ig_decode_gen (orig : bool) (old : igmp) (data : list Z) : igmp * outcome unit * bool :=
  if zlen data <? 1 then (old, Err 1, false) else                                       (* :288-290 *)
  ml_bind (cd_idx data 0) old false (fun t =>
  let base := if orig then old
              else mkIg [] [] 0 0 0 [] false 0 0 [] 0 0 [] (ig_version old) in          (* :295 *)
  let l1 := mkIg (ig_contents base) (ig_payload base) t (ig_maxresp base) (ig_csum base) (ig_group base) (ig_supress base)
                 (ig_robust base) (ig_interval base) (ig_srcs base) (ig_ngr base) (ig_nsrc base) (ig_grecs base) (ig_version base) in   (* :298 *)
  let fin := fun (r : igmp * outcome unit) =>
    match r with
    | (l, Panic s) => (l, Panic s, false)
    | (l, Err e) => if orig then (l, Ok tt, false) else (l, Err e, true)                (* :302-305 / :307-310 *)
    | (l, Ok _) => (l, Ok tt, false)
    end in
  if t =? 17 then fin (ig_query l1 data)                                                (* :301 *)
  else if t =? 34 then fin (ig_report l1 data)                                          (* :306 *)
  else (l1, Err 2, false)).                                                             (* :311-312 *)

Definition ig_decode_into := ig_decode_gen false.
Definition ig_decode_orig := ig_decode_gen true.
Definition ig_next (l : igmp) : Z := 0.
(* IGMPType.String / IGMPv3GroupRecordType.String are switches with a default *)
Definition ig_render_panics (l : igmp) : bool := false.

(* ---------------------------------------------------------------- IGMPv1or2 *)
Record igmp12 := mkI12 { i12_contents : list Z; i12_payload : list Z; i12_type : Z; i12_maxresp : Z; i12_csum : Z;
                         i12_group : list Z; i12_version : Z }.
Definition i12_fresh : igmp12 := mkI12 [] [] 0 0 0 [] 0.

Definition i12_decode_into (old : igmp12) (data : list Z) : igmp12 * outcome unit * bool :=
  if zlen data <? 8 then (old, Err 1, false) else                                       (* :266-268 *)
  ml_bind (cd_idx data 0) old false (fun t =>
  ml_bind (cd_idx data 1) old false (fun d1 =>
  ml_bind (cd_rd16 data 2) old false (fun cs =>
  ml_bind (cd_slc data 4 8) old false (fun grp =>
  (mkI12 (i12_contents old) (i12_payload old) t (igmp_time d1) cs grp (i12_version old), Ok tt, false))))).   (* :270-273 *)
Definition i12_next (l : igmp12) : Z := 0.
Definition i12_render_panics (l : igmp12) : bool := false.

(* decodeIGMP :332-368: which layer the packet decoder builds: 0 = error, 1/2 = IGMPv1or2 with that
   Version, 3 = IGMP (Version 3) *)
Definition ig_dispatch (data : list Z) : outcome Z :=
  if zlen data <? 1 then Ok 0 else
  obind (cd_idx data 0) (fun t =>
  if t =? 17 then
    if 12 <=? zlen data then Ok 3
    else if zlen data =? 8 then obind (cd_idx data 1) (fun d1 => if d1 =? 0 then Ok 1 else Ok 2)
    else Ok 0
  else if t =? 34 then Ok 3
  else if t =? 18 then Ok 1
  else if (t =? 23) || (t =? 22) then Ok 2
  else Ok 0).
