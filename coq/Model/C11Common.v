(* C11: definitions shared by the two lifecycle-level models (tcpassembly, reassembly).
   Executable definitions only.

   Level of abstraction: byte CONTENTS are not modelled, only lengths.  A page is
   (seq, len, seen, end...); sequence numbers, Sequence.Difference / Add, the page
   size, the splitting of a packet into pages, every counter (pageCache.used,
   connection.pages / halfconnection.pages), the pool map and its free list and the
   callbacks made on every stream are modelled as the code computes them.

   The model is parametric in a [variant]: which repairs of the repository (commits
   "fix: ..." on the gopacket branch agent-c11) are in effect.  [fixedv] is the code
   as it stands after the repairs (what the positive theorems are about); [origv] is
   the unchanged tree and keeps the refutation witnesses executable. *)
From GP Require Import Base.
Open Scope Z_scope.

Definition INVALID : Z := -1.                 (* invalidSequence *)
Definition M32 : Z := 4294967296.
Definition PAGE : Z := 1900.                  (* pageBytes *)
Definition ZEROT : Z := -62135596800.         (* time.Time{}.Unix() *)

Definition zlen {A} (l : list A) : Z := Z.of_nat (length l).

(* Sequence.Add: (s + t) & 0xFFFFFFFF on int64 *)
Definition sadd (s t : Z) : Z := (s + t) mod M32.

Record variant := mkVariant {
  v_lastseen : bool;  (* tcpassembly: connection.reset also resets lastSeen *)
  v_saved : bool;     (* reassembly: closeHalfConnection releases the saved (KeepFrom) pages *)
  v_hpages : bool;    (* reassembly: half.pages counts the saved pages too (as its comment says) *)
  v_limit : bool      (* tcpassembly: insertIntoConn pops pages until the limits hold (was: one page) *)
}.
Definition origv : variant := mkVariant false false false false.
Definition fixedv : variant := mkVariant true true true true.

(* callbacks, as observed by the streams.  sid: streams are numbered 1,2,... in the
   order StreamFactory.New is called. *)
Inductive event :=
| ENew (sid : Z)
| EData (sid : Z) (n : Z) (bytes : Z) (skip : Z) (start end_ : bool) (seen : Z) (saved : Z)
        (* one Reassembled / ReassembledSG call: number of chunks, total bytes, Skip of
           the first chunk (Info().skip), Start of the first, End of the last, the
           timestamp of the first chunk (-1: none available), bytes re-presented from
           KeepFrom (reassembly; 0 for tcpassembly) *)
| EDone (sid : Z) (removed : bool).
        (* ReassemblyComplete; removed = its return value (always true for tcpassembly) *)

Definition ev_sid (e : event) : Z :=
  match e with ENew s => s | EData s _ _ _ _ _ _ _ => s | EDone s _ => s end.

(* number of pages a payload of [len] bytes occupies (pagesFromTCP / convertToPages
   always take one page, then one more per further pageBytes) *)
Definition npages (len : Z) : Z := if len <=? PAGE then 1 else (len + PAGE - 1) / PAGE.

(* ---- the stream-lifecycle automaton the event log must be accepted by (C11_once):
   a stream is created (New), receives data, is completed once, and nothing after. *)
Record lstate := mkL { l_open : list Z; l_done : list Z }.
Definition l0 : lstate := mkL [] [].
Definition zmem (x : Z) (l : list Z) : bool := existsb (Z.eqb x) l.
Definition zremove (x : Z) (l : list Z) : list Z := filter (fun y => negb (Z.eqb x y)) l.

Definition lstep (s : lstate) (e : event) : option lstate :=
  match e with
  | ENew sid => if zmem sid (l_open s) || zmem sid (l_done s) then None
                else Some (mkL (l_open s ++ [sid]) (l_done s))
  | EData sid _ _ _ _ _ _ _ => if zmem sid (l_open s) then Some s else None
  | EDone sid _ => if zmem sid (l_open s) then Some (mkL (zremove sid (l_open s)) (sid :: l_done s))
                   else None
  end.

Fixpoint lrun (s : lstate) (l : list event) : option lstate :=
  match l with
  | [] => Some s
  | e :: t => match lstep s e with Some s' => lrun s' t | None => None end
  end.
