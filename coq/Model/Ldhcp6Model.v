(* Ldhcp6 — executable model of layers/dhcpv6.go + the option codec of layers/dhcpv6_options.go.  Definitions only.
   /repo/layers/dhcpv6.go: DecodeFromBytes :86-125, Len :128-141, SerializeTo :144-178, NextLayerType :186-188 (payload);
   dhcpv6_options.go: DHCPv6Option.encode :599-609, decode :611-622.
   `orig = true` is the code before the repairs: (a) the option data is sliced with the end computed in uint16 (4+Length wraps
   for Length >= 65532: slice bounds panic on data of 64 KiB and more); (b) the header fields a message type does not carry
   (TransactionID of relay messages; HopCount, LinkAddr, PeerAddr of the others) keep the previous packet's values;
   (c) FixLengths wrote len(Data) into the option but reserved and advanced by the old Length.  The layer has no payload:
   Contents is the whole data and every octet behind the header is options. *)
From GP Require Import Base Codec MiscLib.
Open Scope Z_scope.
Record opt6 := mkO6 { o6_code : Z; o6_len : Z; o6_data : list Z }.
Record dhcp6 := mkD6 { d6_contents : list Z; d6_payload : list Z; d6_mt : Z; d6_hop : Z; d6_link : list Z; d6_peer : list Z; d6_xid : list Z; d6_opts : list opt6 }.
Definition d6_fresh : dhcp6 := mkD6 [] [] 0 0 [] [] [] [].
Definition d6_relay (mt : Z) : bool := (mt =? 12) || (mt =? 13).
(* the option loop :114-123; false = an option did not decode (the options before it stay appended).  Every round consumes at
   least 4 octets: fuel len(data)+1 is never exhausted *)
Fixpoint d6_loop (orig : bool) (data : list Z) (off : Z) (fuel : nat) : outcome (list opt6 * bool) :=
  match fuel with
  | O => Ok ([], true)
  | S f =>
    if zlen data <=? off then Ok ([], true) else
    obind (cd_slc data off (zlen data)) (fun rest =>
    if zlen rest <? 4 then Ok ([], false) else
    obind (cd_rd16 rest 0) (fun code => obind (cd_rd16 rest 2) (fun ln =>
    if zlen rest <? 4 + ln then Ok ([], false) else
    obind (cd_slc rest 4 (if orig then (4 + ln) mod 65536 else 4 + ln)) (fun d =>
    obind (d6_loop orig data (off + ln + 4) f) (fun r => Ok (mkO6 code ln d :: fst r, snd r))))))
  end.
Definition d6_decode_gen (orig : bool) (old : dhcp6) (data : list Z) : dhcp6 * outcome unit * bool :=
  let n := zlen data in
  if n <? 4 then (old, Err 1, true) else
  ml_bind (cd_idx data 0) old false (fun mt =>
  let l1 := mkD6 data [] mt (d6_hop old) (d6_link old) (d6_peer old) (d6_xid old) [] in
  let fin (st : dhcp6) (off : Z) :=
    ml_bind (d6_loop orig data off (Z.to_nat (n + 1))) st false (fun r =>
    let l3 := mkD6 data [] mt (d6_hop st) (d6_link st) (d6_peer st) (d6_xid st) (fst r) in
    if snd r then (l3, Ok tt, false) else (l3, Err 3, false)) in
  if d6_relay mt then
    if n <? 34 then (l1, Err 2, true) else
    ml_bind (cd_idx data 1) l1 false (fun hop =>
    ml_bind (cd_slc data 2 18) l1 false (fun lk =>
    ml_bind (cd_slc data 18 34) l1 false (fun pr =>
    fin (mkD6 data [] mt hop lk pr (if orig then d6_xid old else []) []) 34)))
  else
    ml_bind (cd_slc data 1 4) l1 false (fun xid =>
    fin (if orig then mkD6 data [] mt (d6_hop old) (d6_link old) (d6_peer old) xid [] else mkD6 data [] mt 0 [] [] xid []) 4)).
Definition d6_decode_into := d6_decode_gen false.
(* net.IP.To16: 16 octets as they are, 4 octets as a v4-mapped address, anything else nil *)
Definition d6_to16 (ip : list Z) : list Z :=
  if zlen ip =? 16 then ip else if zlen ip =? 4 then [0;0;0;0;0;0;0;0;0;0;255;255] ++ ip else [].
Definition d6_optsum (os : list opt6) : Z := fold_right (fun o a => o6_len o + 4 + a) 0 os.
Definition d6_len (l : dhcp6) : Z := 1 + (if d6_relay (d6_mt l) then 33 else 3) + d6_optsum (d6_opts l).
Definition d6_fixopt (o : opt6) : opt6 := mkO6 (o6_code o) (zlen (o6_data o) mod 65536) (o6_data o).
Fixpoint d6_ser_opts (fixl : bool) (b : list Z) (off : Z) (os : list opt6) : outcome (list Z) :=
  match os with
  | [] => Ok b
  | o :: r =>
    obind (ml_wrc b off (cd_put16 (o6_code o))) (fun b1 =>
    obind (ml_wrc b1 (off + 2) (cd_put16 (if fixl then zlen (o6_data o) mod 65536 else o6_len o))) (fun b2 =>
    obind (ml_copy b2 (off + 4) (o6_data o)) (fun b3 =>
    d6_ser_opts fixl b3 (off + o6_len o + 4) r)))
  end.
Definition d6_serialize_gen (orig : bool) (l : dhcp6) (payload : list Z) (fixl csum : bool) (junk : list Z) : outcome (list Z) * dhcp6 :=
  let l' := if fixl && negb orig then mkD6 (d6_contents l) (d6_payload l) (d6_mt l) (d6_hop l) (d6_link l) (d6_peer l) (d6_xid l) (map d6_fixopt (d6_opts l)) else l in
  let plen := d6_len l' in
  let b0 := map (fun _ : Z => 0) (cd_region plen junk) in
  let r :=
    obind (ml_wrc b0 0 [d6_mt l' mod 256]) (fun b1 =>
    if d6_relay (d6_mt l') then
      obind (ml_wrc b1 1 [d6_hop l' mod 256]) (fun b2 =>
      obind (ml_wrc b2 2 (firstn 16 (d6_to16 (d6_link l')))) (fun b3 =>
      obind (ml_wrc b3 18 (firstn 16 (d6_to16 (d6_peer l')))) (fun b4 =>
      d6_ser_opts fixl b4 34 (d6_opts l'))))
    else
      obind (ml_wrc b1 1 (firstn 3 (d6_xid l'))) (fun b2 => d6_ser_opts fixl b2 4 (d6_opts l'))) in
  match r with Ok b => (Ok (b ++ payload), l') | Err c => (Err c, l') | Panic s => (Panic s, l') end.
Definition d6_serialize := d6_serialize_gen false.
(* DHCPv6Option.String of a requested-options option (code 6) reads Length/2 pairs from Data: beyond the data when the
   length field is larger than the data (field-built options); on decoded options Length = len(Data) and an odd length
   reads one octet behind the option, which exists unless the option ends the data (the harness decodes from slices whose
   capacity is their length).  Repaired: only whole codes inside the data are read *)
Definition d6_render_gen (orig : bool) (l : dhcp6) : bool :=
  orig && match rev (d6_opts l) with o :: _ => (o6_code o =? 6) && (o6_len o mod 2 =? 1) | [] => false end.
Definition d6_render_panics := d6_render_gen false.
