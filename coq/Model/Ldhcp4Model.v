(* Ldhcp4 — executable model of layers/dhcpv4.go (BOOTP/DHCPv4 codec with its options walk) as repaired
   (earlier: hardware length > 16 rejected, message zeroed; agent-lmisc2: Contents set for every message,
   message sized by the option data written, FixLengths sets option lengths).  Definitions only.
   Line numbers of the repaired file: DecodeFromBytes :126-184, Len/length :187-206, SerializeTo :209-267,
   NextLayerType :275-277 (LayerTypePayload), DHCPOption.encode :569-579, DHCPOption.decode :581-602.
   `orig` selects the behaviour before the agent-lmisc2 repairs. *)
From GP Require Import Base Codec MiscLib.
Open Scope Z_scope.

Record dopt := mkDo { do_type : Z; do_len : Z; do_data : list Z }.

Record dhcp := mkDh {
  h_contents : list Z; h_payload : list Z;
  h_op : Z; h_htype : Z; h_hlen : Z; h_hops : Z; h_xid : Z; h_secs : Z; h_flags : Z;
  h_ciaddr : list Z; h_yiaddr : list Z; h_siaddr : list Z; h_giaddr : list Z;
  h_chaddr : list Z; h_sname : list Z; h_file : list Z; h_options : list dopt }.
Definition dh_fresh : dhcp := mkDh [] [] 0 0 0 0 0 0 0 [] [] [] [] [] [] [] [].

(* the options loop :160-178 over options = data[240:]; Err 99 = out of fuel *)
Fixpoint dh_opts (fuel : nat) (o : list Z) (start : Z) (acc : list dopt) : list dopt * outcome unit :=
  match fuel with
  | O => (acc, Err 99)
  | S f =>
    if zlen o <=? start then (acc, Ok tt) else                                      (* :163 start < stop *)
    match cd_slc o start (zlen o) with                                              (* :165 options[start:] *)
    | Ok d =>
      match cd_idx d 0 with                                                         (* decode :582-586 *)
      | Ok t =>
        if (t =? 0) || (t =? 255) then                                              (* :587-589 *)
          if t =? 255 then (acc, Ok tt)                                             (* :168-170 *)
          else dh_opts f o (start + 1) (acc ++ [mkDo t 0 []])                       (* :171-174 *)
        else if zlen d <? 2 then (acc, Err 4)                                       (* :591-593 *)
        else match cd_idx d 1 with
             | Ok len =>
               if zlen d - 2 <? len then (acc, Err 5)                               (* :595-597 *)
               else match cd_slc d 2 (2 + len) with                                 (* :598 *)
                    | Ok dat => dh_opts f o (start + len + 2) (acc ++ [mkDo t len dat])   (* :171, :176 *)
                    | Err e => (acc, Err e) | Panic s => (acc, Panic s)
                    end
             | Err e => (acc, Err e) | Panic s => (acc, Panic s)
             end
      | Err e => (acc, Err e) | Panic s => (acc, Panic s)
      end
    | Err e => (acc, Err e) | Panic s => (acc, Panic s)
    end
  end.

Definition dh_magic : Z := 1669485411.   (* 0x63825363 *)

Definition dh_decode_gen (orig : bool) (old : dhcp) (data : list Z) : dhcp * outcome unit * bool :=
  let n := zlen data in
  if n <? 240 then (old, Err 1, true) else                                          (* :127-130 *)
  let c0 := if orig then h_contents old else data in                                (* :133 *)
  let p0 := if orig then h_payload old else [] in
  ml_bind (cd_idx data 0) old false (fun op =>
  ml_bind (cd_idx data 1) old false (fun ht =>
  ml_bind (cd_idx data 2) old false (fun hl =>
  let l1 := mkDh c0 p0 op ht hl (h_hops old) (h_xid old) (h_secs old) (h_flags old) (h_ciaddr old) (h_yiaddr old) (h_siaddr old)
                 (h_giaddr old) (h_chaddr old) (h_sname old) (h_file old) [] in     (* :131-136 *)
  if 16 <? hl then (l1, Err 2, false) else                                          (* :137-141 *)
  ml_bind (cd_idx data 3) l1 false (fun hops =>
  ml_bind (ml_rd32 data 4) l1 false (fun xid =>
  ml_bind (cd_rd16 data 8) l1 false (fun secs =>
  ml_bind (cd_rd16 data 10) l1 false (fun fl =>
  ml_bind (cd_slc data 12 16) l1 false (fun ci =>
  ml_bind (cd_slc data 16 20) l1 false (fun yi =>
  ml_bind (cd_slc data 20 24) l1 false (fun si =>
  ml_bind (cd_slc data 24 28) l1 false (fun gi =>
  ml_bind (cd_slc data 28 (28 + hl)) l1 false (fun ch =>                            (* :150 *)
  ml_bind (cd_slc data 44 108) l1 false (fun sn =>
  ml_bind (cd_slc data 108 236) l1 false (fun fi =>
  ml_bind (ml_rd32 data 236) l1 false (fun mg =>
  let mk := fun c opts => mkDh c p0 op ht hl hops xid secs fl ci yi si gi ch sn fi opts in
  if negb (mg =? dh_magic) then (mk c0 [], Err 3, false) else                       (* :153-155 *)
  if n <=? 240 then (mk c0 [], Ok tt, false) else                                   (* :157-160 *)
  ml_bind (cd_slc data 240 n) (mk c0 []) false (fun o =>                            (* :162 *)
  match dh_opts (S (length o)) o 0 [] with
  | (opts, Ok _) => (mk data opts, Ok tt, false)                                    (* orig: d.Contents = data only here *)
  | (opts, Err e) => (mk c0 opts, Err e, false)
  | (opts, Panic s) => (mk c0 opts, Panic s, false)
  end)))))))))))))))).

Definition dh_decode_into := dh_decode_gen false.
Definition dh_decode_orig := dh_decode_gen true.
Definition dh_next (l : dhcp) : Z := 0.

(* net.IP.To4: a 4-octet address, or the last four of a 16-octet IPv4-mapped one, else nil *)
Definition ip_to4 (ip : list Z) : list Z :=
  if zlen ip =? 4 then ip
  else if (zlen ip =? 16) && forallb (fun x => x =? 0) (firstn 10 ip) && (nth 10 ip 0 =? 255) && (nth 11 ip 0 =? 255) then skipn 12 ip
  else [].

(* copy(data[a:bnd], vs) *)
Definition dh_put (b : list Z) (a bnd : Z) (vs : list Z) : outcome (list Z) :=
  obind (cd_slc b a bnd) (fun _ => ml_wrc b a (firstn (Z.to_nat (bnd - a)) vs)).

Definition dh_osize (orig : bool) (o : dopt) : Z :=
  if do_type o =? 0 then 1 else (if orig then do_len o mod 256 else zlen (do_data o)) + 2.

(* FixLengths in the repaired code :210-217: lengths are set option by option until one is too long *)
Fixpoint dh_fix_opts (l : list dopt) : list dopt * bool :=
  match l with
  | [] => ([], true)
  | o :: t => if 255 <? zlen (do_data o) then (o :: t, false)
              else let '(t', ok) := dh_fix_opts t in (mkDo (do_type o) (zlen (do_data o)) (do_data o) :: t', ok)
  end.

Fixpoint dh_write_opts (b : list Z) (off : Z) (l : list dopt) : outcome (list Z * Z) :=
  match l with
  | [] => Ok (b, off)
  | o :: t =>
    obind (cd_slc b off (zlen b)) (fun _ =>                                         (* :250 data[offset:] *)
    obind (if (do_type o =? 0) || (do_type o =? 255)
           then ml_wrc b off [do_type o mod 256]                                    (* :571-572 *)
           else obind (ml_wrc b off [do_type o mod 256]) (fun b =>                  (* :574-576 *)
                obind (ml_wrc b (off + 1) [do_len o mod 256]) (fun b =>
                ml_copy b (off + 2) (do_data o)))) (fun b =>
    dh_write_opts b (if do_type o =? 0 then off + 1 else off + 2 + zlen (do_data o)) t))   (* :253-257 *)
  end.

Definition dh_serialize_gen (orig : bool) (l : dhcp) (payload : list Z) (fixl csum : bool) (junk : list Z)
    : outcome (list Z) * dhcp :=
  let '(opts, ok) := if fixl && negb orig then dh_fix_opts (h_options l) else (h_options l, true) in
  let hl := if fixl then zlen (h_chaddr l) mod 256 else h_hlen l in                 (* :229-231 *)
  let upd := fun hl' => mkDh (h_contents l) (h_payload l) (h_op l) (h_htype l) hl' (h_hops l) (h_xid l) (h_secs l) (h_flags l) (h_ciaddr l)
                        (h_yiaddr l) (h_siaddr l) (h_giaddr l) (h_chaddr l) (h_sname l) (h_file l) opts in
  if negb ok then (Err 1, upd (h_hlen l)) else
  let sum := fold_left (fun a o => a + dh_osize orig o) opts 240 + 1 in
  let plen := if orig then sum mod 65536 else sum in                                (* :187-206, :218 *)
  let b0 := repeat 0 (Z.to_nat plen) in                                             (* :220-226 PrependBytes + zeroing *)
  let r :=
    obind (ml_wrc b0 0 [h_op l mod 256]) (fun b => obind (ml_wrc b 1 [h_htype l mod 256]) (fun b =>   (* :227-228 *)
    obind (ml_wrc b 2 [hl mod 256]) (fun b => obind (ml_wrc b 3 [h_hops l mod 256]) (fun b =>         (* :232-233 *)
    obind (dh_put b 4 8 (ml_put32 (h_xid l mod 4294967296))) (fun b =>                                 (* :234 *)
    obind (dh_put b 8 10 (cd_put16 (h_secs l))) (fun b => obind (dh_put b 10 12 (cd_put16 (h_flags l))) (fun b =>
    obind (dh_put b 12 16 (ip_to4 (h_ciaddr l))) (fun b => obind (dh_put b 16 20 (ip_to4 (h_yiaddr l))) (fun b =>
    obind (dh_put b 20 24 (ip_to4 (h_siaddr l))) (fun b => obind (dh_put b 24 28 (ip_to4 (h_giaddr l))) (fun b =>
    obind (dh_put b 28 44 (h_chaddr l)) (fun b => obind (dh_put b 44 108 (h_sname l)) (fun b =>
    obind (dh_put b 108 236 (h_file l)) (fun b => obind (dh_put b 236 240 (ml_put32 dh_magic)) (fun b =>   (* :235-245 *)
    obind (dh_write_opts b 240 opts) (fun r =>                                                          (* :247-260 *)
    obind (cd_slc (fst r) (snd r) (zlen (fst r))) (fun _ => ml_wrc (fst r) (snd r) [255]))))))))))))))))) in   (* :262-265 *)
  match r with
  | Ok b => (Ok (b ++ payload), upd hl)
  | Err c => (Err c, upd hl)
  | Panic s => (Panic s, upd hl)
  end.
Definition dh_serialize := dh_serialize_gen false.
Definition dh_serialize_orig := dh_serialize_gen true.

(* DHCPOption.String checks the data length before indexing; the other String methods are switches with a default *)
Definition dh_render_panics (l : dhcp) : bool := false.
