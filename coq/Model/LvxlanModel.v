(* Lvxlan — executable model of layers/vxlan.go (VXLAN codec).  Definitions only.
   Line numbers of /repo/layers/vxlan.go: NextLayerType :48-50 (constant LayerTypeEthernet),
   DecodeFromBytes :53-78, SerializeTo :94-123.
   For a byte b: b & 0x08 > 0 is (b / 8) mod 2 = 1, b & 0x80 > 0 is (b / 128) mod 2 = 1, etc.
   `bytes[0] = 0; bytes[0] |= 0x08; bytes[0] |= 0x80` on a zeroed byte is the sum of the bits set. *)
From GP Require Import Base Codec MiscLib.
Open Scope Z_scope.

Record vxlan := mkVx {
  v_contents : list Z; v_payload : list Z;
  v_valid : bool; v_vni : Z; v_gbp : bool; v_dontlearn : bool; v_applied : bool; v_policy : Z }.

Definition vx_fresh : vxlan := mkVx [] [] false 0 false false false 0.

Definition vx_decode_into (old : vxlan) (data : list Z) : vxlan * outcome unit * bool :=
  let n := zlen data in
  if n <? 8 then (old, Err 1, false) else                              (* :54-56 no SetTruncated *)
  ml_bind (cd_slc data 4 7) old false (fun v =>                        (* :58-59 copy(buf[1:], data[4:7]) *)
  ml_bind (cd_idx data 0) old false (fun b0 =>
  ml_bind (cd_idx data 1) old false (fun b1 =>
  ml_bind (cd_rd16 data 2) old false (fun pol =>                       (* :69 *)
  ml_bind (cd_slc data 0 8) old false (fun contents =>                 (* :73 *)
  ml_bind (cd_slc data 8 n) old false (fun payload =>                  (* :74 *)
  (mkVx contents payload ((b0 / 8) mod 2 =? 1)                         (* :62 *)
        (nth 0 v 0 * 65536 + nth 1 v 0 * 256 + nth 2 v 0)              (* :63 *)
        ((b0 / 128) mod 2 =? 1) ((b1 / 64) mod 2 =? 1) ((b1 / 128) mod 2 =? 1) pol,   (* :66-68 *)
   Ok tt, false))))))).

(* NextLayerType: LayerTypeEthernet, whatever the state *)
Definition vx_next (l : vxlan) : Z := 0.

Definition vx_serialize (l : vxlan) (payload : list Z) (fixl csum : bool) (junk : list Z)
    : outcome (list Z) * vxlan :=
  let bytes0 := cd_region 8 junk in                                                     (* :95 *)
  let f0 := (if v_valid l then 8 else 0) + (if v_gbp l then 128 else 0) in              (* :101-109 *)
  let f1 := (if v_dontlearn l then 64 else 0) + (if v_applied l then 128 else 0) in     (* :102-115 *)
  let r :=
    obind (ml_wrc bytes0 0 [f0]) (fun b =>
    obind (ml_wrc b 1 [f1]) (fun b =>
    obind (ml_wrc b 2 (cd_put16 (v_policy l))) (fun b =>                                (* :117 *)
    if v_vni l >=? 16777216 then Err 1 else                                             (* :118-120 *)
    ml_wrc b 4 (ml_put32 ((v_vni l * 256) mod 4294967296))))) in                        (* :121 *)
  match r with
  | Ok b => (Ok (b ++ payload), l)
  | Err c => (Err c, l)
  | Panic s => (Panic s, l)
  end.

(* VXLAN has no String method and no flow accessor *)
Definition vx_render_panics (l : vxlan) : bool := false.
