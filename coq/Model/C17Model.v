(* C17: Endpoint / Flow values of flows.go (whole file except the String methods and the
   endpoint-type registry), and the table of the 12 per-layer flow constructors of layers/.
   Executable definitions only.

   Conventions: EndpointType (int64) is a Z in [-2^63, 2^63); uint64 arithmetic has its wrap
   written out as `mod two64`; `len` fields (Go int) are nat; the [16]byte arrays are
   list Z of length 16. *)
From GP Require Import Base.
Open Scope Z_scope.

Definition two64 : Z := 18446744073709551616.
Definition two63 : Z := 9223372036854775808.
Definition int64_ok (t : Z) : Prop := - two63 <= t < two63.
Definition int64_okb (t : Z) : bool := (- two63 <=? t) && (t <? two63).

(* flows.go:27 *)
Definition max_endpoint_size : nat := 16.

(* flows.go:32-36 *)
Record endpoint := mkE { e_typ : Z; e_len : nat; e_raw : list Z }.
(* flows.go:142-146 *)
Record flow := mkF { f_typ : Z; f_slen : nat; f_dlen : nat; f_src : list Z; f_dst : list Z }.

(* `var x [16]byte; copy(x[:], raw)` for len(raw) <= 16: zeroed array, prefix overwritten *)
Definition copy16 (raw : list Z) : list Z := firstn max_endpoint_size (raw ++ repeat 0 max_endpoint_size).

(* flows.go:39 *)
Definition endpoint_type (a : endpoint) : Z := e_typ a.
(* flows.go:43  a.raw[:a.len]  (in range for every well-formed value: C17_wf_reachable) *)
Definition e_rawbytes (a : endpoint) : list Z := firstn (e_len a) (e_raw a).

(* bytes.Compare: lexicographic, a proper prefix is smaller (stdlib specification) *)
Fixpoint bytes_compare (a b : list Z) : Z :=
  match a, b with
  | [], [] => 0
  | [], _ :: _ => -1
  | _ :: _, [] => 1
  | x :: a', y :: b' => if x <? y then -1 else if y <? x then 1 else bytes_compare a' b'
  end.

(* flows.go:53-55; int64 comparison is signed: plain Z order on the signed value *)
Definition less_than (a b : endpoint) : bool :=
  (e_typ a <? e_typ b) ||
  ((e_typ a =? e_typ b) && (bytes_compare (e_rawbytes a) (e_rawbytes b) <? 0)).

(* flows.go:60-70 *)
Definition fnv_basis : Z := 14695981039346656037.
Definition fnv_prime : Z := 1099511628211.
Definition fnv_step (h b : Z) : Z := (Z.lxor h b * fnv_prime) mod two64.
Definition fnv_hash (s : list Z) : Z := fold_left fnv_step s fnv_basis.

(* uint64(int64 value): two's complement reinterpretation *)
Definition u64_of_i64 (t : Z) : Z := t mod two64.

(* flows.go:78-83 *)
Definition e_fast_hash (a : endpoint) : Z :=
  let h := fnv_hash (e_rawbytes a) in
  let h := Z.lxor h (u64_of_i64 (e_typ a)) in
  (h * fnv_prime) mod two64.

(* flows.go:89-97 *)
Definition new_endpoint (t : Z) (raw : list Z) : outcome endpoint :=
  if (max_endpoint_size <? length raw)%nat then Panic 1
  else Ok (mkE t (length raw) (copy16 raw)).

(* flows.go:151-157 *)
Definition flow_from_endpoints (src dst : endpoint) : outcome flow :=
  if negb (e_typ src =? e_typ dst) then Err 1
  else Ok (mkF (e_typ src) (e_len src) (e_len dst) (e_raw src) (e_raw dst)).

Definition f_srcbytes (f : flow) : list Z := firstn (f_slen f) (f_src f).
Definition f_dstbytes (f : flow) : list Z := firstn (f_dlen f) (f_dst f).

(* flows.go:167-174 *)
Definition f_fast_hash (f : flow) : Z :=
  let h := (fnv_hash (f_srcbytes f) + fnv_hash (f_dstbytes f)) mod two64 in
  let h := Z.lxor h (u64_of_i64 (f_typ f)) in
  (h * fnv_prime) mod two64.

(* flows.go:184-186 *)
Definition flow_endpoint_type (f : flow) : Z := f_typ f.
(* flows.go:189-191 *)
Definition endpoints (f : flow) : endpoint * endpoint :=
  (mkE (f_typ f) (f_slen f) (f_src f), mkE (f_typ f) (f_dlen f) (f_dst f)).
(* flows.go:194-203 *)
Definition flow_src (f : flow) : endpoint := fst (endpoints f).
Definition flow_dst (f : flow) : endpoint := snd (endpoints f).
(* flows.go:206-208 *)
Definition reverse (f : flow) : flow := mkF (f_typ f) (f_dlen f) (f_slen f) (f_dst f) (f_src f).

(* flows.go:214-224 *)
Definition new_flow (t : Z) (src dst : list Z) : outcome flow :=
  if ((max_endpoint_size <? length src) || (max_endpoint_size <? length dst))%nat then Panic 2
  else Ok (mkF t (length src) (length dst) (copy16 src) (copy16 dst)).

(* flows.go:228-236 *)
Definition endpoint_invalid : Z := 0.
Definition invalid_endpoint : endpoint := mkE 0 0%nat (copy16 []).
Definition invalid_flow : flow := mkF 0 0%nat 0%nat (copy16 []) (copy16 []).

(* Go `==` on the struct values: componentwise on the representation (this is also the
   key equality of Go maps) *)
Fixpoint list_eqb (a b : list Z) : bool :=
  match a, b with
  | [], [] => true
  | x :: a', y :: b' => (x =? y) && list_eqb a' b'
  | _, _ => false
  end.
Definition e_eqb (a b : endpoint) : bool :=
  (e_typ a =? e_typ b) && Nat.eqb (e_len a) (e_len b) && list_eqb (e_raw a) (e_raw b).
Definition f_eqb (a b : flow) : bool :=
  (f_typ a =? f_typ b) && Nat.eqb (f_slen a) (f_slen b) && Nat.eqb (f_dlen a) (f_dlen b)
  && list_eqb (f_src a) (f_src b) && list_eqb (f_dst a) (f_dst b).

(* a Go map keyed by endpoints, as an association list under `==` *)
Fixpoint emap_lookup (m : list (endpoint * nat)) (k : endpoint) : option nat :=
  match m with
  | [] => None
  | (k', v) :: m' => if e_eqb k' k then Some v else emap_lookup m' k
  end.
Fixpoint fmap_lookup (m : list (flow * nat)) (k : flow) : option nat :=
  match m with
  | [] => None
  | (k', v) :: m' => if f_eqb k' k then Some v else fmap_lookup m' k
  end.

(* ------------------------------------------------------------------------- *)
(* layers/endpoints.go:20-47: endpoint type numbers *)
Definition EndpointIPv4 : Z := 1.
Definition EndpointIPv6 : Z := 2.
Definition EndpointMAC : Z := 3.
Definition EndpointTCPPort : Z := 4.
Definition EndpointUDPPort : Z := 5.
Definition EndpointSCTPPort : Z := 6.
Definition EndpointRUDPPort : Z := 7.
Definition EndpointUDPLitePort : Z := 8.
Definition EndpointPPP : Z := 9.

Inductive lkind :=
| LEthernet | LFDDI | LIPv4 | LIPv6 | LLinuxSLL | LLinuxSLL2 | LPPP | LRUDP | LSCTP | LTCP | LUDP | LUDPLite.

(* The table: endpoint type, offset of the source field, offset of the destination field,
   field width.  (SLL/SLL2 have one variable-length address and no destination; PPP has
   neither: they are not in the table and are modelled directly below.) *)
Definition flow_table (k : lkind) : option (Z * nat * nat * nat) :=
  match k with
  | LEthernet => Some (EndpointMAC, 6, 0, 6)%nat          (* ethernet.go:39,48-49: dst first *)
  | LFDDI => Some (EndpointMAC, 1, 7, 6)%nat              (* fddi.go:28,35-36 *)
  | LIPv4 => Some (EndpointIPv4, 12, 16, 4)%nat           (* ip4.go:64,267-268 *)
  | LIPv6 => Some (EndpointIPv6, 8, 24, 16)%nat           (* ip6.go:50,232-233 *)
  | LRUDP => Some (EndpointRUDPPort, 2, 3, 1)%nat         (* rudp.go:57-58,106 *)
  | LSCTP => Some (EndpointSCTPPort, 0, 2, 2)%nat         (* sctp.go:45,83,85 *)
  | LTCP => Some (EndpointTCPPort, 0, 2, 2)%nat           (* tcp.go:297,299,615 *)
  | LUDP => Some (EndpointUDPPort, 0, 2, 2)%nat           (* udp.go:36,38,133 *)
  | LUDPLite => Some (EndpointUDPLitePort, 0, 2, 2)%nat   (* udplite.go:31,33,44 *)
  | _ => None
  end.

Definition field (data : list Z) (off n : nat) : list Z := slice data off (off + n).

Definition table_flow (k : lkind) (data : list Z) : outcome flow :=
  match flow_table k with
  | Some (t, so, do, n) => new_flow t (field data so n) (field data do n)
  | None => Panic 97
  end.
(* the flow of a layer object whose address fields were never set (nil slices) *)
Definition empty_flow (t : Z) : outcome flow := new_flow t [] [].

Definition be16 (data : list Z) (off : nat) : Z := nthZ data off * 256 + nthZ data (S off).

(* ip4.go:217-257: the option loop; Ok tt = all options parsed, Err = decode error.
   Fuel = length of the option area + 1 (every iteration consumes >= 1 byte); Panic 99 = out of fuel *)
Fixpoint ip4_opts (fuel : nat) (o : list Z) : outcome unit :=
  match fuel with
  | O => Panic 99
  | S fuel' =>
    match o with
    | [] => Ok tt
    | t :: rest =>
      if t =? 0 then Ok tt
      else if t =? 1 then ip4_opts fuel' rest
      else match rest with
           | [] => Err 1
           | l :: _ =>
             if (Z.of_nat (length o) <? l) then Err 2
             else if l <=? 2 then Err 3
             else ip4_opts fuel' (skipn (Z.to_nat l) o)
           end
    end
  end.

(* ip4.go:177-270 DecodeFromBytes: Ok tt when it returns nil (SrcIP/DstIP are assigned only
   then, at the very end), Err otherwise.  No slice of it can go out of range. *)
Definition ip4_decode (data : list Z) : outcome unit :=
  let n := Z.of_nat (length data) in
  if n <? 20 then Err 1 else
  let len16 := be16 data 2 in
  let ihl := nthZ data 0 mod 16 in
  let len16 := if len16 =? 0 then n mod 65536 else len16 in
  if len16 <? 20 then Err 2
  else if ihl <? 5 then Err 3
  else if len16 <? ihl * 4 then Err 4
  else
    let data' := if len16 <? n then firstn (Z.to_nat len16) data else data in
    if (n <? len16) && (n <? ihl * 4) then Err 5
    else
      let opts := slice data' 20 (Z.to_nat (ihl * 4)) in
      ip4_opts (S (length opts)) opts.

(* rudp.go:44-103 decodeRUDP: true when the layer is added *)
Definition rudp_ok (data : list Z) : bool :=
  let n := Z.of_nat (length data) in
  if n <? 18 then false else
  let b0 := nthZ data 0 in
  let syn := Z.testbit b0 7 in
  let eack := Z.testbit b0 5 in
  let hl := nthZ data 1 in
  if hl <? 9 then false else
  let hlen := hl * 2 in
  if n <? hlen then false else
  let pend := hlen + be16 data 4 in
  if n <? pend then false else
  let vlen := hlen - 18 in
  if syn then (vlen =? 6)
  else if eack then (vlen mod 4 =? 0)
  else true.

(* tcp.go:321-333: is the option area (only parsed when the data offset is valid) free of
   the MPTCP kind byte?  Option parsing of kind 30 (tcp.go:347-533) is NOT modelled here
   (it has known panics, properties C19/C01); inputs containing it are outside this model *)
Definition tcp_in_scope (data : list Z) : bool :=
  let n := Z.of_nat (length data) in
  if n <? 20 then true else
  let doff := nthZ data 12 / 16 in
  if doff <? 5 then true else
  if n <? doff * 4 then true else
  forallb (fun b => negb (b =? 30)) (slice data 20 (Z.to_nat (doff * 4))).

(* Linux SLL / SLL2 LinkFlow: address truncated to 16 bytes (linux_sll.go:67-77, linux_sll2.go:107-117) *)
Definition trunc16 (a : list Z) : list Z := firstn max_endpoint_size a.

(* The flow reported through a lazily decoded packet whose first decoder is the layer's
   (gopacket.NewPacket(data, LayerTypeX, {Lazy, SkipDecodeRecovery}) then
   LinkLayer()/NetworkLayer()/TransportLayer()), for a data slice with cap = len:
     Ok f     the packet has that layer and its flow is f
     Err 0    no such layer (empty data: nothing is decoded, packet.go:589-591)
     Err _    the decoder returned an error before adding the layer
     Panic _  the decoder panicked (index/slice out of range) *)
Definition layer_flow (k : lkind) (data : list Z) : outcome flow :=
  let n := length data in
  if Nat.eqb n 0 then Err 0 else
  match k with
  | LEthernet =>                       (* ethernet.go:43-45,115-124 *)
    if (n <? 14)%nat then Err 1 else table_flow k data
  | LFDDI =>                           (* fddi.go:31-46: length check (repaired: was unchecked data[7:13]) *)
    if (n <? 13)%nat then Err 1 else table_flow k data
  | LIPv4 =>                           (* ip4.go:284-293: the layer is added even when decoding failed *)
    match ip4_decode data with
    | Ok _ => table_flow k data
    | Err _ => empty_flow EndpointIPv4
    | Panic s => Panic s
    end
  | LIPv6 =>                           (* ip6.go:222-233,293-305: addresses set right after the length check *)
    if (n <? 40)%nat then empty_flow EndpointIPv6
    else if nthZ data 6 =? 0 then Err 98   (* hop-by-hop header decoding (ip6.go:239-262) is not modelled *)
    else table_flow k data
  | LLinuxSLL =>                       (* linux_sll.go (repaired): AddrLen+6 computed in int and checked against len(data) *)
    if (n <? 16)%nat then Err 1 else
    let hi := be16 data 4 + 6 in
    if (Z.of_nat n <? hi) then Err 1
    else new_flow EndpointMAC (trunc16 (slice data 6 (Z.to_nat hi))) []
  | LLinuxSLL2 =>                      (* linux_sll2.go (repaired): 12+AddrLength checked against len(data) *)
    if (n <? 20)%nat then Err 1 else
    let al := nthZ data 11 in
    if (Z.of_nat n - 12 <? al) then Err 1
    else new_flow EndpointMAC (trunc16 (slice data 12 (12 + Z.to_nat al))) []
  | LPPP =>                            (* ppp.go:39-68 (repaired: lengths checked before indexing) *)
    let hp := (2 <=? n)%nat && (nthZ data 0 =? 255) && (nthZ data 1 =? 3) in
    let off := if hp then 2%nat else 0%nat in
    if (n <=? off)%nat then Err 1
    else if Z.even (nthZ data off) then
      if (n <=? S off)%nat then Err 1
      else if Z.even (nthZ data (S off)) then Err 1
      else empty_flow EndpointPPP
    else empty_flow EndpointPPP
  | LRUDP => if rudp_ok data then table_flow k data else Err 1
  | LSCTP =>                           (* sctp.go:30-39,77-89 *)
    if (n <? 12)%nat then empty_flow EndpointSCTPPort else table_flow k data
  | LTCP =>                            (* tcp.go:291-299,599-606 *)
    if negb (tcp_in_scope data) then Err 98
    else if (n <? 20)%nat then empty_flow EndpointTCPPort else table_flow k data
  | LUDP =>                            (* udp.go:30-38,121-130 *)
    if (n <? 8)%nat then empty_flow EndpointUDPPort else table_flow k data
  | LUDPLite =>                        (* udplite.go:28-46: length check (repaired: was unchecked data[:8]) *)
    if (n <? 8)%nat then Err 1 else table_flow k data
  end.

(* swap the two adjacent equal-width address fields of a header (the other direction of the
   same conversation); headers too short to contain both fields are left alone *)
Definition swap_at (lo w : nat) (data : list Z) : list Z :=
  if (length data <? lo + w + w)%nat then data
  else firstn lo data ++ field data (lo + w) w ++ field data lo w ++ skipn (lo + w + w) data.
Definition swap_fields (k : lkind) (data : list Z) : list Z :=
  match flow_table k with
  | Some (_, so, do, w) => swap_at (Nat.min so do) w data
  | None => data
  end.

Definition omap {A B} (g : A -> B) (o : outcome A) : outcome B :=
  match o with Ok v => Ok (g v) | Err c => Err c | Panic s => Panic s end.

(* ------------------------------------------------------------------------- *)
(* A whole packet decoded eagerly from Ethernet with default options (packet.go:503-523):
   each decoder hands its payload to the next one unless the payload is empty; the
   link/network/transport slots keep the first layer of their class (packet.go:158-174).
   In scope: EtherType IPv4/IPv6, protocols TCP/UDP/SCTP (anything else: Err 98). *)
Record stack := mkSt { st_link : option flow; st_net : option flow; st_tr : option flow }.

Definition transport_of (proto : Z) (payload : list Z) : outcome (option flow) :=
  if Nat.eqb (length payload) 0 then Ok None else
  let k := if proto =? 6 then Some LTCP else if proto =? 17 then Some LUDP
           else if proto =? 132 then Some LSCTP else None in
  match k with
  | None => Err 98
  | Some k => match layer_flow k payload with
              | Ok f => Ok (Some f) | Err c => Err c | Panic s => Panic s end
  end.

(* ip4.go:203-214,273-281: payload and next layer of a successfully decoded IPv4 header *)
Definition ip4_next (data : list Z) : outcome (option flow) :=
  let n := Z.of_nat (length data) in
  let len16 := be16 data 2 in
  let len16 := if len16 =? 0 then n mod 65536 else len16 in
  let ihl := nthZ data 0 mod 16 in
  let data' := if len16 <? n then firstn (Z.to_nat len16) data else data in
  let payload := skipn (Z.to_nat (ihl * 4)) data' in
  let ff := be16 data 6 in
  if Z.testbit ff 13 || negb (ff mod 8192 =? 0) then Ok None   (* fragment: LayerTypeFragment *)
  else transport_of (nthZ data 9) payload.

(* ip6.go:222-290 without hop-by-hop *)
Definition ip6_next (data : list Z) : outcome (option flow) :=
  let len16 := be16 data 4 in
  if len16 =? 0 then Ok None      (* decode error after the addresses were set *)
  else
    let rest := skipn 40 data in
    let payload := firstn (Z.to_nat len16) rest in
    transport_of (nthZ data 6) payload.

Definition stack_flows (data : list Z) : outcome stack :=
  match layer_flow LEthernet data with
  | Panic s => Panic s
  | Err _ => Ok (mkSt None None None)
  | Ok lf =>
    let et := be16 data 12 in
    let payload := skipn 14 data in
    if Nat.eqb (length payload) 0 then Ok (mkSt (Some lf) None None)
    else if et =? 2048 then
      match layer_flow LIPv4 payload with
      | Panic s => Panic s
      | Err c => Err c
      | Ok nf =>
        match ip4_decode payload with
        | Ok _ => match ip4_next payload with
                  | Ok t => Ok (mkSt (Some lf) (Some nf) t) | Err c => Err c | Panic s => Panic s end
        | _ => Ok (mkSt (Some lf) (Some nf) None)
        end
      end
    else if et =? 34525 then
      match layer_flow LIPv6 payload with
      | Panic s => Panic s
      | Err c => Err c
      | Ok nf =>
        if (length payload <? 40)%nat then Ok (mkSt (Some lf) (Some nf) None)
        else match ip6_next payload with
             | Ok t => Ok (mkSt (Some lf) (Some nf) t) | Err c => Err c | Panic s => Panic s end
      end
    else Err 98
  end.

(* ------------------------------------------------------------------------- *)
(* One layer object reused for a sequence of packets (DecodingLayer / DecodingLayerParser style:
   x.DecodeFromBytes(pkt1); x.XFlow(); x.DecodeFromBytes(pkt2); x.XFlow(); ...), the packets
   arriving either in fresh slices or in ONE capture buffer overwritten in place.

   The flow accessor is a function of the layer's current address fields only (there is no
   memo: ethernet.go:38-40, ip4.go:63-65, ip6.go:49-51, tcp.go:614-616, udp.go:132-134,
   sctp.go:44-46, linux_sll.go:67-77, linux_sll2.go:107-117 all build the flow from the fields at
   every call).  The address fields are sub-slices of the buffer of the last packet whose decode
   assigned them: a view (buffer index, address length); the offsets are those of the kind.  A
   decode that fails before the assignment leaves the view alone, so the object keeps pointing
   into the earlier buffer - whose bytes are the earlier packet's (fresh slices) or whatever the
   capture buffer holds now (reused buffer). *)

(* does DecodeFromBytes assign the address fields?  Ok (Some alen): yes (alen: the address
   length of the SLL kinds, 0 otherwise); Ok None: it returns before *)
Definition seq_assign (k : lkind) (data : list Z) : outcome (option nat) :=
  let n := length data in
  match k with
  | LEthernet => Ok (if (n <? 14)%nat then None else Some 0%nat)
  | LIPv4 => match ip4_decode data with
             | Ok _ => Ok (Some 0%nat) | Err _ => Ok None | Panic s => Panic s end
  | LIPv6 => if (n <? 40)%nat then Ok None else if nthZ data 6 =? 0 then Err 98 else Ok (Some 0%nat)
  | LTCP => if negb (tcp_in_scope data) then Err 98
            else Ok (if (n <? 20)%nat then None else Some 0%nat)
  | LUDP => Ok (if (n <? 8)%nat then None else Some 0%nat)
  | LSCTP => Ok (if (n <? 12)%nat then None else Some 0%nat)
  | LLinuxSLL =>
    if (n <? 16)%nat then Ok None else
    let hi := be16 data 4 + 6 in
    if Z.of_nat n <? hi then Ok None else Ok (Some (Z.to_nat hi - 6)%nat)
  | LLinuxSLL2 =>
    if (n <? 20)%nat then Ok None else
    let al := nthZ data 11 in
    if Z.of_nat n - 12 <? al then Ok None else Ok (Some (Z.to_nat al))
  | _ => Err 97       (* FDDI, PPP, RUDP, UDPLite have no DecodeFromBytes *)
  end.

(* the flow built from address fields that view `content` *)
Definition seq_read (k : lkind) (content : list Z) (alen : nat) : outcome flow :=
  match k with
  | LLinuxSLL => new_flow EndpointMAC (trunc16 (slice content 6 (6 + alen))) []
  | LLinuxSLL2 => new_flow EndpointMAC (trunc16 (slice content 12 (12 + alen))) []
  | _ => table_flow k content
  end.
(* ... and from fields never assigned (nil slices) *)
Definition seq_empty (k : lkind) : outcome flow :=
  match k with
  | LLinuxSLL | LLinuxSLL2 => empty_flow EndpointMAC
  | _ => match flow_table k with Some (t, _, _, _) => empty_flow t | None => Panic 97 end
  end.

Record sstate := mkSS {
  ss_bufs : list (list Z);        (* fresh mode: the buffers handed in so far (immutable) *)
  ss_cap : list Z;                (* reused mode: the capture buffer's current contents *)
  ss_view : option (nat * nat)    (* where the address fields point: (buffer index, alen) *)
}.
Definition sstate0 : sstate := mkSS [] [] None.

(* writing a packet at the start of the capture buffer keeps the older bytes behind it *)
Definition overlay (pkt cap : list Z) : list Z := pkt ++ skipn (length pkt) cap.

Definition seq_step (k : lkind) (reuse : bool) (s : sstate) (pkt : list Z) : sstate * outcome flow :=
  let bufs' := ss_bufs s ++ [pkt] in
  let cap' := overlay pkt (ss_cap s) in
  match seq_assign k pkt with
  | Err c => (mkSS bufs' cap' (ss_view s), Err c)
  | Panic p => (mkSS bufs' cap' (ss_view s), Panic p)
  | Ok a =>
    let view' := match a with Some al => Some (length (ss_bufs s), al) | None => ss_view s end in
    (mkSS bufs' cap' view',
     match view' with
     | None => seq_empty k
     | Some (b, al) => seq_read k (if reuse then cap' else nth b bufs' []) al
     end)
  end.

Fixpoint seq_run (k : lkind) (reuse : bool) (s : sstate) (pkts : list (list Z)) : list (outcome flow) :=
  match pkts with
  | [] => []
  | p :: rest => let '(s', o) := seq_step k reuse s p in o :: seq_run k reuse s' rest
  end.

(* ------------------------------------------------------------------------- *)
(* the operation interpreter run by the correspondence check *)
Inductive op :=
| ONewE (t : Z) (raw : list Z)
| ONewF (t : Z) (src dst : list Z)
| OFromE (i j : nat)
| OEndpoints (k : nat)
| OSrc (k : nat)
| ODst (k : nat)
| ORev (k : nat)
| OInvalid
| OCmpE (i j : nat)
| OCmpF (k l : nat)
| OLayer (k : lkind) (data : list Z)
| OPacket (data : list Z)
| OSeq (k : lkind) (reuse : bool) (pkts : list (list Z)).

Record state := mkS { s_eps : list endpoint; s_fls : list flow }.
Definition init : state := mkS [] [].

Record eview := mkEV { ev_typ : Z; ev_raw : list Z; ev_hash : Z }.
Record fview := mkFV { fv_typ : Z; fv_src : list Z; fv_dst : list Z; fv_hash : Z }.
Definition view_e (e : endpoint) : eview := mkEV (endpoint_type e) (e_rawbytes e) (e_fast_hash e).
Definition view_f (f : flow) : fview :=
  mkFV (flow_endpoint_type f) (e_rawbytes (flow_src f)) (e_rawbytes (flow_dst f)) (f_fast_hash f).

Inductive obs :=
| BSkip                                   (* an index does not exist: nothing done *)
| BPanic
| BErr (cls : Z)
| BEnds (es : list eview)                 (* endpoints pushed by this op *)
| BFlow (f : fview)                       (* flow pushed by this op *)
| BBoth (e : eview) (f : fview)
| BCmpE (eq lt gt look : bool)
| BCmpF (eq look hasheq : bool)
| BStack (l n t : option fview)
| BSeq (fs : list (outcome fview)).

Definition push_e (s : state) (es : list endpoint) : state := mkS (s_eps s ++ es) (s_fls s).
Definition push_f (s : state) (f : flow) : state := mkS (s_eps s) (s_fls s ++ [f]).

Definition obs_of_flow (s : state) (o : outcome flow) : state * obs :=
  match o with
  | Ok f => (push_f s f, BFlow (view_f f))
  | Err c => (s, BErr c)
  | Panic _ => (s, BPanic)
  end.

Definition step (s : state) (o : op) : state * obs :=
  match o with
  | ONewE t raw =>
    match new_endpoint t raw with
    | Ok e => (push_e s [e], BEnds [view_e e])
    | Err c => (s, BErr c)
    | Panic _ => (s, BPanic)
    end
  | ONewF t src dst => obs_of_flow s (new_flow t src dst)
  | OFromE i j =>
    match nth_error (s_eps s) i, nth_error (s_eps s) j with
    | Some a, Some b => obs_of_flow s (flow_from_endpoints a b)
    | _, _ => (s, BSkip)
    end
  | OEndpoints k =>
    match nth_error (s_fls s) k with
    | Some f => let '(a, b) := endpoints f in (push_e s [a; b], BEnds [view_e a; view_e b])
    | None => (s, BSkip)
    end
  | OSrc k =>
    match nth_error (s_fls s) k with
    | Some f => let a := flow_src f in (push_e s [a], BEnds [view_e a])
    | None => (s, BSkip)
    end
  | ODst k =>
    match nth_error (s_fls s) k with
    | Some f => let a := flow_dst f in (push_e s [a], BEnds [view_e a])
    | None => (s, BSkip)
    end
  | ORev k =>
    match nth_error (s_fls s) k with
    | Some f => obs_of_flow s (Ok (reverse f))
    | None => (s, BSkip)
    end
  | OInvalid =>
    (mkS (s_eps s ++ [invalid_endpoint]) (s_fls s ++ [invalid_flow]),
     BBoth (view_e invalid_endpoint) (view_f invalid_flow))
  | OCmpE i j =>
    match nth_error (s_eps s) i, nth_error (s_eps s) j with
    | Some a, Some b =>
      (s, BCmpE (e_eqb a b) (less_than a b) (less_than b a)
                (match emap_lookup [(a, 1%nat)] b with Some _ => true | None => false end))
    | _, _ => (s, BSkip)
    end
  | OCmpF k l =>
    match nth_error (s_fls s) k, nth_error (s_fls s) l with
    | Some a, Some b =>
      (s, BCmpF (f_eqb a b)
                (match fmap_lookup [(a, 1%nat)] b with Some _ => true | None => false end)
                (f_fast_hash a =? f_fast_hash b))
    | _, _ => (s, BSkip)
    end
  | OLayer k data => obs_of_flow s (layer_flow k data)
  | OPacket data =>
    match stack_flows data with
    | Ok st =>
      let fl o := match o with Some f => [f] | None => [] end in
      (mkS (s_eps s) (s_fls s ++ fl (st_link st) ++ fl (st_net st) ++ fl (st_tr st)),
       BStack (option_map view_f (st_link st)) (option_map view_f (st_net st)) (option_map view_f (st_tr st)))
    | Err c => (s, BErr c)
    | Panic _ => (s, BPanic)
    end
  | OSeq k reuse pkts =>
    (s, BSeq (map (omap view_f) (seq_run k reuse sstate0 pkts)))
  end.

Fixpoint run_trace_from (s : state) (ops : list op) : list obs :=
  match ops with
  | [] => []
  | o :: rest => let '(s', b) := step s o in b :: run_trace_from s' rest
  end.
Definition run_trace (ops : list op) : list obs := run_trace_from init ops.

Definition run (ops : list op) : state := fold_left (fun s o => fst (step s o)) ops init.
