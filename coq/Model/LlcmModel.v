(* Llcm — executable model of layers/lcm.go (LCM header decoder).  Definitions only.
   /repo/layers/lcm.go: DecodeFromBytes :128-190, NextLayerType :198-204.  No SerializeTo (C06/C07 n/a).
   `orig = true` is the code before the repair: the fields a packet does not carry (fragment numbers of a short header, the
   channel name of a later fragment, the fingerprint when fewer than 8 octets follow) keep the values of the previous packet.
   The fingerprint is kept as its 8 octets. *)
From GP Require Import Base Codec MiscLib.
Open Scope Z_scope.
Record lcm := mkLc { lc_contents : list Z; lc_payload : list Z; lc_magic : Z; lc_seq : Z; lc_psize : Z; lc_foff : Z; lc_fnum : Z; lc_tfrag : Z;
  lc_name : list Z; lc_frag : bool; lc_fp : list Z }.
Definition lc_fp0 : list Z := [0;0;0;0;0;0;0;0].
Definition lc_fresh : lcm := mkLc [] [] 0 0 0 0 0 0 [] false lc_fp0.
Definition lc_short := 1279471666.   (* 0x4c433032 *)
Definition lc_fragd := 1279471667.   (* 0x4c433033 *)
(* the channel name loop :160-166: the octets before the first NUL and the count consumed (NUL included) *)
Fixpoint lc_scan (l : list Z) : list Z * Z :=
  match l with
  | [] => ([], 0)
  | b :: r => if b =? 0 then ([], 1) else let (nm, c) := lc_scan r in (b :: nm, c + 1)
  end.
Definition lc_tail (orig : bool) (old st : lcm) (data : list Z) (magic seq : Z) (frag : bool) (ps fo fn tf off : Z) : lcm * outcome unit * bool :=
  let n := zlen data in
  let hasname := negb frag || (fn =? 0) in
  ml_bind (cd_slc data off n) st false (fun rest =>
  let sc := lc_scan rest in
  let name := if hasname then fst sc else if orig then lc_name old else [] in
  let off2 := if hasname then off + snd sc else off in
  ml_bind (if 8 <=? n - off2 then cd_slc data off2 (off2 + 8) else Ok (if orig then lc_fp old else lc_fp0)) st false (fun fp =>
  ml_bind (cd_slc data 0 off2) st false (fun c =>
  ml_bind (cd_slc data off2 n) st false (fun p =>
  (mkLc c p magic seq ps fo fn tf name frag fp, Ok tt, false))))).
Definition lc_decode_gen (orig : bool) (old : lcm) (data : list Z) : lcm * outcome unit * bool :=
  let n := zlen data in
  if n <? 8 then (old, Err 1, true) else
  ml_bind (ml_rd32 data 0) old false (fun magic =>
  let l1 := mkLc (lc_contents old) (lc_payload old) magic (lc_seq old) (lc_psize old) (lc_foff old) (lc_fnum old) (lc_tfrag old) (lc_name old) (lc_frag old) (lc_fp old) in
  if negb ((magic =? lc_short) || (magic =? lc_fragd)) then (l1, Err 2, false) else
  ml_bind (ml_rd32 data 4) l1 false (fun seq =>
  if magic =? lc_fragd then
    let l2 := mkLc (lc_contents old) (lc_payload old) magic seq (lc_psize old) (lc_foff old) (lc_fnum old) (lc_tfrag old) (lc_name old) true (lc_fp old) in
    if n <? 20 then (l2, Err 3, true) else
    ml_bind (ml_rd32 data 8) l2 false (fun ps =>
    ml_bind (ml_rd32 data 12) l2 false (fun fo =>
    ml_bind (cd_rd16 data 16) l2 false (fun fn =>
    ml_bind (cd_rd16 data 18) l2 false (fun tf =>
    lc_tail orig old l2 data magic seq true ps fo fn tf 20))))
  else if orig then lc_tail orig old l1 data magic seq false (lc_psize old) (lc_foff old) (lc_fnum old) (lc_tfrag old) 8
  else lc_tail orig old l1 data magic seq false 0 0 0 0 8)).
Definition lc_decode_into := lc_decode_gen false.
(* NextLayerType: 0 = payload (fingerprint not registered), 1 = the layer type the harness registers for fingerprint 0102030405060708, 2 = fragment *)
Definition lc_fp_test : list Z := [1;2;3;4;5;6;7;8].
Definition lc_next (l : lcm) : Z :=
  if negb (lc_frag l) || (lc_fnum l =? 0) then (if list_eq_dec Z.eq_dec (lc_fp l) lc_fp_test then 1 else 0) else 2.
Definition lc_render_panics (l : lcm) : bool := false.
