(* Ltcp: layers/tcp.go — TCP header, flags, data offset, the generic option loop and the
   complete MPTCP (kind 30) option parser (tcp.go:291-551 on the unchanged tree),
   TCPOption.String's nil dereferences (tcp.go:120-186), SerializeTo with option padding
   (tcp.go:194-249), the checksum with pseudo-header (tcpip.go:26-69, checksum.go:34-58),
   NextLayerType (tcp.go:591-597), VerifyChecksum (tcp.go:626-640).
   Executable definitions only.

   Every definition that has a [g : bool] argument models BOTH trees:
     g = false  the unchanged code  (the [*_orig] definitions below instantiate it)
     g = true   the repaired code   (fix: commits of branch agent-ltcp of the repository)
   The differences are confined to: the three length checks at the top of the MPTCP
   case, the DSS length check before data[3], the reset of Multipath, and the nil
   guards of TCPOption.String. *)
From GP Require Import Base.
Open Scope Z_scope.

Definition len {A} (l : list A) : Z := Z.of_nat (length l).

Notation "x <- e ;; f" := (obind e (fun x => f)) (at level 61, e at next level, right associativity).

(* ---- checked Go operations on a byte slice [l] whose backing array continues with [tl]
   (cap(l) = len l + len tl).  Go checks an index against len, a two-index slice
   expression against cap, and s[a:] against len. *)
Definition idx (site : Z) (l : list Z) (i : Z) : outcome Z :=
  if (0 <=? i) && (i <? len l) then Ok (nth (Z.to_nat i) l 0) else Panic site.
Definition slc (site : Z) (l tl : list Z) (a b : Z) : outcome (list Z) :=
  if (0 <=? a) && (a <=? b) && (b <=? len l + len tl)
  then Ok (slice (l ++ tl) (Z.to_nat a) (Z.to_nat b)) else Panic site.
Definition from (site : Z) (l : list Z) (a : Z) : outcome (list Z) :=
  if (0 <=? a) && (a <=? len l) then Ok (skipn (Z.to_nat a) l) else Panic site.
(* for n = 0; n < cnt; n++ { append(.., l[start+n]) } : tcp.go:491-493 *)
Fixpoint read_n (site : Z) (l : list Z) (start : Z) (cnt : nat) : outcome (list Z) :=
  match cnt with
  | O => Ok []
  | S c => v <- idx site l start ;; r <- read_n site l (start + 1) c ;; Ok (v :: r)
  end.

Definition mem (x : Z) (l : list Z) : bool := existsb (Z.eqb x) l.
Definition bit (b m : Z) : bool := negb (Z.land b m =? 0).

(* ---- MPTCP option bodies: multipathtcp.go:88-161.  A TCPOption has nine pointer fields,
   decoding sets at most one (each append builds a fresh TCPOption), so one sum suffices. *)
Inductive mpinfo :=
| MPnone
| MPCapable (version flags : Z) (sendkey recvkey : list Z) (datalen csum : Z)
| MPJoin (backup : bool) (addrid rtoken srand : Z) (hmac : list Z)
| MPDss (flags : Z) (dataack dsn : list Z) (ssn datalen csum : Z)
| MPAddAddr (ipver : Z) (e : bool) (addrid : Z) (address : list Z) (port : Z) (hmac : list Z)
| MPRemAddr (ids : list Z)
| MPPrio (backup : bool) (addrid : Z)
| MPFail (dsn : Z)
| MPFClose (key : list Z)
| MPRst (flags reason : Z).

(* the subtype whose pointer field is non-nil; -1: all nil *)
Definition info_kind (i : mpinfo) : Z :=
  match i with
  | MPnone => -1 | MPCapable _ _ _ _ _ _ => 0 | MPJoin _ _ _ _ _ => 1 | MPDss _ _ _ _ _ _ => 2
  | MPAddAddr _ _ _ _ _ _ => 3 | MPRemAddr _ => 4 | MPPrio _ _ => 5 | MPFail _ => 6
  | MPFClose _ => 7 | MPRst _ _ => 8
  end.

Record tcpopt := { o_type : Z; o_len : Z; o_data : list Z; o_mp : Z; o_info : mpinfo }.

Record tcp := {
  t_sp : Z; t_dp : Z; t_seq : Z; t_ack : Z; t_off : Z;
  t_flags : Z;      (* FIN=1 SYN=2 RST=4 PSH=8 ACK=16 URG=32 ECE=64 CWR=128 NS=256 *)
  t_win : Z; t_sum : Z; t_urg : Z;
  t_sport : list Z; t_dport : list Z;   (* sPort, dPort: the flow endpoints *)
  t_opts : list tcpopt; t_pad : list Z; t_mp : bool;
  t_contents : list Z; t_payload : list Z
}.

Definition tcp0 : tcp :=
  {| t_sp := 0; t_dp := 0; t_seq := 0; t_ack := 0; t_off := 0; t_flags := 0; t_win := 0; t_sum := 0;
     t_urg := 0; t_sport := []; t_dport := []; t_opts := []; t_pad := []; t_mp := false;
     t_contents := []; t_payload := [] |}.

(* ---- the subtype parsers.  [od] is Go's `data` inside the option loop (the remaining
   option bytes), [tl] the rest of the backing array (payload and spare capacity),
   L = opt.OptionLength, b2 = data[2].  Result: the pointer left in the option and how
   the case ended (Ok: falls out of the switch). *)
Definition ret_info (o : outcome mpinfo) : mpinfo * outcome unit :=
  match o with Ok i => (i, Ok tt) | Err c => (MPnone, Err c) | Panic s => (MPnone, Panic s) end.
Definition opt_slc (c : bool) (site : Z) (od tl : list Z) (a b : Z) : outcome (list Z) :=
  if c then slc site od tl a b else Ok [].

(* tcp.go:355-381 *)
Definition mp_capable (od tl : list Z) (L b2 : Z) : mpinfo * outcome unit :=
  if negb (mem L [4; 12; 20; 22; 24]) then (MPnone, Err 10) else
  ret_info
   (b3 <- idx 103 od 3 ;;
    sk <- opt_slc (12 <=? L) 104 od tl 4 12 ;;
    rk <- opt_slc (20 <=? L) 105 od tl 12 20 ;;
    dl <- opt_slc (22 <=? L) 106 od tl 20 22 ;;
    cs <- opt_slc (L =? 24) 107 od tl 22 24 ;;
    Ok (MPCapable (Z.land b2 15) b3 sk rk (be_val dl) (be_val cs))).

(* tcp.go:382-405 *)
Definition mp_join (od tl : list Z) (L b2 : Z) : mpinfo * outcome unit :=
  if negb (mem L [12; 16; 24]) then (MPnone, Err 11) else
  ret_info
   (if L =? 12 then
      (b3 <- idx 110 od 3 ;;
       rt <- slc 111 od tl 4 8 ;;
       sr <- slc 112 od tl 8 12 ;;
       Ok (MPJoin (bit b2 1) b3 (be_val rt) (be_val sr) []))
    else if L =? 16 then
      (b3 <- idx 113 od 3 ;;
       hm <- slc 114 od tl 4 12 ;;
       sr <- slc 115 od tl 12 16 ;;
       Ok (MPJoin (bit b2 1) b3 0 (be_val sr) hm))
    else
      (hm <- slc 116 od tl 4 24 ;; Ok (MPJoin false 0 0 0 hm))).

(* optionMptcpDsslen, tcp.go:553-571 (uint8; at most 28, no wrap) *)
Definition dss_len (fl : Z) (csum : bool) : Z :=
  4 + (if bit fl 1 then 4 + (if bit fl 2 then 4 else 0) else 0)
    + (if bit fl 4 then 10 + (if bit fl 8 then 4 else 0) + (if csum then 2 else 0) else 0).

(* tcp.go:406-442; fl: F=16 m=8 M=4 a=2 A=1.  Repaired: length < 4 is an error before data[3] *)
Definition mp_dss (g : bool) (od tl : list Z) (L b2 : Z) : mpinfo * outcome unit :=
  if g && (L <? 4) then (MPnone, Err 12) else
  match idx 120 od 3 with
  | Panic s => (MPnone, Panic s) | Err c => (MPnone, Err c)
  | Ok b3 =>
    let fl := Z.land b3 31 in
    if negb (L =? dss_len fl false) && negb (L =? dss_len fl true)
    then (MPDss fl [] [] 0 0 0, Err 12) else
    ret_info
     (let l0 := 4 in
      ack <- (if bit fl 1 then (if bit fl 2 then slc 121 od tl l0 (l0 + 8) else slc 122 od tl l0 (l0 + 4)) else Ok []) ;;
      let l1 := if bit fl 1 then (if bit fl 2 then l0 + 8 else l0 + 4) else l0 in
      if bit fl 4 then
        (dsn <- (if bit fl 8 then slc 123 od tl l1 (l1 + 8) else slc 124 od tl l1 (l1 + 4)) ;;
         let l2 := if bit fl 8 then l1 + 8 else l1 + 4 in
         ssn <- slc 125 od tl l2 (l2 + 4) ;;
         let l3 := l2 + 4 in
         dl <- slc 126 od tl l3 (l3 + 2) ;;
         let l4 := l3 + 2 in
         cs <- opt_slc ((L - l4) mod 256 =? 2) 127 od tl l4 (l4 + 2) ;;
         Ok (MPDss fl ack dsn (be_val ssn) (be_val dl) (be_val cs)))
      else Ok (MPDss fl ack [] 0 0 0))
  end.

(* isValidOptionMptcpAddAddrlen, tcp.go:573-585 (uint8 subtraction wraps) *)
Definition addaddr_valid (L ver : Z) (hmac : bool) : bool :=
  if ver =? 0 then mem L [8; 10; 20; 22]
  else mem (if hmac then L else (L - 8) mod 256) [8; 10; 20; 22].

(* tcp.go:443-484 *)
Definition mp_addaddr (od tl : list Z) (L b2 : Z) : mpinfo * outcome unit :=
  let v := Z.land b2 15 in
  let ver := if 1 <? v then 0 else 1 in
  let bitE := if 1 <? v then false else bit b2 1 in
  if negb (addaddr_valid L ver bitE) then (MPnone, Err 13) else
  ret_info
   (b3 <- idx 130 od 3 ;;
    hm <- (if (ver =? 1) && negb bitE then from 131 od ((L - 8) mod 256) else Ok []) ;;
    let lo := if (ver =? 1) && negb bitE then (L - 8) mod 256 else L in
    addr <- (if (lo =? 8) || (lo =? 10) then slc 132 od tl 4 8
             else if (lo =? 20) || (lo =? 22) then slc 133 od tl 4 20 else Ok []) ;;
    port <- (if lo =? 10 then slc 134 od tl 8 10
             else if lo =? 22 then slc 135 od tl 20 22 else Ok []) ;;
    Ok (MPAddAddr (if ver =? 0 then v else 0) bitE b3 addr (be_val port) hm)).

(* tcp.go:485-496 *)
Definition mp_remaddr (od tl : list Z) (L b2 : Z) : mpinfo * outcome unit :=
  if L <? 4 then (MPnone, Err 14) else
  ret_info (ids <- read_n 140 od 3 (Z.to_nat (L - 3)) ;; Ok (MPRemAddr ids)).

(* tcp.go:497-506 *)
Definition mp_prio (od tl : list Z) (L b2 : Z) : mpinfo * outcome unit :=
  if negb (mem L [3; 4]) then (MPnone, Err 15) else
  ret_info (a <- (if L =? 4 then idx 150 od 3 else Ok 0) ;; Ok (MPPrio (bit b2 1) a)).

(* tcp.go:507-513 *)
Definition mp_fail (od tl : list Z) (L b2 : Z) : mpinfo * outcome unit :=
  if negb (L =? 12) then (MPnone, Err 16) else
  ret_info (d <- slc 160 od tl 4 12 ;; Ok (MPFail (be_val d))).

(* tcp.go:515-521 *)
Definition mp_fclose (od tl : list Z) (L b2 : Z) : mpinfo * outcome unit :=
  if negb (L =? 12) then (MPnone, Err 17) else
  ret_info (k <- slc 170 od tl 4 12 ;; Ok (MPFClose k)).

(* tcp.go:522-532 *)
Definition mp_rst (od tl : list Z) (L b2 : Z) : mpinfo * outcome unit :=
  if negb (L =? 4) then (MPnone, Err 18) else
  ret_info (r <- idx 180 od 3 ;; Ok (MPRst (Z.land b2 15) r)).

(* the switch on opt.OptionMultipath, tcp.go:354-533 *)
Definition mp_sub (g : bool) (od tl : list Z) (L b2 st : Z) : mpinfo * outcome unit :=
  if st =? 0 then mp_capable od tl L b2
  else if st =? 1 then mp_join od tl L b2
  else if st =? 2 then mp_dss g od tl L b2
  else if st =? 3 then mp_addaddr od tl L b2
  else if st =? 4 then mp_remaddr od tl L b2
  else if st =? 5 then mp_prio od tl L b2
  else if st =? 6 then mp_fail od tl L b2
  else if st =? 7 then mp_fclose od tl L b2
  else if st =? 8 then mp_rst od tl L b2
  else (MPnone, Ok tt).

(* ---- the option loop, tcp.go:336-549 *)
Record lres := { r_opts : list tcpopt; r_pad : list Z; r_mp : bool; r_trunc : bool; r_out : outcome unit }.

Definition mkopt (k l : Z) (d : list Z) (st : Z) (i : mpinfo) : tcpopt :=
  {| o_type := k; o_len := l; o_data := d; o_mp := st; o_info := i |}.
Definition stop (acc : list tcpopt) (pad : list Z) (mp tr : bool) (o : outcome unit) : lres :=
  {| r_opts := rev acc; r_pad := pad; r_mp := mp; r_trunc := tr; r_out := o |}.

(* fuel: each iteration consumes at least one byte; Panic 99 = out of fuel (excluded by
   LtcpProofs.loop_fuel) *)
Fixpoint opt_loop (g : bool) (fuel : nat) (od tl : list Z) (acc : list tcpopt) (mp : bool) : lres :=
  match fuel with
  | O => stop acc [] mp false (Panic 99)
  | S fuel' =>
    match od with
    | [] => stop acc [] mp false (Ok tt)
    | k :: rest =>
      if k =? 0 then stop (mkopt 0 1 [] 0 MPnone :: acc) rest mp false (Ok tt)       (* :341-344 *)
      else if k =? 1 then opt_loop g fuel' rest tl (mkopt 1 1 [] 0 MPnone :: acc) mp   (* :345-346, :548 *)
      else if k =? 30 then                                                            (* :347-533 *)
        if g && (len od <? 2) then stop (mkopt 30 0 [] 0 MPnone :: acc) [] true true (Err 20) else
        match idx 100 od 1 with
        | Panic s => stop acc [] true false (Panic s) | Err c => stop acc [] true false (Err c)
        | Ok L =>
          if (if g then L <? 3 else L <=? 0) then stop (mkopt 30 L [] 0 MPnone :: acc) [] true false (Err 21) else
          if g && (len od <? L) then stop (mkopt 30 L [] 0 MPnone :: acc) [] true true (Err 22) else
          match idx 101 od 2 with
          | Panic s => stop acc [] true false (Panic s) | Err c => stop acc [] true false (Err c)
          | Ok b2 =>
            let st := b2 / 16 in
            let (info, o) := mp_sub g od tl L b2 st in
            let op := mkopt 30 L [] st info in
            match o with
            | Panic s => stop (op :: acc) [] true false (Panic s)
            | Err c => stop (op :: acc) [] true false (Err c)
            | Ok _ =>
              match from 199 od L with                                                (* :548 *)
              | Ok od' => opt_loop g fuel' od' tl (op :: acc) true
              | Err c => stop (op :: acc) [] true false (Err c)
              | Panic s => stop (op :: acc) [] true false (Panic s)
              end
            end
          end
        end
      else                                                                            (* :534-547 *)
        if len od <? 2 then stop (mkopt k 0 [] 0 MPnone :: acc) [] mp true (Err 30) else
        let L := nth 1 od 0 in
        if L <? 2 then stop (mkopt k L [] 0 MPnone :: acc) [] mp false (Err 31) else
        if len od <? L then stop (mkopt k L [] 0 MPnone :: acc) [] mp true (Err 32) else
        match slc 190 od tl 2 L, from 191 od L with
        | Ok d, Ok od' => opt_loop g fuel' od' tl (mkopt k L d 0 MPnone :: acc) mp
        | Panic s, _ => stop acc [] mp false (Panic s)
        | _, Panic s => stop acc [] mp false (Panic s)
        | _, _ => stop acc [] mp false (Err 33)
        end
    end
  end.

(* ---- DecodeFromBytes, tcp.go:291-551.  [old] is the receiver before the call, [extra] the
   bytes of the backing array beyond len(data).  gl: MPTCP length checks, gm: Multipath reset.
   Header reads are at constant indices 0..19 under the guard len >= 20. *)
Definition b_at (data : list Z) (i : nat) : Z := nth i data 0.

Definition decode_gen (gl gm : bool) (old : tcp) (data extra : list Z) : tcp * bool * outcome unit :=
  if len data <? 20 then (old, true, Err 1) else
  let off := b_at data 12 / 16 in
  let t1 := {| t_sp := be_val (slice data 0 2); t_dp := be_val (slice data 2 4);
               t_seq := be_val (slice data 4 8); t_ack := be_val (slice data 8 12);
               t_off := off;
               t_flags := b_at data 13 + 256 * Z.land (b_at data 12) 1;
               t_win := be_val (slice data 14 16); t_sum := be_val (slice data 16 18);
               t_urg := be_val (slice data 18 20);
               t_sport := slice data 0 2; t_dport := slice data 2 4;
               t_opts := []; t_pad := []; t_mp := if gm then false else t_mp old;
               t_contents := t_contents old; t_payload := t_payload old |} in
  if off <? 5 then (t1, false, Err 2) else
  let ds := off * 4 in
  if len data <? ds then
    ({| t_sp := t_sp t1; t_dp := t_dp t1; t_seq := t_seq t1; t_ack := t_ack t1; t_off := off;
        t_flags := t_flags t1; t_win := t_win t1; t_sum := t_sum t1; t_urg := t_urg t1;
        t_sport := t_sport t1; t_dport := t_dport t1; t_opts := []; t_pad := []; t_mp := t_mp t1;
        t_contents := data; t_payload := [] |}, true, Err 3)
  else
  let dsn := Z.to_nat ds in
  let payload := skipn dsn data in
  let od := slice data 20 dsn in
  let r := opt_loop gl (S (length od)) od (payload ++ extra) [] (t_mp t1) in
  ({| t_sp := t_sp t1; t_dp := t_dp t1; t_seq := t_seq t1; t_ack := t_ack t1; t_off := off;
      t_flags := t_flags t1; t_win := t_win t1; t_sum := t_sum t1; t_urg := t_urg t1;
      t_sport := t_sport t1; t_dport := t_dport t1;
      t_opts := r_opts r; t_pad := r_pad r; t_mp := r_mp r;
      t_contents := firstn dsn data; t_payload := payload |}, r_trunc r, r_out r).

Definition decode_into := decode_gen true true.          (* repaired tree *)
Definition decode_into_orig := decode_gen false false.   (* unchanged tree *)

(* NextLayerType, tcp.go:591-597; tbl is TCPPort.LayerType (ports.go), payload its default *)
Definition next_layer_type (tbl : Z -> Z) (payload_id : Z) (t : tcp) : Z :=
  let lt := tbl (t_dp t) in if lt =? payload_id then tbl (t_sp t) else lt.

(* ---- renderers.  gopacket.LayerString is reflective and total on non-nil values, except
   that it calls String() on values implementing fmt.Stringer: TCPOption.String
   (tcp.go:120-186) runs for each element of Options when there are at most 4
   (packet.go:362-366 prints "..n.." for longer slices).  It dereferences the pointer
   belonging to OptionMultipath for subtypes 0,1,3,4,5,8 without a nil check. *)
Definition opt_string_panics_orig (o : tcpopt) : bool :=
  (o_type o =? 30) && mem (o_mp o) [0; 1; 3; 4; 5; 8] && negb (info_kind (o_info o) =? o_mp o).
Definition opt_string_panics (o : tcpopt) : bool := false.    (* repaired: nil guards *)
Definition render_gen (f : tcpopt -> bool) (t : tcp) : bool * bool :=   (* (LayerString/Dump, any option's String) *)
  ((len (t_opts t) <=? 4) && existsb f (t_opts t), existsb f (t_opts t)).
Definition render_panics (t : tcp) : bool * bool := render_gen opt_string_panics t.
Definition render_panics_orig (t : tcp) : bool * bool := render_gen opt_string_panics_orig t.

(* ---- checksum: checksum.go:34-58, tcpip.go:26-69 *)
Fixpoint csum_words (l : list Z) (acc : Z) : Z :=
  match l with
  | a :: b :: r => csum_words r (u32 (u32 (acc + a * 256) + b))
  | [a] => u32 (acc + a * 256)
  | [] => acc
  end.
Definition fold1 (c : Z) : Z := if 65535 <? c then c / 65536 + c mod 65536 else c.
Definition fold_csum (c : Z) : Z := 65535 - (fold1 (fold1 (fold1 c))) mod 65536.
(* IPv4.pseudoheaderChecksum / IPv6.pseudoheaderChecksum on valid addresses *)
Definition ph4 (src dst : list Z) : Z :=
  let n i l := nth i l 0 in
  u32 (u32 (u32 (u32 ((n 0%nat src + n 2%nat src) * 256) + (n 1%nat src + n 3%nat src))
       + u32 ((n 0%nat dst + n 2%nat dst) * 256)) + (n 1%nat dst + n 3%nat dst)).
Fixpoint ph6_go (src dst : list Z) (acc : Z) : Z :=
  match src, dst with
  | s0 :: s1 :: sr, d0 :: d1 :: dr =>
      ph6_go sr dr (u32 (u32 (u32 (u32 (acc + s0 * 256) + s1) + d0 * 256) + d1))
  | _, _ => acc
  end.
Definition ph6 (src dst : list Z) : Z := ph6_go src dst 0.
(* computeChecksum(headerAndPayload, IPProtocolTCP) given the pseudo-header partial sum *)
Definition l4_csum (ph : Z) (all : list Z) : Z :=
  let n := u32 (len all) in
  csum_words all (u32 (u32 (u32 (ph + 6) + Z.land n 65535) + n / 65536)).

(* ---- SerializeTo, tcp.go:194-249.  [junk] is the prior content of the region that
   PrependBytes returns; every store is a checked write into that region. *)
Definition put (site : Z) (buf : list Z) (off : Z) (vs : list Z) : outcome (list Z) :=
  if (0 <=? off) && (off + len vs <=? len buf)
  then Ok (firstn (Z.to_nat off) buf ++ vs ++ skipn (Z.to_nat off + length vs) buf)
  else Panic site.

Definition is01 (k : Z) : bool := (k =? 0) || (k =? 1).
Definition opt_wire_len (o : tcpopt) : Z := if is01 (o_type o) then 1 else 2 + len (o_data o).
Definition opts_len (os : list tcpopt) : Z := fold_right (fun o a => opt_wire_len o + a) 0 os.

Fixpoint write_opts (fx : bool) (os : list tcpopt) (buf : list Z) (start : Z) : outcome (list Z * Z) :=
  match os with
  | [] => Ok (buf, start)
  | o :: r =>
    b1 <- put 201 buf start [o_type o] ;;
    if is01 (o_type o) then write_opts fx r b1 (start + 1)
    else
      let L := if fx then u8 (len (o_data o) + 2) else o_len o in
      b2 <- put 202 b1 (start + 1) [L] ;;
      b3 <- put 203 b2 (start + 2) (o_data o) ;;
      write_opts fx r b3 (start + len (o_data o) + 2)
  end.

Definition resize (junk : list Z) (n : nat) : list Z := firstn n (junk ++ repeat 0 n).

Definition set_ser (t : tcp) (pad : list Z) (off sum : Z) : tcp :=
  {| t_sp := t_sp t; t_dp := t_dp t; t_seq := t_seq t; t_ack := t_ack t; t_off := off;
     t_flags := t_flags t; t_win := t_win t; t_sum := sum; t_urg := t_urg t;
     t_sport := t_sport t; t_dport := t_dport t; t_opts := t_opts t; t_pad := pad; t_mp := t_mp t;
     t_contents := t_contents t; t_payload := t_payload t |}.

(* ph: None = no network layer attached; Some s = the pseudo-header partial sum *)
Definition serialize (t : tcp) (payload : list Z) (fx csum : bool) (ph : option Z) (junk : list Z)
  : outcome (list Z) * tcp :=
  let ol := opts_len (t_opts t) in
  let pad := if fx && negb (ol mod 4 =? 0) then repeat 0 (Z.to_nat (4 - ol mod 4)) else t_pad t in
  let off := if fx then u8 ((len pad + ol + 20) / 4) else t_off t in
  let t1 := set_ser t pad off (t_sum t) in
  let n := 20 + ol + len pad in
  let buf0 := resize junk (Z.to_nat n) in
  let fo := (off * 4096) mod 65536 + t_flags t in
  let hdr :=
    (b <- put 210 buf0 0 (be_bytes 2 (t_sp t)) ;;
     b <- put 211 b 2 (be_bytes 2 (t_dp t)) ;;
     b <- put 212 b 4 (be_bytes 4 (t_seq t)) ;;
     b <- put 213 b 8 (be_bytes 4 (t_ack t)) ;;
     b <- put 214 b 12 (be_bytes 2 fo) ;;
     b <- put 215 b 14 (be_bytes 2 (t_win t)) ;;
     b <- put 216 b 18 (be_bytes 2 (t_urg t)) ;;
     bs <- write_opts fx (t_opts t) b 20 ;;
     put 217 (fst bs) (snd bs) pad) in
  match hdr with
  | Panic s => (Panic s, t1) | Err c => (Err c, t1)
  | Ok b =>
    if csum then
      match put 218 b 16 [0; 0] with
      | Panic s => (Panic s, t1) | Err c => (Err c, t1)
      | Ok bz =>
        match ph with
        | None => (Err 5, t1)
        | Some p =>
          let ck := fold_csum (l4_csum p (bz ++ payload)) in
          match put 219 bz 16 (be_bytes 2 ck) with
          | Ok bf => (Ok (bf ++ payload), set_ser t pad off ck)
          | Panic s => (Panic s, t1) | Err c => (Err c, t1)
          end
        end
      end
    else
      match put 219 b 16 (be_bytes 2 (t_sum t)) with
      | Ok bf => (Ok (bf ++ payload), t1)
      | Panic s => (Panic s, t1) | Err c => (Err c, t1)
      end
  end.

(* VerifyChecksum, tcp.go:626-640: (valid, correct) *)
Definition verify_csum (t : tcp) (ph : Z) : bool * Z :=
  let v := l4_csum ph (t_contents t ++ t_payload t) in
  let correct := fold_csum (u32 (v - t_sum t)) in
  (correct =? t_sum t, correct).
