(* Lgeneve — executable model of layers/geneve.go (Geneve codec) as repaired by the three fix:
   commits of agent-fixer (8 octet header / 4 octet option header checks, 2 bit version, options
   confined to the options area, FixLengths error above 252 option octets).  Definitions only.
   Line numbers of that file: decodeGeneveOption :59-79, DecodeFromBytes :81-120,
   NextLayerType :122-124, SerializeTo :134-203. *)
From GP Require Import Base Codec MiscLib.
Open Scope Z_scope.

Record gopt := mkGo { go_class : Z; go_type : Z; go_flags : Z; go_length : Z; go_data : list Z }.

Record geneve := mkGn {
  gn_contents : list Z; gn_payload : list Z;
  gn_version : Z; gn_optlen : Z; gn_oam : bool; gn_critical : bool; gn_protocol : Z; gn_vni : Z;
  gn_options : list gopt }.
Definition gn_fresh : geneve := mkGn [] [] 0 0 false false 0 0 [].

(* decodeGeneveOption on the slice `d`: Ok (option, its length) | Err (always with SetTruncated) *)
Definition gn_decode_option (d : list Z) : outcome (gopt * Z) :=
  if zlen d <? 4 then Err 1 else                                                   (* :60-63 *)
  obind (cd_rd16 d 0) (fun cls =>                                                  (* :66 *)
  obind (cd_idx d 2) (fun ty =>                                                    (* :67 *)
  obind (cd_idx d 3) (fun b3 =>
  let len := ((b3 mod 32) * 4 + 4) mod 256 in                                      (* :69 uint8 arithmetic *)
  if zlen d <? len then Err 2 else                                                 (* :71-74 *)
  obind (cd_slc d 4 len) (fun dat =>                                               (* :75-76 make + copy *)
  Ok (mkGo cls ty (b3 / 32) len dat, len))))).                                     (* :68 Flags = b3 >> 5 *)

(* the option loop :105-115; returns the options appended so far, the outcome (final offset) *)
Fixpoint gn_opts (fuel : nat) (data : list Z) (off len : Z) (acc : list gopt) : list gopt * outcome Z :=
  if len >? 0 then
    match fuel with
    | O => (acc, Err 99)            (* out of fuel: excluded by gn_opts_fuel (64 rounds suffice) *)
    | S f =>
      match cd_slc data off (off + len) with                                       (* :107 data[offset:offset+int(length)] *)
      | Ok d =>
        match gn_decode_option d with
        | Ok (o, l) => gn_opts f data (off + l) (len - l) (acc ++ [o])             (* :111-114 *)
        | Err c => (acc, Err c)                                                    (* :108-110 *)
        | Panic s => (acc, Panic s)
        end
      | Err c => (acc, Err c)
      | Panic s => (acc, Panic s)
      end
    end
  else (acc, Ok off).

Definition gn_decode_into (old : geneve) (data : list Z) : geneve * outcome unit * bool :=
  let n := zlen data in
  if n <? 8 then (old, Err 1, true) else                                           (* :82-85 *)
  ml_bind (cd_idx data 0) old false (fun b0 =>
  ml_bind (cd_idx data 1) old false (fun b1 =>
  ml_bind (cd_rd16 data 2) old false (fun proto =>                                 (* :93 *)
  ml_bind (cd_slc data 4 7) old false (fun v =>                                    (* :95-97 *)
  let optlen := ((b0 mod 64) * 4) mod 256 in                                       (* :88 *)
  let mk := fun c p opts => mkGn c p (b0 / 64) optlen ((b1 / 128) mod 2 =? 1) ((b1 / 64) mod 2 =? 1) proto   (* :87-93 *)
                                 (nth 0 v 0 * 65536 + nth 1 v 0 * 256 + nth 2 v 0) opts in
  let l1 := mk (gn_contents old) (gn_payload old) [] in                            (* :89 Options[:0] *)
  if n <? optlen + 8 then (l1, Err 2, true) else                                   (* :99-103 *)
  match gn_opts 64 data 8 optlen [] with
  | (opts, Ok off) =>
    ml_bind (cd_slc data 0 off) (mk (gn_contents old) (gn_payload old) opts) false (fun contents =>   (* :117 *)
    ml_bind (cd_slc data off n) (mk (gn_contents old) (gn_payload old) opts) false (fun payload =>
    (mk contents payload opts, Ok tt, false)))
  | (opts, Err c) => (mk (gn_contents old) (gn_payload old) opts, Err c, true)     (* option errors all SetTruncated *)
  | (opts, Panic s) => (mk (gn_contents old) (gn_payload old) opts, Panic s, false)
  end)))).

(* NextLayerType: Protocol.LayerType(); abstract id = the EthernetType value *)
Definition gn_next (l : geneve) : Z := gn_protocol l.

(* len(o.Data) & ^3 *)
Definition gn_dlen (o : gopt) : Z := (zlen (go_data o) / 4) * 4.

Definition gn_fix_opt (fixl : bool) (o : gopt) : gopt :=
  if fixl then mkGo (go_class o) (go_type o) (go_flags o) ((4 + gn_dlen o) mod 256) (go_data o) else o.   (* :179-181 *)

(* one option written at offset off of bytes :183-196 *)
Definition gn_write_opt (b : list Z) (off : Z) (o : gopt) : outcome (list Z * Z) :=
  obind (ml_wrc b off (cd_put16 (go_class o))) (fun b =>
  obind (ml_wrc b (off + 2) [go_type o mod 256]) (fun b =>
  obind (ml_wrc b (off + 3) [Z.lor ((go_flags o * 32) mod 256) ((((go_length o - 4) mod 256) / 4) mod 32)]) (fun b =>
  obind (cd_slc b (off + 4) (off + 4 + gn_dlen o)) (fun _ =>                       (* bytes[offset:(offset+dataLen)] *)
  obind (ml_wrc b (off + 4) (firstn (Z.to_nat (gn_dlen o)) (go_data o))) (fun b =>
  Ok (b, off + 4 + gn_dlen o)))))).

Fixpoint gn_write_opts (b : list Z) (off : Z) (os : list gopt) : outcome (list Z) :=
  match os with
  | [] => Ok b
  | o :: t => obind (gn_write_opt b off o) (fun r => gn_write_opts (fst r) (snd r) t)
  end.

Definition gn_serialize (l : geneve) (payload : list Z) (fixl csum : bool) (junk : list Z)
    : outcome (list Z) * geneve :=
  let olen := fold_left (fun a o => a + 4 + gn_dlen o) (gn_options l) 0 in         (* :135-139 *)
  if fixl && (olen >? 252) then (Err 1, l) else                                    (* :141-143 *)
  let l1 := if fixl then mkGn (gn_contents l) (gn_payload l) (gn_version l) (olen mod 256) (gn_oam l) (gn_critical l)
                               (gn_protocol l) (gn_vni l) (gn_options l) else l in  (* :144 *)
  let bytes0 := cd_region (8 + olen) junk in                                       (* :147-148 *)
  let b0 := Z.lor ((gn_version l1 * 64) mod 256) ((gn_optlen l1 / 4) mod 64) in    (* :154-160 *)
  let b1 := (if gn_oam l1 then 128 else 0) + (if gn_critical l1 then 64 else 0) in (* :155-168 *)
  let r :=
    obind (ml_wrc bytes0 0 [b0]) (fun b =>
    obind (ml_wrc b 1 [b1]) (fun b =>
    obind (ml_wrc b 2 (cd_put16 (gn_protocol l1))) (fun b =>                       (* :170 *)
    Ok b))) in
  match r with
  | Ok b =>
    if gn_vni l1 >=? 16777216 then (Err 2, l1) else                                (* :172-174 *)
    let l2 := mkGn (gn_contents l1) (gn_payload l1) (gn_version l1) (gn_optlen l1) (gn_oam l1) (gn_critical l1)
                   (gn_protocol l1) (gn_vni l1) (map (gn_fix_opt fixl) (gn_options l1)) in
    match obind (ml_wrc b 4 (ml_put32 ((gn_vni l1 * 256) mod 4294967296)))         (* :175 *)
                (fun b => gn_write_opts b 8 (gn_options l2)) with                  (* :179-200 *)
    | Ok b => (Ok (b ++ payload), l2)
    | Err c => (Err c, l2)
    | Panic s => (Panic s, l2)
    end
  | Err c => (Err c, l1)
  | Panic s => (Panic s, l1)
  end.

(* Geneve and GeneveOption have no String method *)
Definition gn_render_panics (l : geneve) : bool := false.
