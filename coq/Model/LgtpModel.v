(* Lgtp — executable model of layers/gtp.go (GTPv1-U header codec with sequence number, N-PDU number and
   extension headers) as repaired (fixer: offsets in int; agent-lmisc2: optional fields and extension headers
   cleared on decode, no extension header read when the next type is 0).  Definitions only.
   Line numbers of the repaired file: DecodeFromBytes :47-111, SerializeTo :117-173, NextLayerType :181-198.
   `orig` selects the behaviour before the two agent-lmisc2 repairs. *)
From GP Require Import Base Codec MiscLib.
Open Scope Z_scope.

Record gext := mkGx { gx_type : Z; gx_content : list Z }.
Record gtp := mkGtp {
  g_contents : list Z; g_payload : list Z;
  g_version : Z; g_ptype : Z; g_reserved : Z; g_eflag : bool; g_sflag : bool; g_nflag : bool;
  g_mtype : Z; g_mlen : Z; g_teid : Z; g_seq : Z; g_npdu : Z; g_exts : list gext }.
Definition gtp_fresh : gtp := mkGtp [] [] 0 0 0 false false false 0 0 0 0 0 [].

(* the extension header loop :85-104; Err 99 = out of fuel *)
Fixpoint gtp_ext_loop (fuel : nat) (data : list Z) (ci : Z) (flag : bool) (acc : list gext) : list gext * outcome Z :=
  if negb flag then (acc, Ok ci) else
  match fuel with
  | O => (acc, Err 99)
  | S f =>
    if zlen data <=? ci then (acc, Err 4) else                                        (* :86-88 *)
    match obind (cd_idx data (ci - 1)) (fun et => obind (cd_idx data ci) (fun el => Ok (et, el))) with   (* :89-90 *)
    | Ok (et, el) =>
      if el =? 0 then (acc, Err 5) else                                               (* :91-93 *)
      let li := ci + el * 4 in                                                        (* :94 *)
      if zlen data <? li then (acc, Err 6) else                                       (* :95-97 *)
      match obind (cd_slc data (ci + 1) (li - 1)) (fun c => obind (cd_idx data (li - 1)) (fun nx => Ok (c, nx))) with   (* :98, :103 *)
      | Ok (c, nx) => gtp_ext_loop f data li (negb (nx =? 0)) (acc ++ [mkGx et c])
      | Err e => (acc, Err e) | Panic s => (acc, Panic s)
      end
    | Err e => (acc, Err e) | Panic s => (acc, Panic s)
    end
  end.

Definition gtp_decode_gen (orig : bool) (old : gtp) (data : list Z) : gtp * outcome unit * bool :=
  let n := zlen data in
  if n <? 8 then (old, Err 1, false) else                                             (* :50-52 no SetTruncated anywhere *)
  ml_bind (cd_idx data 0) old false (fun b0 =>
  ml_bind (cd_idx data 1) old false (fun mt =>
  ml_bind (cd_rd16 data 2) old false (fun ml =>
  let sq0 := if orig then g_seq old else 0 in let np0 := if orig then g_npdu old else 0 in   (* :54 *)
  let ex0 := if orig then g_exts old else [] in
  let ef := (b0 / 4) mod 2 =? 1 in let sf := (b0 / 2) mod 2 =? 1 in let nf := b0 mod 2 =? 1 in
  let mk := fun c p teid sq np ex => mkGtp c p ((b0 / 32) mod 8) ((b0 / 16) mod 2) ((b0 / 8) mod 2) ef sf nf mt ml teid sq np ex in
  let l1 := mk (g_contents old) (g_payload old) (g_teid old) sq0 np0 ex0 in           (* :55-62 *)
  if n <? 8 + ml then (l1, Err 2, false) else                                         (* :63-66 *)
  ml_bind (ml_rd32 data 4) l1 false (fun teid =>                                      (* :67 *)
  let l2 := mk (g_contents old) (g_payload old) teid sq0 np0 ex0 in
  if ef || sf || nf then
    if n <? 12 then (l2, Err 3, false) else                                           (* :72-74 *)
    ml_bind (cd_rd16 data 8) l2 false (fun sq =>
    ml_bind (cd_idx data 10) l2 false (fun np =>
    ml_bind (cd_idx data 11) l2 false (fun nx =>
    let sq1 := if sf then sq else sq0 in let np1 := if nf then np else np0 in         (* :75-80 *)
    let '(exts, o) := if ef then gtp_ext_loop (S (length data)) data 12 (if orig then true else negb (nx =? 0)) ex0   (* :81-104 *)
                      else (ex0, Ok 12) in
    match o with
    | Ok ci =>
      ml_bind (cd_slc data 0 ci) (mk (g_contents old) (g_payload old) teid sq1 np1 exts) false (fun c =>   (* :109 *)
      ml_bind (cd_slc data ci n) (mk (g_contents old) (g_payload old) teid sq1 np1 exts) false (fun p =>
      (mk c p teid sq1 np1 exts, Ok tt, false)))
    | Err e => (mk (g_contents old) (g_payload old) teid sq1 np1 exts, Err e, false)
    | Panic s => (mk (g_contents old) (g_payload old) teid sq1 np1 exts, Panic s, false)
    end)))
  else
    ml_bind (cd_slc data 0 8) l2 false (fun c =>
    ml_bind (cd_slc data 8 n) l2 false (fun p =>
    (mk c p teid sq0 np0 ex0, Ok tt, false))))))).

Definition gtp_decode_into := gtp_decode_gen false.
Definition gtp_decode_orig := gtp_decode_gen true.

(* NextLayerType: 0 = Zero (no payload), 1 = Payload, 4 = IPv4, 6 = IPv6, 7 = PPP *)
Definition gtp_next (l : gtp) : Z :=
  match g_payload l with
  | [] => 0
  | b :: _ => if negb (g_mtype l =? 255) then 1 else if b / 16 =? 4 then 4 else if b / 16 =? 6 then 6 else 7
  end.

(* one PrependBytes region, completely written by the caller *)
Definition gtp_region (n : Z) (junk : list Z) (vs : list Z) : outcome (list Z) := ml_wrc (cd_region n junk) 0 vs.

(* the extension headers, last first :119-137: the bytes in wire order and the type of the first one;
   None = the error return for a content length that is not 2 mod 4 *)
Fixpoint gtp_exts_bytes (junk : list Z) (l : list gext) : outcome (list Z * Z) :=
  match l with
  | [] => Ok ([], 0)
  | e :: t =>
    obind (gtp_exts_bytes junk t) (fun r =>
    let lc := zlen (gx_content e) in
    if negb (lc mod 4 =? 2) then Err 1 else                                           (* :123-125 *)
    obind (gtp_region (lc + 2) junk ([((lc + 2) / 4) mod 256] ++ gx_content e ++ [snd r mod 256])) (fun b =>   (* :127-134 *)
    Ok (b ++ fst r, gx_type e)))                                                      (* :135 *)
  end.

Definition gtp_serialize (l : gtp) (payload : list Z) (fixl csum : bool) (junk : list Z) : outcome (list Z) * gtp :=
  let ef := match g_exts l with [] => g_eflag l | _ => true end in                       (* :120 *)
  let upd := fun ml => mkGtp (g_contents l) (g_payload l) (g_version l) (g_ptype l) (g_reserved l) ef (g_sflag l) (g_nflag l)
                             (g_mtype l) ml (g_teid l) (g_seq l) (g_npdu l) (g_exts l) in
  match gtp_exts_bytes junk (g_exts l) with
  | Err e => (Err e, upd (g_mlen l))
  | Panic s => (Panic s, upd (g_mlen l))
  | Ok (xb, nx) =>
    let opt := if ef || g_sflag l || g_nflag l then Some (cd_put16 (g_seq l) ++ [g_npdu l mod 256; nx mod 256]) else None in   (* :139-147 *)
    match (match opt with Some o => gtp_region 4 junk o | None => Ok [] end) with
    | Err e => (Err e, upd (g_mlen l)) | Panic s => (Panic s, upd (g_mlen l))
    | Ok ob =>
      let body := ob ++ xb ++ payload in
      let ml := if fixl then zlen body mod 65536 else g_mlen l in                     (* :148-150 *)
      let b0 := ((g_version l mod 8) * 32) + 16 + (if ef then 4 else 0) + (if g_sflag l then 2 else 0) + (if g_nflag l then 1 else 0) in   (* :155-165 *)
      match gtp_region 8 junk ([b0; g_mtype l mod 256] ++ cd_put16 ml ++ ml_put32 (g_teid l mod 4294967296)) with   (* :151-168 *)
      | Ok h => (Ok (h ++ body), upd ml)
      | Err e => (Err e, upd ml) | Panic s => (Panic s, upd ml)
      end
    end
  end.

Definition gtp_render_panics (l : gtp) : bool := false.
