(* Lbfd — executable model of layers/bfd.go (BFD control packet codec incl. the authentication section)
   as repaired (fixer: sequence-number length check, unknown auth type error; agent-lmisc2: AuthHeader
   cleared on decode).  Definitions only.  Line numbers of the repaired file: BFDAuthHeader.Length
   :231-242, BFD.Length :289-294, DecodeFromBytes :332-403, SerializeTo :407-466, NextLayerType :475-477
   (LayerTypeZero), Payload() :480-482 (nil).
   (b & 0xE0) >> 5 is b / 32; b & 0x1F is b mod 32; (b & 0xC0) >> 6 is b / 64; the flag bits of the second
   octet are (b / 2^k) mod 2.  uint8(State)<<6 | P<<5 | ... | M with 0/1 flags is the sum of disjoint bits. *)
From GP Require Import Base Codec MiscLib.
Open Scope Z_scope.

Record bauth := mkBa { ba_type : Z; ba_keyid : Z; ba_seq : Z; ba_data : list Z }.

Record bfd := mkBfd {
  b_contents : list Z; b_payload : list Z;
  b_version : Z; b_diag : Z; b_state : Z;
  b_poll : bool; b_final : bool; b_cpi : bool; b_authp : bool; b_demand : bool; b_mpoint : bool;
  b_mult : Z; b_mydisc : Z; b_yourdisc : Z; b_mintx : Z; b_minrx : Z; b_minecho : Z;
  b_auth : option bauth }.
Definition bfd_fresh : bfd := mkBfd [] [] 0 0 0 false false false false false false 0 0 0 0 0 0 None.

Definition ba_keyed (t : Z) : bool := (2 <=? t) && (t <=? 5).

(* orig = without `d.AuthHeader = nil` (:380) *)
Definition bfd_decode_gen (orig : bool) (old : bfd) (data : list Z) : bfd * outcome unit * bool :=
  let n := zlen data in
  if n <? 24 then (old, Err 1, true) else                                            (* :333-336 *)
  ml_bind (cd_idx data 3) old false (fun plen =>                                     (* :338 *)
  if negb (n =? plen) then (old, Err 2, false) else                                  (* :339-341 *)
  ml_bind (cd_slc data 0 n) old false (fun contents =>                               (* :343 *)
  ml_bind (cd_idx data 0) old false (fun b0 =>
  ml_bind (cd_idx data 1) old false (fun b1 =>
  ml_bind (cd_idx data 2) old false (fun mult =>
  ml_bind (ml_rd32 data 4) old false (fun my =>
  ml_bind (ml_rd32 data 8) old false (fun your =>
  ml_bind (ml_rd32 data 12) old false (fun tx =>
  ml_bind (ml_rd32 data 16) old false (fun rx =>
  ml_bind (ml_rd32 data 20) old false (fun echo =>
  ml_bind (cd_slc data 24 n) old false (fun rest =>
  let authp := (b1 / 4) mod 2 =? 1 in
  let mk := fun a => mkBfd contents [] (b0 / 32) (b0 mod 32) (b1 / 64) ((b1 / 32) mod 2 =? 1) ((b1 / 16) mod 2 =? 1)
                            ((b1 / 8) mod 2 =? 1) authp ((b1 / 2) mod 2 =? 1) (b1 mod 2 =? 1) mult my your tx rx echo a in
  let a0 := if orig then b_auth old else None in                                     (* :380 *)
  if authp && (2 <? zlen rest) then                                                  (* :381 *)
    ml_bind (cd_idx rest 0) (mk a0) false (fun t =>                                  (* :383 *)
    ml_bind (cd_idx rest 2) (mk a0) false (fun kid =>                                (* :385 *)
    ml_bind (cd_slc rest 3 (zlen rest)) (mk a0) false (fun r3 =>
    if t =? 1 then (mk (Some (mkBa t kid 0 r3)), Ok tt, false)                       (* :388-389 *)
    else if ba_keyed t then
      if zlen r3 <? 5 then (mk (Some (mkBa t kid 0 [])), Err 3, true) else           (* :391-394 / :398-401 *)
      ml_bind (ml_rd32 r3 1) (mk (Some (mkBa t kid 0 []))) false (fun sq =>          (* :395 *)
      ml_bind (cd_slc r3 5 (zlen r3)) (mk (Some (mkBa t kid 0 []))) false (fun dat =>
      (mk (Some (mkBa t kid sq dat)), Ok tt, false)))
    else (mk (Some (mkBa t kid 0 [])), Ok tt, false))))
  else (mk a0, Ok tt, false)))))))))))).

Definition bfd_decode_into := bfd_decode_gen false.
Definition bfd_decode_orig := bfd_decode_gen true.
Definition bfd_next (l : bfd) : Z := 0.

Definition ba_len (a : bauth) : Z :=                                                 (* :231-242 *)
  if ba_type a =? 1 then 3 + zlen (ba_data a)
  else if ba_keyed (ba_type a) then 8 + zlen (ba_data a) else 0.

Definition bfd_alen (l : bfd) : Z :=
  match b_auth l with Some a => if b_authp l then ba_len a else 0 | None => 0 end.

Definition b2z (b : bool) : Z := if b then 1 else 0.

Definition bfd_hdr (l : bfd) : list Z :=
  [Z.lor ((b_version l * 32) mod 256) (b_diag l mod 256);                            (* :416 *)
   (b_state l mod 4) * 64 + b2z (b_poll l) * 32 + b2z (b_final l) * 16 + b2z (b_cpi l) * 8 + b2z (b_authp l) * 4 +
     b2z (b_demand l) * 2 + b2z (b_mpoint l);                                        (* :417-425 *)
   b_mult l mod 256; (24 + bfd_alen l) mod 256] ++                                   (* :426-427 *)
  ml_put32 (b_mydisc l mod 4294967296) ++ ml_put32 (b_yourdisc l mod 4294967296) ++ ml_put32 (b_mintx l mod 4294967296) ++
  ml_put32 (b_minrx l mod 4294967296) ++ ml_put32 (b_minecho l mod 4294967296).      (* :428-432 *)

Definition ba_bytes (a : bauth) : list Z :=                                          (* :443-462 *)
  [ba_type a mod 256; ba_len a mod 256; ba_keyid a mod 256] ++
  (if ba_type a =? 1 then ba_data a else [0] ++ ml_put32 (ba_seq a mod 4294967296) ++ ba_data a).

(* PrependBytes(24), then AppendBytes(auth length) behind the buffer's content *)
Definition bfd_serialize (l : bfd) (payload : list Z) (fixl csum : bool) (junk : list Z)
    : outcome (list Z) * bfd :=
  let rej := match b_auth l with Some a => b_authp l && (ba_len a =? 0) | None => false end in
  if rej then (Err 1, l) else                                                        (* :408-410 *)
  let r :=
    obind (ml_wrc (cd_region 24 junk) 0 (bfd_hdr l)) (fun h =>                       (* :412-432 *)
    match b_auth l with
    | Some a =>
      if b_authp l then                                                              (* :434 *)
        obind (ml_wrc (cd_region (ba_len a) (skipn 24 junk)) 0 (ba_bytes a)) (fun au => Ok (h ++ payload ++ au))   (* :439-462 *)
      else Ok (h ++ payload)
    | None => Ok (h ++ payload)
    end) in
  match r with
  | Ok b => (Ok b, l)
  | Err c => (Err c, l)
  | Panic s => (Panic s, l)
  end.

(* BFDDiagnostic/BFDState/BFDAuthType String are switches with a default *)
Definition bfd_render_panics (l : bfd) : bool := false.
