(* C05parser — executable model of gopacket's DecodingLayerParser.
   Transcribed from
     /repo/layers_decoder.go:11-101   LayersDecoder: the generated decode loop (the four copies
                                      are textually identical; one model, the container enters
                                      only through its lookup function)
     /repo/parser.go:69-169           DecodingLayerSparse / DecodingLayerArray / DecodingLayerMap
                                      Put and Decoder
     /repo/parser.go:187-236          AddDecodingLayer, NewDecodingLayerParser, SetDecodingLayerContainer
     /repo/parser.go:302-330          DecodeLayers, panicToError
     /repo/layers/base.go:39-50       decodingLayerDecoder (the wrapper NewPacket's decode funcs use)
     /repo/packet.go:503-523          eagerPacket.NextDecoder / initialDecode (reference loop only)
   Decoding layers are PARAMETERS: a decoding layer is an object with a state S (its fields),
   a zero value, the set of layer types it claims (CanDecode), DecodeFromBytes as a function
   old state -> data -> new state * class * SetTruncated?, and NextLayerType / LayerPayload as
   functions of the state.  No proofs in this file. *)
From GP Require Import Base.

Inductive dclass := DOk | DErr | DPanic.

Definition int64 (x : Z) : Z := sint 64 x.

(* ------------------------------------------------------------------ containers *)
(* objects are indices (nat) into the family; a container maps layer types to objects *)

(* DecodingLayerMap (parser.go:140-163): a Go map, modelled as a total function *)
Definition cmap := Z -> option nat.
Definition map_empty : cmap := fun _ => None.
Definition map_set (m : cmap) (t : Z) (o : nat) : cmap := fun t' => if t' =? t then Some o else m t'.
Definition map_put (m : cmap) (cans : list Z) (o : nat) : cmap :=
  fold_left (fun m t => map_set m t o) cans m.          (* :147-152 *)
Definition map_get (m : cmap) (t : Z) : option nat := m t.   (* :156-159 *)

(* DecodingLayerArray (parser.go:105-133): slice of (typ, dec), linear search *)
Definition carray := list (Z * nat).
Fixpoint array_set (l : carray) (t : Z) (o : nat) : carray :=
  match l with
  | [] => [(t, o)]                                       (* :118 append *)
  | (t', o') :: r => if t' =? t then (t', o) :: r        (* :113-116 overwrite in place *)
                     else (t', o') :: array_set r t o
  end.
Definition array_put (l : carray) (cans : list Z) (o : nat) : carray :=
  fold_left (fun l t => array_set l t o) cans l.
Fixpoint array_get (l : carray) (t : Z) : option nat :=   (* :124-131 *)
  match l with
  | [] => None
  | (t', o) :: r => if t' =? t then Some o else array_get r t
  end.

(* DecodingLayerSparse (parser.go:69-103): slice indexed by the layer type itself.
   LayerType is int64.  Put (:77-92): grow to max type, then dl[typ] = d for every typ
   (index panics for a negative typ).  makeslice_limit: append(dl, make([]DecodingLayer, extra)...)
   panics ("len out of range") when the new length times 16 bytes exceeds the 2^48 address space. *)
Definition csparse := list (option nat).
Definition makeslice_limit : Z := 2 ^ 44.
Definition sparse_put (dl : csparse) (cans : list Z) (o : nat) : outcome csparse :=
  let len := Z.of_nat (length dl) in
  let maxt := fold_left (fun m t => if t >? m then t else m) cans (len - 1) in   (* :78-83 *)
  let extra := int64 (maxt - len + 1) in                                        (* :85 *)
  obind (if extra >? 0
         then (if len + extra >? makeslice_limit then Panic 3
               else Ok (dl ++ repeat None (Z.to_nat extra)))                     (* :86 *)
         else Ok dl)
    (fun dl1 =>
       fold_left (fun acc t => obind acc (fun d =>
                    if (t <? 0) || (Z.of_nat (length d) <=? t) then Panic 1     (* :90 dl[typ] = d *)
                    else Ok (upd d (Z.to_nat t) (Some o))))
                 cans (Ok dl1)).

(* Decoder (:100-106).  fixed = true: the repaired bound check `typ >= 0 && ...`;
   fixed = false: the original code, which indexes dl[typ] with a negative typ. *)
Definition sparse_get (fixed : bool) (dl : csparse) (t : Z) : outcome (option nat) :=
  if t <? Z.of_nat (length dl) then
    if t <? 0 then (if fixed then Ok None else Panic 4)
    else Ok (nth (Z.to_nat t) dl None)                   (* decoder, decoder != nil *)
  else Ok None.

Inductive container :=
| CMap (m : cmap)
| CSparse (l : csparse)
| CArray (l : carray)
| CCustom (f : Z -> option nat).     (* any user container: only its lookup function matters *)

Definition lookup (fixed : bool) (c : container) (t : Z) : outcome (option nat) :=
  match c with
  | CMap m => Ok (map_get m t)
  | CSparse l => sparse_get fixed l t
  | CArray l => Ok (array_get l t)
  | CCustom f => Ok (f t)
  end.

(* the lookup every container has to implement: the last Put whose CanDecode contains t wins *)
Fixpoint spec_lookup (puts : list (list Z * nat)) (t : Z) : option nat :=
  match puts with
  | [] => None
  | (cans, o) :: r =>
      match spec_lookup r t with
      | Some o' => Some o'
      | None => if existsb (Z.eqb t) cans then Some o else None
      end
  end.

Definition put (c : container) (cans : list Z) (o : nat) : outcome container :=
  match c with
  | CMap m => Ok (CMap (map_put m cans o))
  | CSparse l => obind (sparse_put l cans o) (fun l' => Ok (CSparse l'))
  | CArray l => Ok (CArray (array_put l cans o))
  | CCustom f => Ok (CCustom (fun t => if existsb (Z.eqb t) cans then Some o else f t))
  end.

Definition put_all (c : container) (puts : list (list Z * nat)) : outcome container :=
  fold_left (fun acc p => obind acc (fun c => put c (fst p) (snd p))) puts (Ok c).

Definition empty_of (kind : Z) : container :=
  if kind =? 0 then CMap map_empty
  else if kind =? 1 then CSparse []
  else if kind =? 2 then CArray []
  else CCustom (fun _ => None).

(* ------------------------------------------------------------------ decoding layers *)
Section Family.
Variable St : Type.

Record dlayer := mkDL {
  can : list Z;                                   (* CanDecode().LayerTypes() *)
  dec : St -> list Z -> St * dclass * bool;         (* DecodeFromBytes: (state', class, SetTruncated called) *)
  next_of : St -> Z;                               (* NextLayerType() *)
  payload_of : St -> list Z;                       (* LayerPayload() *)
  zero : St                                        (* &T{} *)
}.

Definition family := list dlayer.
Definition store := list St.

Definition puts_of (fam : family) (sub : list nat) : list (list Z * nat) :=
  flat_map (fun o => match nth_error fam o with Some d => [(can d, o)] | None => [] end) sub.

(* ------------------------------------------------------------------ the decode loop *)
(* result of the DecodingLayerFunc: (typ, err) or a panic; LFuel never happens under progress *)
Inductive lres := LRet (typ : Z) (err : bool) | LPanic | LFuel.

Record lstate := mkL { l_store : store; l_decoded : list Z; l_trunc : bool; l_res : lres }.

(* layers_decoder.go:19-37 (= :39-57 = :59-77 = :80-98).  lk is dlc.Decoder. *)
Fixpoint loop (fuel : nat) (fam : family) (lk : Z -> outcome (option nat))
         (st : store) (typ : Z) (o : nat) (data : list Z) (decoded : list Z) (tr : bool) : lstate :=
  match fuel with
  | O => mkL st decoded tr LFuel
  | S fuel' =>
    match nth_error fam o, nth_error st o with
    | Some d, Some s =>
      let '(s', cls, t) := dec d s data in                        (* :24 decoder.DecodeFromBytes(data, df) *)
      let st' := upd st o s' in
      let tr' := tr || t in
      match cls with
      | DErr => mkL st' decoded tr' (LRet 0 true)                 (* :25 return LayerTypeZero, err *)
      | DPanic => mkL st' decoded tr' LPanic
      | DOk =>
        let decoded' := decoded ++ [typ] in                       (* :27 *)
        let typ' := next_of d s' in                               (* :28 *)
        let data' := payload_of d s' in                           (* :29 *)
        match data' with
        | [] => mkL st' decoded' tr' (LRet 0 false)               (* :29-31 break; :36 *)
        | _ :: _ =>
          match lk typ' with                                      (* :32 *)
          | Panic _ => mkL st' decoded' tr' LPanic
          | Err _ => mkL st' decoded' tr' LPanic
          | Ok None => mkL st' decoded' tr' (LRet typ' false)     (* :33 return typ, nil *)
          | Ok (Some o') => loop fuel' fam lk st' typ' o' data' decoded' tr'
          end
        end
      end
    | _, _ => mkL st decoded tr LPanic                            (* nil decoder: not reachable from Put *)
    end
  end.

(* ------------------------------------------------------------------ the parser *)
Record parser := mkP {
  p_cont : container;
  p_first : Z;
  p_firstdec : option nat;       (* firstDec, ok := dl.Decoder(first), captured by LayersDecoder :12 *)
  p_ignpanic : bool;
  p_ignunsup : bool
}.

(* SetDecodingLayerContainer (:233-236) -> LayersDecoder (:12): looks the first type up once *)
Definition set_container (fixed : bool) (c : container) (first : Z) (ip iu : bool) : outcome parser :=
  obind (lookup fixed c first) (fun fd => Ok (mkP c first fd ip iu)).

(* NewDecodingLayerParser / SetDecodingLayerContainer after Put-ting the layers *)
Definition new_parser (fixed : bool) (kind : Z) (first : Z) (ip iu : bool)
           (fam : family) (sub : list nat) : outcome parser :=
  obind (put_all (empty_of kind) (puts_of fam sub)) (fun c => set_container fixed c first ip iu).

(* AddDecodingLayer (:190-192) *)
Definition add_layer (fixed : bool) (p : parser) (fam : family) (o : nat) : outcome parser :=
  match nth_error fam o with
  | Some d => obind (put (p_cont p) (can d) o)
                (fun c => set_container fixed c (p_first p) (p_ignpanic p) (p_ignunsup p))
  | None => Ok p
  end.

(* what DecodeLayers returns *)
Inductive perr :=
| ENil                 (* nil *)
| EUnsup (t : Z)       (* UnsupportedLayerType(t) *)
| ELayer               (* the error returned by the failing layer's DecodeFromBytes *)
| ERecovered           (* panicToError: a panic turned into an error *)
| EPanic.              (* IgnorePanic: the panic propagates to the caller *)

Record presult := mkR { r_store : store; r_decoded : list Z; r_trunc : bool; r_err : perr }.

Definition fuel_for (data : list Z) : nat := S (length data).

(* DecodeLayers (:302-316).  fixed = true: the no-first-decoder closure also truncates
   *decoded (repaired layers_decoder.go:13-17); fixed = false: it leaves the caller's slice. *)
Definition decode_layers (fixed : bool) (fam : family) (p : parser) (st : store)
           (decoded0 : list Z) (data : list Z) : presult :=
  let l :=
    match p_firstdec p with
    | None => mkL st (if fixed then [] else decoded0) false (LRet (p_first p) false)   (* :13-17 *)
    | Some o => loop (fuel_for data) fam (lookup fixed (p_cont p)) st (p_first p) o data [] false
    end in
  let err :=
    match l_res l with
    | LPanic | LFuel => if p_ignpanic p then EPanic else ERecovered      (* :304-306 *)
    | LRet typ e =>
        if negb (typ =? 0) then (if p_ignunsup p then ENil else EUnsup typ)   (* :308-314 *)
        else if e then ELayer else ENil                                       (* :315 *)
    end in
  mkR (l_store l) (l_decoded l) (l_trunc l) err.

(* a sequence of packets into the same objects and the same `decoded` slice *)
Fixpoint decode_seq (fixed : bool) (fam : family) (p : parser) (st : store) (decoded0 : list Z)
         (pkts : list (list Z)) : list presult :=
  match pkts with
  | [] => []
  | d :: r => let res := decode_layers fixed fam p st decoded0 d in
              res :: decode_seq fixed fam p (r_store res) (r_decoded res) r
  end.

(* ------------------------------------------------------------------ reference: packet decoding *)
(* A simplified eager NewPacket over the same family: reg is the global LayerType -> decoder
   registry (layertype.go:86-98); every decode func is decodingLayerDecoder (base.go:39-50):
   fresh object, DecodeFromBytes, AddLayer, stop when NextLayerType is LayerTypeZero, else
   NextDecoder (packet.go:503-516: stop when the payload is empty).  A chain element records the
   type, the object (which struct), the state of the fresh object after decoding, the class and
   whether SetTruncated was called; only the last element can be non-DOk. *)
Record elem := mkE { e_typ : Z; e_obj : nat; e_state : St; e_cls : dclass; e_trunc : bool }.

Inductive pend :=
| PEmpty               (* payload exhausted *)
| PZero                (* NextLayerType() == LayerTypeZero *)
| PNoDecoder (t : Z)   (* no decoder registered for t: DecodeFailure layer *)
| PFailed              (* the last element returned an error or panicked: DecodeFailure layer *)
| PFuel.

Fixpoint pkt (fuel : nat) (fam : family) (reg : Z -> option nat) (typ : Z) (data : list Z)
  : list elem * pend :=
  match fuel with
  | O => ([], PFuel)
  | S fuel' =>
    match reg typ with
    | None => ([], PNoDecoder typ)
    | Some o =>
      match nth_error fam o with
      | None => ([], PNoDecoder typ)
      | Some d =>
        let '(s', cls, t) := dec d (zero d) data in
        let e := mkE typ o s' cls t in
        match cls with
        | DOk =>
          let typ' := next_of d s' in
          if typ' =? 0 then ([e], PZero)                          (* base.go:46-48 *)
          else match payload_of d s' with
               | [] => ([e], PEmpty)                              (* packet.go:511-513 *)
               | data' => let '(c, pe) := pkt fuel' fam reg typ' data' in (e :: c, pe)
               end
        | _ => ([e], PFailed)
        end
      end
    end
  end.

Definition packet_chain (fam : family) (reg : Z -> option nat) (first : Z) (data : list Z) :=
  pkt (fuel_for data) fam reg first data.

(* the leading run of the chain whose types are in the set and which decoded without error *)
Inductive stop := SEnd | SUnsup (t : Z) | SFail (e : elem).

Fixpoint run_prefix (insub : Z -> bool) (chain : list elem) : list elem * stop :=
  match chain with
  | [] => ([], SEnd)
  | e :: r =>
    if insub (e_typ e) then
      match e_cls e with
      | DOk => let '(p, s) := run_prefix insub r in (e :: p, s)
      | _ => ([], SFail e)
      end
    else ([], SUnsup (e_typ e))
  end.

(* what the parser must report, computed from packet decoding alone *)
(* DecodeLayers :308-314: LayerTypeZero cannot be told from "done", IgnoreUnsupported hides the rest *)
Definition unsup_err (iu : bool) (t : Z) : perr := if iu || (t =? 0) then ENil else EUnsup t.

Definition expected_err (ip iu : bool) (s : stop) (pe : pend) : perr :=
  match s with
  | SUnsup t => unsup_err iu t
  | SFail e => match e_cls e with
               | DPanic => if ip then EPanic else ERecovered
               | _ => ELayer
               end
  | SEnd => match pe with
            | PNoDecoder t => unsup_err iu t
            | PFuel => if ip then EPanic else ERecovered
            | _ => ENil
            end
  end.

Definition touched (pre : list elem) (s : stop) : list elem :=
  pre ++ match s with SFail e => [e] | _ => [] end.

Definition expected_store (st0 : store) (tch : list elem) : store :=
  fold_left (fun st e => upd st (e_obj e) (e_state e)) tch st0.

Definition expected_trunc (tch : list elem) : bool := existsb e_trunc tch.

Definition spec_parse (fam : family) (reg : Z -> option nat) (insub : Z -> bool)
           (first : Z) (ip iu : bool) (st0 : store) (data : list Z) : presult :=
  let '(chain, pe) := packet_chain fam reg first data in
  let '(pre, s) := run_prefix insub chain in
  let tch := touched pre s in
  mkR (expected_store st0 tch) (map e_typ pre) (expected_trunc tch) (expected_err ip iu s pe).

End Family.

Arguments mkDL {St}.
Arguments can {St}. Arguments dec {St}. Arguments next_of {St}. Arguments payload_of {St}. Arguments zero {St}.
Arguments mkR {St}. Arguments r_store {St}. Arguments r_decoded {St}.
Arguments r_trunc {St}. Arguments r_err {St}. Arguments mkE {St}.
Arguments e_typ {St}. Arguments e_obj {St}. Arguments e_state {St}. Arguments e_cls {St}. Arguments e_trunc {St}.
Arguments mkL {St}. Arguments l_store {St}. Arguments l_decoded {St}. Arguments l_trunc {St}. Arguments l_res {St}.
Arguments puts_of {St}. Arguments loop {St}. Arguments new_parser {St}. Arguments add_layer {St}.
Arguments decode_layers {St}. Arguments decode_seq {St}. Arguments pkt {St}. Arguments packet_chain {St}.
Arguments SEnd {St}. Arguments SUnsup {St}. Arguments SFail {St}.
Arguments run_prefix {St}. Arguments expected_err {St}. Arguments touched {St}. Arguments expected_store {St}.
Arguments expected_trunc {St}. Arguments spec_parse {St}.

(* ------------------------------------------------------------------ scripted family *)
(* The synthetic decoding layers used by the correspondence harness (the same table is
   implemented in Go by harness/cmd/gpverif/c05parser.go `synLayer`).  The state of a synthetic
   object is its observable fields. *)
Record sstate := mkS { s_contents : list Z; s_payload : list Z; s_next : Z; s_opt : Z; s_count : Z }.

Record srow := mkRow {
  w_can : list Z;
  w_mode : Z;      (* 0: fixed row; 1: header-driven (reads its behaviour from the data) *)
  w_clen : Z;      (* mode 0: contents length *)
  w_next : Z;      (* mode 0: next layer type; mode 1: added to the signed header byte *)
  w_out : Z;       (* mode 0: 0 ok, 1 error, 2 panic *)
  w_trunc : bool;  (* mode 0: call SetTruncated *)
  w_sticky : bool  (* opt is only assigned when present (a stale-state defect, on purpose) *)
}.

Definition sbyte (b : Z) : Z := if b <? 128 then b else b - 256.

Definition cls_of (o : Z) : dclass := if o =? 1 then DErr else if o =? 2 then DPanic else DOk.

(* DecodeFromBytes of a synthetic layer.  count is incremented on every call and never reset
   (a stale field present in every synthetic layer; it is not part of the observation used by
   the oracle but is compared between model and implementation). *)
Definition syn_dec (w : srow) (old : sstate) (data : list Z) : sstate * dclass * bool :=
  let n := Z.of_nat (length data) in
  let cnt := s_count old + 1 in
  if w_mode w =? 0 then
    if n <? w_clen w then (mkS (s_contents old) (s_payload old) (s_next old) (s_opt old) cnt, DErr, true)
    else
      let k := Z.to_nat (w_clen w) in
      let present := Z.odd n in
      let opt := if present then last data 0 else if w_sticky w then s_opt old else 0 in
      (mkS (firstn k data) (skipn k data) (w_next w) opt cnt, cls_of (w_out w), w_trunc w)
  else
    if n <? 4 then (mkS (s_contents old) (s_payload old) (s_next old) (s_opt old) cnt, DErr, true)
    else
      let clen := nthZ data 0 in
      let nx := w_next w + sbyte (nthZ data 1) in
      let fl := nthZ data 2 in
      if (clen <? 4) then (mkS (s_contents old) (s_payload old) (s_next old) (s_opt old) cnt, DErr, false)
      else if n <? clen then (mkS (s_contents old) (s_payload old) (s_next old) (s_opt old) cnt, DErr, true)
      else
        let k := Z.to_nat clen in
        let present := Z.testbit fl 3 in
        let opt := if present then nthZ data 3 else if w_sticky w then s_opt old else 0 in
        (mkS (firstn k data) (skipn k data) nx opt cnt, cls_of (Z.land fl 3), Z.testbit fl 2).

Definition szero : sstate := mkS [] [] 0 0 0.

Definition syn_layer (w : srow) : dlayer sstate :=
  mkDL (w_can w) (syn_dec w) s_next s_payload szero.

(* ops of a case *)
Inductive op :=
| ONew (kind : Z) (first : Z) (ip iu : bool) (sub : list nat)
| OAdd (o : nat)
| OPkt (data : list Z).

Record obs := mkO {
  o_kind : Z;                 (* 0 new/add, 1 pkt *)
  o_panic : bool;             (* construction panicked *)
  o_res : option (presult sstate)
}.

Record rstate := mkRS {
  rs_parser : option parser;
  rs_store : list sstate;
  rs_decoded : list Z
}.

Definition run_op (fixed : bool) (fam : family sstate) (rs : rstate) (o : op) : rstate * obs :=
  match o with
  | ONew kind first ip iu sub =>
      match new_parser fixed kind first ip iu fam sub with
      | Ok p => (mkRS (Some p) (map (fun d => zero d) fam) (rs_decoded rs), mkO 0 false None)
      | _ => (mkRS None (map (fun d => zero d) fam) (rs_decoded rs), mkO 0 true None)
      end
  | OAdd k =>
      match rs_parser rs with
      | None => (rs, mkO 0 true None)
      | Some p =>
          match add_layer fixed p fam k with
          | Ok p' => (mkRS (Some p') (rs_store rs) (rs_decoded rs), mkO 0 false None)
          | _ => (mkRS None (rs_store rs) (rs_decoded rs), mkO 0 true None)
          end
      end
  | OPkt data =>
      match rs_parser rs with
      | None => (rs, mkO 1 true None)
      | Some p =>
          let r := decode_layers fixed fam p (rs_store rs) (rs_decoded rs) data in
          (mkRS (Some p) (r_store r) (r_decoded r), mkO 1 false (Some r))
      end
  end.

Fixpoint run_ops (fixed : bool) (fam : family sstate) (rs : rstate) (ops : list op) : list obs :=
  match ops with
  | [] => []
  | o :: r => let '(rs', ob) := run_op fixed fam rs o in ob :: run_ops fixed fam rs' r
  end.

Definition run_case (fixed : bool) (rows : list srow) (ops : list op) : list obs :=
  run_ops fixed (map syn_layer rows) (mkRS None [] []) ops.
