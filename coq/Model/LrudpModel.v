(* Lrudp — executable model of layers/rudp.go (Reliable UDP header decoder).  Definitions only.
   /repo/layers/rudp.go: decodeRUDP :44-103, TransportFlow :105-107.  RUDP has no DecodeFromBytes (the decoder
   function builds a new layer per call: C05 n/a) and no SerializeTo (C06/C07 n/a).  The layer observed after
   an error is the zero value (nothing was added). *)
From GP Require Import Base Codec MiscLib.
Open Scope Z_scope.
Record rudp := mkRu {
  ru_contents : list Z; ru_payload : list Z;
  ru_syn : bool; ru_ack : bool; ru_eack : bool; ru_rst : bool; ru_nul : bool; ru_version : Z; ru_hlen : Z; ru_sport : Z; ru_dport : Z;
  ru_dlen : Z; ru_seq : Z; ru_ackn : Z; ru_csum : Z; ru_vha : list Z;
  ru_synhdr : option (Z * Z * Z); ru_eackhdr : option (list Z) }.
Definition ru_fresh : rudp := mkRu [] [] false false false false false 0 0 0 0 0 0 0 0 [] None None.

(* :93-96 the received sequence numbers, four octets each *)
Fixpoint ru_seqs (k : nat) (d : list Z) (off : Z) : outcome (list Z) :=
  match k with
  | O => Ok []
  | S k' => obind (ml_rd32 d off) (fun s => obind (ru_seqs k' d (off + 4)) (fun r => Ok (s :: r)))
  end.

Definition ru_decode (data : list Z) : rudp * outcome unit * bool :=
  let n := zlen data in
  if n <? 18 then (ru_fresh, Err 1, true) else                            (* :45-48 *)
  ml_bind (cd_idx data 0) ru_fresh false (fun b0 =>
  ml_bind (cd_idx data 1) ru_fresh false (fun hl =>
  ml_bind (cd_idx data 2) ru_fresh false (fun sp =>
  ml_bind (cd_idx data 3) ru_fresh false (fun dp =>
  ml_bind (cd_rd16 data 4) ru_fresh false (fun dl =>
  ml_bind (ml_rd32 data 6) ru_fresh false (fun sq =>
  ml_bind (ml_rd32 data 10) ru_fresh false (fun ak =>
  ml_bind (ml_rd32 data 14) ru_fresh false (fun cs =>
  if hl <? 9 then (ru_fresh, Err 2, false) else                           (* :64-66 *)
  let hlen := hl * 2 in
  if n <? hlen then (ru_fresh, Err 3, true) else                          (* :68-71 *)
  let pend := hlen + dl in
  if n <? pend then (ru_fresh, Err 4, true) else                          (* :72-76 *)
  ml_bind (cd_slc data 0 hlen) ru_fresh false (fun c =>                   (* :77 *)
  ml_bind (cd_slc data hlen pend) ru_fresh false (fun p =>                (* :78 *)
  ml_bind (cd_slc data 18 hlen) ru_fresh false (fun vha =>                (* :79 *)
  let syn := (b0 / 128) mod 2 =? 1 in let eack := (b0 / 32) mod 2 =? 1 in
  let mk := fun sh eh => mkRu c p syn ((b0 / 64) mod 2 =? 1) eack ((b0 / 16) mod 2 =? 1) ((b0 / 8) mod 2 =? 1) (b0 mod 4) hl sp dp dl sq ak cs vha sh eh in
  if syn then                                                             (* :82 *)
    if negb (zlen vha =? 6) then (ru_fresh, Err 5, false) else            (* :83-85 *)
    ml_bind (cd_rd16 vha 0) ru_fresh false (fun a => ml_bind (cd_rd16 vha 2) ru_fresh false (fun b => ml_bind (cd_rd16 vha 4) ru_fresh false (fun c3 =>
    (mk (Some (a, b, c3)) None, Ok tt, false))))                          (* :86-90 *)
  else if eack then                                                       (* :91 *)
    if negb (zlen vha mod 4 =? 0) then (ru_fresh, Err 6, false) else      (* :92-94 *)
    ml_bind (ru_seqs (Z.to_nat (zlen vha / 4)) vha 0) ru_fresh false (fun s => (mk None (Some s), Ok tt, false))   (* :95-98 *)
  else (mk None None, Ok tt, false)))))))))))).
Definition ru_next (l : rudp) : Z := 0.   (* LayerTypePayload *)
Definition ru_render_panics (l : rudp) : bool := false.
