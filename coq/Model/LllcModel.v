(* Lllc — executable model of layers/llc.go (LLC and SNAP codecs).  Definitions only.
   Line numbers of the repaired /repo/layers/llc.go (agent-lmisc): LLC.DecodeFromBytes :31-54,
   LLC.NextLayerType :61-69, SNAP.DecodeFromBytes :88-96, SNAP.NextLayerType :104-107,
   LLC.SerializeTo :135-181, SNAP.SerializeTo :185-199.
   For a byte b: b & 0xFE is (b / 2) * 2, b & 1 is b mod 2, b & 3 is b mod 4. *)
From GP Require Import Base Codec MiscLib.
Open Scope Z_scope.

Record llc := mkLlc {
  c_contents : list Z; c_payload : list Z;
  c_dsap : Z; c_ig : bool; c_ssap : Z; c_cr : bool; c_control : Z }.

Definition llc_fresh : llc := mkLlc [] [] 0 false 0 false 0.

(* neither error path calls SetTruncated *)
Definition llc_decode_into (old : llc) (data : list Z) : llc * outcome unit * bool :=
  let n := zlen data in
  if n <? 3 then (old, Err 1, false) else                                     (* :32-34 *)
  ml_bind (cd_idx data 0) old false (fun b0 =>
  ml_bind (cd_idx data 1) old false (fun b1 =>
  ml_bind (cd_idx data 2) old false (fun b2 =>
  let l1 := mkLlc (c_contents old) (c_payload old) ((b0 / 2) * 2) (b0 mod 2 =? 1)   (* :35-39 *)
                  ((b1 / 2) * 2) (b1 mod 2 =? 1) b2 in
  if (b2 mod 2 =? 0) || (b2 mod 4 =? 1) then                                  (* :41 *)
    if n <? 4 then (l1, Err 2, false) else                                    (* :42-44 *)
    ml_bind (cd_idx data 3) l1 false (fun b3 =>
    ml_bind (cd_slc data 0 4) l1 false (fun contents =>
    ml_bind (cd_slc data 4 n) l1 false (fun payload =>
    (mkLlc contents payload (c_dsap l1) (c_ig l1) (c_ssap l1) (c_cr l1)
           (Z.lor ((b2 * 256) mod 65536) b3), Ok tt, false))))                (* :45-47 *)
  else
    ml_bind (cd_slc data 0 3) l1 false (fun contents =>                       (* :49-50 *)
    ml_bind (cd_slc data 3 n) l1 false (fun payload =>
    (mkLlc contents payload (c_dsap l1) (c_ig l1) (c_ssap l1) (c_cr l1) b2, Ok tt, false)))))).

(* NextLayerType: 1 = SNAP, 2 = STP, 0 = LayerTypeZero *)
Definition llc_next (l : llc) : Z :=
  if (c_dsap l =? 170) && (c_ssap l =? 170) then 1
  else if (c_dsap l =? 66) && (c_ssap l =? 66) then 2 else 0.

(* SerializeTo; `orig` selects the length rule before the repair (Control & 0xFF00 != 0 only) *)
Definition llc_serialize_gen (orig : bool) (l : llc) (payload : list Z) (fixl csum : bool) (junk : list Z)
    : outcome (list Z) * llc :=
  let four := if orig then negb (c_control l / 256 =? 0)
              else negb (c_control l / 256 =? 0) || negb (c_control l mod 4 =? 3) in   (* :141-147 *)
  let length := if four then 4 else 3 in
  if negb (c_dsap l mod 2 =? 0) then (Err 1, l) else                          (* :149-151 *)
  if negb (c_ssap l mod 2 =? 0) then (Err 2, l) else                          (* :153-155 *)
  let buf := cd_region length junk in                                         (* :155 *)
  let ig := if c_ig l then 1 else 0 in
  let cr := if c_cr l then 1 else 0 in
  let r :=
    obind (ml_wrc buf 0 [(c_dsap l + ig) mod 256]) (fun b =>                  (* :168 *)
    obind (ml_wrc b 1 [(c_ssap l + cr) mod 256]) (fun b =>                    (* :169 *)
    if four then
      obind (ml_wrc b 2 [(c_control l / 256) mod 256]) (fun b =>              (* :172 *)
      ml_wrc b 3 [c_control l mod 256])                                       (* :173 *)
    else ml_wrc b 2 [c_control l mod 256])) in                                (* :175 *)
  match r with
  | Ok b => (Ok (b ++ payload), l)
  | Err c => (Err c, l)
  | Panic s => (Panic s, l)
  end.

Definition llc_serialize := llc_serialize_gen false.
Definition llc_serialize_orig := llc_serialize_gen true.

(* LLC and SNAP have no String method and no flow accessor *)
Definition llc_render_panics (l : llc) : bool := false.

(* ---------------------------------------------------------------- SNAP *)
Record snap := mkSnap { s_contents : list Z; s_payload : list Z; s_oui : list Z; s_type : Z }.
Definition snap_fresh : snap := mkSnap [] [] [] 0.

Definition snap_decode_into (old : snap) (data : list Z) : snap * outcome unit * bool :=
  let n := zlen data in
  if n <? 5 then (old, Err 1, false) else                                     (* :89-91 *)
  ml_bind (cd_slc data 0 3) old false (fun oui =>                             (* :92 *)
  ml_bind (cd_rd16 data 3) old false (fun ty =>                               (* :93 *)
  ml_bind (cd_slc data 0 5) old false (fun contents =>                        (* :94 *)
  ml_bind (cd_slc data 5 n) old false (fun payload =>
  (mkSnap contents payload oui ty, Ok tt, false))))).

(* NextLayerType: Type.LayerType(); abstract id = the EthernetType value *)
Definition snap_next (l : snap) : Z := s_type l.

(* `orig`: without the length guard added by the repair *)
Definition snap_serialize_gen (orig : bool) (l : snap) (payload : list Z) (fixl csum : bool) (junk : list Z)
    : outcome (list Z) * snap :=
  if negb orig && (zlen (s_oui l) <? 3) then (Err 1, l) else                  (* :186-188 *)
  let buf := cd_region 5 junk in                                              (* :189 *)
  let r :=
    obind (cd_idx (s_oui l) 0) (fun o0 =>                                     (* :192 *)
    obind (ml_wrc buf 0 [o0]) (fun b =>
    obind (cd_idx (s_oui l) 1) (fun o1 =>                                     (* :193 *)
    obind (ml_wrc b 1 [o1]) (fun b =>
    obind (cd_idx (s_oui l) 2) (fun o2 =>                                     (* :194 *)
    obind (ml_wrc b 2 [o2]) (fun b =>
    ml_wrc b 3 (cd_put16 (s_type l)))))))) in                                 (* :195 *)
  match r with
  | Ok b => (Ok (b ++ payload), l)
  | Err c => (Err c, l)
  | Panic s => (Panic s, l)
  end.

Definition snap_serialize := snap_serialize_gen false.
Definition snap_serialize_orig := snap_serialize_gen true.
Definition snap_render_panics (l : snap) : bool := false.
