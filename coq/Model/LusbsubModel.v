(* Lusbsub — executable model of the three content-only USB sub-layers of layers/usb.go that Lusb does not model:
   USBControl :239-258, USBInterrupt :259-278, USBBulk :279-298 (identical code: `m.Contents = data; return nil`,
   NextLayerType = payload, decoder function = decodingLayerDecoder on a new object).  Definitions only.
   No SerializeTo (C06/C07 n/a).  DecodeFromBytes assigns only Contents: Payload keeps whatever the receiver held (nil for every
   object that was only ever decoded into).  `kind` (0 control, 1 interrupt, 2 bulk) selects the Go type; the code is the same.
   USBRequestBlockSetup is modelled by LusbModel.us_decode_into. *)
From GP Require Import Base Codec MiscLib.
Open Scope Z_scope.
Record usbsub := mkUb { ub_contents : list Z; ub_payload : list Z }.
Definition ub_fresh : usbsub := mkUb [] [].
Definition ub_decode_into (kind : Z) (old : usbsub) (data : list Z) : usbsub * outcome unit * bool :=
  (mkUb data (ub_payload old), Ok tt, false).
Definition ub_next (l : usbsub) : Z := 0.
Definition ub_render_panics (l : usbsub) : bool := false.
(* the states a reused object can be in: reached from the zero object by decodes *)
Definition ub_reach (kind : Z) (inputs : list (list Z)) : usbsub :=
  fold_left (fun l d => fst (fst (ub_decode_into kind l d))) inputs ub_fresh.
(* decodeUSBControl / decodeUSBInterrupt / decodeUSBBulk: decodingLayerDecoder (layers/base.go:38-49) on a new object: the layer
   is added and LayerTypePayload (id 0) handed to NextDecoder *)
Definition ub_decode_fn (kind : Z) (data : list Z) : usbsub * bool * option Z * outcome unit * bool :=
  let '(l, o, tr) := ub_decode_into kind ub_fresh data in
  match o with
  | Ok _ => (l, true, Some (ub_next l), Ok tt, tr)
  | _ => (l, false, None, o, tr)
  end.
