(* Lague1 — executable model of layers/ague_var1.go (Generic UDP Encapsulation variant 1: a header of no octets; the
   encapsulated IP packet announces itself by its version nibble) and of the dispatcher decodeAGUE (ague_var0.go:103-116)
   that is registered for both AGUE layer types.  Definitions only.
   /repo/layers/ague_var1.go: LayerContents :32-35 (empty), SerializeTo :43-45 (writes nothing), DecodeFromBytes :56-70,
   NextLayerType :73-75 (IPProtocol metadata table, abstract: the id is the protocol number), decodeAGUEVar1 :80-87. *)
From GP Require Import Base Codec MiscLib LagueModel.
Open Scope Z_scope.

Record ague1 := mkA1 { a1_proto : Z; a1_data : list Z }.
Definition a1_fresh : ague1 := mkA1 0 [].

Definition a1_decode_into (old : ague1) (data : list Z) : ague1 * outcome unit * bool :=
  if zlen data <? 1 then (old, Err 1, false) else                         (* :57-59 no SetTruncated anywhere *)
  ml_bind (cd_idx data 0) old false (fun b0 =>                            (* :60 *)
  let v := b0 / 16 in
  if v =? 4 then (mkA1 4 data, Ok tt, false)                              (* :61-62, :68 IPProtocolIPv4 = 4 *)
  else if v =? 6 then (mkA1 41 data, Ok tt, false)                        (* :63-64, :68 IPProtocolIPv6 = 41 *)
  else (old, Err 2, false)).                                              (* :65-67 *)

Definition a1_next (l : ague1) : Z := a1_proto l.                         (* :73-75 *)
Definition a1_serialize (l : ague1) (payload : list Z) (fixl csum : bool) (junk : list Z) : outcome (list Z) * ague1 := (Ok payload, l).   (* :43-45 *)
Definition a1_render_panics (l : ague1) : bool := false.

(* decodeAGUE ague_var0.go:103-116 and decodeAGUEVar1 ague_var1.go:80-87: both decode into a new object with
   gopacket.NilDecodeFeedback (the truncated flag never reaches the packet), add the layer VALUE and hand
   Protocol.LayerType() to NextDecoder.  Result: variant (0 none added, 1 AGUEVar0, 2 AGUEVar1), the two objects,
   the protocol number handed on, outcome; truncated is always false. *)
Definition ag_decode_fn (data : list Z) : Z * ague * ague1 * option Z * outcome unit * bool :=
  if zlen data =? 0 then (0, ag_fresh, a1_fresh, None, Err 3, false) else                 (* :104-106 *)
  match cd_idx data 0 with
  | Ok b0 =>
    if b0 / 64 =? 1 then                                                                   (* :107-109 *)
      let '(l, o, _) := a1_decode_into a1_fresh data in
      match o with
      | Ok _ => (2, ag_fresh, l, Some (a1_next l), Ok tt, false)
      | _ => (0, ag_fresh, l, None, o, false)
      end
    else
      let '(l, o, _) := ag_decode_into ag_fresh data in                                    (* :110-113 *)
      match o with
      | Ok _ => (1, l, a1_fresh, Some (ag_next l), Ok tt, false)                           (* :114-115 *)
      | _ => (0, l, a1_fresh, None, o, false)
      end
  | Err e => (0, ag_fresh, a1_fresh, None, Err e, false)
  | Panic s => (0, ag_fresh, a1_fresh, None, Panic s, false)
  end.
