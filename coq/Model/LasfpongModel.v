(* Lasfpong — executable model of layers/asf_presencepong.go (ASF presence pong codec).  Definitions only.
   /repo/layers/asf_presencepong.go: SupportsDCMI :112-114, DecodeFromBytes :124-143, NextLayerType :145-147, SerializeTo :149-183.
   OEM is a [4]byte array: four octet fields.  Octets 10..15 (reserved) are not kept by the decoder and written as 0; of octets
   8 and 9 only bits 7,0 and 7,5 are kept. *)
From GP Require Import Base Codec MiscLib.
Open Scope Z_scope.
Record pong := mkPg { pg_contents : list Z; pg_payload : list Z; pg_ent : Z; pg_o0 : Z; pg_o1 : Z; pg_o2 : Z; pg_o3 : Z;
  pg_ipmi : bool; pg_asf1 : bool; pg_sec : bool; pg_dash : bool }.
Definition pg_fresh : pong := mkPg [] [] 0 0 0 0 0 false false false false.
(* data[k] & (1 << b) != 0 on an octet *)
Definition pg_bit (x b : Z) : bool := (x / 2 ^ b) mod 2 =? 1.
Definition pg_decode_into (old : pong) (data : list Z) : pong * outcome unit * bool :=
  let n := zlen data in
  if n <? 16 then (old, Err 1, true) else
  ml_bind (cd_slc data 0 16) old false (fun c =>
  ml_bind (cd_slc data 16 n) old false (fun p =>
  ml_bind (ml_rd32 data 0) old false (fun ent =>
  ml_bind (cd_idx data 4) old false (fun o0 =>
  ml_bind (cd_idx data 5) old false (fun o1 =>
  ml_bind (cd_idx data 6) old false (fun o2 =>
  ml_bind (cd_idx data 7) old false (fun o3 =>
  ml_bind (cd_idx data 8) old false (fun e =>
  ml_bind (cd_idx data 9) old false (fun ia =>
  (mkPg c p ent o0 o1 o2 o3 (pg_bit e 7) (pg_bit e 0) (pg_bit ia 7) (pg_bit ia 5), Ok tt, false)))))))))).
(* NextLayerType: always the payload *)
Definition pg_next (l : pong) : Z := 0.
(* SupportsDCMI *)
Definition pg_dcmi (l : pong) : bool := (pg_ent l =? 36465) && pg_ipmi l && pg_asf1 l.
Definition pg_b2z (b : bool) (v : Z) : Z := if b then v else 0.
Definition pg_hdr (l : pong) : list Z :=
  ml_put32 (pg_ent l) ++ [pg_o0 l mod 256; pg_o1 l mod 256; pg_o2 l mod 256; pg_o3 l mod 256;
    pg_b2z (pg_ipmi l) 128 + pg_b2z (pg_asf1 l) 1; pg_b2z (pg_sec l) 128 + pg_b2z (pg_dash l) 32; 0; 0; 0; 0; 0; 0].
(* SerializeTo ignores the options; every one of the 16 prepended octets is written *)
Definition pg_serialize (l : pong) (payload : list Z) (fixl csum : bool) (junk : list Z) : outcome (list Z) * pong :=
  match ml_wrc (cd_region 16 junk) 0 (pg_hdr l) with
  | Ok b => (Ok (b ++ payload), l) | Err c => (Err c, l) | Panic s => (Panic s, l)
  end.
(* LayerString etc. are reflective; SupportsDCMI reads three fields *)
Definition pg_render_panics (l : pong) : bool := false.
