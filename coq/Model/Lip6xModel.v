(* Lip6 (extension) — IPv6Fragment and IPv6Routing of layers/ip6.go (repaired tree).
   Both are decoded by decode functions (decodeIPv6Fragment, decodeIPv6Routing) into a fresh layer
   object: there is no DecodeFromBytes and so no reuse (C05 does not apply).  No proofs here. *)
From GP Require Import Base N6Lib Lip6Model.
Open Scope Z_scope.

(* ================================================================ IPv6Fragment *)

Record frag := mkFrag {
  f_next : Z; f_res1 : Z; f_offset : Z; f_res2 : Z; f_more : bool; f_ident : Z;
  f_contents : list Z; f_payload : list Z }.

(* decodeIPv6Fragment: outcome and SetTruncated *)
Definition frag_decode (data : list Z) : outcome frag * bool :=
  if n6_len data <? 8 then (Err 1, true)
  else
    match n6_idx data 0, n6_idx data 1, n6_slice data 2 4, n6_idx data 3, n6_slice data 4 8 with
    | Some nh, Some r1, Some fo, Some b3, Some idb =>
        match n6_slice data 0 8, n6_from data 8 with
        | Some c, Some p =>
            (* FragmentOffset: Uint16(data[2:4]) >> 3; Reserved2: data[3]&0x6>>1; MoreFragments: data[3]&1 *)
            (Ok (mkFrag nh r1 (be_val fo / 8) ((b3 / 2) mod 4) (b3 mod 2 =? 1) (be_val idb) c p), false)
        | _, _ => (Panic 1, false)
        end
    | _, _, _, _, _ => (Panic 2, false)
    end.

(* the layer is continued with gopacket.DecodeFragment; as a layer type id that is LayerTypeFragment = 3 *)
Definition frag_next (f : frag) : Z := 3.

(* IPv6Fragment.SerializeTo: all eight octets are assigned *)
Definition frag_bytes (f : frag) : list Z :=
  let w := be_bytes 2 (u16 (f_offset f * 8)) in
  let b2 := nthZ w 0 in
  let b3 := Z.lor (Z.lor (nthZ w 1) (Z.land (u8 (f_res2 f * 2)) 6)) (if f_more f then 1 else 0) in
  [u8 (f_next f); u8 (f_res1 f); b2; b3] ++ be_bytes 4 (f_ident f).

Definition frag_serialize (f : frag) (payload : list Z) (fix_ csum : bool) (junk : list Z) : outcome (list Z) * frag :=
  let region := fst (n6_take 8 junk) in
  match write_segs region 0 [frag_bytes f] with
  | Some hdr => (Ok (hdr ++ payload), f)
  | None => (Panic 3, f)
  end.

Definition frag_okb (f : frag) : bool :=
  byte_okb (f_next f) && byte_okb (f_res1 f) && (0 <=? f_offset f) && (f_offset f <? 8192)
  && (0 <=? f_res2 f) && (f_res2 f <? 4) && (0 <=? f_ident f) && (f_ident f <? 4294967296).

(* ================================================================ IPv6Routing *)

Record rtg := mkRtg {
  r_next : Z; r_hlen : Z; r_alen : Z;
  r_type : Z; r_segleft : Z; r_reserved : list Z;
  r_ips : list (list Z);
  r_contents : list Z; r_payload : list Z }.

(* for d := Contents[8:]; len(d) >= 16; d = d[16:] { append(d[:16]) } *)
Fixpoint chunks16 (fuel : nat) (d : list Z) : list (list Z) :=
  match fuel with
  | O => []
  | S f => if 16 <=? n6_len d then firstn 16 d :: chunks16 f (skipn 16 d) else []
  end.

(* decodeIPv6Routing *)
Definition rtg_decode (data : list Z) : outcome rtg * bool :=
  (* decodeIPv6ExtensionBase *)
  if n6_len data <? 2 then (Err 1, true)
  else
    match n6_idx data 0, n6_idx data 1 with
    | Some nh, Some hl =>
        let al := hl * 8 + 8 in
        if n6_len data <? al then (Err 2, false)
        else
          match n6_slice data 0 al, n6_from data al, n6_idx data 2, n6_idx data 3, n6_slice data 4 8 with
          | Some c, Some p, Some ty, Some sl, Some res =>
              if ty =? 0 then
                if negb ((al - 8) mod 16 =? 0) then (Err 3, false)
                else
                  match n6_from c 8 with
                  | Some d => (Ok (mkRtg nh hl al ty sl res (chunks16 (S (length d)) d) c p), false)
                  | None => (Panic 4, false)
                  end
              else (Err 4, false)
          | _, _, _, _, _ => (Panic 5, false)
          end
    | _, _ => (Panic 6, false)
    end.

Definition rtg_next (r : rtg) : Z := ipproto_layertype (r_next r).

(* net.IP.To16: a 4-octet address becomes the IPv4-mapped one, anything else but 16 octets is nil *)
Definition to16 (ip : list Z) : list Z :=
  if n6_len ip =? 16 then ip
  else if n6_len ip =? 4 then [0; 0; 0; 0; 0; 0; 0; 0; 0; 0; 255; 255] ++ ip
  else [].

(* copy into a slot of n octets, the rest cleared (repaired code) *)
Definition slot (n : nat) (src : list Z) : list Z := firstn n src ++ repeat 0 (n - length (firstn n src)).

(* IPv6Routing.SerializeTo (repaired): the segments written one after the other into the
   PrependBytes(8 + 16*len(SourceRoutingIPs)) region; hdrExtLen = 16n/8 *)
Definition rtg_segs (r : rtg) : list (list Z) :=
  let n := Z.of_nat (length (r_ips r)) in
  [[u8 (r_next r); u8 (2 * n); u8 (r_type r); u8 (r_segleft r)]; slot 4 (r_reserved r)]
  ++ map (fun ip => slot 16 (to16 ip)) (r_ips r).

Definition rtg_serialize (r : rtg) (payload : list Z) (fix_ csum : bool) (junk : list Z) : outcome (list Z) * rtg :=
  let region := fst (n6_take (8 + 16 * length (r_ips r)) junk) in
  match write_segs region 0 (rtg_segs r) with
  | Some hdr => (Ok (hdr ++ payload), r)
  | None => (Panic 7, r)
  end.

(* the unchanged code left the reserved octets and the address slots as they were when the
   source was short *)
Definition slot_orig (n : nat) (src region : list Z) : list Z := n6_put region 0 (firstn n src).
Definition rtg_serialize_orig (r : rtg) (payload : list Z) (junk : list Z) : outcome (list Z) :=
  let region := fst (n6_take (8 + 16 * length (r_ips r)) junk) in
  let n := Z.of_nat (length (r_ips r)) in
  let r1 := n6_put region 0 [u8 (r_next r); u8 (2 * n); u8 (r_type r); u8 (r_segleft r)] in
  let r2 := n6_put r1 4 (firstn 4 (r_reserved r)) in
  Ok (fst (fold_left (fun '(b, off) ip => (n6_put b off (firstn 16 (to16 ip)), (off + 16)%nat)) (r_ips r) (r2, 8%nat)) ++ payload).

Definition rtg_okb (r : rtg) : bool :=
  byte_okb (r_next r) && (r_type r =? 0) && byte_okb (r_segleft r)
  && bytes_okb (r_reserved r) && (n6_len (r_reserved r) =? 4)
  && forallb (fun ip => bytes_okb ip && (n6_len ip =? 16)) (r_ips r) && (Z.of_nat (length (r_ips r)) <=? 127).

(* renderers: reflective, total *)
Definition frag_render_panics (f : frag) : bool := false.
Definition rtg_render_panics (r : rtg) : bool := false.
