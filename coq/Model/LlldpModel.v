(* Llldp — executable model of layers/lldp.go: decodeLinkLayerDiscovery :801-905 (TLV walk, mandatory
   TLVs, the LinkLayerDiscoveryInfo pass over the remaining values), SerializeTo :769-799 with
   LLDPChassisID/LLDPPortID.serialize :64-76/:98-110.  Definitions only.
   The layer has no DecodeFromBytes (C05 does not apply): the decoder function builds new objects and
   adds up to two layers; `ll_added` says how many (0: error before AddLayer; 2: both added, a later
   error leaves them in the packet).  The typed Info decoders (Decode8021, Decode8023, ...) are not modelled.
   Management address: as repaired, the lengths are computed in int and a zero address length is
   rejected (`w` = true gives the original uint8 arithmetic; there slices are checked against len,
   which is stricter than Go's check against cap). *)
From GP Require Import Base Codec MiscLib MidLib.
Open Scope Z_scope.

Record lval := mkLv { lv_type : Z; lv_len : Z; lv_value : list Z }.
Record lorg := mkOrg { lo_oui : Z; lo_sub : Z; lo_info : list Z }.
Record linfo := mkLi {
  li_portdesc : list Z; li_sysname : list Z; li_sysdesc : list Z; li_syscap : Z; li_encap : Z;
  li_msub : Z; li_maddr : list Z; li_mifsub : Z; li_mifnum : Z; li_moid : list Z; li_orgs : list lorg }.
Definition li_zero : linfo := mkLi [] [] [] 0 0 0 [] 0 0 [] [].
Record lldp := mkLl {
  ll_contents : list Z; ll_payload : list Z; ll_csub : Z; ll_cid : list Z; ll_psub : Z; ll_pid : list Z;
  ll_ttl : Z; ll_values : list lval; ll_info : linfo; ll_added : Z }.
Definition ll_fresh : lldp := mkLl [] [] 0 [] 0 [] 0 [] li_zero 0.

(* :804-829 the TLV loop; (result, truncated); Err 99 = out of fuel *)
Fixpoint ll_walk (fuel : nat) (v : list Z) : outcome (list lval) * bool :=
  match fuel with
  | O => (Err 99, false)
  | S f =>
    if zlen v =? 0 then (Ok [], false) else                                       (* :804 *)
    if zlen v <? 2 then (Err 1, true) else                                        (* :805-808 *)
    match cd_idx v 0, cd_idx v 1 with
    | Ok b0, Ok b1 =>
      let t := b0 / 2 in                                                          (* :810 *)
      let len := (b0 mod 2) * 256 + b1 in                                         (* :809, :811 *)
      if (0 <? len) && (zlen v <? (len + 2) mod 65536) then (Err 2, true) else    (* :812-816 *)
      match (if 0 <? len then cd_slc v 2 ((len + 2) mod 65536) else Ok []) with   (* :817 *)
      | Ok value =>
        let val := mkLv t len value in
        if t =? 0 then (Ok [val], false) else                                     (* :819-822 *)
        if zlen v <? 2 + len then (Err 3, false) else                             (* :823-825 *)
        match cd_slc v ((2 + len) mod 65536) (zlen v) with                        (* :826 *)
        | Ok rest =>
          match ll_walk f rest with
          | (Ok l, tr) => (Ok (val :: l), tr)
          | r => r
          end
        | Err e => (Err e, false) | Panic s => (Panic s, false)
        end
      | Err e => (Err e, false) | Panic s => (Panic s, false)
      end
    | Panic s, _ => (Panic s, false) | _, Panic s => (Panic s, false)
    | Err e, _ => (Err e, false) | _, Err e => (Err e, false)
    end
  end.

(* :833-862 the mandatory TLVs; state = layer so far and gotEnd *)
Fixpoint ll_mand (vals : list lval) (c : lldp) (got_end : bool) : outcome (lldp * bool) :=
  match vals with
  | [] => Ok (c, got_end)
  | v :: t =>
    let upd := fun cs ci ps pi ttl vs => mkLl (ll_contents c) (ll_payload c) cs ci ps pi ttl vs (ll_info c) (ll_added c) in
    let ty := lv_type v in
    if ty =? 0 then ll_mand t c true                                              (* :836-837 *)
    else if ty =? 1 then                                                          (* :838-843 *)
      if zlen (lv_value v) <? 2 then Err 4 else
      obind (cd_idx (lv_value v) 0) (fun s => obind (cd_slc (lv_value v) 1 (zlen (lv_value v))) (fun id =>
      ll_mand t (upd s id (ll_psub c) (ll_pid c) (ll_ttl c) (ll_values c)) got_end))
    else if ty =? 2 then                                                          (* :844-849 *)
      if zlen (lv_value v) <? 2 then Err 5 else
      obind (cd_idx (lv_value v) 0) (fun s => obind (cd_slc (lv_value v) 1 (zlen (lv_value v))) (fun id =>
      ll_mand t (upd (ll_csub c) (ll_cid c) s id (ll_ttl c) (ll_values c)) got_end))
    else if ty =? 3 then                                                          (* :850-854 *)
      if zlen (lv_value v) <? 2 then Err 6 else
      obind (cd_rd16 (lv_value v) 0) (fun ttl =>
      ll_mand t (upd (ll_csub c) (ll_cid c) (ll_psub c) (ll_pid c) ttl (ll_values c)) got_end)
    else ll_mand t (upd (ll_csub c) (ll_cid c) (ll_psub c) (ll_pid c) (ll_ttl c) (ll_values c ++ [v])) got_end   (* :855-857 *)
  end.

Definition wrap8 (w : bool) (x : Z) : Z := if w then x mod 256 else x.

(* :880-897 management address *)
Definition ll_mgmt (w : bool) (i : linfo) (val : list Z) : linfo * outcome unit :=
  let set := fun ms ma mis mn mo => mkLi (li_portdesc i) (li_sysname i) (li_sysdesc i) (li_syscap i) (li_encap i) ms ma mis mn mo (li_orgs i) in
  if zlen val <? 9 then (i, Err 21) else                                          (* :881-883 *)
  match cd_idx val 0 with
  | Ok mlen =>
    if negb w && (mlen <? 1) then (i, Err 25) else                                (* repair: zero address length rejected *)
    if zlen val <? wrap8 w (mlen + 7) then (i, Err 22) else                       (* :885-887 *)
    match cd_idx val 1 with Ok ms =>                                              (* :888 *)
    let i1 := set ms (li_maddr i) (li_mifsub i) (li_mifnum i) (li_moid i) in
    match cd_slc val 2 (wrap8 w (mlen + 1)) with Ok ma =>                         (* :889 *)
    let i2 := set ms ma (li_mifsub i) (li_mifnum i) (li_moid i) in
    match cd_idx val (wrap8 w (mlen + 1)) with Ok mis =>                          (* :890 *)
    let i3 := set ms ma mis (li_mifnum i) (li_moid i) in
    match obind (cd_slc val (wrap8 w (mlen + 2)) (wrap8 w (mlen + 6))) (fun s => ml_rd32 s 0) with Ok mn =>   (* :891 *)
    let i4 := set ms ma mis mn (li_moid i) in
    match cd_idx val (wrap8 w (mlen + 6)) with Ok olen =>                         (* :892 *)
    if zlen val <? wrap8 w (mlen + 7 + olen) then (i4, Err 23) else               (* :893-895 *)
    match cd_slc val (wrap8 w (mlen + 7)) (wrap8 w (mlen + 7 + olen)) with Ok oid =>   (* :896 *)
    (set ms ma mis mn oid, Ok tt)
    | Err e => (i4, Err e) | Panic s => (i4, Panic s) end
    | Err e => (i4, Err e) | Panic s => (i4, Panic s) end
    | Err e => (i3, Err e) | Panic s => (i3, Panic s) end
    | Err e => (i2, Err e) | Panic s => (i2, Panic s) end
    | Err e => (i1, Err e) | Panic s => (i1, Panic s) end
    | Err e => (i, Err e) | Panic s => (i, Panic s) end
  | Err e => (i, Err e) | Panic s => (i, Panic s)
  end.

(* :867-904 the Info pass over c.Values; the partially filled info stays in the packet on error *)
Fixpoint ll_info_pass (w : bool) (vals : list lval) (i : linfo) : linfo * outcome unit :=
  match vals with
  | [] => (i, Ok tt)
  | v :: t =>
    let ty := lv_type v in
    let val := lv_value v in
    if ty =? 4 then ll_info_pass w t (mkLi val (li_sysname i) (li_sysdesc i) (li_syscap i) (li_encap i) (li_msub i) (li_maddr i) (li_mifsub i) (li_mifnum i) (li_moid i) (li_orgs i))
    else if ty =? 5 then ll_info_pass w t (mkLi (li_portdesc i) val (li_sysdesc i) (li_syscap i) (li_encap i) (li_msub i) (li_maddr i) (li_mifsub i) (li_mifnum i) (li_moid i) (li_orgs i))
    else if ty =? 6 then ll_info_pass w t (mkLi (li_portdesc i) (li_sysname i) val (li_syscap i) (li_encap i) (li_msub i) (li_maddr i) (li_mifsub i) (li_mifnum i) (li_moid i) (li_orgs i))
    else if ty =? 7 then                                                          (* :876-881 *)
      if zlen val <? 4 then (i, Err 20) else
      match cd_rd16 val 0, cd_rd16 val 2 with
      | Ok a, Ok b => ll_info_pass w t (mkLi (li_portdesc i) (li_sysname i) (li_sysdesc i) (a mod 2048) (b mod 2048) (li_msub i) (li_maddr i) (li_mifsub i) (li_mifnum i) (li_moid i) (li_orgs i))
      | Panic s, _ => (i, Panic s) | _, Panic s => (i, Panic s) | Err e, _ => (i, Err e) | _, Err e => (i, Err e)
      end
    else if ty =? 8 then
      match ll_mgmt w i val with
      | (i', Ok _) => ll_info_pass w t i'
      | r => r
      end
    else if ty =? 127 then                                                        (* :898-902 *)
      if zlen val <? 4 then (i, Err 24) else
      match md_rd24 val 0, cd_idx val 3, cd_slc val 4 (zlen val) with
      | Ok oui, Ok st, Ok inf =>
        ll_info_pass w t (mkLi (li_portdesc i) (li_sysname i) (li_sysdesc i) (li_syscap i) (li_encap i) (li_msub i) (li_maddr i) (li_mifsub i) (li_mifnum i) (li_moid i) (li_orgs i ++ [mkOrg oui st inf]))
      | Panic s, _, _ => (i, Panic s) | _, Panic s, _ => (i, Panic s) | _, _, Panic s => (i, Panic s)
      | Err e, _, _ => (i, Err e) | _, Err e, _ => (i, Err e) | _, _, Err e => (i, Err e)
      end
    else ll_info_pass w t i
  end.

Definition ll_decode_gen (w : bool) (old : lldp) (data : list Z) : lldp * outcome unit * bool :=
  match ll_walk (S (length data)) data with
  | (Panic s, tr) => (ll_fresh, Panic s, tr)
  | (Err e, tr) => (ll_fresh, Err e, tr)
  | (Ok vals, tr) =>
    if Z.of_nat (length vals) <? 4 then (ll_fresh, Err 7, tr) else                            (* :830-832 *)
    match ll_mand vals ll_fresh false with
    | Panic s => (ll_fresh, Panic s, tr)
    | Err e => (ll_fresh, Err e, tr)
    | Ok (c, got_end) =>
      if (ll_csub c =? 0) || (ll_psub c =? 0) || negb got_end then (ll_fresh, Err 8, tr) else   (* :859-861 *)
      let '(info, o) := ll_info_pass w (ll_values c) li_zero in                   (* :862-904 *)
      (mkLl data [] (ll_csub c) (ll_cid c) (ll_psub c) (ll_pid c) (ll_ttl c) (ll_values c) info 2, o, tr)
    end
  end.
Definition ll_decode_into := ll_decode_gen false.
Definition ll_decode_into_orig := ll_decode_gen true.

(* -------- SerializeTo :769-799 (AppendBytes: the layer is written after what the buffer holds) *)
(* bitwise or of (type << 9) and a 16-bit length: the length is not masked to 9 bits *)
Definition ll_idlen (ty len : Z) : Z := Z.lor ((ty * 512) mod 65536) (len mod 65536).

Definition ll_id_chunks (ty sub : Z) (id : list Z) : list md_chunk :=
  [(false, cd_put16 (ll_idlen ty (zlen id + 1))); (false, [sub mod 256]); (true, id)].

(* one value :783-791: AppendBytes(Length+2), header, copy(vb[2:], Value).  zf = the repaired code, which
   zero-fills what the copy leaves (Length > len(Value)); originally those bytes kept the buffer's prior
   content, here `hole`. *)
Definition ll_val_chunks (v : lval) (hole : list Z) : list md_chunk :=
  let L := lv_len v mod 65536 in
  let body := firstn (Z.to_nat L) (lv_value v) in
  [(false, cd_put16 (ll_idlen (lv_type v) L)); (true, body); (false, firstn (Z.to_nat (L - zlen body)) hole)].

Fixpoint ll_vals_chunks (zf : bool) (vs : list lval) (off : Z) (region : list Z) : list md_chunk :=
  match vs with
  | [] => []
  | v :: t =>
    let L := lv_len v mod 65536 in
    let body := firstn (Z.to_nat L) (lv_value v) in
    let hole := if zf then repeat 0 (Z.to_nat L) else skipn (Z.to_nat (off + 2 + zlen body)) region in
    ll_val_chunks v hole ++ ll_vals_chunks zf t (off + 2 + L) region
  end.

Definition ll_total (l : lldp) : Z :=
  (zlen (ll_cid l) + 3) + (zlen (ll_pid l) + 3) + 4 +
  fold_right (fun v a => lv_len v mod 65536 + 2 + a) 0 (ll_values l) + 2.

Definition ll_serialize_gen (zf : bool) (l : lldp) (payload : list Z) (fixl csum : bool) (junk : list Z)
    : outcome (list Z) * lldp :=
  let region := cd_region (ll_total l) junk in
  let head := ll_id_chunks 1 (ll_csub l) (ll_cid l) ++ ll_id_chunks 2 (ll_psub l) (ll_pid l) ++      (* :770-778 *)
              [(false, cd_put16 (3 * 512 + 2)); (false, cd_put16 (ll_ttl l mod 65536))] in            (* :779-781 *)
  let cs := head ++ ll_vals_chunks zf (ll_values l) (zlen (md_flat head)) region ++ [(false, [0; 0])] in   (* :783-797 *)
  match md_emit cs junk with
  | Ok b => (Ok (payload ++ b), l)
  | Err c => (Err c, l)
  | Panic s => (Panic s, l)
  end.
Definition ll_serialize := ll_serialize_gen true.
Definition ll_serialize_orig := ll_serialize_gen false.

(* the decoder function installs no next decoder *)
Definition ll_next (l : lldp) : Z := 0.

(* LayerString etc. are reflective; the enum String methods are switches with a default *)
Definition ll_render_panics (l : lldp) : bool := false.
