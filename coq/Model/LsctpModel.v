(* Lsctp: layers/sctp.go — the SCTP common header (DecodeFromBytes :78-91, SerializeTo :61-76 with
   the CRC32c checksum) and the chunk walk of packet decoding: decodeWithSCTPChunkTypePrefix
   (:48-58), the dispatch on the chunk type (enums.go:355-367), decodeSCTPChunk (:129-160),
   decodeSCTPDataChunk/decodeSCTPData (:162-183, :342-365), decodeSCTPParameter (:193-201) and
   the chunk decoders Init/InitAck, Sack, Heartbeat(/Ack), Error/Abort, Shutdown, ShutdownAck,
   CookieEcho, CookieAck/ShutdownComplete (:423-444, :484-523, :568-584, :623-640, :670-681,
   :704-714, :737-748, :780-790).  Executable definitions only.
   g = false: the unchanged tree ([*_orig]); g = true: the repaired tree (fix: commits).
   Not modelled: the chunk layers' SerializeTo methods. *)
From GP Require Import Base LtcpModel.   (* len, idx, slc, from, put, resize, the bind notation *)
Open Scope Z_scope.

(* ---------------------------------------------------------------- common header *)
Record sctp := {
  s_sp : Z; s_dp : Z; s_vtag : Z; s_sum : Z;
  s_sport : list Z; s_dport : list Z; s_contents : list Z; s_payload : list Z
}.
Definition sctp0 : sctp :=
  {| s_sp := 0; s_dp := 0; s_vtag := 0; s_sum := 0; s_sport := []; s_dport := []; s_contents := []; s_payload := [] |}.

(* DecodeFromBytes :78-91 (no truncation feedback on the short-header path) *)
Definition sdecode_into (old : sctp) (data : list Z) : sctp * outcome unit :=
  if len data <? 12 then (old, Err 1) else
  ({| s_sp := be_val (slice data 0 2); s_dp := be_val (slice data 2 4);
      s_vtag := be_val (slice data 4 8); s_sum := be_val (slice data 8 12);
      s_sport := slice data 0 2; s_dport := slice data 2 4;
      s_contents := firstn 12 data; s_payload := skipn 12 data |}, Ok tt).

(* hash/crc32 with the Castagnoli polynomial (reflected 0x82F63B78), bit by bit *)
Definition crc_step (c : Z) : Z := if Z.odd c then Z.lxor (c / 2) 2197175160 else c / 2.
Definition crc_byte (c b : Z) : Z :=
  crc_step (crc_step (crc_step (crc_step (crc_step (crc_step (crc_step (crc_step (Z.lxor c b)))))))).
Definition crc32c (l : list Z) : Z := Z.lxor (fold_left crc_byte l 4294967295) 4294967295.

(* SerializeTo :61-76.  Value receiver: the layer is not changed.  Unchanged tree: bytes 8..12 are
   written only with ComputeChecksums, and then the CRC covers their prior content. *)
Definition sserialize (g : bool) (s : sctp) (payload : list Z) (csum : bool) (junk : list Z) : outcome (list Z) :=
  b <- put 300 (resize junk 12) 0 (be_bytes 2 (s_sp s)) ;;
  b <- put 301 b 2 (be_bytes 2 (s_dp s)) ;;
  b <- put 302 b 4 (be_bytes 4 (s_vtag s)) ;;
  if csum then
    b <- (if g then put 303 b 8 [0; 0; 0; 0] else Ok b) ;;
    b <- put 304 b 8 (le_bytes 4 (crc32c (b ++ payload))) ;;
    Ok (b ++ payload)
  else
    b <- (if g then put 305 b 8 (be_bytes 4 (s_sum s)) else Ok b) ;;
    Ok (b ++ payload).
Definition sserialize_orig := sserialize false.

(* ---------------------------------------------------------------- chunks *)
Definition roundup4 (i : Z) : Z := if i mod 4 =? 0 then i else i + 4 - i mod 4.   (* :122-127 *)

Record chdr := { c_type : Z; c_flags : Z; c_len : Z; c_actual : Z; c_contents : list Z; c_payload : list Z }.
Record param := { p_type : Z; p_len : Z; p_actual : Z; p_value : list Z }.

Inductive chunk :=
| CData (c : chdr) (ube tsn sid sseq ppid : Z) (payload : list Z)
| CInit (c : chdr) (itag arwnd outs ins itsn : Z) (ps : list param)
| CSack (c : chdr) (cum arwnd ngap ndup : Z) (gaps dups : list Z)
| CHeartbeat (c : chdr) (ps : list param)
| CError (c : chdr) (ps : list param)
| CShutdown (c : chdr) (tsn : Z)
| CShutdownAck (c : chdr)
| CCookieEcho (c : chdr) (cookie : list Z)
| CEmpty (c : chdr).

Definition chunk_hdr_of (ch : chunk) : chdr :=
  match ch with
  | CData c _ _ _ _ _ _ | CInit c _ _ _ _ _ _ | CSack c _ _ _ _ _ _ | CHeartbeat c _ | CError c _
  | CShutdown c _ | CShutdownAck c | CCookieEcho c _ | CEmpty c => c
  end.

(* decodeSCTPChunk :129-160, for chunk types other than Data (type 0 is dispatched to
   decodeSCTPData, which uses decodeSCTPDataChunk; the ct == Data branches are unreachable).
   All reads lie below len(data) by the preceding checks. *)
Definition chunk_hdr (data : list Z) : outcome chdr :=
  if len data <? 4 then Err 40 else
  let length := be_val (slice data 2 4) in
  if length <? 4 then Err 41 else
  let actual := roundup4 length in
  if len data <? actual then Err 43 else
  Ok {| c_type := nth 0 data 0; c_flags := nth 1 data 0; c_len := length; c_actual := actual;
        c_contents := firstn (Z.to_nat actual) data; c_payload := skipn (Z.to_nat actual) data |}.

(* decodeSCTPDataChunk :162-183 + decodeSCTPData :342-365 *)
Definition dec_data (data : list Z) : outcome chunk :=
  if len data <? 4 then Err 40 else
  let length := be_val (slice data 2 4) in
  if length <? 16 then Err 42 else
  let actual := roundup4 length in
  if len data <? actual then Err 43 else
  let c := {| c_type := nth 0 data 0; c_flags := nth 1 data 0; c_len := length; c_actual := actual;
              c_contents := firstn (Z.to_nat actual) data; c_payload := skipn (Z.to_nat actual) data |} in
  Ok (CData c (Z.land (nth 1 data 0) 7) (be_val (slice data 4 8)) (be_val (slice data 8 10))
            (be_val (slice data 10 12)) (be_val (slice data 12 16)) (slice data 16 (Z.to_nat actual))).

(* the parameter loops of Init / Heartbeat / Error with decodeSCTPParameter :193-201 inlined.
   pd = paramData, tl = the backing array behind it.  Panic 99 = out of fuel. *)
Fixpoint params (g : bool) (fuel : nat) (pd tl : list Z) (acc : list param) : outcome (list param) :=
  match fuel with
  | O => Panic 99
  | S f =>
    if len pd =? 0 then Ok (rev acc) else
    if g && (len pd <? 4) then Err 50 else
    lb <- slc 500 pd tl 2 4 ;;
    let length := be_val lb in
    if g && ((length <? 4) || (len pd <? length)) then Err 50 else
    tb <- slc 501 pd tl 0 2 ;;
    v <- slc 502 pd tl 4 length ;;
    let actual0 := roundup4 length in
    let actual := if g && (len pd <? actual0) then len pd else actual0 in
    pd' <- from 503 pd actual ;;
    params g f pd' tl ({| p_type := be_val tb; p_len := length; p_actual := actual; p_value := v |} :: acc)
  end.

Definition field (site : Z) (data tl : list Z) (a b : Z) : outcome Z := v <- slc site data tl a b ;; Ok (be_val v).

(* decodeSCTPInit :423-444 *)
Definition dec_init (g : bool) (data tl : list Z) : outcome chunk :=
  c <- chunk_hdr data ;;
  if g && (c_len c <? 20) then Err 60 else
  itag <- field 600 data tl 4 8 ;; arwnd <- field 601 data tl 8 12 ;;
  outs <- field 602 data tl 12 14 ;; ins <- field 603 data tl 14 16 ;; itsn <- field 604 data tl 16 20 ;;
  pd <- slc 605 data tl 20 (c_actual c) ;;
  ps <- params g (S (length pd)) pd (c_payload c ++ tl) [] ;;
  Ok (CInit c itag arwnd outs ins itsn ps).

(* n times: append(.., BigEndian(br[:w])); br = br[w:]   :513-520 *)
Fixpoint read_words (site w : Z) (n : nat) (br tl : list Z) : outcome (list Z * list Z) :=
  match n with
  | O => Ok ([], br)
  | S n' =>
    v <- slc site br tl 0 w ;;
    br' <- from (site + 1) br w ;;
    r <- read_words site w n' br' tl ;;
    Ok (be_val v :: fst r, snd r)
  end.

(* decodeSCTPSack :484-523 *)
Definition dec_sack (g : bool) (data tl : list Z) : outcome chunk :=
  c <- chunk_hdr data ;;
  if g && (c_len c <? 16) then Err 61 else
  cum <- field 700 data tl 4 8 ;; arwnd <- field 701 data tl 8 12 ;;
  ng <- field 702 data tl 12 14 ;; nd <- field 703 data tl 14 16 ;;
  if g && (c_len c <? 16 + 2 * ng + 4 * nd) then Err 62 else
  br <- from 704 data 16 ;;
  gs <- read_words 705 2 (Z.to_nat ng) br tl ;;
  ds <- read_words 707 4 (Z.to_nat nd) (snd gs) tl ;;
  Ok (CSack c cum arwnd ng nd (fst gs) (fst ds)).

(* decodeSCTPHeartbeat :568-584, decodeSCTPError :623-640: paramData = data[4:Length] *)
Definition dec_params (g : bool) (mk : chdr -> list param -> chunk) (data tl : list Z) : outcome chunk :=
  c <- chunk_hdr data ;;
  pd <- slc 800 data tl 4 (c_len c) ;;
  ps <- params g (S (length pd)) pd (skipn (Z.to_nat (c_len c)) data ++ tl) [] ;;
  Ok (mk c ps).

(* decodeSCTPShutdown :670-681 *)
Definition dec_shutdown (g : bool) (data tl : list Z) : outcome chunk :=
  c <- chunk_hdr data ;;
  if g && (c_len c <? 8) then Err 63 else
  tsn <- field 900 data tl 4 8 ;;
  Ok (CShutdown c tsn).

(* decodeSCTPCookieEcho :737-748 *)
Definition dec_cookie (data tl : list Z) : outcome chunk :=
  c <- chunk_hdr data ;;
  ck <- slc 1000 data tl 4 (c_len c) ;;
  Ok (CCookieEcho c ck).

Definition mem_z (x : Z) (l : list Z) : bool := existsb (Z.eqb x) l.

(* SCTPChunkType.Decode: enums.go:355-367, enums_generated.go:159-167 *)
Definition dec_chunk (g : bool) (data tl : list Z) : outcome chunk :=
  let ct := nth 0 data 0 in
  if ct =? 0 then dec_data data
  else if mem_z ct [1; 2] then dec_init g data tl
  else if ct =? 3 then dec_sack g data tl
  else if mem_z ct [4; 5] then dec_params g CHeartbeat data tl
  else if mem_z ct [6; 9] then dec_params g CError data tl
  else if ct =? 7 then dec_shutdown g data tl
  else if ct =? 8 then (c <- chunk_hdr data ;; Ok (CShutdownAck c))
  else if ct =? 10 then dec_cookie data tl
  else if mem_z ct [11; 14] then (c <- chunk_hdr data ;; Ok (CEmpty c))
  else Err 70.

(* decodeWithSCTPChunkTypePrefix :48-58 iterated through PacketBuilder.NextDecoder on the
   LayerPayload of the chunk just added (packet.go:503-516).  Result: chunks added, the
   truncated flag, how decoding ended. *)
Fixpoint walk (g : bool) (fuel : nat) (data tl : list Z) (acc : list chunk) : list chunk * bool * outcome unit :=
  match fuel with
  | O => (rev acc, false, Panic 99)
  | S f =>
    if len data =? 0 then (rev acc, false, Ok tt) else
    if len data <? 4 then (rev acc, true, Err 44) else
    match dec_chunk g data tl with
    | Ok ch => walk g f (c_payload (chunk_hdr_of ch)) tl (ch :: acc)
    | Err c => (rev acc, false, Err c)
    | Panic s => (rev acc, false, Panic s)
    end
  end.

(* gopacket.NewPacket(data, LayerTypeSCTP, SkipDecodeRecovery): decodeSCTP :30-39 *)
Definition sctp_packet (g : bool) (data extra : list Z) : sctp * list chunk * bool * outcome unit :=
  let (s, o) := sdecode_into sctp0 data in
  match o with
  | Ok _ => let r := walk g (S (length (s_payload s))) (s_payload s) extra [] in (s, fst (fst r), snd (fst r), snd r)
  | Err c => (s, [], false, Err c)
  | Panic p => (s, [], false, Panic p)
  end.
Definition sctp_packet_orig := sctp_packet false.
