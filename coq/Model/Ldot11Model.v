(* Ldot11 — executable model of the 802.11 MAC header codec, layers/dot11.go as repaired on
   agent-fixer and agent-ldot11 (conditional fields reset per decode; Address2 of BlockAck/BlockAckReq
   written).  Definitions only.  Line numbers (agent-ldot11 branch): Dot11 :910-926,
   NextLayerType :1023-1031, dataDecodeMap :1037-1053, DecodeFromBytes :1055-1223,
   SerializeTo :1233-1291; Dot11Type.MainType/QOS layers/enums.go:220-226.
   The HT control field is kept as the canonical list of its (pointer-)fields, -1 for a nil pointer:
     VHT variant [ac; rdg; 1; mrq; unsolicited; msi; numsts; vhtmcs; bw; snr; compressedmsi; stbc; mfsi; gid; coding; fbtx]
     HT  variant [ac; rdg; 0; trq; mrq; msi; mfsi; asel.command; asel.data; mfb; calpos; calseq; csi; ndp; dei]. *)
From GP Require Import Base Codec MiscLib.
Open Scope Z_scope.

Record qos := mkQos { q_tid : Z; q_eosp : bool; q_ack : Z; q_txop : Z }.

Record dot11 := mkD11 {
  d_contents : list Z; d_payload : list Z;
  d_type : Z; d_proto : Z; d_flags : Z; d_dur : Z;
  d_a1 : list Z; d_a2 : list Z; d_a3 : list Z; d_a4 : list Z;       (* [] = nil *)
  d_seq : Z; d_frag : Z; d_csum : Z;
  d_qos : option qos; d_htc : option (list Z);
  d_data : bool }.                                                      (* DataLayer != nil *)
Definition d11_fresh : dot11 := mkD11 [] [] 0 0 0 0 [] [] [] [] 0 0 0 None None false.

Definition bit (x k : Z) : Z := (x / 2 ^ k) mod 2.
Definition bitb (x k : Z) : bool := bit x k =? 1.

Definition d11_le16 (d : list Z) (off : Z) : outcome Z :=
  obind (cd_slc d off (off + 2)) (fun _ =>
  obind (cd_idx d off) (fun a => obind (cd_idx d (off + 1)) (fun b => Ok (a + 256 * b)))).
Definition d11_le32 (d : list Z) (off : Z) : outcome Z :=
  obind (cd_slc d off (off + 4)) (fun _ =>
  obind (cd_idx d off) (fun a => obind (cd_idx d (off + 1)) (fun b =>
  obind (cd_idx d (off + 2)) (fun c => obind (cd_idx d (off + 3)) (fun e => Ok (a + 256 * b + 65536 * c + 16777216 * e)))))).

(* control frames that carry a second address :1075 / :1240 *)
Definition d11_ctrl_a2 (ty : Z) : bool :=
  (ty =? 45) || (ty =? 41) || (ty =? 57) || (ty =? 61) || (ty =? 37) || (ty =? 33).
Definition d11_is_qos (ty : Z) : bool := (ty mod 4 =? 2) && (bit ty 5 =? 1).          (* d & 0x23 == 0x22 *)

(* :1126-1193 the HT control field from its four octets *)
Definition d11_htc (main d0 d1 d2 d3 : Z) : list Z :=
  let ac := bit d3 6 in let rdg := bit d3 7 in
  if bit d0 0 =? 1 then
    let mrq := bit d0 2 in let unsol := bit d3 5 in
    let numsts := (d1 / 2) mod 8 in let vhtmcs := (d1 / 16) mod 16 in let bw := d2 mod 4 in
    let x6 := d2 / 4 in
    let snr := (if bit x6 5 =? 1 then -32 else 0) + x6 mod 32 + 22 in
    if unsol =? 1 then
      if (vhtmcs =? 15) && (numsts =? 7) then
        [ac; rdg; 1; mrq; unsol; -1; numsts; vhtmcs; bw; snr; -1; 0; -1; -1; -1; 0]
      else
        [ac; rdg; 1; mrq; unsol; -1; numsts; vhtmcs; bw; snr; (d0 / 8) mod 4; bit d0 5; -1;
         d0 / 64 + (d1 mod 2) * 4 + (d3 mod 8) * 8; bit d3 3; bit d3 4]
    else
      [ac; rdg; 1; mrq; unsol; (if mrq =? 1 then (d0 / 8) mod 8 else -1); numsts; vhtmcs; bw; snr; -1; 0;
       d0 / 64 + (d1 mod 2) * 4; -1; -1; 0]
  else
    let trq := bit d0 1 in
    let mfsi := (d0 / 64) mod 4 + (d1 mod 2) * 8 in
    let tail := [d2 mod 4; (d2 / 4) mod 4; (d2 / 64) mod 4; bit d3 0; (if main =? 0 then 0 else bit d3 5)] in
    if (d0 / 4) mod 16 =? 14 then
      [ac; rdg; 0; trq; 0; 0; mfsi; (d1 / 2) mod 8; (d1 / 16) mod 16; -1] ++ tail
    else
      let mrq := bit d0 2 in
      [ac; rdg; 0; trq; mrq; (if mrq =? 1 then (d0 / 8) mod 8 else 0); mfsi; -1; -1; d1 / 2] ++ tail.

Section Decode.
Variable old : dot11.
Variable data : list Z.
Let n := zlen data.
Variables ty proto flags dur : Z.
Variable a1 : list Z.
Let main := ty mod 4.
Let S (a2 a3 a4 : list Z) (seq frag : Z) (q : option qos) (h : option (list Z)) : dot11 :=
  mkD11 (d_contents old) (d_payload old) ty proto flags dur a1 a2 a3 a4 seq frag (d_csum old) q h false.

(* :1198-1222 *)
Definition d11_tail (a2 a3 a4 : list Z) (seq frag : Z) (q : option qos) (h : option (list Z)) (off : Z)
    : dot11 * outcome unit * bool :=
  let st := S a2 a3 a4 seq frag q h in
  if n <? off + 4 then (st, Err 7, true) else
  ml_bind (cd_slc data 0 off) st false (fun c =>
  ml_bind (cd_slc data off (n - 4)) st false (fun p =>
  let mk := fun cs dl => mkD11 c p ty proto flags dur a1 a2 a3 a4 seq frag cs q h dl in
  if (main =? 2) && (ty =? 54) then (mk (d_csum old) false, Err 8, false) else      (* dataDecodeMap has no entry *)
  ml_bind (d11_le32 data (n - 4)) (mk (d_csum old) (main =? 2)) false (fun cs =>
  (mk cs (main =? 2), Ok tt, false)))).

(* :1120-1196 *)
Definition d11_htc_stage (a2 a3 a4 : list Z) (seq frag : Z) (q : option qos) (off : Z) : dot11 * outcome unit * bool :=
  let st := S a2 a3 a4 seq frag q None in
  if bitb flags 7 && (d11_is_qos ty || (main =? 0)) then
    if n <? off + 4 then (st, Err 6, true) else
    ml_bind (cd_idx data off) st false (fun d0 =>
    ml_bind (cd_idx data (off + 1)) st false (fun d1 =>
    ml_bind (cd_idx data (off + 2)) st false (fun d2 =>
    ml_bind (cd_idx data (off + 3)) st false (fun d3 =>
    d11_tail a2 a3 a4 seq frag q (Some (d11_htc main d0 d1 d2 d3)) (off + 4)))))
  else d11_tail a2 a3 a4 seq frag q None off.

(* :1107-1119 *)
Definition d11_qos_stage (a2 a3 a4 : list Z) (seq frag : Z) (off : Z) : dot11 * outcome unit * bool :=
  let st := S a2 a3 a4 seq frag None None in
  if d11_is_qos ty then
    if n <? off + 2 then (st, Err 5, true) else
    ml_bind (cd_idx data off) st false (fun q0 =>
    ml_bind (cd_idx data (off + 1)) st false (fun q1 =>
    d11_htc_stage a2 a3 a4 seq frag (Some (mkQos (q0 mod 16) (bitb q0 4) ((q0 / 32) mod 4) q1)) (off + 2)))
  else d11_htc_stage a2 a3 a4 seq frag None off.

(* :1098-1105 *)
Definition d11_a4_stage (a2 a3 : list Z) (seq frag : Z) (off : Z) : dot11 * outcome unit * bool :=
  let st := S a2 a3 [] seq frag None None in
  if (main =? 2) && bitb flags 1 && bitb flags 0 then
    if n <? off + 6 then (st, Err 4, true) else
    ml_bind (cd_slc data off (off + 6)) st false (fun a4 => d11_qos_stage a2 a3 a4 seq frag (off + 6))
  else d11_qos_stage a2 a3 [] seq frag off.

(* :1072-1096 *)
Definition d11_addr_stage : dot11 * outcome unit * bool :=
  let st := S [] [] [] 0 0 None None in
  if main =? 1 then
    if d11_ctrl_a2 ty then
      if n <? 16 then (st, Err 2, true) else
      ml_bind (cd_slc data 10 16) st false (fun a2 => d11_a4_stage a2 [] 0 0 16)
    else d11_a4_stage [] [] 0 0 10
  else if (main =? 0) || (main =? 2) then
    if n <? 24 then (st, Err 3, true) else
    ml_bind (cd_slc data 10 16) st false (fun a2 =>
    ml_bind (cd_slc data 16 22) st false (fun a3 =>
    ml_bind (d11_le16 data 22) st false (fun sc =>
    d11_a4_stage a2 a3 (sc / 16) (sc mod 16) 24)))
  else d11_a4_stage [] [] 0 0 10.
End Decode.

Definition d11_decode_into (old : dot11) (data : list Z) : dot11 * outcome unit * bool :=
  if zlen data <? 10 then (old, Err 1, true) else                                  (* :1056-1059 *)
  ml_bind (cd_idx data 0) old false (fun b0 =>
  ml_bind (cd_idx data 1) old false (fun b1 =>
  ml_bind (d11_le16 data 2) old false (fun dur =>
  ml_bind (cd_slc data 4 10) old false (fun a1 =>
  d11_addr_stage old data (b0 / 4) (b0 mod 4) b1 dur a1)))).

(* NextLayerType :1023-1031 as a code: -1 = Dot11WEP, 1000 + type = the data layer's NextLayerType,
   type = Dot11Type.LayerType() (tables in the runner) *)
Definition d11_next (l : dot11) : Z :=
  if d_data l then (if bitb (d_flags l) 6 then -1 else 1000 + d_type l) else d_type l.

(* ---------------------------------------------------------------- SerializeTo :1233-1291 *)
Definition d11_hdr_len (l : dot11) : Z :=
  let main := d_type l mod 4 in
  10 + (if main =? 1 then (if d11_ctrl_a2 (d_type l) then 6 else 0) else if (main =? 0) || (main =? 2) then 14 else 0)
     + (if (main =? 2) && bitb (d_flags l) 1 && bitb (d_flags l) 0 then 6 else 0).

(* copy(buf[off:off+6], a) *)
Definition d11_copy6 (buf : list Z) (off : Z) (a : list Z) : outcome (list Z) :=
  obind (cd_slc buf off (off + 6)) (fun _ => ml_wrc buf off (firstn 6 a)).
Definition d11_put16 (x : Z) : list Z := [x mod 256; (x / 256) mod 256].

Definition d11_serialize (l : dot11) (payload : list Z) (fixl csum : bool) (junk : list Z)
    : outcome (list Z) * dot11 :=
  let ty := d_type l in let main := ty mod 4 in
  let buf := map (fun _ => 0) (cd_region (d11_hdr_len l) junk) in                  (* PrependBytes, then zeroed :1250-1257 *)
  let r :=
    obind (ml_wrc buf 0 [Z.lor ((ty * 4) mod 256) (d_proto l); d_flags l]) (fun buf =>
    obind (cd_slc buf 2 4) (fun _ => obind (ml_wrc buf 2 (d11_put16 (d_dur l))) (fun buf =>
    obind (d11_copy6 buf 4 (d_a1 l)) (fun buf =>
    obind (if main =? 1 then
             (if d11_ctrl_a2 ty then obind (d11_copy6 buf 10 (d_a2 l)) (fun b => Ok (b, 16)) else Ok (buf, 10))
           else if (main =? 0) || (main =? 2) then
             obind (d11_copy6 buf 10 (d_a2 l)) (fun buf =>
             obind (d11_copy6 buf 16 (d_a3 l)) (fun buf =>
             obind (cd_slc buf 22 24) (fun _ =>
             obind (ml_wrc buf 22 (d11_put16 (Z.lor ((d_seq l * 16) mod 65536) (d_frag l)))) (fun buf => Ok (buf, 24)))))
           else Ok (buf, 10)) (fun r =>
    if (main =? 2) && bitb (d_flags l) 1 && bitb (d_flags l) 0 then d11_copy6 (fst r) (snd r) (d_a4 l)
    else Ok (fst r)))))) in
  match r with
  | Ok b => (Ok (b ++ payload), l)                                                 (* value receiver: l unchanged *)
  | Err c => (Err c, l)
  | Panic s => (Panic s, l)
  end.

(* Dot11 has no String method; LayerString/LayerGoString walk the nil-able pointer fields reflectively *)
Definition d11_render_panics (l : dot11) : bool := false.
