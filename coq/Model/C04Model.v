(* C04: data ownership of NewPacket (packet.go:27-37 pool, :253-260 Dispose, :725-744
   copy / pool / NoCopy decision) over an explicit memory of arrays.  sync.Pool is a
   list of block ids with a nondeterministic Get (the choice is an argument of the op:
   which pooled block is returned, or a fresh one), Put appends, and the runtime may
   drop entries at any time.  Executable definitions only. *)
From GP Require Import Base.
Open Scope nat_scope.

Definition maximumMTU : nat := 1500.

Record pkt := {
  p_arr : nat;          (* array the packet's data slice points into (offset 0) *)
  p_len : nat;
  p_nocopy : bool;
  p_pooled : bool;      (* a PooledPacket: has Dispose *)
  p_disposed : bool;
  p_orig : list Z       (* ghost: the input bytes at creation *)
}.

Record st := {
  mem : list (list Z);
  callers : list nat;   (* arrays owned by the caller (input buffers) *)
  pool : list nat;      (* blocks currently in the sync.Pool *)
  pkts : list pkt;      (* packets in creation order *)
  bad : bool            (* an op was not executable (illegal index/choice): the history is outside the model *)
}.

Definition st0 : st := {| mem := []; callers := []; pool := []; pkts := []; bad := false |}.

Inductive op :=
| OBuf (d : list Z)                                   (* the caller allocates a buffer holding d *)
| ONew (buf n : nat) (nocopy usepool : bool) (choice : option nat)
                                                      (* NewPacket(buf[:n], opts); choice: position in the pool of
                                                         the block Get returns, None = Get allocates a new block *)
| ODispose (p : nat)
| OMut (buf i : nat) (v : Z)                          (* the caller overwrites a byte of its buffer *)
| ODrop (k : nat).                                    (* the pool forgets its k-th entry (GC) *)

Definition arr_of (s : st) (a : nat) : list Z :=
  match nth_error (mem s) a with Some l => l | None => [] end.

Definition data_of (s : st) (p : pkt) : list Z := firstn (p_len p) (arr_of s (p_arr p)).

Fixpoint remove_nth {A} (l : list A) (k : nat) : list A :=
  match l, k with
  | [], _ => []
  | _ :: t, O => t
  | h :: t, S k' => h :: remove_nth t k'
  end.

(* copy(dst[:n], src[:n]) into array a *)
Definition copy_into (s : st) (a : nat) (d : list Z) : list (list Z) :=
  upd (mem s) a (d ++ skipn (length d) (arr_of s a)).

Definition mark_bad (s : st) : st :=
  {| mem := mem s; callers := callers s; pool := pool s; pkts := pkts s; bad := true |}.

Definition step (s : st) (o : op) : st :=
  match o with
  | OBuf d =>
    {| mem := mem s ++ [d]; callers := callers s ++ [length (mem s)]; pool := pool s;
       pkts := pkts s; bad := bad s |}
  | ONew buf n nocopy usepool choice =>
    if negb (existsb (Nat.eqb buf) (callers s)) || (length (arr_of s buf) <? n) then mark_bad s else
    let d := firstn n (arr_of s buf) in
    if nocopy then
      {| mem := mem s; callers := callers s; pool := pool s;
         pkts := pkts s ++ [{| p_arr := buf; p_len := n; p_nocopy := true; p_pooled := false;
                               p_disposed := false; p_orig := d |}];
         bad := bad s |}
    else if usepool && (n <=? maximumMTU) then
      match choice with
      | Some k =>
        match nth_error (pool s) k with
        | Some a =>
          {| mem := copy_into s a d; callers := callers s; pool := remove_nth (pool s) k;
             pkts := pkts s ++ [{| p_arr := a; p_len := n; p_nocopy := false; p_pooled := true;
                                   p_disposed := false; p_orig := d |}];
             bad := bad s |}
        | None => mark_bad s
        end
      | None =>
        let a := length (mem s) in
        {| mem := mem s ++ [d ++ repeat 0%Z (maximumMTU - n)]; callers := callers s; pool := pool s;
           pkts := pkts s ++ [{| p_arr := a; p_len := n; p_nocopy := false; p_pooled := true;
                                 p_disposed := false; p_orig := d |}];
           bad := bad s |}
      end
    else
      {| mem := mem s ++ [d]; callers := callers s; pool := pool s;
         pkts := pkts s ++ [{| p_arr := length (mem s); p_len := n; p_nocopy := false; p_pooled := false;
                               p_disposed := false; p_orig := d |}];
         bad := bad s |}
  | ODispose p =>
    match nth_error (pkts s) p with
    | Some q =>
      if p_pooled q && negb (p_disposed q) then
        {| mem := mem s; callers := callers s; pool := pool s ++ [p_arr q];
           pkts := upd (pkts s) p {| p_arr := p_arr q; p_len := p_len q; p_nocopy := p_nocopy q;
                                     p_pooled := true; p_disposed := true; p_orig := p_orig q |};
           bad := bad s |}
      else mark_bad s   (* not a pooled packet, or disposed twice: outside the statement *)
    | None => mark_bad s
    end
  | OMut buf i v =>
    if existsb (Nat.eqb buf) (callers s) then
      {| mem := upd (mem s) buf (upd (arr_of s buf) i v); callers := callers s; pool := pool s;
         pkts := pkts s; bad := bad s |}
    else mark_bad s
  | ODrop k =>
    {| mem := mem s; callers := callers s; pool := remove_nth (pool s) k; pkts := pkts s; bad := bad s |}
  end.

Definition run (ops : list op) : st := fold_left step ops st0.

(* observation after each op: for every packet, its length, a position-weighted digest of the
   first 48 and last 16 bytes of its data and its first bytes (the harness computes the same on Packet.Data()) *)
Fixpoint digest (l : list Z) (i : Z) (acc : Z) : Z :=
  match l with
  | [] => acc
  | b :: t => digest t (i + 1)%Z ((acc + b * i) mod 1000003)%Z
  end.

Record pobs := { ob_len : nat; ob_digest : Z; ob_head : list Z; ob_disposed : bool }.

Definition observe (s : st) : list pobs :=
  map (fun p => let d := data_of s p in
                {| ob_len := length d; ob_digest := digest (firstn 48 d ++ skipn (length d - 16) d) 1%Z 0%Z; ob_head := firstn 8 d;
                   ob_disposed := p_disposed p |}) (pkts s).

Fixpoint trace (s : st) (ops : list op) : list (list pobs * bool) :=
  match ops with
  | [] => []
  | o :: r => let s' := step s o in (observe s', bad s') :: trace s' r
  end.

Definition run_trace (ops : list op) := trace st0 ops.

(* a packet that owns its bytes and is still in use *)
Definition owning (p : pkt) : bool := negb (p_nocopy p) && negb (p_disposed p).
