(* Licmp6 — ICMPv6 header (layers/icmp6.go) and NDP messages with their option list
   (layers/icmp6msg.go): the layer's contribution to C19, C05, C06, C07, C01.
   Property theorems only; each is closed by lemmas of Proofs/Licmp6Proofs.v.
   The model is of the REPAIRED code (four fix: commits on icmp6msg.go); the *_orig definitions are
   the unchanged code and carry the …_refuted witnesses.
   Kinds: KRS KRA KNS KNA KRD = the five message types, KOPT = the ICMPv6Options type itself. *)
From GP Require Import Base N6Lib Licmp6Model Licmp6Proofs.
Open Scope Z_scope.

(* ------------------------------------------------------------------ C19 *)
(* DecodeFromBytes of the header and of every NDP kind returns or errors for every byte string and
   every prior state of the object; it never panics and the option loop never runs out of its fuel
   len(data)+1 (a Panic N6_FUEL outcome is a panic for is_panic), i.e. it cannot hang. *)
Theorem C19_icmp6_no_panic : forall data, bytes_ok data ->
  (forall old, is_panic (snd (fst (icmp6_decode_into old data))) = false) /\
  (forall k old, is_panic (snd (fst (ndp_decode_into k old data))) = false).
Proof.
  intros data Hb. split; [intros; apply icmp6_decode_no_panic|intros; apply ndp_decode_no_panic, Hb].
Qed.
Print Assumptions C19_icmp6_no_panic.

Example C19_icmp6_nonvacuous :
  bytes_ok [0;0;0;0; 1;1;1;2;3;4;5;6; 5;0] /\
  ndp_decode_into KRS ndp_fresh [0;0;0;0; 1;1;1;2;3;4;5;6; 5;0]
  = (mkNdp 0 0 0 0 0 [] [] [mkOpt 1 [1;2;3;4;5;6]] [] [], Err 2, true).
Proof. split; [repeat constructor; unfold byte_ok; lia|reflexivity]. Qed.

(* ------------------------------------------------------------------ C05 *)
(* Decoding into a reused object = decoding into a fresh one: same outcome, same truncated flag, and
   as soon as the length check passes (in particular on success) the same fields, contents and
   payload.  For the NDP kinds the old object is any state reachable by earlier decodes. *)
Theorem C05_icmp6_fresh :
  (forall old data,
     let '(l1, r1, t1) := icmp6_decode_into old data in
     let '(l2, r2, t2) := icmp6_decode_into icmp6_fresh data in
     r1 = r2 /\ t1 = t2 /\ (r1 = Ok tt -> l1 = l2)) /\
  (forall k old data, ndp_reach k old ->
     let '(l1, r1, t1) := ndp_decode_into k old data in
     let '(l2, r2, t2) := ndp_decode_into k ndp_fresh data in
     r1 = r2 /\ t1 = t2 /\ (r1 = Ok tt \/ hdr_len k <= n6_len data -> ndp_view k l1 = ndp_view k l2)).
Proof.
  split; [exact icmp6_decode_fresh|].
  intros k old data Hr. pose proof (ndp_decode_fresh k old data (ndp_reach_base_inv k old Hr)) as H.
  pose proof (ndp_decode_ok_len k old data) as HL.
  destruct (ndp_decode_into k old data) as [[l1 r1] t1]. destruct (ndp_decode_into k ndp_fresh data) as [[l2 r2] t2].
  destruct H as (H1 & H2 & H3). repeat split; try assumption. intros [Hok|Hlen]; apply H3; [apply HL, Hok|exact Hlen].
Qed.
Print Assumptions C05_icmp6_fresh.

Example C05_icmp6_nonvacuous :
  ndp_reach KNS (fst (fst (ndp_decode_into KNS ndp_fresh
     [0;0;0;0; 1;2;3;4;5;6;7;8;9;10;11;12;13;14;15;16; 1;1;1;2;3;4;5;6]))) /\
  n_opts (fst (fst (ndp_decode_into KNS ndp_fresh
     [0;0;0;0; 1;2;3;4;5;6;7;8;9;10;11;12;13;14;15;16; 1;1;1;2;3;4;5;6]))) = [mkOpt 1 [1;2;3;4;5;6]].
Proof. split; [exists [[0;0;0;0; 1;2;3;4;5;6;7;8;9;10;11;12;13;14;15;16; 1;1;1;2;3;4;5;6]]; reflexivity|reflexivity]. Qed.

(* the unchanged code: ICMPv6Options.DecodeFromBytes appended to the previous list *)
Theorem C05_icmp6_fresh_orig_refuted : exists old data,
  old = fst (fst (ndp_decode_into_orig KOPT ndp_fresh [1;1;170;187;204;221;238;255])) /\
  snd (fst (ndp_decode_into_orig KOPT old data)) = Ok tt /\
  ndp_view KOPT (fst (fst (ndp_decode_into_orig KOPT old data)))
  <> ndp_view KOPT (fst (fst (ndp_decode_into_orig KOPT ndp_fresh data))).
Proof.
  eexists. exists [5;1;0;0;0;0;5;0]. split; [reflexivity|]. split; [reflexivity|]. vm_compute. discriminate.
Qed.

(* ------------------------------------------------------------------ C06 *)
(* Header: for every type/code, every payload and every attached IPv6 pseudo-header, serializing with
   FixLengths+ComputeChecksums and decoding the bytes succeeds, is not truncated, and yields the
   type/code, the checksum the serializer stored in the layer, and the same payload; serializing
   the decoded layer again gives the same bytes. *)
Theorem C06_icmp6_roundtrip : forall l payload ph junk, icmp6_okb l = true -> ph_okb ph = true ->
  exists bytes l2,
    icmp6_roundtrip l payload ph junk = (Ok bytes, (l2, Ok tt, false)) /\
    i_tc l2 = i_tc l /\ i_csum l2 = i_csum (snd (icmp6_serialize l payload true true ph junk)) /\
    i_payload l2 = payload /\ i_contents l2 = firstn 4 bytes /\
    forall junk', fst (icmp6_serialize l2 payload true true ph junk') = Ok bytes.
Proof.
  intros l payload ph junk Hl Hph.
  destruct (icmp6_roundtrip_ok l payload ph junk Hl Hph) as (bytes & ck & HR & HS & HB & Hck).
  exists bytes, (mkIcmp6 (i_tc l) ck (firstn 4 bytes) payload). split; [exact HR|].
  rewrite HS. repeat split. intros junk'.
  rewrite (icmp6_serialize_tc _ l payload true ph junk' junk) by reflexivity.
  unfold icmp6_roundtrip in HR. destruct (icmp6_serialize l payload true true ph junk) as [[b|e|s] l']; cbn [fst]; congruence.
Qed.
Print Assumptions C06_icmp6_roundtrip.

(* NDP messages and ICMPv6Options (they carry no payload): for every in-range value — options in the
   same ORDER — the round trip succeeds without truncation and returns the same fields; the decoded
   layer serializes to the same bytes. *)
Theorem C06_ndp_roundtrip : forall k l junk, ndp_okb k l = true ->
  exists bytes l2,
    ndp_roundtrip k l [] junk = (Ok bytes, (l2, Ok tt, false)) /\
    ndp_fview k l2 = ndp_fview k l /\ n_payload l2 = [] /\
    (k <> KRS -> k <> KOPT -> n_contents l2 = bytes) /\
    forall fx cs junk', fst (ndp_serialize k l2 [] fx cs junk') = Ok bytes.
Proof.
  intros k l junk Hok. destruct (ndp_roundtrip_ok k l junk Hok) as (bytes & l2 & HR & HB & HF & HP & HC).
  exists bytes, l2. repeat split; try assumption. intros fx cs junk'.
  rewrite (ndp_serialize_fview k l2 l [] fx cs junk' HF), ndp_serialize_closed, app_nil_r. cbn [fst]. congruence.
Qed.
Print Assumptions C06_ndp_roundtrip.

Example C06_icmp6_nonvacuous :
  ndp_okb KRA (mkNdp 64 128 1800 0 0 [] [] [mkOpt 1 [1;2;3;4;5;6]; mkOpt 5 [0;0;0;0;5;220]] [] []) = true /\
  icmp6_okb (mkIcmp6 34560 0 [] []) = true /\ ph_okb (PH6 (repeat 254 16) (repeat 1 16)) = true.
Proof. repeat split. Qed.

(* the unchanged code wrote the options in reverse order *)
Theorem C06_ndp_roundtrip_orig_refuted : exists k l,
  ndp_okb k l = true /\
  match ndp_serialize_orig k l [] true true [] with
  | (Ok bytes, _) => n_opts (fst (fst (ndp_decode_into k ndp_fresh bytes))) = rev (n_opts l) /\ rev (n_opts l) <> n_opts l
  | _ => False
  end.
Proof.
  exists KRA, (mkNdp 64 128 1800 0 0 [] [] [mkOpt 1 [1;2;3;4;5;6]; mkOpt 5 [0;0;0;0;5;220]] [] []).
  split; [reflexivity|]. vm_compute. split; [reflexivity|discriminate].
Qed.

(* ------------------------------------------------------------------ C07 *)
(* SerializeTo never panics, for every layer value whatsoever (so also for every error-path residue
   of decoding and every value built from the public fields), payload, option set, pseudo-header. *)
Theorem C07_icmp6_no_panic :
  (forall l payload fx cs ph junk, is_panic (fst (icmp6_serialize l payload fx cs ph junk)) = false) /\
  (forall k l payload fx cs junk, is_panic (fst (ndp_serialize k l payload fx cs junk)) = false).
Proof.
  split; [exact icmp6_serialize_no_panic|]. intros. rewrite ndp_serialize_closed. reflexivity.
Qed.
Print Assumptions C07_icmp6_no_panic.

(* every byte of every region obtained from PrependBytes is written: the result (bytes and layer
   afterwards) does not depend on the prior content of the buffer memory *)
Theorem C07_icmp6_junk_free :
  (forall l payload fx cs ph j1 j2,
     icmp6_serialize l payload fx cs ph j1 = icmp6_serialize l payload fx cs ph j2) /\
  (forall k l payload fx cs j1 j2,
     ndp_serialize k l payload fx cs j1 = ndp_serialize k l payload fx cs j2).
Proof.
  split; intros; [rewrite !icmp6_serialize_closed|rewrite !ndp_serialize_closed]; reflexivity.
Qed.
Print Assumptions C07_icmp6_junk_free.

(* serializing again the layer as the first call left it gives the same bytes *)
Theorem C07_icmp6_idempotent :
  (forall l payload fx cs ph j1 j2,
     fst (icmp6_serialize (snd (icmp6_serialize l payload fx cs ph j1)) payload fx cs ph j2)
     = fst (icmp6_serialize l payload fx cs ph j1)) /\
  (forall k l payload fx cs j1 j2,
     fst (ndp_serialize k (snd (ndp_serialize k l payload fx cs j1)) payload fx cs j2)
     = fst (ndp_serialize k l payload fx cs j1)).
Proof.
  split; [exact icmp6_serialize_twice|]. intros. rewrite !ndp_serialize_closed. reflexivity.
Qed.

Example C07_icmp6_nonvacuous :
  fst (ndp_serialize KNS (mkNdp 0 0 0 0 0 [1;2;3] [] [mkOpt 1 [9]] [] []) [7] false false (repeat 170 40))
  = Ok [0;0;0;0; 1;2;3;0;0;0;0;0;0;0;0;0;0;0;0;0; 1;0;9; 7].
Proof. reflexivity. Qed.

(* the unchanged code left the 16 address bytes unwritten when the address is short *)
Theorem C07_ndp_junk_free_orig_refuted : exists k l j1 j2,
  fst (ndp_serialize_orig k l [] false false j1) <> fst (ndp_serialize_orig k l [] false false j2).
Proof. exists KNS, ndp_fresh, [], (repeat 170 20). vm_compute. discriminate. Qed.

(* ------------------------------------------------------------------ C01 *)
(* The renderers (LayerString/LayerDump reach ICMPv6TypeCode.String and ICMPv6Option.String; the
   latter is also called directly) have no failing index, slice or nil dereference on ANY value. *)
Theorem C01_icmp6_render_total :
  (forall l, icmp6_render_panics l = false) /\ (forall l, ndp_render_panics l = false) /\
  (forall o, opt_string_panics o = false).
Proof.
  split; [intros; apply tc_string_total|]. split; [exact ndp_render_total|exact opt_string_total].
Qed.
Print Assumptions C01_icmp6_render_total.

(* the unchanged String(): total on every state that decoding byte strings can leave behind ... *)
Theorem C01_ndp_render_orig_decoded : forall k old data, bytes_ok data -> opts_wf (n_opts old) ->
  opts_wf (n_opts (fst (fst (ndp_decode_into k old data)))) /\
  ndp_render_panics_orig (fst (fst (ndp_decode_into k old data))) = false.
Proof.
  intros k old data Hb Hw. pose proof (ndp_decode_wf false k old data Hb Hw) as H.
  split; [exact H|apply ndp_render_orig_wf, H].
Qed.

(* ... but not on values built from the public fields *)
Theorem C01_ndp_render_orig_refuted : exists l, ndp_render_panics_orig l = true.
Proof. exists (mkNdp 0 0 0 0 0 [] [] [mkOpt 25 [0;0]] [] []). reflexivity. Qed.

Example C01_icmp6_nonvacuous :
  opts_wf (n_opts ndp_fresh) /\ opt_string_panics (mkOpt 25 (repeat 0 38)) = false /\
  opt_string_panics_orig (mkOpt 25 (repeat 0 38)) = false.
Proof. split; [constructor|split; reflexivity]. Qed.

(* ================================================================== ICMPv6Echo *)
(* Echo request/reply body (icmp6msg.go:62-67,140-178), repaired: DecodeFromBytes assigns BaseLayer. *)
Theorem C19_echo_no_panic : forall old data, is_panic (snd (fst (echo_decode_into old data))) = false.
Proof. intros. apply echo_decode_no_panic. Qed.
Print Assumptions C19_echo_no_panic.

Theorem C05_echo_fresh : forall old data,
  let '(l1, r1, t1) := echo_decode_into old data in
  let '(l2, r2, t2) := echo_decode_into echo_fresh data in
  r1 = r2 /\ t1 = t2 /\ (r1 = Ok tt -> l1 = l2).
Proof. exact echo_decode_fresh. Qed.
Print Assumptions C05_echo_fresh.

(* the unchanged code never assigned BaseLayer: contents and payload of the previous packet stay *)
Theorem C05_echo_fresh_orig_refuted : exists old data,
  snd (fst (echo_decode_into_orig old data)) = Ok tt /\
  fst (fst (echo_decode_into_orig old data)) <> fst (fst (echo_decode_into_orig echo_fresh data)).
Proof. exists (mkEcho 1 2 [0; 1; 0; 2] [9]), [0; 3; 0; 4; 7; 7]. split; [reflexivity|]. vm_compute. discriminate. Qed.

Theorem C06_echo_roundtrip : forall l payload junk, echo_okb l = true ->
  exists bytes, echo_serialize l payload true true junk = (Ok bytes, l) /\
    echo_decode_into echo_fresh bytes = (mkEcho (ec_id l) (ec_seq l) (firstn 4 bytes) payload, Ok tt, false) /\
    forall junk', fst (echo_serialize (mkEcho (ec_id l) (ec_seq l) (firstn 4 bytes) payload) payload true true junk') = Ok bytes.
Proof. exact echo_roundtrip. Qed.
Print Assumptions C06_echo_roundtrip.

(* the unchanged decoder lost the echo data: the payload written does not come back *)
Theorem C06_echo_roundtrip_orig_refuted : exists l payload,
  echo_okb l = true /\
  match echo_serialize l payload true true [] with
  | (Ok bytes, _) => ec_payload (fst (fst (echo_decode_into_orig echo_fresh bytes))) <> payload
  | _ => False
  end.
Proof. exists (mkEcho 7 1 [] []), [1; 2; 3]. split; [reflexivity|]. vm_compute. discriminate. Qed.

Theorem C07_echo_total_junk_free : forall l payload fx cs j1 j2,
  is_panic (fst (echo_serialize l payload fx cs j1)) = false /\
  echo_serialize l payload fx cs j1 = echo_serialize l payload fx cs j2.
Proof. intros. rewrite !echo_serialize_closed. split; reflexivity. Qed.
Print Assumptions C07_echo_total_junk_free.

Example C06_echo_nonvacuous : echo_okb (mkEcho 4660 65535 [] []) = true.
Proof. reflexivity. Qed.
