(* placeholder, replaced below *)
From GP Require Import Base N6Lib Licmp6Model.
Example Licmp6_model_runs : snd (fst (icmp6_decode_into icmp6_fresh [135;0;0;0])) = Ok tt.
Proof. reflexivity. Qed.
