(* Lctp — EthernetCTP decoder chain (layers/ctp.go): contributions to C19 and C01.
   No DecodeFromBytes (C05 n/a), no SerializeTo (C06/C07 n/a). *)
From GP Require Import Base ListX Codec MiscLib LctpModel.
From Coq Require Import Lia ZifyBool ZifyNat.
Open Scope Z_scope.
Ltac Zify.zify_post_hook ::= Z.div_mod_to_equations.

Lemma ctp_le16_ok data i : 0 <= i -> i + 2 <= zlen data -> ctp_le16 data i = Ok (nth (Z.to_nat i) data 0 + 256 * nth (Z.to_nat (i + 1)) data 0).
Proof. intros. unfold ctp_le16. rewrite cd_slc_ok by lia. rewrite !cd_idx_ok by lia. reflexivity. Qed.

Lemma slice_len (l : list Z) a b : 0 <= a <= b -> b <= zlen l -> zlen (slice l (Z.to_nat a) (Z.to_nat b)) = b - a.
Proof. intros. unfold zlen in *. rewrite slice_length by lia. lia. Qed.

Lemma slice_split (l : list Z) k : 0 <= k <= zlen l -> slice l (Z.to_nat 0) (Z.to_nat k) ++ slice l (Z.to_nat k) (Z.to_nat (zlen l)) = l.
Proof.
  intros H. unfold slice. change (Z.to_nat 0) with 0%nat. cbn [skipn].
  rewrite (firstn_all2 (n := Z.to_nat (zlen l)) l) by (unfold zlen; lia). apply firstn_skipn.
Qed.

(* all properties of one run of the function-type decoder, by induction on the fuel:
   no panic, fuel suffices, forward addresses have 6 octets, the layer contents tile the data *)
Definition ctp_good (data : list Z) (acc : list ctpl) (r : list ctpl * outcome unit * bool) : Prop :=
  is_panic (snd (fst r)) = false /\ snd (fst r) <> Err 99 /\
  (ctp_render_panics acc = false -> ctp_render_panics (fst (fst r)) = false) /\
  (snd (fst r) = Ok tt -> concat (map ctp_contents (fst (fst r))) = concat (map ctp_contents acc) ++ data /\ snd r = false).

Lemma ctp_render_app a x : ctp_render_panics (a ++ [x]) = ctp_render_panics a || ctp_render_panics [x].
Proof. unfold ctp_render_panics. rewrite existsb_app. reflexivity. Qed.

Lemma ctp_contents_app a x : concat (map ctp_contents (a ++ [x])) = concat (map ctp_contents a) ++ ctp_contents x.
Proof. rewrite map_app, concat_app. cbn [map concat]. rewrite app_nil_r. reflexivity. Qed.

Lemma ctp_fn_good : forall fuel data acc, zlen data < Z.of_nat fuel -> ctp_good data acc (ctp_fn fuel data acc).
Proof.
  induction fuel as [|f IH]; intros data acc Hf; [pose proof (zlen_nonneg data); lia|].
  cbn [ctp_fn]. cbv zeta. unfold ctp_good.
  destruct (zlen data <? 2) eqn:C0; [cbn [fst snd]; repeat split; try discriminate; auto|].
  rewrite ctp_le16_ok by lia. cbn [ml_bind].
  match goal with |- context [if ?fn =? 1 then _ else _] => destruct (fn =? 1) eqn:F1 end.
  - destruct (zlen data <? 4) eqn:C1; [cbn [fst snd]; repeat split; try discriminate; auto|].
    rewrite ctp_le16_ok by lia. rewrite cd_slc_ok by lia. cbn [ml_bind fst snd].
    repeat split; try discriminate.
    + intros Ha. rewrite ctp_render_app, Ha. reflexivity.
    + rewrite ctp_contents_app. reflexivity.
  - match goal with |- context [if ?fn =? 2 then _ else _] => destruct (fn =? 2) eqn:F2 end; [|cbn [fst snd]; repeat split; try discriminate; auto].
    destruct (zlen data <? 8) eqn:C1; [cbn [fst snd]; repeat split; try discriminate; auto|].
    rewrite !cd_slc_ok by lia. cbn [ml_bind].
    set (addr := slice data (Z.to_nat 2) (Z.to_nat 8)). set (c := slice data (Z.to_nat 0) (Z.to_nat 8)).
    set (p := slice data (Z.to_nat 8) (Z.to_nat (zlen data))).
    assert (La : zlen addr = 6) by (unfold addr; rewrite slice_len by lia; lia).
    assert (Lp : zlen p = zlen data - 8) by (unfold p; rewrite slice_len by lia; lia).
    assert (Ecp : c ++ p = data) by (apply slice_split; lia).
    match goal with |- context [CtpFwd ?fn addr c p] => set (x := CtpFwd fn addr c p) end.
    assert (Rx : ctp_render_panics [x] = false) by (unfold x, ctp_render_panics; cbn [existsb]; rewrite La; reflexivity).
    destruct (zlen p =? 0) eqn:C2.
    + cbn [fst snd]. repeat split; try discriminate.
      * intros Ha. rewrite ctp_render_app, Ha, Rx. reflexivity.
      * rewrite ctp_contents_app. unfold x. cbn [ctp_contents]. assert (Ep : p = []) by (destruct p; [reflexivity|rewrite zlen_cons in *; pose proof (zlen_nonneg p); lia]).
        rewrite <- Ecp, Ep, app_nil_r. reflexivity.
    + specialize (IH p (acc ++ [x]) ltac:(lia)). destruct IH as [I1 [I2 [I3 I4]]]. repeat split; try assumption.
      * intros Ha. apply I3. rewrite ctp_render_app, Ha, Rx. reflexivity.
      * destruct (I4 H) as [E _]. rewrite E, ctp_contents_app. unfold x. cbn [ctp_contents]. rewrite <- app_assoc, Ecp. reflexivity.
      * apply I4. assumption.
Qed.

Lemma ctp_decode_good data : ctp_good data [] (ctp_decode data).
Proof.
  unfold ctp_decode. cbv zeta. unfold ctp_good.
  destruct (zlen data <? 2) eqn:C0; [cbn [fst snd]; repeat split; try discriminate; auto|].
  rewrite ctp_le16_ok by lia. rewrite !cd_slc_ok by lia. cbn [ml_bind].
  match goal with |- context [if negb ?c then _ else _] => destruct c; cbn [negb] end; [|cbn [fst snd]; repeat split; try discriminate; auto].
  set (c := slice data (Z.to_nat 0) (Z.to_nat 2)). set (p := slice data (Z.to_nat 2) (Z.to_nat (zlen data))).
  assert (Lp : zlen p = zlen data - 2) by (unfold p; rewrite slice_len by lia; lia).
  assert (Ecp : c ++ p = data) by (apply slice_split; lia).
  destruct (zlen p =? 0) eqn:C2.
  - cbn [fst snd]. repeat split; try discriminate. cbn [map concat ctp_contents app]. rewrite app_nil_r.
    assert (Ep : p = []) by (destruct p; [reflexivity|rewrite zlen_cons in *; pose proof (zlen_nonneg p); lia]). rewrite <- Ecp, Ep, app_nil_r. reflexivity.
  - match goal with |- context [ctp_fn ?f p ?a] => pose proof (ctp_fn_good f p a ltac:(unfold zlen in *; lia)) as G end.
    destruct G as [I1 [I2 [I3 I4]]]. repeat split; try assumption.
    + destruct (I4 H) as [E _]. rewrite E. cbn [map concat ctp_contents app]. rewrite app_nil_r. exact Ecp.
    + apply I4. assumption.
Qed.

(* C19: the decoder chain returns an error, never panics, on every byte string (and the fuel of the model suffices) *)
Theorem C19_ctp_no_panic : forall old data,
  is_panic (snd (fst (ctp_decode_into old data))) = false /\ snd (fst (ctp_decode_into old data)) <> Err 99.
Proof. intros old data. destruct (ctp_decode_good data) as [A [B _]]. split; assumption. Qed.
Print Assumptions C19_ctp_no_panic.

(* C01: the renderers and accessors (ForwardEndpoint builds an endpoint from the 6-octet address) run on whatever
   layers the chain added, also when it ended in an error *)
Theorem C01_ctp_render_total : forall old data, ctp_render_panics (fst (fst (ctp_decode_into old data))) = false.
Proof. intros old data. destruct (ctp_decode_good data) as [_ [_ [C _]]]. apply C. reflexivity. Qed.
Print Assumptions C01_ctp_render_total.

(* a successful decode accounts for every octet: the layer contents, in order, are the packet; never truncated *)
Theorem C19_ctp_tiling : forall old data l tr, ctp_decode_into old data = (l, Ok tt, tr) ->
  concat (map ctp_contents l) = data /\ tr = false.
Proof.
  intros old data l tr H. destruct (ctp_decode_good data) as [_ [_ [_ D]]]. unfold ctp_decode_into in H. rewrite H in D. cbn [fst snd] in D.
  destruct (D eq_refl) as [E T]. split; [exact E|exact T].
Qed.
Print Assumptions C19_ctp_tiling.

Example Lctp_nonvacuous :
  ctp_decode_into [] [0;0;2;0;1;2;3;4;5;6;1;0;7;0;9] =
    ([CtpTop 0 [0;0] [2;0;1;2;3;4;5;6;1;0;7;0;9]; CtpFwd 2 [1;2;3;4;5;6] [2;0;1;2;3;4;5;6] [1;0;7;0;9]; CtpReply 1 7 [9] [1;0;7;0;9]], Ok tt, false).
Proof. vm_compute. reflexivity. Qed.
