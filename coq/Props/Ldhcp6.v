(* Ldhcp6 — DHCPv6 message and option codec (layers/dhcpv6.go, dhcpv6_options.go): contributions to C19, C05, C06, C07, C01.
   Refuted for the code before the repairs: C19 (option end computed in uint16), C05 (header fields of the other message
   kind kept), C01 (requested-options String). *)
From GP Require Import Base ListX Codec MiscLib Ldhcp6Model Ldhcp4Ser Ldhcp6Rt.
From Coq Require Import Lia ZifyBool ZifyNat.
Open Scope Z_scope.
Ltac Zify.zify_post_hook ::= Z.div_mod_to_equations.

Ltac xstep :=
  match goal with
  | |- context [ml_bind ?o _ _ _] => destruct o eqn:?; cbn [ml_bind]
  | |- context [if ?c then _ else _] => destruct c eqn:?
  end.

(* ---------------------------------------------------------------- decoder *)
Lemma d6_loop_ok data : bytes_ok data -> forall fuel off, 0 <= off -> exists r, d6_loop false data off fuel = Ok r.
Proof.
  intros Hb. induction fuel as [|f IH]; intros off H0; [eexists; reflexivity|].
  cbn [d6_loop]. destruct (zlen data <=? off) eqn:C0; [eexists; reflexivity|].
  rewrite cd_slc_ok by lia. cbn [obind].
  set (rest := slice data (Z.to_nat off) (Z.to_nat (zlen data))).
  assert (Hr : zlen rest = zlen data - off) by (unfold rest, zlen in *; rewrite slice_length by lia; lia).
  assert (Hbr : bytes_ok rest) by (apply bytes_ok_slice; exact Hb).
  destruct (zlen rest <? 4) eqn:C1; [eexists; reflexivity|].
  rewrite !cd_rd16_ok by lia. cbn [obind].
  pose proof (bytes_ok_nth rest (Z.to_nat 2) Hbr). pose proof (bytes_ok_nth rest (Z.to_nat (2 + 1)) Hbr).
  set (ln := nth (Z.to_nat 2) rest 0 * 256 + nth (Z.to_nat (2 + 1)) rest 0) in *.
  destruct (zlen rest <? 4 + ln) eqn:C2; [eexists; reflexivity|].
  rewrite cd_slc_ok by lia. cbn [obind].
  destruct (IH (off + ln + 4)) as [r Hr']; [lia|]. rewrite Hr'. cbn [obind]. eexists; reflexivity.
Qed.

Theorem C19_dhcp6_no_panic : forall old data, bytes_ok data -> is_panic (snd (fst (d6_decode_into old data))) = false.
Proof.
  intros old data Hb. unfold d6_decode_into, d6_decode_gen. cbv zeta. destruct (zlen data <? 4) eqn:Hn; [reflexivity|].
  rewrite (cd_idx_ok data 0) by lia. cbn [ml_bind].
  destruct (d6_relay _).
  - destruct (zlen data <? 34) eqn:C; [reflexivity|].
    rewrite cd_idx_ok by lia. rewrite !cd_slc_ok by lia. cbn [ml_bind].
    destruct (d6_loop_ok data Hb (Z.to_nat (zlen data + 1)) 34) as [r Hr]; [lia|]. rewrite Hr. cbn [ml_bind]. destruct (snd r); reflexivity.
  - rewrite !cd_slc_ok by lia. cbn [ml_bind].
    destruct (d6_loop_ok data Hb (Z.to_nat (zlen data + 1)) 4) as [r Hr]; [lia|]. rewrite Hr. cbn [ml_bind]. destruct (snd r); reflexivity.
Qed.
Print Assumptions C19_dhcp6_no_panic.

Lemma bytes_ok_repeat0 n : bytes_ok (repeat 0 n).
Proof. apply Forall_forall. intros x Hx. apply repeat_spec in Hx. subst. unfold byte_ok. lia. Qed.

(* before the repair: an option of length 65535 inside 64 KiB of data: data[4 : uint16(4+65535)] = data[4:3] *)
Theorem C19_dhcp6_orig_refuted : exists data, bytes_ok data /\ is_panic (snd (fst (d6_decode_gen true d6_fresh data))) = true.
Proof.
  exists ([1;0;0;0; 0;1;255;255] ++ repeat 0 65535). split.
  - apply Forall_app. split; [repeat constructor; unfold byte_ok; lia | apply bytes_ok_repeat0].
  - vm_compute. reflexivity.
Qed.

Theorem C05_dhcp6_fresh : forall old data,
  let r1 := d6_decode_into old data in
  let r2 := d6_decode_into d6_fresh data in
  snd (fst r1) = snd (fst r2) /\ snd r1 = snd r2 /\
  (snd (fst r1) = Ok tt -> fst (fst r1) = fst (fst r2)).
Proof.
  intros old data. cbv zeta. unfold d6_decode_into, d6_decode_gen. cbv zeta.
  repeat (xstep; try solve [cbn [fst snd]; split; [reflexivity | split; [reflexivity | try (intros X; discriminate X); try reflexivity]]]).
  all: try (cbn [fst snd]; split; [reflexivity | split; [reflexivity | intros _; reflexivity]]).
Qed.
Print Assumptions C05_dhcp6_fresh.

(* before the repair: a solicit decoded into an object that held a relay message keeps its hop count and addresses *)
Theorem C05_dhcp6_orig_refuted : exists old data,
  snd (fst (d6_decode_gen true old data)) = Ok tt /\ fst (fst (d6_decode_gen true old data)) <> fst (fst (d6_decode_gen true d6_fresh data)).
Proof.
  exists (fst (fst (d6_decode_gen true d6_fresh ([12;7] ++ repeat 1 32)))). exists [1;9;9;9].
  split; [vm_compute; reflexivity|]. vm_compute. intros X. discriminate X.
Qed.

Theorem C01_dhcp6_render_total : forall old data, d6_render_panics (fst (fst (d6_decode_into old data))) = false.
Proof. reflexivity. Qed.
(* before the repair: a requested-options option of odd length at the end of the data *)
Theorem C01_dhcp6_orig_refuted : exists data,
  snd (fst (d6_decode_gen true d6_fresh data)) = Ok tt /\ d6_render_gen true (fst (fst (d6_decode_gen true d6_fresh data))) = true.
Proof. exists [1;0;0;0; 0;6;0;3; 0;1;0]. split; vm_compute; reflexivity. Qed.

(* ---------------------------------------------------------------- serializer *)
Definition d6_lens_ok (l : dhcp6) : Prop := Forall (fun o => 0 <= o6_len o) (d6_opts l).

Lemma wrc_len b i vs : 0 <= i -> i + zlen vs <= zlen b -> exists b', ml_wrc b i vs = Ok b' /\ zlen b' = zlen b.
Proof. intros. rewrite ml_wrc_ok by lia. eexists; split; [reflexivity|apply cd_wr_length]. Qed.
Lemma copy_len b i vs : 0 <= i <= zlen b -> exists b', ml_copy b i vs = Ok b' /\ zlen b' = zlen b.
Proof.
  intros. unfold ml_copy. destruct (0 <=? i) eqn:A, (i <=? zlen b) eqn:B; try lia. cbn [andb].
  eexists; split; [reflexivity|apply cd_wr_length].
Qed.
Lemma zlen_firstn_le (k : nat) (l : list Z) : zlen (firstn k l) <= Z.of_nat k.
Proof. unfold zlen. rewrite firstn_length. lia. Qed.
Lemma d6_optsum_nonneg os : Forall (fun o => 0 <= o6_len o) os -> 0 <= d6_optsum os.
Proof. induction 1; cbn [d6_optsum fold_right]; [lia|]. fold (d6_optsum l). lia. Qed.

Lemma d6_ser_opts_ok fixl : forall os b off, Forall (fun o => 0 <= o6_len o) os -> 0 <= off -> off + d6_optsum os <= zlen b ->
  exists b', d6_ser_opts fixl b off os = Ok b' /\ zlen b' = zlen b.
Proof.
  induction os as [|o r IH]; intros b off Hl H0 H1; [eexists; split; reflexivity|].
  inversion Hl as [|? ? Ho Hr]; subst. pose proof (d6_optsum_nonneg r Hr) as Ns.
  cbn [d6_optsum fold_right] in H1. fold (d6_optsum r) in H1. cbn [d6_ser_opts].
  destruct (wrc_len b off (cd_put16 (o6_code o))) as [b1 [E1 L1]]; [lia|change (zlen (cd_put16 _)) with 2; lia|]. rewrite E1. cbn [obind].
  destruct (wrc_len b1 (off + 2) (cd_put16 (if fixl then zlen (o6_data o) mod 65536 else o6_len o))) as [b2 [E2 L2]]; [lia|change (zlen (cd_put16 _)) with 2; lia|].
  rewrite E2. cbn [obind].
  destruct (copy_len b2 (off + 4) (o6_data o)) as [b3 [E3 L3]]; [lia|]. rewrite E3. cbn [obind].
  destruct (IH b3 (off + o6_len o + 4) Hr) as [b' [E L]]; [lia|lia|]. exists b'. split; [exact E|lia].
Qed.

Lemma d6_fix_lens_ok os : Forall (fun o => 0 <= o6_len o) (map d6_fixopt os).
Proof. apply Forall_forall. intros o Ho. apply in_map_iff in Ho. destruct Ho as [x [<- _]]. cbn. pose proof (zlen_nonneg (o6_data x)). lia. Qed.

Theorem C07_dhcp6_no_panic : forall l payload fixl csum junk, d6_lens_ok l -> is_panic (fst (d6_serialize l payload fixl csum junk)) = false.
Proof.
  intros l payload fixl csum junk Hl. unfold d6_serialize, d6_serialize_gen. cbv zeta. rewrite d6_zero_region.
  match goal with |- context [d6_len ?x] => set (l' := x) end.
  assert (Hl' : Forall (fun o => 0 <= o6_len o) (d6_opts l')).
  { unfold l'. destruct (fixl && negb false); [cbn [d6_opts]; apply d6_fix_lens_ok|exact Hl]. }
  pose proof (d6_optsum_nonneg _ Hl') as Ns.
  set (b0 := repeat 0 (Z.to_nat (d6_len l'))).
  assert (L0 : zlen b0 = d6_len l') by (unfold b0, zlen; rewrite repeat_length; unfold d6_len; destruct (d6_relay (d6_mt l')); lia).
  destruct (wrc_len b0 0 [d6_mt l' mod 256]) as [b1 [E1 L1]]; [lia|rewrite zlen_one, L0; unfold d6_len; destruct (d6_relay (d6_mt l')); lia|].
  rewrite E1. cbn [obind]. unfold d6_len in L0. destruct (d6_relay (d6_mt l')).
  - destruct (wrc_len b1 1 [d6_hop l' mod 256]) as [b2 [E2 L2]]; [lia|rewrite zlen_one; lia|]. rewrite E2. cbn [obind].
    pose proof (zlen_firstn_le 16 (d6_to16 (d6_link l'))). pose proof (zlen_firstn_le 16 (d6_to16 (d6_peer l'))).
    destruct (wrc_len b2 2 (firstn 16 (d6_to16 (d6_link l')))) as [b3 [E3 L3]]; [lia|lia|]. rewrite E3. cbn [obind].
    destruct (wrc_len b3 18 (firstn 16 (d6_to16 (d6_peer l')))) as [b4 [E4 L4]]; [lia|lia|]. rewrite E4. cbn [obind].
    destruct (d6_ser_opts_ok fixl (d6_opts l') b4 34 Hl') as [b' [E L]]; [lia|lia|]. rewrite E. reflexivity.
  - pose proof (zlen_firstn_le 3 (d6_xid l')).
    destruct (wrc_len b1 1 (firstn 3 (d6_xid l'))) as [b2 [E2 L2]]; [lia|lia|]. rewrite E2. cbn [obind].
    destruct (d6_ser_opts_ok fixl (d6_opts l') b2 4 Hl') as [b' [E L]]; [lia|lia|]. rewrite E. reflexivity.
Qed.
Print Assumptions C07_dhcp6_no_panic.

(* the message is zeroed before it is filled: nothing of the buffer's earlier content can remain *)
Theorem C07_dhcp6_junk_free : forall l payload fixl csum junk1 junk2,
  d6_serialize l payload fixl csum junk1 = d6_serialize l payload fixl csum junk2.
Proof. intros. unfold d6_serialize, d6_serialize_gen. cbv zeta. rewrite !d6_zero_region. reflexivity. Qed.
Print Assumptions C07_dhcp6_junk_free.

(* ---------------------------------------------------------------- round trip (coq/Proofs/Ldhcp6Rt.v) *)
(* a well-formed message (option Length = len(Data), 16-octet addresses for relay messages, a 3-octet transaction id
   otherwise) serialized without payload decodes to itself; the serializer output is header ++ options (d6_serialize_closed) *)
Theorem C06_dhcp6_roundtrip : forall l fixl csum junk bytes l' old,
  d6_wf l -> d6_serialize l [] fixl csum junk = (Ok bytes, l') ->
  d6_opts l' = d6_opts l /\ zlen bytes = d6_len l /\
  d6_decode_into old bytes = (mkD6 bytes [] (d6_mt l) (d6_hop l) (d6_link l) (d6_peer l) (d6_xid l) (d6_opts l), Ok tt, false).
Proof. exact d6_roundtrip. Qed.
Print Assumptions C06_dhcp6_roundtrip.

Example Ldhcp6_nonvacuous :
  let l := mkD6 [] [] 1 0 [] [] [7;8;9] [mkO6 1 3 [5;5;5]; mkO6 6 0 []] in
  d6_wf l /\ fst (d6_serialize l [] true false [170;170;170]) = Ok [1;7;8;9; 0;1;0;3;5;5;5; 0;6;0;0] /\
  d6_decode_into d6_fresh [1;7;8;9; 0;1;0;3;5;5;5; 0;6;0;0] = (mkD6 [1;7;8;9; 0;1;0;3;5;5;5; 0;6;0;0] [] 1 0 [] [] [7;8;9] [mkO6 1 3 [5;5;5]; mkO6 6 0 []], Ok tt, false) /\
  snd (fst (d6_decode_into d6_fresh [1;7;8;9; 0;1;0;3;5;5])) = Err 3 /\
  d6_opts (snd (d6_serialize (mkD6 [] [] 1 0 [] [] [7;8;9] [mkO6 1 9 [5]]) [] true false [])) = [mkO6 1 1 [5]].
Proof.
  split.
  - unfold d6_wf, d6_opt_wf. cbn. repeat split; try lia; repeat constructor; cbn; unfold byte_ok; try lia.
  - repeat split; vm_compute; reflexivity.
Qed.
