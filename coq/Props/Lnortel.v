(* Lnortel — Nortel Discovery Protocol decoder (layers/ndp.go): contributions to C19, C01.  No DecodeFromBytes (C05 n/a), no SerializeTo (C06/C07 n/a). *)
From GP Require Import Base ListX Codec MiscLib LnortelModel.
From Coq Require Import Lia ZifyBool ZifyNat.
Open Scope Z_scope.

Theorem C19_nortel_no_panic : forall data, is_panic (snd (fst (nt_decode data))) = false.
Proof.
  intros data. unfold nt_decode. cbv zeta. destruct (zlen data <? 11) eqn:Hn; [reflexivity|].
  rewrite ?cd_idx_ok by lia. rewrite ?cd_slc_ok by lia. reflexivity.
Qed.
Print Assumptions C19_nortel_no_panic.

Theorem C01_nortel_render_total : forall data, nt_render_panics (fst (fst (nt_decode data))) = false.
Proof. reflexivity. Qed.

Example Lnortel_nonvacuous :
  nt_decode [10;0;0;1; 0;0;9; 44;12;3; 2; 99] = (mkNt [] [] [10;0;0;1] [0;0;9] 44 12 3 2, Ok tt, false) /\ snd (fst (nt_decode [10;0;0;1; 0;0;9; 44;12;3])) = Err 1.
Proof. split; vm_compute; reflexivity. Qed.
