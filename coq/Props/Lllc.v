(* Lllc — LLC and SNAP codecs (layers/llc.go): contributions to C19, C05, C06, C07, C01. *)
From GP Require Import Base Codec MiscLib LllcModel LllcProofs.
Open Scope Z_scope.

Theorem C19_llc_no_panic : forall old data, is_panic (snd (fst (llc_decode_into old data))) = false.
Proof. exact llc_decode_no_panic. Qed.
Print Assumptions C19_llc_no_panic.

Theorem C19_snap_no_panic : forall old data, is_panic (snd (fst (snap_decode_into old data))) = false.
Proof. exact snap_decode_no_panic. Qed.
Print Assumptions C19_snap_no_panic.

Theorem C05_llc_fresh : forall old data,
  let r1 := llc_decode_into old data in
  let r2 := llc_decode_into llc_fresh data in
  snd (fst r1) = snd (fst r2) /\ snd r1 = snd r2 /\
  (snd (fst r1) = Ok tt -> fst (fst r1) = fst (fst r2)).
Proof. exact llc_decode_fresh. Qed.
Print Assumptions C05_llc_fresh.

Theorem C05_snap_fresh : forall old data,
  let r1 := snap_decode_into old data in
  let r2 := snap_decode_into snap_fresh data in
  snd (fst r1) = snd (fst r2) /\ snd r1 = snd r2 /\
  (snd (fst r1) = Ok tt -> fst (fst r1) = fst (fst r2)).
Proof. exact snap_decode_fresh. Qed.
Print Assumptions C05_snap_fresh.

(* C06 (repaired SerializeTo): every well-formed LLC value — in particular every decoded one,
   C06_llc_decoded_wf — is written in the width its decoder reads back *)
Theorem C06_llc_roundtrip : forall l payload fixl csum junk bytes l' old,
  llc_wf l -> llc_serialize l payload fixl csum junk = (Ok bytes, l') ->
  l' = l /\ bytes = llc_hdr false l ++ payload /\
  llc_decode_into old bytes =
    (mkLlc (llc_hdr false l) payload (c_dsap l) (c_ig l) (c_ssap l) (c_cr l) (c_control l), Ok tt, false).
Proof. exact llc_roundtrip. Qed.
Print Assumptions C06_llc_roundtrip.

Theorem C06_llc_decoded_wf : forall old data l tr, bytes_ok data ->
  llc_decode_into old data = (l, Ok tt, tr) -> llc_wf l.
Proof. exact llc_decoded_wf. Qed.
Print Assumptions C06_llc_decoded_wf.

(* the unrepaired length rule (Control & 0xFF00 != 0) loses a decoded layer: witness aa aa 00 05 *)
Theorem C06_llc_roundtrip_orig_refuted :
  exists data l bytes l2, bytes_ok data /\ llc_decode_into llc_fresh data = (l, Ok tt, false) /\
    fst (llc_serialize_orig l [9;9] true true []) = Ok bytes /\
    llc_decode_into llc_fresh bytes = (l2, Ok tt, false) /\ c_payload l2 <> [9;9] /\ c_control l2 <> c_control l.
Proof. exact llc_roundtrip_orig_refuted. Qed.
Print Assumptions C06_llc_roundtrip_orig_refuted.

Theorem C06_snap_roundtrip : forall l payload fixl csum junk bytes l' old,
  snap_wf l -> snap_serialize l payload fixl csum junk = (Ok bytes, l') ->
  l' = l /\ bytes = s_oui l ++ cd_put16 (s_type l) ++ payload /\
  snap_decode_into old bytes = (mkSnap (s_oui l ++ cd_put16 (s_type l)) payload (s_oui l) (s_type l), Ok tt, false).
Proof. exact snap_roundtrip. Qed.
Print Assumptions C06_snap_roundtrip.

Theorem C06_snap_decoded_wf : forall old data l tr, bytes_ok data ->
  snap_decode_into old data = (l, Ok tt, tr) -> snap_wf l.
Proof. exact snap_decoded_wf. Qed.
Print Assumptions C06_snap_decoded_wf.

Theorem C07_llc_no_panic : forall l payload fixl csum junk,
  is_panic (fst (llc_serialize l payload fixl csum junk)) = false.
Proof. intros. apply llc_serialize_no_panic. Qed.
Print Assumptions C07_llc_no_panic.

Theorem C07_llc_junk_free : forall l payload fixl csum junk1 junk2,
  llc_serialize l payload fixl csum junk1 = llc_serialize l payload fixl csum junk2.
Proof. intros. apply llc_serialize_junk_free. Qed.
Print Assumptions C07_llc_junk_free.

(* repaired SNAP.SerializeTo: an error, not a panic, for every value incl. the zero value and
   the residue of a failed decode *)
Theorem C07_snap_no_panic : forall l payload fixl csum junk,
  is_panic (fst (snap_serialize l payload fixl csum junk)) = false.
Proof. exact snap_serialize_no_panic. Qed.
Print Assumptions C07_snap_no_panic.

Theorem C07_snap_orig_refuted : exists l, fst (snap_serialize_orig l [] true true []) = Panic 1 /\
  exists data, fst (fst (snap_decode_into snap_fresh data)) = l.
Proof. exact snap_serialize_orig_panics. Qed.
Print Assumptions C07_snap_orig_refuted.

Theorem C07_snap_junk_free : forall l payload fixl csum junk1 junk2,
  snap_serialize l payload fixl csum junk1 = snap_serialize l payload fixl csum junk2.
Proof. exact snap_serialize_junk_free. Qed.
Print Assumptions C07_snap_junk_free.

(* C01: neither type has a String method or a flow accessor: reflective renderers only *)
Theorem C01_llc_render_total : forall old data, llc_render_panics (fst (fst (llc_decode_into old data))) = false.
Proof. reflexivity. Qed.
Theorem C01_snap_render_total : forall old data, snap_render_panics (fst (fst (snap_decode_into old data))) = false.
Proof. reflexivity. Qed.

Example Lllc_nonvacuous :
  let l := mkLlc [] [] 170 false 170 true 3 in
  llc_wf l /\ llc_serialize l [0;0;12] false false [9;9;9] = (Ok [170;171;3;0;0;12], l) /\
  (let l4 := mkLlc [] [] 66 false 66 false 5 in llc_wf l4 /\ fst (llc_serialize l4 [] false false []) = Ok [66;66;0;5]) /\
  (let s := mkSnap [] [] [0;0;12] 8192 in snap_wf s /\ fst (snap_serialize s [1] true true [7]) = Ok [0;0;12;32;0;1]).
Proof.
  cbv zeta. split; [unfold llc_wf; cbn; lia|]. split; [vm_compute; reflexivity|].
  split; [split; [unfold llc_wf; cbn; lia|vm_compute; reflexivity]|].
  split; [unfold snap_wf; cbn; lia|vm_compute; reflexivity].
Qed.
