(* Leap — EAP packet codec (layers/eap.go): contributions to C19, C05, C06, C07, C01. *)
From GP Require Import Base ListX Codec MiscLib LeapModel.
From Coq Require Import Lia ZifyBool ZifyNat.
Open Scope Z_scope.
Ltac Zify.zify_post_hook ::= Z.div_mod_to_equations.

Theorem C19_eap_no_panic : forall orig old data, bytes_ok data -> is_panic (snd (fst (eap_decode_gen orig old data))) = false.
Proof.
  intros orig old data Hb. unfold eap_decode_gen. cbv zeta. destruct (zlen data <? 4) eqn:Hn; [reflexivity|].
  rewrite !cd_idx_ok by lia. rewrite cd_rd16_ok by lia. cbn [ml_bind].
  pose proof (bytes_ok_nth data (Z.to_nat 2) Hb). pose proof (bytes_ok_nth data (Z.to_nat (2 + 1)) Hb).
  set (len := nth (Z.to_nat 2) data 0 * 256 + nth (Z.to_nat (2 + 1)) data 0) in *.
  destruct (zlen data <? len) eqn:C1; [reflexivity|]. destruct (4 <? len) eqn:C2.
  - rewrite cd_idx_ok by lia. destruct orig; rewrite !cd_slc_ok by lia; reflexivity.
  - destruct (len =? 4) eqn:C3; [|reflexivity]. rewrite !cd_slc_ok by lia. reflexivity.
Qed.
Print Assumptions C19_eap_no_panic.

Ltac xstep :=
  match goal with
  | |- context [ml_bind ?o _ _ _] => destruct o eqn:?; cbn [ml_bind]
  | |- context [if ?c then _ else _] => destruct c eqn:?
  end.
Theorem C05_eap_fresh : forall orig old data,
  let r1 := eap_decode_gen orig old data in
  let r2 := eap_decode_gen orig eap_fresh data in
  snd (fst r1) = snd (fst r2) /\ snd r1 = snd r2 /\
  (snd (fst r1) = Ok tt -> fst (fst r1) = fst (fst r2)).
Proof.
  intros orig old data. cbv zeta. unfold eap_decode_gen. cbv zeta.
  repeat (xstep; try solve [cbn [fst snd]; split; [reflexivity | split; [reflexivity | try (intros X; discriminate X); try reflexivity]]]).
  all: try (cbn [fst snd]; split; [reflexivity | split; [reflexivity | intros _; reflexivity]]).
Qed.
Print Assumptions C05_eap_fresh.

(* ---------------------------------------------------------------- serializer *)
Definition eap_has (fixl : bool) (l : eap) : bool := negb (e_type l =? 0) || (zlen (e_tdata l) >? 0) || (negb fixl && (4 <? e_length l)).
Definition eap_size (fixl : bool) (l : eap) : Z := if eap_has fixl l then 5 + zlen (e_tdata l) else 4.
Definition eap_len (fixl : bool) (l : eap) : Z := if fixl then eap_size fixl l mod 65536 else e_length l.
Definition eap_hdr (fixl : bool) (l : eap) : list Z :=
  [e_code l mod 256; e_id l mod 256] ++ cd_put16 (eap_len fixl l) ++ (if eap_has fixl l then [e_type l mod 256] ++ e_tdata l else []).

Lemma eap_serialize_spec l payload fixl csum junk :
  eap_serialize l payload fixl csum junk =
  (Ok (eap_hdr fixl l ++ payload), mkEap (e_contents l) (e_payload l) (e_code l) (e_id l) (eap_len fixl l) (e_type l) (e_tdata l)).
Proof.
  unfold eap_serialize, eap_serialize_gen, eap_hdr. cbv zeta. fold (eap_has fixl l). fold (eap_size fixl l). fold (eap_len fixl l).
  pose proof (zlen_nonneg (e_tdata l)) as Nd. unfold eap_size. destruct (eap_has fixl l) eqn:Hh.
  - replace (4 <? 5 + zlen (e_tdata l)) with true by lia.
    pose proof (ml_tile_init (5 + zlen (e_tdata l)) junk ltac:(lia)) as T.
    assert (Z2 : forall a b : Z, zlen [a; b] = 2) by reflexivity.
    ml_tile_step T; [rewrite ?Z2; lia..|]. ml_tile_step T; [rewrite ?Z2; lia..|]. ml_tile_step T; [rewrite ?Z2; lia..|]. ml_tile_step T; [rewrite ?Z2; lia..|].
    apply ml_tile_done in T; [|rewrite !zlen_app, zlen_put16, zlen_one, Z2, zlen_nil; lia]. subst. rewrite <- !app_assoc. reflexivity.
  - replace (4 <? 4) with false by reflexivity.
    pose proof (ml_tile_init 4 junk ltac:(lia)) as T.
    assert (Z2 : forall a b : Z, zlen [a; b] = 2) by reflexivity.
    ml_tile_step T; [rewrite ?Z2; lia..|]. ml_tile_step T; [rewrite ?Z2; lia..|].
    apply ml_tile_done in T; [|reflexivity]. subst. rewrite app_nil_r. reflexivity.
Qed.

Theorem C07_eap_no_panic : forall l payload fixl csum junk, is_panic (fst (eap_serialize l payload fixl csum junk)) = false.
Proof. intros. rewrite eap_serialize_spec. reflexivity. Qed.
Print Assumptions C07_eap_no_panic.

Theorem C07_eap_junk_free : forall l payload fixl csum junk1 junk2,
  eap_serialize l payload fixl csum junk1 = eap_serialize l payload fixl csum junk2.
Proof. intros. rewrite !eap_serialize_spec. reflexivity. Qed.
Print Assumptions C07_eap_junk_free.

(* C06 (repaired, FixLengths): octet code/id/type, packet below 2^16 octets.  A layer with Type 0 and no type data is written
   as the bare 4 octet header (Success/Failure); every other layer with its type octet.  The payload comes back untouched. *)
Definition eap_wf (l : eap) : Prop := 0 <= e_code l < 256 /\ 0 <= e_id l < 256 /\ 0 <= e_type l < 256 /\ 5 + zlen (e_tdata l) < 65536.

Theorem C06_eap_roundtrip : forall l payload csum junk bytes l' old,
  eap_wf l -> eap_serialize l payload true csum junk = (Ok bytes, l') ->
  bytes = eap_hdr true l ++ payload /\ e_length l' = eap_size true l /\
  eap_decode_into old bytes = (mkEap (eap_hdr true l) payload (e_code l) (e_id l) (eap_size true l) (e_type l) (e_tdata l), Ok tt, false).
Proof.
  intros l payload csum junk bytes l' old [Hc [Hi [Ht Hl]]]. rewrite eap_serialize_spec. intros X.
  assert (E1 : bytes = eap_hdr true l ++ payload) by congruence.
  assert (E2 : l' = mkEap (e_contents l) (e_payload l) (e_code l) (e_id l) (eap_len true l) (e_type l) (e_tdata l)) by congruence. clear X.
  pose proof (zlen_nonneg (e_tdata l)) as Nd. pose proof (zlen_nonneg payload) as Np.
  assert (Esz : eap_len true l = eap_size true l) by (unfold eap_len, eap_size; destruct (eap_has true l); lia).
  split; [exact E1|]. split; [rewrite E2; exact Esz|]. subst bytes. clear E2 l'.
  unfold eap_hdr. rewrite Esz. unfold eap_size. rewrite (Z.mod_small (e_code l)), (Z.mod_small (e_id l)) by lia.
  destruct (eap_has true l) eqn:Hh.
  - rewrite (Z.mod_small (e_type l)) by lia. set (sz := 5 + zlen (e_tdata l)). assert (Hsz : 5 <= sz < 65536) by (unfold sz; lia).
    set (h5 := [e_code l; e_id l] ++ cd_put16 sz ++ [e_type l]).
    remember (([e_code l; e_id l] ++ cd_put16 sz ++ [e_type l] ++ e_tdata l) ++ payload) as data eqn:Hd.
    assert (Ed : data = h5 ++ e_tdata l ++ payload) by (rewrite Hd; unfold h5; rewrite <- !app_assoc; reflexivity).
    assert (Hn : zlen data = sz + zlen payload) by (rewrite Ed, !zlen_app; change (zlen h5) with 5; unfold sz; lia).
    assert (NA : forall k, (k < 5)%nat -> nth k data 0 = nth k h5 0) by (intros k Hk; rewrite Ed; apply app_nth1; exact Hk).
    unfold eap_decode_into, eap_decode_gen. cbv zeta. replace (zlen data <? 4) with false by lia.
    rewrite !cd_idx_ok by lia. rewrite cd_rd16_ok by lia. cbn [ml_bind].
    change (Z.to_nat 0) with 0%nat; change (Z.to_nat 1) with 1%nat; change (Z.to_nat 2) with 2%nat; change (Z.to_nat (2 + 1)) with 3%nat.
    rewrite !NA by lia.
    assert (P0 : nth 0 h5 0 = e_code l) by reflexivity. assert (P1 : nth 1 h5 0 = e_id l) by reflexivity. assert (P4 : nth 4 h5 0 = e_type l) by reflexivity.
    assert (P2 : nth 2 h5 0 * 256 + nth 3 h5 0 = sz).
    { change (nth 2 h5 0) with ((sz / 256) mod 256). change (nth 3 h5 0) with (sz mod 256). lia. }
    rewrite !P0, !P1, !P2.
    replace (zlen data <? sz) with false by lia. replace (4 <? sz) with true by (unfold sz; lia).
    rewrite ?cd_idx_ok by lia. rewrite !cd_slc_ok by lia. cbn [ml_bind]. change (Z.to_nat 4) with 4%nat. rewrite ?NA by lia. rewrite ?P4.
    assert (S1 : slice data (Z.to_nat 5) (Z.to_nat sz) = e_tdata l) by (rewrite Ed; apply slice_at; [reflexivity|]; change (length h5) with 5%nat; unfold sz, zlen; lia).
    assert (S2 : slice data (Z.to_nat 0) (Z.to_nat sz) = h5 ++ e_tdata l).
    { rewrite Ed, app_assoc. apply slice_from_start. rewrite app_length. change (length h5) with 5%nat. unfold sz, zlen. lia. }
    assert (S3 : slice data (Z.to_nat sz) (Z.to_nat (zlen data)) = payload).
    { rewrite Hn, Ed, app_assoc. apply slice_to_end; rewrite app_length; change (length h5) with 5%nat; unfold sz, zlen; lia. }
    rewrite S1, S2, S3. unfold h5. rewrite <- !app_assoc. reflexivity.
  - assert (Hz : e_type l = 0 /\ e_tdata l = []).
    { unfold eap_has in Hh. cbn [negb andb] in Hh. rewrite orb_false_r in Hh. apply orb_false_elim in Hh. destruct Hh as [A B].
      split; [lia|]. destruct (e_tdata l); [reflexivity|rewrite zlen_cons in B; pose proof (zlen_nonneg l0); lia]. }
    destruct Hz as [Ht0 Hd0]. rewrite Ht0, Hd0. rewrite app_nil_r.
    set (h4 := [e_code l; e_id l] ++ cd_put16 4). remember (h4 ++ payload) as data eqn:Hd.
    assert (Hn : zlen data = 4 + zlen payload) by (rewrite Hd, zlen_app; reflexivity).
    assert (NA : forall k, (k < 4)%nat -> nth k data 0 = nth k h4 0) by (intros k Hk; rewrite Hd; apply app_nth1; exact Hk).
    unfold eap_decode_into, eap_decode_gen. cbv zeta. replace (zlen data <? 4) with false by lia.
    rewrite !cd_idx_ok by lia. rewrite cd_rd16_ok by lia. cbn [ml_bind].
    change (Z.to_nat 0) with 0%nat; change (Z.to_nat 1) with 1%nat; change (Z.to_nat 2) with 2%nat; change (Z.to_nat (2 + 1)) with 3%nat.
    rewrite !NA by lia.
    assert (Q0 : nth 0 h4 0 = e_code l) by reflexivity. assert (Q1 : nth 1 h4 0 = e_id l) by reflexivity.
    assert (Q2 : nth 2 h4 0 * 256 + nth 3 h4 0 = 4) by reflexivity. rewrite !Q0, !Q1, !Q2.
    replace (zlen data <? 4) with false by lia. change (4 <? 4) with false. change (4 =? 4) with true. cbv iota.
    rewrite !cd_slc_ok by lia. cbn [ml_bind].
    assert (S2 : slice data (Z.to_nat 0) (Z.to_nat 4) = h4) by (rewrite Hd; apply slice_from_start; reflexivity).
    assert (S3 : slice data (Z.to_nat 4) (Z.to_nat (zlen data)) = payload) by (rewrite Hn, Hd; apply slice_to_end; [reflexivity|]; change (length h4) with 4%nat; unfold zlen; lia).
    rewrite S2, S3. reflexivity.
Qed.
Print Assumptions C06_eap_roundtrip.

(* before the repairs: FixLengths wrote len(TypeData)+1, so a decoded Identity request came back as a bare header;
   and TypeData took the octets behind the packet too *)
Theorem C06_eap_orig_refuted :
  exists l bytes, eap_decode_orig eap_fresh [1;7;0;8;1;98;111;98] = (l, Ok tt, false) /\
    fst (eap_serialize_orig l [] true true []) = Ok bytes /\ e_tdata (fst (fst (eap_decode_orig eap_fresh bytes))) = [] /\
    fst (eap_serialize l [] true true []) = Ok [1;7;0;8;1;98;111;98] /\
    e_tdata (fst (fst (eap_decode_orig eap_fresh [2;7;0;6;1;98;0;0]))) = [98;0;0] /\ e_tdata (fst (fst (eap_decode_into eap_fresh [2;7;0;6;1;98;0;0]))) = [98].
Proof. eexists. eexists. split; [vm_compute; reflexivity|]. split; [vm_compute; reflexivity|]. repeat split; vm_compute; reflexivity. Qed.
Print Assumptions C06_eap_orig_refuted.

Theorem C01_eap_render_total : forall orig old data, eap_render_panics (fst (fst (eap_decode_gen orig old data))) = false.
Proof. reflexivity. Qed.

Example Leap_nonvacuous :
  let l := mkEap [] [] 1 7 0 1 [98;111;98] in eap_wf l /\ fst (eap_serialize l [9] true false []) = Ok [1;7;0;8;1;98;111;98;9].
Proof. split; [unfold eap_wf; cbn; lia|vm_compute; reflexivity]. Qed.
