(* C14ng — pcapng: the reader (NgModel: repaired pcapgo/ngread*.go) returns what the writer
   (pcapgo/ngwrite*.go) was given; a truncated file gives a true prefix.
   Property theorems only; proofs in Proofs/NgExec.v, NgRoundtrip.v (one packet block), NgFile.v (whole
   files), NgPrefix.v and NgPrefixFile.v (truncation). *)
From GP Require Import Base NgModel NgIoProofs NgWp NgSafeProofs NgExec NgRoundtrip NgFile NgPrefix NgPrefixFile NgFuel NgPrefixOwn NgUnmixed NgFull NgUnmixedPrefix.
Open Scope Z_scope.

Definition new_class (r : Z * list pkt * Z * rst) : Z := fst (fst (fst r)).
Definition end_class (r : Z * list pkt * Z * rst) : Z := snd (fst r).
Definition packets (r : Z * list pkt * Z * rst) : list pkt := snd (fst (fst r)).

(* ------------------------------------------------------------------ full statements *)
(* what a script asks the writer to store, as the reader reports it *)
(* expected_pkt, links_of, snaps_of, op_pre: see Proofs/NgFull.v *)
(* preconditions: exactly what the writer enforces, plus what the format can represent *)
(* str_ok, wif_ok, sec_ok: see Proofs/NgFile.v *)

(* C14_ng_roundtrip, full strength: every accepted script of interface additions and packets is
   read back (all link types wanted) as exactly its packets, then io.EOF *)
Definition C14_ng_roundtrip_statement : Prop :=
  forall ro sec i0 ops,
    ro_mixed ro = true -> sec_ok sec -> wif_ok i0 ->
    Forall (fun op => match op with
                      | WAddIf i => wif_ok i
                      | WPacket ifid ts caplen len data o =>
                        0 <= ts < 9223372036854775808 /\ caplen = zlen data /\ caplen <= len < 4294967296 /\ wf_popts o
                        /\ opts_bytes (popts_to_options o) + zlen data + 64 < 4294967296
                      | _ => False end) ops ->
    Forall (fun r => snd r = true) (write_blocks sec i0 ops) ->   (* every call was accepted *)
    let r := write_cut_read ro sec i0 ops (length (write_file sec i0 ops)) in
    new_class r = 0 /\ end_class r = 1 /\
    packets r = flat_map (expected_pkt (links_of i0 ops)) ops.

(* C14_ng_prefix, full strength: cut anywhere, exactly the packets wholly contained come back,
   then io.EOF at a block boundary and io.ErrUnexpectedEOF elsewhere *)
Definition C14_ng_prefix_statement : Prop :=
  forall ro sec i0 ops k,
    C14_ng_roundtrip_statement ->
    ro_mixed ro = true ->
    (k <= length (write_file sec i0 ops))%nat ->
    let blocks := map fst (write_blocks sec i0 ops) in
    let r := write_cut_read ro sec i0 ops k in
    exists j, (j <= length ops)%nat /\
      (length (concat (firstn (S j) blocks)) <= k)%nat /\
      ((j < length ops)%nat -> (k < length (concat (firstn (S (S j)) blocks)))%nat) /\
      packets r = flat_map (expected_pkt (links_of i0 ops)) (firstn j ops) /\
      end_class r = (if Nat.eqb k (length (concat (firstn (S j) blocks))) then 1 else 2).

(* ------------------------------------------------------------------ proved *)
(* Round trip of one packet through WritePacketWithOptions and Read/ZeroCopyReadPacketDataWithOptions,
   in ANY reader state of a little-endian section whose interface [ifid] has the resolution the
   writer declares (if_tsresol 9) and no if_tsoffset, with ANY reader options that want all link
   types, and whatever bytes follow the block ([rest]): the packet comes back with the same bytes,
   lengths, interface, timestamp, link type and options — comments including empty ones and every
   option length residue mod 4 —, the input is consumed exactly up to the end of the block, and
   the interface list is left as it was.  Hence also the packet-level half of the prefix
   property: a block wholly contained in a truncated file yields its packet unaltered whatever
   follows it. *)
Theorem C14_ng_roundtrip_partial : forall ro F s ifid ts caplen len data o rest,
  ro_mixed ro = true -> r_big s = false -> (length (popts_to_options o) + 2 < F)%nat ->
  wf_packet (r_ifaces s) ifid ts caplen len data o ->
  exists s' i, nth_error (r_ifaces s) (Z.to_nat ifid) = Some i /\
    exec (readPacket ro F) s (enc_epb ifid ts caplen len data o ++ rest)
      = ((s', Ok (mkPkt (mkCi ifid (ts / E9, ts mod E9) caplen len) (if_link i) data o)), rest)
    /\ r_big s' = false /\ r_ifaces s' = r_ifaces s /\ r_link s' = r_link s /\ r_first s' = r_first s
    /\ r_sect s' = r_sect s /\ r_names s' = r_names s.
Proof. exact exec_epb. Qed.
Print Assumptions C14_ng_roundtrip_partial.

(* the option area alone: whatever NgPacketOptions the writer serialises is parsed back as itself *)
Theorem C14_ng_options_roundtrip : forall F o s rest,
  (length (popts_to_options o) < F)%nat -> r_big s = false -> wf_popts o ->
  r_blen s = zlen (opts_enc (popts_to_options o)) + 4 -> r_blen s < 4294967296 ->
  exists s', exec (pkt_opts F empty_popts) s (opts_enc (popts_to_options o) ++ rest) = ((s', Ok o), rest)
    /\ r_blen s' = 4 /\ core s' = core s.
Proof. exact exec_pkt_opts_written. Qed.
Print Assumptions C14_ng_options_roundtrip.

(* evaluation on a byte list is evaluation of the flat stream interpreter the runner uses *)
Theorem C14_ng_exec_is_session : forall ro d,
  fst (session_flat ro d false) = fst (run_d (session ro (fuel_for (zlen d))) d).
Proof. exact session_flat_d. Qed.
Print Assumptions C14_ng_exec_is_session.


(* ------------------------------------------------------------------ proved at file level *)
(* C14_ng_roundtrip for the sub-language {NewNgWriterInterface, AddInterface, WritePacketWithOptions,
   WriteDecryptionSecretsBlock, WriteInterfaceStats} — every call the writer has
   (any section description, any number of interfaces of any link types and snap lengths, any
   NgPacketOptions), all link types wanted, copying or zero-copy call.  [ops_ok] (Proofs/NgFile.v) is
   exactly: strings and option values shorter than 65536 bytes, if_tsoffset 0, and for each packet
   what WritePacketWithOptions enforces (interface exists, caplen = |data| <= len) plus timestamp in
   [0, 2^63) ns, caplen <= snap length of its interface (when not 0), sizes below 2^32.
   An interface statistics block is parsed and recorded in the statistics of its interface (the
   reader state is the script's interfaces up to their statistics, Proofs/NgFile.v sinv); a
   decryption secrets block is skipped; the packets are unaffected.
   Missing from the full statement: WantMixedLinkType = false (packets of other link types skipped). *)
Theorem C14_ng_roundtrip_file_partial : forall ro sec i0 ops,
  ro_mixed ro = true -> sec_ok sec -> ops_ok [] (WAddIf i0 :: ops) -> zlen ops < 4294967290 ->
  let r := write_cut_read ro sec i0 ops (length (write_file sec i0 ops)) in
  new_class r = 0 /\ end_class r = 1 /\ packets r = exp_pkts [] (WAddIf i0 :: ops).
Proof. exact roundtrip_file. Qed.
Print Assumptions C14_ng_roundtrip_file_partial.

(* C14_ng_roundtrip with WantMixedLinkType = false, same scripts.  NewNgReader also reads the first
   interface; the reader then returns exactly [exp_unmixed] (Proofs/NgUnmixed.v): the packets of
   interfaces whose link type is that of the first interface, in order, with no ancillary link type
   (-1); a packet of another link type is skipped, or - with ErrorOnMismatchingLinkType - the packets
   before it are returned and the reading ends with ErrNgLinkTypeMismatch (class 3) instead of io.EOF. *)
Theorem C14_ng_roundtrip_file_unmixed_partial : forall ro sec i0 ops,
  ro_mixed ro = false -> sec_ok sec -> ops_ok [] (WAddIf i0 :: ops) -> zlen ops < 4294967290 ->
  let r := write_cut_read ro sec i0 ops (length (write_file sec i0 ops)) in
  let e := exp_unmixed (ro_errmis ro) (wi_link i0) [i0] ops in
  new_class r = 0 /\ packets r = fst e /\ end_class r = snd e.
Proof. exact roundtrip_file_u. Qed.
Print Assumptions C14_ng_roundtrip_file_unmixed_partial.

(* under ops_ok the writer accepts every call and the file is the section header followed by the blocks *)
Theorem C14_ng_writer_accepts : forall sec i0 ops, ops_ok [] (WAddIf i0 :: ops) -> zlen ops < 4294967290 ->
  write_file sec i0 ops = enc_shb sec ++ enc_ops (WAddIf i0 :: ops)
  /\ Forall (fun r => snd r = true) (write_blocks sec i0 ops).
Proof. exact write_file_shape. Qed.
Print Assumptions C14_ng_writer_accepts.

(* C14_ng_prefix for the same sub-language and every cut position behind the section header: the
   script is split anywhere as pre ++ nxt :: post and the file is cut k bytes into the block of
   nxt (k = 0: at the block boundary).  Exactly the packets of pre come back, then io.EOF at the
   boundary and io.ErrUnexpectedEOF inside the block.  The cut after the last block is
   C14_ng_roundtrip_file_partial.  The reader runs with any fuel at least that of the whole file (the model's
   fuel is a proof device; C15_ng_terminates shows the fuel of the cut input is never exhausted
   either, but the equality of the two runs is not proved).  Cuts inside the section header block: C14_ng_prefix_header_partial.  The run with the cut
   input's own fuel: C14_ng_prefix_file_own_fuel_partial.  Missing: WantMixedLinkType = false. *)
Theorem C14_ng_prefix_file_partial : forall ro sec i0 ops pre nxt post k,
  ro_mixed ro = true -> sec_ok sec -> ops_ok [] (WAddIf i0 :: ops) -> zlen ops < 4294967290 ->
  WAddIf i0 :: ops = pre ++ nxt :: post -> (k < length (enc_op nxt))%nat ->
  let file := write_file sec i0 ops in
  forall F, (fuel_for (zlen file) <= F)%nat ->
  let cut := (length (enc_shb sec) + length (enc_ops pre) + k)%nat in
  let r := fst (run_d (session ro F) (firstn cut file)) in
  new_class r = 0 /\ packets r = exp_pkts [] pre /\ end_class r = (if (k =? 0)%nat then 1 else 2).
Proof. exact prefix_file. Qed.
Print Assumptions C14_ng_prefix_file_partial.

(* cuts inside the section header block: NewNgReader fails with io.EOF for the empty file and
   io.ErrUnexpectedEOF otherwise, no packet *)
Theorem C14_ng_prefix_header_partial : forall ro sec i0 ops k,
  ro_mixed ro = true -> sec_ok sec -> ops_ok [] (WAddIf i0 :: ops) -> zlen ops < 4294967290 ->
  (k < length (enc_shb sec))%nat ->
  forall F, (6 < F)%nat ->
  let r := fst (run_d (session ro F) (firstn k (write_file sec i0 ops))) in
  new_class r = (if (k =? 0)%nat then 1 else 2) /\ packets r = [] /\ end_class r = (if (k =? 0)%nat then 1 else 2).
Proof. exact prefix_file_shb. Qed.
Print Assumptions C14_ng_prefix_header_partial.

(* the same two theorems for the run the extracted model performs: the cut input read with the
   fuel computed from the cut input itself (write_cut_read), for a written file that consists of
   bytes.  Rests on C14_ng_fuel_independence below and on C15_ng_terminates. *)
Theorem C14_ng_prefix_file_own_fuel_partial : forall ro sec i0 ops pre nxt post k,
  ro_mixed ro = true -> sec_ok sec -> ops_ok [] (WAddIf i0 :: ops) -> zlen ops < 4294967290 ->
  bytes_ok (write_file sec i0 ops) ->
  WAddIf i0 :: ops = pre ++ nxt :: post -> (k < length (enc_op nxt))%nat ->
  let r := write_cut_read ro sec i0 ops (length (enc_shb sec) + length (enc_ops pre) + k) in
  new_class r = 0 /\ packets r = exp_pkts [] pre /\ end_class r = (if (k =? 0)%nat then 1 else 2).
Proof. exact prefix_file_own. Qed.
Print Assumptions C14_ng_prefix_file_own_fuel_partial.

Theorem C14_ng_prefix_header_own_fuel_partial : forall ro sec i0 ops k,
  ro_mixed ro = true -> sec_ok sec -> ops_ok [] (WAddIf i0 :: ops) -> zlen ops < 4294967290 ->
  bytes_ok (write_file sec i0 ops) -> (k < length (enc_shb sec))%nat ->
  let r := write_cut_read ro sec i0 ops k in
  new_class r = (if (k =? 0)%nat then 1 else 2) /\ packets r = [] /\ end_class r = (if (k =? 0)%nat then 1 else 2).
Proof. exact prefix_file_shb_own. Qed.
Print Assumptions C14_ng_prefix_header_own_fuel_partial.

(* fuel is a proof device only: a session that does not end out of fuel (class 9) is the session
   with any larger fuel, on every input and for every reader option set *)
Theorem C14_ng_fuel_independence : forall ro F F' l, (F <= F')%nat ->
  end_class (fst (run_d (session ro F) l)) <> 9 -> run_d (session ro F') l = run_d (session ro F) l.
Proof. exact session_fuel_indep. Qed.
Print Assumptions C14_ng_fuel_independence.

(* the two block lemmas behind it: a block cut short ends the read with io.ErrUnexpectedEOF *)
Theorem C14_ng_cut_packet_block : forall ro F g s ifid ts caplen len data o k,
  ro_mixed ro = true -> r_big s = false -> (length (popts_to_options o) + 2 < F)%nat ->
  wf_packet (r_ifaces s) ifid ts caplen len data o ->
  (0 < k < length (enc_epb ifid ts caplen len data o))%nat ->
  exists s', exec (readPacketG ro F (S g)) s (firstn k (enc_epb ifid ts caplen len data o)) = ((s', Err 2), []).
Proof. exact trunc_epb. Qed.
Print Assumptions C14_ng_cut_packet_block.
Theorem C14_ng_cut_interface_block : forall ro F g s w k,
  r_big s = false -> wif_ok w -> (length (idb_options w) < F)%nat -> (0 < k < length (enc_idb w))%nat ->
  exists s', exec (readPacketG ro F (S g)) s (firstn k (enc_idb w)) = ((s', Err 2), []).
Proof. exact trunc_idb. Qed.
Print Assumptions C14_ng_cut_interface_block.

(* the generic truncation lemma: a program all of whose end-of-stream continuations return
   io.ErrUnexpectedEOF, on a prefix of its input, either does so or behaves as on the whole input *)
Theorem C14_ng_truncation : forall (A : Type) (p : io (rst * outcome A)), eof2 p -> forall l k, (k <= length l)%nat ->
  (exists s, run_d p (firstn k l) = ((s, Err 2), []))
  \/ (exists c, (c <= k)%nat /\ snd (run_d p l) = skipn c l
                /\ run_d p (firstn k l) = (fst (run_d p l), firstn (k - c) (skipn c l))).
Proof. exact @trunc. Qed.
Print Assumptions C14_ng_truncation.

(* ------------------------------------------------------------------ refuted (known finding) *)
(* with a non-zero TimestampOffset the packet comes back shifted: the writer stores the absolute
   time and also if_tsoffset, the reader adds the offset again (ng-tsoffset-added-twice) *)
Theorem C14_ng_roundtrip_tsoffset_refuted :
  exists sec i0 ts data,
    let ops := [WPacket 0 ts 2 2 data empty_popts] in
    let r := write_cut_read (mkRo true false false false) sec i0 ops (length (write_file sec i0 ops)) in
    new_class r = 0 /\ end_class r = 1 /\
    map (fun p => ci_ts (p_ci p)) (packets r) = [(ts / E9 + wi_tsoff i0, ts mod E9)] /\ wi_tsoff i0 = 100.
Proof.
  exists (mkSec [] [] [] []), (mkWif [101;116;104;48] [] [] [] [] 1 9 100 0), 5000000000007, [1;2].
  vm_compute. repeat split; reflexivity.
Qed.
Print Assumptions C14_ng_roundtrip_tsoffset_refuted.

(* ------------------------------------------------------------------ samples (not the theorems) *)
(* non-vacuity of the hypotheses of C14_ng_roundtrip_partial, and the whole-file statements on
   one concrete script: two interfaces, packets with empty and odd-length comments, flags, hash,
   drop count, queue, verdict; every truncation offset of the written file *)
Definition sample_sec := mkSec [120] [] [103;111] [99].
Definition sample_i0 := mkWif [101;116;104;48] [] [100] [116;99;112] [] 1 9 0 96.
Definition sample_ops : list wop :=
  [WPacket 0 1600000000123456789 2 60 [1;2] (mkPopts [[102;105;114;115;116]; []] None [] None None None []);
   WAddIf (mkWif [119] [] [] [] [] 113 9 0 0);
   WPacket 1 5000000000007 3 3 [7;8;9]
     (mkPopts [[]; [97]; [98;99;100]] (Some (2, 4, 32, 65536)) [(2, [222;173;190])] (Some 7) None (Some 3) [(1, [1;2;3;4;5;6;7;8])]);
   WPacket 0 0 0 0 [] empty_popts].

Example C14_ng_sample_roundtrip :
  let r := write_cut_read (mkRo true false false false) sample_sec sample_i0 sample_ops
                          (length (write_file sample_sec sample_i0 sample_ops)) in
  new_class r = 0 /\ end_class r = 1 /\
  packets r = flat_map (expected_pkt (links_of sample_i0 sample_ops)) sample_ops.
Proof. vm_compute. repeat split; reflexivity. Qed.

(* every truncation offset of that file: number of packets returned and terminal class *)
Definition sample_blocks := map fst (write_blocks sample_sec sample_i0 sample_ops).
Definition sample_cut (k : nat) : nat * Z :=
  let r := write_cut_read (mkRo true false false false) sample_sec sample_i0 sample_ops k in
  (length (packets r), if new_class r =? 0 then end_class r else new_class r).
Definition sample_expect (k : nat) : nat * Z :=
  let ends := map (fun j => length (concat (firstn j sample_blocks))) (seq 1 (length sample_blocks)) in
  let pk_ends := [nth 1 ends 0%nat; nth 3 ends 0%nat; nth 4 ends 0%nat] in
  (length (filter (fun e => Nat.leb e k) pk_ends),
   if orb (Nat.eqb k 0) (existsb (Nat.eqb k) (* block boundaries from the end of the section header on *)
            (length (enc_shb sample_sec) :: ends)) then 1 else 2).
Example C14_ng_sample_prefix :
  forallb (fun k => let '(a, b) := sample_cut k in let '(c, d) := sample_expect k in Nat.eqb a c && (b =? d))
          (seq 0 (S (length (write_file sample_sec sample_i0 sample_ops)))) = true.
Proof. vm_compute. reflexivity. Qed.

(* non-vacuity of wf_packet *)
Example C14_ng_wf_nonvacuous :
  wf_packet [mkIface [] [] [] [] [] 1 9 0 0 empty_stats E9 1 1] 0 5000000000007 3 5 [1;2;3]
            (mkPopts [[97]; []] (Some (1, 8, 64, 131072)) [(3, [1])] None (Some 9) None []).
Proof.
  unfold wf_packet. split; [lia|]. split; [reflexivity|]. split; [lia|]. split; [lia|].
  split.
  { unfold wf_popts; cbn [po_comments po_flags po_hashes po_drop po_pid po_queue po_verdicts].
    split; [repeat constructor; vm_compute; reflexivity|].
    split; [unfold flags_wf; split; [lia|]; split; [exists 2; lia|]; split; [exists 2; lia|exists 2; lia]|].
    split; [repeat constructor; vm_compute; reflexivity|].
    split; [exact I|]. split; [lia|]. split; [exact I|constructor]. }
  split; [vm_compute; reflexivity|]. split; [lia|].
  eexists. split; [reflexivity|]. split; [unfold iface_ns; cbn; auto|]. split; [left; reflexivity|vm_compute; reflexivity].
Qed.

(* non-vacuity of ops_ok *)
Example C14_ng_ops_ok_nonvacuous :
  ops_ok [] [WAddIf (mkWif [101] [] [] [116] [] 1 9 0 96);
             WStats 0 (mkWstats (Some 5000000000007) None (Some 7) 3 NoValue64);
             WDSB 1414288203 [1;2;3];
             WPacket 0 5000000000007 3 5 [1;2;3] (mkPopts [[97]; []] (Some (1, 8, 64, 131072)) [(3, [1])] None (Some 9) None [])]
  /\ sec_ok sample_sec.
Proof.
  split; [|unfold sec_ok, str_ok, sample_sec; cbn; unfold zlen; cbn; lia].
  cbn [ops_ok app map]. split; [unfold wif_ok, str_ok; cbn; unfold zlen; cbn; lia|].
  split; [unfold zlen; cbn; lia|]. split; [lia|].
  split; [reflexivity|]. split; [lia|]. split; [unfold zlen; cbn; lia|]. split; [|exact I].
  unfold wf_packet. split; [lia|]. split; [reflexivity|]. split; [lia|]. split; [lia|].
  split.
  { unfold wf_popts; cbn [po_comments po_flags po_hashes po_drop po_pid po_queue po_verdicts].
    split; [repeat constructor; vm_compute; reflexivity|].
    split; [unfold flags_wf; split; [lia|]; split; [exists 2; lia|]; split; [exists 2; lia|exists 2; lia]|].
    split; [repeat constructor; vm_compute; reflexivity|].
    split; [exact I|]. split; [lia|]. split; [exact I|constructor]. }
  split; [vm_compute; reflexivity|]. split; [lia|].
  eexists. split; [reflexivity|]. split; [unfold iface_ns; cbn; auto|]. split; [right; vm_compute; congruence|vm_compute; reflexivity].
Qed.

(* the sample script read with WantMixedLinkType = false and ErrorOnMismatchingLinkType: one packet, then the mismatch error *)
Example C14_ng_unmixed_sample :
  let r := write_cut_read (mkRo false true false false) sample_sec sample_i0 sample_ops
                          (length (write_file sample_sec sample_i0 sample_ops)) in
  (packets r, end_class r) = exp_unmixed true (wi_link sample_i0) [sample_i0] sample_ops /\ end_class r = 3 /\ length (packets r) = 1%nat.
Proof. vm_compute. repeat split; reflexivity. Qed.


(* ------------------------------------------------------------------ the literal full statement *)
(* C14_ng_roundtrip_statement as first written lacks one hypothesis the repaired reader needs:
   capture length <= snap length of the packet's interface (when that is not 0).  The writer
   accepts such a packet, the reader refuses it (check added by the repair, as in classic pcap), so
   the statement as literally written is false; witness: snap length 2, a 4-byte packet. *)
Theorem C14_ng_roundtrip_statement_as_written_refuted : ~ C14_ng_roundtrip_statement.
Proof.
  intros H.
  specialize (H (mkRo true false false false) (mkSec [] [] [] []) (mkWif [] [] [] [] [] 1 9 0 2)
                [WPacket 0 1000 4 4 [1;2;3;4] empty_popts] eq_refl).
  assert (end_class (write_cut_read (mkRo true false false false) (mkSec [] [] [] []) (mkWif [] [] [] [] [] 1 9 0 2)
                       [WPacket 0 1000 4 4 [1;2;3;4] empty_popts]
                       (length (write_file (mkSec [] [] [] []) (mkWif [] [] [] [] [] 1 9 0 2) [WPacket 0 1000 4 4 [1;2;3;4] empty_popts]))) = 3) as E
    by (vm_compute; reflexivity).
  cbv zeta in H. rewrite E in H.
  assert (3 = 1) as X; [|discriminate].
  apply H.
  - unfold sec_ok, str_ok; cbn; unfold zlen; cbn; lia.
  - unfold wif_ok, str_ok; cbn; unfold zlen; cbn; lia.
  - constructor; [|constructor]. split; [lia|]. split; [reflexivity|]. split; [unfold zlen; cbn; lia|].
    split; [|vm_compute; reflexivity].
    unfold wf_popts, empty_popts; cbn. repeat split; auto; constructor.
  - vm_compute. repeat constructor.
Qed.
Print Assumptions C14_ng_roundtrip_statement_as_written_refuted.

(* With that hypothesis the statement is C14_ng_roundtrip_file_partial, whose precondition ops_ok
   is the per-call form of the hypotheses above plus caplen <= snap length, and which also allows
   WriteInterfaceStats and WriteDecryptionSecretsBlock calls; C14_ng_roundtrip_file_unmixed_partial
   is its WantMixedLinkType = false counterpart.  What remains open for the C14 pcapng statement:
   if_tsoffset <> 0 (refuted: C14_ng_roundtrip_tsoffset_refuted, known finding), the prefix
   theorems for WantMixedLinkType = false, and option values / data of 2^16 / 2^32 bytes and
   beyond (outside what the format can represent). *)

(* ------------------------------------------------------------------ the full statement, proved *)
(* C14_ng_roundtrip at full strength, with the snap length hypothesis made explicit and every
   writer call allowed: for every section description, first interface and script of AddInterface,
   WritePacketWithOptions, WriteInterfaceStats and WriteDecryptionSecretsBlock calls that the writer
   ACCEPTED (write_blocks flags), where each call satisfies [op_pre] - interface descriptions with
   strings below 2^16 bytes and if_tsoffset 0; packets with timestamp in [0, 2^63) ns,
   caplen = |data| <= len < 2^32, option values below 2^16 bytes, caplen <= snap length of the
   interface (when not 0); secrets below 2^32 bytes - the reader (all link types wanted, copying or
   zero-copy) returns exactly the packets of the script with their interface, timestamp, lengths,
   data, options and link type, then io.EOF. *)
Theorem C14_ng_roundtrip : forall ro sec i0 ops,
  ro_mixed ro = true -> sec_ok sec -> wif_ok i0 -> zlen ops < 4294967290 ->
  Forall (op_pre (snaps_of i0 ops)) ops ->
  Forall (fun r => snd r = true) (write_blocks sec i0 ops) ->
  let r := write_cut_read ro sec i0 ops (length (write_file sec i0 ops)) in
  new_class r = 0 /\ end_class r = 1 /\ packets r = flat_map (expected_pkt (links_of i0 ops)) ops.
Proof. exact roundtrip_full. Qed.
Print Assumptions C14_ng_roundtrip.

(* the call-by-call hypotheses give ops_ok, and exp_pkts is the flat_map form *)
Theorem C14_ng_hypotheses_bridge : forall ops ws, zlen ws + zlen ops < 4294967296 ->
  Forall (op_pre (map wi_snap ws ++ snaps_from ops)) ops ->
  Forall (fun r => snd r = true) (wrun (zlen ws) ops) ->
  ops_ok ws ops /\ exp_pkts ws ops = flat_map (expected_pkt (map wi_link ws ++ links_from ops)) ops.
Proof. exact bridge. Qed.
Print Assumptions C14_ng_hypotheses_bridge.

(* non-vacuity: the sample script satisfies the hypotheses of C14_ng_roundtrip *)
Example C14_ng_roundtrip_nonvacuous :
  Forall (fun r => snd r = true) (write_blocks sample_sec sample_i0 sample_ops) /\ wif_ok sample_i0 /\ sec_ok sample_sec
  /\ nth 1 (snaps_of sample_i0 sample_ops) 5 = 0 /\ nth 0 (snaps_of sample_i0 sample_ops) 5 = 96.
Proof.
  split; [vm_compute; repeat constructor|]. split; [unfold wif_ok, str_ok, sample_i0; cbn; unfold zlen; cbn; lia|].
  split; [unfold sec_ok, str_ok, sample_sec; cbn; unfold zlen; cbn; lia|]. split; reflexivity.
Qed.

(* C14_ng_prefix with WantMixedLinkType = false, for every cut behind the first interface block (at
   block boundaries and inside packet, interface description, statistics and decryption secrets
   blocks - inside a packet block whether its link type is wanted or not): the packets of the
   complete blocks as in C14_ng_roundtrip_file_unmixed_partial; then ErrNgLinkTypeMismatch if a
   rejected packet is among them, else io.EOF at the boundary and io.ErrUnexpectedEOF inside the
   block.  Missing for WantMixedLinkType = false: cuts inside the section header / first interface block
   (both read by NewNgReader). *)
Theorem C14_ng_prefix_file_unmixed_partial : forall ro sec i0 ops pre nxt post k,
  ro_mixed ro = false -> sec_ok sec -> ops_ok [] (WAddIf i0 :: ops) -> zlen ops < 4294967290 ->
  ops = pre ++ nxt :: post -> (k < length (enc_op nxt))%nat ->
  let file := write_file sec i0 ops in
  forall F, (fuel_for (zlen file) <= F)%nat ->
  let cut := (length (enc_shb sec) + length (enc_idb i0) + length (enc_ops pre) + k)%nat in
  let r := fst (run_d (session ro F) (firstn cut file)) in
  let e := exp_unmixed (ro_errmis ro) (wi_link i0) [i0] pre in
  new_class r = 0 /\ packets r = fst e
  /\ end_class r = (if snd e =? 3 then 3 else if (k =? 0)%nat then 1 else 2).
Proof. exact prefix_file_u. Qed.
Print Assumptions C14_ng_prefix_file_unmixed_partial.

(* C14_ng_prefix from the same call-by-call hypotheses as C14_ng_roundtrip (all link types wanted):
   the script with its first interface is split anywhere as pre ++ nxt :: post and the file cut k
   bytes into the block of nxt; exactly the packets of pre come back (exp_pkts, whose flat_map form
   is C14_ng_hypotheses_bridge), then io.EOF at the block boundary (k = 0) and io.ErrUnexpectedEOF
   inside the block.  Cuts inside the section header: C14_ng_prefix_header_partial; the run with the
   cut input's own fuel: C14_ng_prefix_file_own_fuel_partial. *)
Theorem C14_ng_prefix : forall ro sec i0 ops pre nxt post k,
  ro_mixed ro = true -> sec_ok sec -> wif_ok i0 -> zlen ops < 4294967290 ->
  Forall (op_pre (snaps_of i0 ops)) ops ->
  Forall (fun r => snd r = true) (write_blocks sec i0 ops) ->
  WAddIf i0 :: ops = pre ++ nxt :: post -> (k < length (enc_op nxt))%nat ->
  let file := write_file sec i0 ops in
  forall F, (fuel_for (zlen file) <= F)%nat ->
  let cut := (length (enc_shb sec) + length (enc_ops pre) + k)%nat in
  let r := fst (run_d (session ro F) (firstn cut file)) in
  new_class r = 0 /\ packets r = exp_pkts [] pre /\ end_class r = (if (k =? 0)%nat then 1 else 2).
Proof. exact prefix_full. Qed.
Print Assumptions C14_ng_prefix.
