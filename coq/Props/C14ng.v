(* C14ng — pcapng: the reader returns what the writer was given; a truncated file gives a true prefix.
   Property theorems only. *)
From GP Require Import Base NgModel.
Open Scope Z_scope.

(* placeholder sanity example; the theorems follow *)
Example C14_ng_example_roundtrip :
  let sec := mkSec [] [] [] [] in
  let i0 := mkWif [101;116;104;48] [] [] [] [] 1 9 0 0 in
  let o := mkPopts [[102;105;114;115;116]; []] None [] None None None [] in
  match write_cut_read (mkRo true false false false) sec i0 [WPacket 0 5000000000007 2 2 [1;2] o] 1000 with
  | (0, [p], 1, _) => p_data p = [1;2] /\ po_comments (p_opts p) = [[102;105;114;115;116]; []] /\ ci_ts (p_ci p) = (5000, 7)
  | _ => False
  end.
Proof. vm_compute. repeat split; reflexivity. Qed.
