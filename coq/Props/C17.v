(* C17 — placeholder until the theorems are stated (step 2) *)
From GP Require Import Base C17Model.
