(* C17 — flows and endpoints are faithful, hashable, direction-symmetric values.
   Property theorems only; each is closed by a lemma of Proofs/C17Proofs.v or
   Proofs/C17LayerProofs.v.  Model: Model/C17Model.v (flows.go whole + the layer flow table). *)
From GP Require Import Base C17Model C17Proofs C17LayerProofs.
Open Scope Z_scope.

(* Well-formedness (len <= 16, array of 16 bytes, bytes beyond len are zero, type in int64) is
   an invariant of every endpoint and flow obtainable through the public API: for every
   sequence of API operations (NewEndpoint, NewFlow, FlowFromEndpoints, Endpoints, Src, Dst,
   Reverse, the Invalid singletons, comparisons, and the flows of decoded layers) over
   byte-valued inputs, every value in the resulting register file is well formed. *)
Theorem C17_wf_reachable : forall ops, Forall op_ok ops ->
  Forall wf_e (s_eps (run ops)) /\ Forall wf_f (s_fls (run ops)).
Proof. exact run_wf. Qed.
Print Assumptions C17_wf_reachable.

Example C17_wf_reachable_nonvacuous :
  Forall op_ok [ONewE 3 [1;2]; ONewE 3 [1;2;0]; OFromE 0 1; ORev 0; OEndpoints 1; OInvalid;
                OLayer LEthernet [1;2;3;4;5;6;7;8;9;10;11;12;8;0]] /\
  length (s_eps (run [ONewE 3 [1;2]; ONewE 3 [1;2;0]; OFromE 0 1; ORev 0; OEndpoints 1; OInvalid;
                OLayer LEthernet [1;2;3;4;5;6;7;8;9;10;11;12;8;0]])) = 5%nat.
Proof. split; [|vm_compute; reflexivity]. repeat constructor; cbv; intuition discriminate. Qed.

(* Faithful: a constructed value carries exactly the type and bytes it was given (<= 16 bytes);
   more than 16 bytes is rejected (panic outcome) — MaxEndpointSize *)
Theorem C17_faithful_endpoint : forall t raw e, new_endpoint t raw = Ok e ->
  endpoint_type e = t /\ e_rawbytes e = raw.
Proof. exact new_endpoint_faithful. Qed.
Theorem C17_faithful_flow : forall t s d f, new_flow t s d = Ok f ->
  flow_endpoint_type f = t /\ e_rawbytes (flow_src f) = s /\ e_rawbytes (flow_dst f) = d.
Proof. exact new_flow_faithful. Qed.
Theorem C17_accept_16 : forall t raw, (length raw <= 16)%nat -> exists e, new_endpoint t raw = Ok e.
Proof. intros t raw H. eexists. apply new_endpoint_ok, H. Qed.
Theorem C17_reject_17 : forall t raw, (16 < length raw)%nat -> new_endpoint t raw = Panic 1.
Proof. exact new_endpoint_reject. Qed.
Theorem C17_reject_17_flow : forall t s d, (16 < length s)%nat \/ (16 < length d)%nat -> new_flow t s d = Panic 2.
Proof. exact new_flow_reject. Qed.
Theorem C17_accept_16_flow : forall t s d, (length s <= 16)%nat -> (length d <= 16)%nat -> exists f, new_flow t s d = Ok f.
Proof. intros t s d H1 H2. eexists. apply new_flow_ok; assumption. Qed.
Print Assumptions C17_faithful_endpoint.
Print Assumptions C17_faithful_flow.
Print Assumptions C17_reject_17.
Print Assumptions C17_reject_17_flow.

Example C17_reject_nonvacuous :
  new_endpoint 1 (repeat 7 17) = Panic 1 /\ (exists e, new_endpoint 1 (repeat 7 16) = Ok e /\ e_rawbytes e = repeat 7 16).
Proof. split; [reflexivity|]. eexists; split; reflexivity. Qed.

(* Equality: Go `==` (componentwise on the representation, e_eqb/f_eqb) is Leibniz equality, and on
   well-formed values it holds exactly when type and Raw() bytes are equal; hence two such values
   are interchangeable as keys of any map *)
Theorem C17_eq_iff_endpoint : forall a b, wf_e a -> wf_e b ->
  (e_eqb a b = true <-> endpoint_type a = endpoint_type b /\ e_rawbytes a = e_rawbytes b).
Proof. intros a b Wa Wb. rewrite e_eqb_eq. apply wf_e_eq_iff; assumption. Qed.
Theorem C17_eq_iff_flow : forall a b, wf_f a -> wf_f b ->
  (f_eqb a b = true <-> flow_endpoint_type a = flow_endpoint_type b /\
     e_rawbytes (flow_src a) = e_rawbytes (flow_src b) /\ e_rawbytes (flow_dst a) = e_rawbytes (flow_dst b)).
Proof. intros a b Wa Wb. rewrite f_eqb_eq. apply wf_f_eq_iff; assumption. Qed.
Theorem C17_map_key : forall a b, wf_e a -> wf_e b ->
  endpoint_type a = endpoint_type b -> e_rawbytes a = e_rawbytes b ->
  forall m, emap_lookup m a = emap_lookup m b.
Proof. intros a b Wa Wb Ht Hr m. assert (E : a = b) by (apply wf_e_eq_iff; auto). rewrite E; reflexivity. Qed.
Theorem C17_map_key_flow : forall a b, wf_f a -> wf_f b ->
  flow_endpoint_type a = flow_endpoint_type b ->
  e_rawbytes (flow_src a) = e_rawbytes (flow_src b) -> e_rawbytes (flow_dst a) = e_rawbytes (flow_dst b) ->
  forall m, fmap_lookup m a = fmap_lookup m b.
Proof. intros a b Wa Wb Ht Hs Hd m. assert (E : a = b) by (apply wf_f_eq_iff; auto). rewrite E; reflexivity. Qed.
Print Assumptions C17_eq_iff_endpoint.
Print Assumptions C17_eq_iff_flow.
Print Assumptions C17_map_key.
Print Assumptions C17_map_key_flow.

(* without well-formedness the law fails: stale bytes beyond len would make equal Raw() unequal *)
Example C17_eq_needs_wf :
  let a := mkE 1 1%nat (1 :: repeat 0 15) in let b := mkE 1 1%nat (1 :: 9 :: repeat 0 14) in
  e_rawbytes a = e_rawbytes b /\ e_eqb a b = false.
Proof. split; reflexivity. Qed.
Example C17_eq_nonvacuous :
  let a := mkE 3 2%nat (copy16 [1;2]) in let b := mkE 3 3%nat (copy16 [1;2;0]) in
  new_endpoint 3 [1;2] = Ok a /\ new_endpoint 3 [1;2;0] = Ok b /\
  wf_e a /\ wf_e b /\ e_eqb a b = false /\ e_raw a = e_raw b.
Proof.
  cbv zeta. split; [reflexivity|]. split; [reflexivity|].
  split; [apply (new_endpoint_wf 3 [1;2]); [unfold int64_ok, two63; lia| |reflexivity];
          repeat (apply Forall_cons; [unfold byte_ok; lia|]); apply Forall_nil|].
  split; [apply (new_endpoint_wf 3 [1;2;0]); [unfold int64_ok, two63; lia| |reflexivity];
          repeat (apply Forall_cons; [unfold byte_ok; lia|]); apply Forall_nil|].
  split; reflexivity.
Qed.

(* Round trips *)
Theorem C17_roundtrip : forall f, flow_from_endpoints (fst (endpoints f)) (snd (endpoints f)) = Ok f.
Proof. exact endpoints_roundtrip. Qed.
Theorem C17_roundtrip_back : forall a b, endpoint_type a = endpoint_type b ->
  exists f, flow_from_endpoints a b = Ok f /\ endpoints f = (a, b).
Proof. exact from_endpoints_ok. Qed.
Theorem C17_mismatch_error : forall a b, endpoint_type a <> endpoint_type b -> flow_from_endpoints a b = Err 1.
Proof. exact from_endpoints_mismatch. Qed.
Theorem C17_reverse_invol : forall f, reverse (reverse f) = f.
Proof. exact reverse_invol. Qed.
Theorem C17_reverse_swaps : forall f, endpoints (reverse f) = (snd (endpoints f), fst (endpoints f)).
Proof. exact reverse_endpoints. Qed.
Print Assumptions C17_roundtrip.
Print Assumptions C17_roundtrip_back.
Print Assumptions C17_mismatch_error.
Print Assumptions C17_reverse_invol.

(* LessThan is a strict total order consistent with equality *)
Theorem C17_lt_strict_total :
  (forall a, less_than a a = false) /\
  (forall a b c, less_than a b = true -> less_than b c = true -> less_than a c = true) /\
  (forall a b, wf_e a -> wf_e b ->
     (a = b /\ less_than a b = false /\ less_than b a = false) \/
     (a <> b /\ less_than a b = true /\ less_than b a = false) \/
     (a <> b /\ less_than a b = false /\ less_than b a = true)).
Proof. split; [exact lt_irrefl|]. split; [exact lt_trans|exact lt_trichotomy]. Qed.
Print Assumptions C17_lt_strict_total.

(* the order is type first (signed), then bytes lexicographically with a proper prefix smaller *)
Example C17_lt_nonvacuous :
  let a := mkE 3 2%nat (copy16 [1;2]) in let b := mkE 3 3%nat (copy16 [1;2;0]) in
  let c := mkE (-1) 1%nat (copy16 [255]) in
  less_than a b = true /\ less_than b a = false /\ e_raw a = e_raw b /\
  less_than c a = true /\ less_than a c = false.
Proof. repeat split; reflexivity. Qed.

(* Hash: direction symmetric (commutativity of + mod 2^64), a function of type and Raw(), 64-bit *)
Theorem C17_hash_sym : forall f, f_fast_hash (reverse f) = f_fast_hash f.
Proof. exact hash_sym. Qed.
Theorem C17_hash_deterministic : forall a b, endpoint_type a = endpoint_type b -> e_rawbytes a = e_rawbytes b ->
  e_fast_hash a = e_fast_hash b.
Proof. exact e_hash_ext. Qed.
Theorem C17_hash_range : (forall a, 0 <= e_fast_hash a < two64) /\ (forall f, 0 <= f_fast_hash f < two64).
Proof. split; [exact e_hash_range|exact f_hash_range]. Qed.
Print Assumptions C17_hash_sym.
Print Assumptions C17_hash_deterministic.
Print Assumptions C17_hash_range.

Example C17_hash_nonvacuous : exists f, new_flow 4 [0;80] [31;144] = Ok f /\ reverse f <> f /\
  f_fast_hash f = 7346698314252541417 /\ f_fast_hash (reverse f) = 7346698314252541417.
Proof. eexists. split; [reflexivity|]. split; [discriminate|]. split; vm_compute; reflexivity. Qed.

(* Layer flow constructors (Ethernet, FDDI, IPv4, IPv6, RUDP, SCTP, TCP, UDP, UDPLite: the kinds of
   flow_table).  A reported flow is either the empty flow of a layer object whose decoding failed
   before the address fields were assigned, or carries exactly the header's source and destination
   fields; for layers added only after a successful decode it always does. *)
Theorem C17_layer_flows : forall k d f, flow_table k <> None -> layer_flow k d = Ok f ->
  (exists t, empty_flow t = Ok f) \/ carries k d f.
Proof. exact layer_flow_addresses. Qed.
Theorem C17_layer_flows_strict : forall k d f,
  (k = LEthernet \/ k = LFDDI \/ k = LRUDP \/ k = LUDPLite) -> layer_flow k d = Ok f -> carries k d f.
Proof. exact layer_flow_addresses_strict. Qed.
(* The packet of the other direction (address fields swapped) decodes to the same class and, when
   a flow is reported, to the reversed flow, which has the same FastHash. *)
Theorem C17_layer_reverse : forall k d, flow_table k <> None ->
  layer_flow k (swap_fields k d) = omap reverse (layer_flow k d).
Proof. exact layer_flow_swap. Qed.
Theorem C17_layer_reverse_hash : forall k d f, flow_table k <> None -> layer_flow k d = Ok f ->
  layer_flow k (swap_fields k d) = Ok (reverse f) /\ f_fast_hash (reverse f) = f_fast_hash f.
Proof. exact layer_flow_reverse. Qed.
(* the fuel of the IPv4 option loop is sufficient *)
Theorem C17_layer_fuel : forall k d, layer_flow k d <> Panic 99.
Proof. exact layer_flow_fuel. Qed.
Print Assumptions C17_layer_flows.
Print Assumptions C17_layer_flows_strict.
Print Assumptions C17_layer_reverse.
Print Assumptions C17_layer_reverse_hash.
Print Assumptions C17_layer_fuel.

Example C17_layer_nonvacuous :
  let d := [69;0;0;24; 0;0;0;0; 64;6;0;0; 10;0;0;1; 10;0;0;2; 1;2;3;4] in
  exists f, layer_flow LIPv4 d = Ok f /\ f_srcbytes f = [10;0;0;1] /\ f_dstbytes f = [10;0;0;2] /\
            swap_fields LIPv4 d <> d /\ layer_flow LIPv4 (swap_fields LIPv4 d) = Ok (reverse f).
Proof. eexists. repeat split; try (vm_compute; reflexivity). vm_compute; discriminate. Qed.

(* Whole packets (Ethernet / IPv4|IPv6 / TCP|UDP|SCTP, eager decode): every flow the packet reports
   is the flow of the corresponding layer constructor applied to that layer's bytes, so the three
   theorems above (addresses, reversed flow for swapped fields, equal FastHash) hold level by level. *)
Theorem C17_stack_levels : forall data st, stack_flows data = Ok st ->
  (forall f, st_link st = Some f -> layer_flow LEthernet data = Ok f) /\
  (forall f, st_net st = Some f ->
     layer_flow LIPv4 (skipn 14 data) = Ok f \/ layer_flow LIPv6 (skipn 14 data) = Ok f) /\
  (forall f, st_tr st = Some f ->
     exists k payload, In k [LTCP; LUDP; LSCTP] /\ layer_flow k payload = Ok f).
Proof. exact stack_levels. Qed.
Print Assumptions C17_stack_levels.

Example C17_stack_nonvacuous :
  let d := [1;2;3;4;5;6; 7;8;9;10;11;12; 8;0;
            69;0;0;28; 0;0;0;0; 64;17;0;0; 10;0;0;1; 10;0;0;2;
            0;53; 4;210; 0;8; 0;0] in
  exists l n t, stack_flows d = Ok (mkSt (Some l) (Some n) (Some t)) /\
    f_srcbytes l = [7;8;9;10;11;12] /\ f_dstbytes n = [10;0;0;2] /\ f_srcbytes t = [0;53] /\ f_typ t = EndpointUDPPort.
Proof. do 3 eexists. split; [vm_compute; reflexivity|]. repeat split; vm_compute; reflexivity. Qed.

(* A layer object reused for a sequence of packets (DecodeFromBytes into the same object, fresh
   slices or one capture buffer overwritten in place): the flow accessor has no memory.  Whenever
   the decode assigns the address fields, the flow reported afterwards is the flow of the CURRENT
   packet's header bytes - the one a fresh packet of that layer reports - whatever was decoded
   before, whatever state the object was in, and whichever way the buffer is handed over. *)
Theorem C17_seq_current : forall k reuse s pkt al, seq_assign k pkt = Ok (Some al) ->
  snd (seq_step k reuse s pkt) = layer_flow k pkt.
Proof. intros k reuse s pkt al H. rewrite (seq_step_current k reuse s pkt al H). apply seq_read_layer, H. Qed.
Print Assumptions C17_seq_current.

Example C17_seq_nonvacuous :
  let p1 := [156;64; 39;15; 0;8; 0;0] in let p2 := [34;184; 156;65; 0;8; 0;0] in
  exists f1 f2, seq_run LUDP true sstate0 [p1; p2] = [Ok f1; Ok f2] /\
    f_srcbytes f1 = [156;64] /\ f_srcbytes f2 = [34;184] /\
    (* a failed decode leaves the fields pointing into the overwritten capture buffer *)
    (exists f3, seq_run LUDP true sstate0 [p1; [1;2;3]] = [Ok f1; Ok f3] /\ f_srcbytes f3 = [1;2]) /\
    seq_run LUDP false sstate0 [p1; [1;2;3]] = [Ok f1; Ok f1].
Proof.
  do 2 eexists. split; [vm_compute; reflexivity|]. split; [reflexivity|]. split; [reflexivity|].
  split; [eexists; split; vm_compute; reflexivity|vm_compute; reflexivity].
Qed.
