(* C15ng — the pcapng reader (NgModel, the repaired pcapgo/ngread*.go) on hostile input.
   Property theorems only; proofs in Proofs/NgIoProofs.v (chunking), NgWp.v (calculus), NgSafeProofs.v.
   A stream is a list of events [Chunk bytes | Fail]: what successive Read calls of the underlying
   io.Reader deliver; bufio.Reader and the readBytes loop are modelled by their specification.
   Result of a session: ((class of NewNgReader, packets), class of the terminal read, reader state);
   classes: 0 ok, 1 io.EOF, 2 io.ErrUnexpectedEOF, 3 other error, 7 gzip (not modelled), 9 out of
   fuel, >= 1000 panic. *)
From GP Require Import Base NgModel NgIoProofs NgWp NgSafeProofs.
Open Scope Z_scope.

Definition new_class (r : Z * list pkt * Z * rst) : Z := fst (fst (fst r)).
Definition end_class (r : Z * list pkt * Z * rst) : Z := snd (fst r).
Definition packets (r : Z * list pkt * Z * rst) : list pkt := snd (fst (fst r)).

(* the results depend only on the bytes delivered before the first Fail and on whether there is one:
   however the stream splits its data into reads *)
Theorem C15_ng_chunking : forall ro ev,
  fst (session_chunked ro ev) = fst (session_flat ro (flat_data ev) (flat_fail ev)).
Proof. exact session_chunked_flat. Qed.
Print Assumptions C15_ng_chunking.

Corollary C15_ng_chunking_two : forall ro ev1 ev2,
  flat_data ev1 = flat_data ev2 -> flat_fail ev1 = flat_fail ev2 ->
  fst (session_chunked ro ev1) = fst (session_chunked ro ev2).
Proof. intros ro ev1 ev2 H1 H2. rewrite !session_chunked_flat, H1, H2. reflexivity. Qed.
Print Assumptions C15_ng_chunking_two.

(* the same holds for every program over the stream interface, not only the reader *)
Theorem C15_ng_chunking_any_program : forall (A : Type) (p : io A) ev,
  fst (run_c p ev) = fst (run_f p (fstream_of (flat_data ev) (flat_fail ev))).
Proof. intros A p ev. apply run_c_flat. apply frel_flat. Qed.
Print Assumptions C15_ng_chunking_any_program.

(* no panic: for every reader option set and every stream of bytes, neither NewNgReader nor any
   read call ends in a panic outcome (index, slice, division, nil dereference of the modelled code) *)
Theorem C15_ng_no_panic : forall ro ev, bytes_ok (flat_data ev) ->
  let r := fst (session_chunked ro ev) in new_class r < 1000 /\ end_class r < 1000.
Proof.
  intros ro ev Hb. cbv zeta. rewrite session_chunked_flat.
  pose proof (session_flat_ok ro (flat_data ev) (flat_fail ev) Hb) as H. cbv zeta in H.
  unfold new_class, end_class. split; lia.
Qed.
Print Assumptions C15_ng_no_panic.

(* termination: every loop of the reader consumes at least one byte (four for blocks, options and
   records) per iteration or stops, so fuel bytes+2 (fuel_for) is never exhausted: the fuelled model
   is total, with a bound linear in the bytes present *)
Theorem C15_ng_terminates : forall ro ev, bytes_ok (flat_data ev) ->
  let r := fst (session_chunked ro ev) in new_class r <> 9 /\ end_class r <> 9 /\ end_class r <> 0.
Proof.
  intros ro ev Hb. cbv zeta. rewrite session_chunked_flat.
  pose proof (session_flat_ok ro (flat_data ev) (flat_fail ev) Hb) as H. cbv zeta in H.
  unfold new_class, end_class. repeat split; lia.
Qed.
Print Assumptions C15_ng_terminates.

(* shape: every packet returned has |data| = capture length <= length *)
Theorem C15_ng_shape : forall ro ev, bytes_ok (flat_data ev) ->
  Forall (fun p => zlen (p_data p) = ci_cap (p_ci p) /\ ci_cap (p_ci p) <= ci_len (p_ci p))
         (packets (fst (session_chunked ro ev))).
Proof.
  intros ro ev Hb. rewrite session_chunked_flat.
  pose proof (session_flat_ok ro (flat_data ev) (flat_fail ev) Hb) as H. cbv zeta in H.
  unfold packets. tauto.
Qed.
Print Assumptions C15_ng_shape.

(* allocation.  Full statement: every make([]byte, a) is bounded by the declared snap length plus the
   bytes the stream still holds plus a constant. *)
Definition C15_ng_alloc_statement : Prop := forall ro d fail, bytes_ok d ->
  Forall (fun e => let '(a, snap, blen, remaining) := e in a <= snap + remaining + 65536)
         (fallocs (snd (session_flat ro d fail))).

(* proved part: an allocation is at most one option value (16-bit length), or bounded by the snap
   length the interface declares / by what is left of the current block according to its header *)
Theorem C15_ng_alloc_partial : forall ro d fail, bytes_ok d ->
  Forall (fun e => let '(a, snap, blen, remaining) := e in a <= 65535 \/ a <= Z.max snap blen)
         (fallocs (snd (session_flat ro d fail))).
Proof.
  intros ro d fail Hb.
  pose proof (session_flat_ok ro d fail Hb) as H. cbv zeta in H. destruct H as (_ & _ & _ & H & _).
  unfold allocs_ok, alloc_ok in H. eapply Forall_impl; [|exact H].
  intros [[[a sn] bl] rem]; cbn [fst snd]. tauto.
Qed.
Print Assumptions C15_ng_alloc_partial.

(* the full statement fails for the code as repaired: a block header that declares 64 MiB in a
   104-byte stream, on an interface with snap length 0 (witness corpus/C15ng C15ng-alloc-snap0;
   known finding ng-alloc-declared-block-length) *)
Definition alloc_witness : list Z := [10;13;13;10;28;0;0;0;77;60;43;26;1;0;0;0;255;255;255;255;255;255;255;255;28;0;0;0;1;0;0;0;20;0;0;0;1;0;0;0;0;0;0;0;20;0;0;0;6;0;0;0;64;0;0;4;0;0;0;0;0;0;0;0;232;3;0;0;0;0;0;4;0;0;0;4;9;0;0;0;64;0;0;4].
Theorem C15_ng_alloc_refuted : ~ C15_ng_alloc_statement.
Proof.
  intros H. specialize (H (mkRo false false false false) alloc_witness false).
  assert (bytes_ok alloc_witness) as Hb by (apply bytes_okb_ok; vm_compute; reflexivity).
  specialize (H Hb). vm_compute in H.
  inversion H as [|? ? H1 _]; subst. vm_compute in H1. apply H1. reflexivity.
Qed.
Print Assumptions C15_ng_alloc_refuted.

(* a read error of the underlying stream surfaces as an error: when the stream ends with a Fail,
   neither NewNgReader nor the terminal read result is io.EOF or io.ErrUnexpectedEOF (and by
   C15_ng_chunking the packets returned are those of the bytes delivered before the Fail).  More
   precisely the class is 3 (an error) or 7 (gzip stream, not modelled); EOF classes arise only
   when the stream really ended. *)
Theorem C15_ng_fail_surfaces : forall ro ev, bytes_ok (flat_data ev) -> flat_fail ev = true ->
  let r := fst (session_chunked ro ev) in
  new_class r <> 1 /\ new_class r <> 2 /\ end_class r <> 1 /\ end_class r <> 2.
Proof.
  intros ro ev Hb Hf. cbv zeta. rewrite session_chunked_flat.
  pose proof (session_flat_ok ro (flat_data ev) (flat_fail ev) Hb) as H. cbv zeta in H.
  destruct H as (_ & _ & _ & _ & H1 & H2). rewrite Hf in *. unfold new_class, end_class, clsok in *.
  repeat split; intros E; rewrite E in *; intuition congruence || lia.
Qed.
Print Assumptions C15_ng_fail_surfaces.

Theorem C15_ng_eof_only_at_end : forall ro ev, bytes_ok (flat_data ev) ->
  let r := fst (session_chunked ro ev) in
  (end_class r = 1 \/ end_class r = 2 \/ new_class r = 1 \/ new_class r = 2) -> flat_fail ev = false.
Proof.
  intros ro ev Hb. cbv zeta. intros H. destruct (flat_fail ev) eqn:E; [|reflexivity].
  destruct (C15_ng_fail_surfaces ro ev Hb E) as (A & B & C & D). tauto.
Qed.
Print Assumptions C15_ng_eof_only_at_end.

(* non-vacuity: a valid file (section, interface, one packet with the comments "abc" and ""),
   delivered in chunks of uneven sizes and then failing, gives the packet and then an error *)
Definition valid_file : list Z := [10;13;13;10;28;0;0;0;77;60;43;26;1;0;0;0;255;255;255;255;255;255;255;255;28;0;0;0;1;0;0;0;20;0;0;0;1;0;0;0;0;0;0;0;20;0;0;0;6;0;0;0;52;0;0;0;0;0;0;0;0;0;0;0;232;3;0;0;3;0;0;0;5;0;0;0;1;2;3;0;1;0;3;0;97;98;99;0;1;0;0;0;0;0;0;0;52;0;0;0].
Example C15_ng_nonvacuous :
  let ev := [Chunk (firstn 5 valid_file); Chunk []; Chunk (firstn 70 (skipn 5 valid_file));
             Chunk (skipn 75 valid_file); Fail] in
  let r := fst (session_chunked (mkRo false false false true) ev) in
  bytes_ok (flat_data ev) /\ new_class r = 0 /\ end_class r = 3 /\
  map (fun p => (p_data p, po_comments (p_opts p), ci_len (p_ci p))) (packets r) = [([1;2;3], [[97;98;99]; []], 5)].
Proof. cbv zeta. split; [apply bytes_okb_ok; vm_compute; reflexivity|]. vm_compute. repeat split; reflexivity. Qed.
