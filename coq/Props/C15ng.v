(* C15ng — the pcapng reader on hostile input.  Property theorems only. *)
From GP Require Import Base NgModel.
Open Scope Z_scope.

(* placeholder sanity example; the theorems follow *)
Example C15_ng_example_garbage :
  fst (fst (fst (fst (session_flat (mkRo false false false false) [10;13;13;10;1;2;3] false)))) = 2.
Proof. vm_compute. reflexivity. Qed.
