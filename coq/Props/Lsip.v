(* Lsip — SIP decoder (layers/sip.go, as repaired): contributions to C19, C05, C01.  SIP has no SerializeTo: C06 and
   C07 do not apply.  The model is byte-wise and faithful for ASCII input (see Model/LsipModel.v); other input
   answers Err 77. *)
From GP Require Import Base Codec MiscLib MidLib LsipModel LsipProofs LsipFresh.
From Coq Require Import String Ascii.
Open Scope string_scope.
Definition s2b (s : string) : list Z := map (fun a => Z.of_nat (nat_of_ascii a)) (list_ascii_of_string s).
Open Scope Z_scope.

(* C19: header[0], header[:index], header[index+1:] and the Contents/Payload slices of setBaseLayer (offset,
   offset+Content-Length) are in range for every input and every receiver state; the line loop's fuel (input
   length + 1) is never exhausted *)
Theorem C19_sip_no_panic : forall old data, is_panic (snd (fst (sp_decode_into old data))) = false.
Proof. intros old data. exact (proj1 (sp_decode_good old data)). Qed.
Print Assumptions C19_sip_no_panic.

Theorem C19_sip_fuel : forall old data, snd (fst (sp_decode_into old data)) <> Err 99.
Proof. intros old data. exact (proj2 (sp_decode_good old data)). Qed.
Print Assumptions C19_sip_fuel.

(* C05: decoding into a reused object = decoding into a zero object (&SIP{}): same outcome, same truncated flag and,
   when the decode succeeds, the same layer — nothing of the receiver, not even its BaseLayer, survives *)
Theorem C05_sip_fresh : forall old data,
  let r1 := sp_decode_into old data in let r2 := sp_decode_into sp_fresh data in
  snd (fst r1) = snd (fst r2) /\ snd r1 = snd r2 /\ (snd (fst r1) = Ok tt -> fst (fst r1) = fst (fst r2)).
Proof. exact sp_decode_fresh0. Qed.
Print Assumptions C05_sip_fresh.

(* the original DecodeFromBytes reset nothing: a request decoded into a layer that had decoded a response keeps
   IsResponse, the response code and status, and all earlier headers *)
Theorem C05_sip_orig_refuted : exists old data,
  snd (fst (sp_decode_into_orig old data)) = Ok tt /\ snd (fst (sp_decode_into_orig (sp_keep old) data)) = Ok tt /\
  fst (fst (sp_decode_into_orig old data)) <> fst (fst (sp_decode_into_orig (sp_keep old) data)).
Proof.
  exists (fst (fst (sp_decode_into_orig sp_fresh (s2b "SIP/2.0 486 Busy
X: y

")))), (s2b "BYE sip:a SIP/2.0

").
  split; [vm_compute; reflexivity|split; [vm_compute; reflexivity|vm_compute; discriminate]].
Qed.
Print Assumptions C05_sip_orig_refuted.

Theorem C01_sip_render_total : forall old data, sp_render_panics (fst (fst (sp_decode_into old data))) = false.
Proof. reflexivity. Qed.

Example Lsip_nonvacuous :
  exists d, sp_decode_into sp_fresh (s2b "SIP/2.0 200 OK
Via: a
 b
CSeq: 7 INVITE
Content-Length: 2

xyz") = (d, Ok tt, false) /\
    sp_isresp d = true /\ sp_code d = 200 /\ sp_method d = 1 /\ sp_cseq d = 7 /\ sp_clen d = 2 /\ sp_payload d = [120; 121] /\
    hlookup (s2b "via") (sp_headers d) = [s2b "a b"].
Proof. eexists. split; [vm_compute; reflexivity|]. repeat split; vm_compute; reflexivity. Qed.
