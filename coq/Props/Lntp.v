(* Lntp — NTP header codec (layers/ntp.go): contributions to C19, C05, C06, C07, C01. *)
From GP Require Import Base Codec MiscLib LntpModel LntpProofs.
Open Scope Z_scope.

Theorem C19_ntp_no_panic : forall old data, is_panic (snd (fst (ntp_decode_into old data))) = false.
Proof. exact ntp_decode_no_panic. Qed.
Print Assumptions C19_ntp_no_panic.

Theorem C05_ntp_fresh : forall old data,
  let r1 := ntp_decode_into old data in
  let r2 := ntp_decode_into ntp_fresh data in
  snd (fst r1) = snd (fst r2) /\ snd r1 = snd r2 /\
  (snd (fst r1) = Ok tt -> fst (fst r1) = fst (fst r2)).
Proof. exact ntp_decode_fresh. Qed.
Print Assumptions C05_ntp_fresh.

(* C06: all header fields in range come back.  NTP is an application layer: its decoder keeps no
   payload (all octets behind the 48-octet header are ExtensionBytes) and SerializeTo appends the
   extensions behind the buffer's content, so a payload under the layer comes back in front of the
   extensions; with an empty payload ExtensionBytes round-trips. *)
Theorem C06_ntp_roundtrip : forall l payload fixl csum junk bytes l' old,
  ntp_wf l -> ntp_serialize l payload fixl csum junk = (Ok bytes, l') ->
  l' = l /\ bytes = ntp_hdr l ++ payload ++ n_ext l /\
  ntp_decode_into old bytes =
    (mkNtp bytes [] (n_li l) (n_version l) (n_mode l) (n_stratum l) (n_poll l) (n_precision l) (n_rootdelay l) (n_rootdisp l)
           (n_refid l) (n_reft l) (n_origt l) (n_recvt l) (n_xmitt l) (payload ++ n_ext l), Ok tt, false).
Proof. exact ntp_roundtrip. Qed.
Print Assumptions C06_ntp_roundtrip.

Theorem C06_ntp_decoded_wf : forall old data l tr, bytes_ok data ->
  ntp_decode_into old data = (l, Ok tt, tr) -> ntp_wf l.
Proof. exact ntp_decoded_wf. Qed.
Print Assumptions C06_ntp_decoded_wf.

Theorem C07_ntp_no_panic : forall l payload fixl csum junk,
  is_panic (fst (ntp_serialize l payload fixl csum junk)) = false.
Proof. exact ntp_serialize_no_panic. Qed.
Print Assumptions C07_ntp_no_panic.

(* both regions (48 prepended octets, len(ExtensionBytes) appended octets) are fully written *)
Theorem C07_ntp_junk_free : forall l payload fixl csum junk1 junk2,
  ntp_serialize l payload fixl csum junk1 = ntp_serialize l payload fixl csum junk2.
Proof. exact ntp_serialize_junk_free. Qed.
Print Assumptions C07_ntp_junk_free.

Theorem C01_ntp_render_total : forall old data, ntp_render_panics (fst (fst (ntp_decode_into old data))) = false.
Proof. reflexivity. Qed.

Example Lntp_nonvacuous :
  let l := mkNtp [] [] 0 4 3 0 (-6) (-20) 1 2 3 4 5 6 18446744073709551615 [7] in
  ntp_wf l /\ exists b, fst (ntp_serialize l [] false false []) = Ok b /\ firstn 4 b = [35;0;250;236] /\ zlen b = 49.
Proof. split; [unfold ntp_wf; cbn; lia|]. eexists. vm_compute. repeat split; reflexivity. Qed.
