(* Lgeneve — Geneve codec (layers/geneve.go as repaired on agent-fixer): contributions to C19, C05, C01.
   Decoder and serializer theorems (C19, C05, C06, C07, C01). *)
From GP Require Import Base Codec MiscLib LgeneveModel LgeneveProofs LgeneveSer LgeneveRt.
Open Scope Z_scope.

Theorem C19_geneve_no_panic : forall old data, is_panic (snd (fst (gn_decode_into old data))) = false.
Proof. exact gn_decode_no_panic. Qed.
Print Assumptions C19_geneve_no_panic.

(* the option loop's fuel (64) is never exhausted: the options area is at most 252 octets *)
Theorem C19_geneve_fuel : forall old data, snd (fst (gn_decode_into old data)) <> Err 99.
Proof. exact gn_decode_fuel. Qed.
Print Assumptions C19_geneve_fuel.

(* C05: Options is truncated (gn.Options[:0]) before anything is appended *)
Theorem C05_geneve_fresh : forall old data,
  let r1 := gn_decode_into old data in
  let r2 := gn_decode_into gn_fresh data in
  snd (fst r1) = snd (fst r2) /\ snd r1 = snd r2 /\
  (snd (fst r1) = Ok tt -> fst (fst r1) = fst (fst r2)).
Proof. exact gn_decode_fresh. Qed.
Print Assumptions C05_geneve_fresh.

Theorem C01_geneve_render_total : forall old data, gn_render_panics (fst (fst (gn_decode_into old data))) = false.
Proof. reflexivity. Qed.

Theorem C07_geneve_no_panic : forall l payload fixl csum junk,
  is_panic (fst (gn_serialize l payload fixl csum junk)) = false.
Proof. exact gn_serialize_no_panic. Qed.
Print Assumptions C07_geneve_no_panic.

(* every byte of the 8 + options region returned by PrependBytes is written *)
Theorem C07_geneve_junk_free : forall l payload fixl csum junk1 junk2,
  gn_serialize l payload fixl csum junk1 = gn_serialize l payload fixl csum junk2.
Proof. exact gn_serialize_junk_free. Qed.
Print Assumptions C07_geneve_junk_free.

(* C06 with FixLengths: 2-bit version, 24-bit VNI, 16-bit protocol, options with 16-bit class, 8-bit type,
   3-bit flags, data in whole words of at most 124 octets, at most 252 option octets (gn_wf): decoding
   the written bytes into any object gives the fields, the options as FixLengths left them (Length =
   4 + len(Data)), OptionsLength and the payload back, no error, no truncation *)
Theorem C06_geneve_roundtrip : forall l payload csum junk bytes l' old,
  gn_wf l -> gn_serialize l payload true csum junk = (Ok bytes, l') ->
  exists d, gn_decode_into old bytes = (d, Ok tt, false) /\ gn_payload d = payload /\
    gn_version d = gn_version l /\ gn_vni d = gn_vni l /\ gn_protocol d = gn_protocol l /\
    gn_oam d = gn_oam l /\ gn_critical d = gn_critical l /\ gn_options d = gn_options l' /\ gn_optlen d = gn_optlen l'.
Proof. exact gn_roundtrip. Qed.
Print Assumptions C06_geneve_roundtrip.

Example Lgeneve_nonvacuous :
  let l := mkGn [] [] 0 0 false true 25944 10 [mkGo 258 128 0 0 [1;2;3;4]] in
  gn_wf l /\
  fst (gn_serialize l [7] true false [9;9;9]) = Ok [2;64;101;88;0;0;10;0;1;2;128;1;1;2;3;4;7] /\
  gn_decode_into gn_fresh [2;64;101;88;0;0;10;0;1;2;128;1;1;2;3;4;7] =
    (mkGn [2;64;101;88;0;0;10;0;1;2;128;1;1;2;3;4] [7] 0 8 false true 25944 10 [mkGo 258 128 0 8 [1;2;3;4]], Ok tt, false).
Proof.
  split; [unfold gn_wf; cbn; repeat split; try lia; repeat constructor; cbn; lia|].
  split; vm_compute; reflexivity.
Qed.
