(* Lmbap — Modbus layer decoder (layers/modbus.go) and decodingLayerDecoder (layers/base.go): contributions to C19, C05, C01.
   No SerializeTo (C06/C07 n/a). *)
From GP Require Import Base ListX Codec MiscLib LmbapModel.
From Coq Require Import Lia ZifyBool ZifyNat.
Open Scope Z_scope.
Ltac Zify.zify_post_hook ::= Z.div_mod_to_equations.

Ltac xstep :=
  match goal with
  | |- context [ml_bind ?o _ _ _] => destruct o eqn:?; cbn [ml_bind]
  | |- context [if ?c then _ else _] => destruct c eqn:?
  end.

Theorem C19_mbap_no_panic : forall old data, is_panic (snd (fst (mq_decode_into old data))) = false.
Proof.
  intros old data. unfold mq_decode_into. cbv zeta. destruct (zlen data <? 8) eqn:Hn; [reflexivity|].
  rewrite !cd_rd16_ok by lia. rewrite !cd_idx_ok by lia. cbn [ml_bind].
  match goal with |- context [if ?c then _ else _] => destruct c eqn:C1 end; [reflexivity|].
  rewrite !cd_slc_ok by lia. reflexivity.
Qed.
Print Assumptions C19_mbap_no_panic.

(* the registered decoder (decodeModbus through decodingLayerDecoder) does not panic either, adds the layer exactly
   when it returns nil, and never asks for a next decoder *)
Theorem C19_mbap_decoder_no_panic : forall data,
  let '(l, added, nx, o, tr) := mq_decode_fn data in
  is_panic o = false /\ (added = true <-> o = Ok tt) /\ nx = None.
Proof.
  intros data. unfold mq_decode_fn. destruct (zlen data <? 8); [repeat split; intros; discriminate|].
  unfold dld_run. pose proof (C19_mbap_no_panic mq_fresh data) as P.
  destruct (mq_decode_into mq_fresh data) as [[l o] tr]. cbn [fst snd] in P.
  destruct o as [[]|e|s]; cbn [mq_next Z.eqb]; repeat split; intros; try discriminate; try reflexivity; assumption.
Qed.
Print Assumptions C19_mbap_decoder_no_panic.

Theorem C05_mbap_fresh : forall old data,
  let r1 := mq_decode_into old data in
  let r2 := mq_decode_into mq_fresh data in
  snd (fst r1) = snd (fst r2) /\ snd r1 = snd r2 /\
  (snd (fst r1) = Ok tt -> fst (fst r1) = fst (fst r2)).
Proof.
  intros old data. cbv zeta. unfold mq_decode_into. cbv zeta.
  repeat (xstep; try solve [cbn [fst snd]; split; [reflexivity | split; [reflexivity | try (intros X; discriminate X); try reflexivity]]]).
  all: try (cbn [fst snd]; split; [reflexivity | split; [reflexivity | intros _; reflexivity]]).
Qed.
Print Assumptions C05_mbap_fresh.

(* C01: GetExceptionCode indexes ReqResp[0] only behind its length test; Validate, IsException, GetFunction and the
   String methods index nothing — for every layer value, decoded or not *)
Theorem C01_mbap_render_total : forall l, mq_render_panics l = false.
Proof.
  intros l. unfold mq_render_panics, mq_exc_code. destruct (negb (mq_exc l)); cbn [orb]; [reflexivity|].
  destruct (zlen (mq_reqresp l) =? 0) eqn:E; [reflexivity|]. pose proof (zlen_nonneg (mq_reqresp l)). rewrite cd_idx_ok by lia. reflexivity.
Qed.
Print Assumptions C01_mbap_render_total.

(* success means: Contents ++ Payload is the packet, Contents is the 6 + Length octets the header announces, and the length
   test of Validate cannot fail on a decoded layer (only the protocol identifier is left to check) *)
Theorem C19_mbap_shape : forall old data l tr, mq_decode_into old data = (l, Ok tt, tr) ->
  mq_contents l ++ mq_payload l = data /\ zlen (mq_contents l) = 6 + mq_length l /\ mq_length l = 2 + zlen (mq_reqresp l) /\
  tr = false /\ (mq_validate l = 0 <-> mq_pid l = 0).
Proof.
  intros old data l tr. unfold mq_decode_into. cbv zeta. destruct (zlen data <? 8) eqn:Hn; [discriminate|].
  rewrite !cd_rd16_ok by lia. rewrite !cd_idx_ok by lia. cbn [ml_bind].
  match goal with |- context [if (zlen data <? ?e) || _ then _ else _] => set (en := e); destruct ((zlen data <? en) || (en <? 8)) eqn:C1 end; [discriminate|].
  rewrite !cd_slc_ok by lia. cbn [ml_bind]. intros X.
  match type of X with (?t, _, _) = _ => assert (El : l = t) by congruence end. assert (tr = false) by congruence. subst l. clear X.
  unfold mq_validate. cbn [mq_contents mq_payload mq_length mq_reqresp mq_pid].
  assert (L1 : zlen (slice data (Z.to_nat 0) (Z.to_nat en)) = en) by (unfold zlen in *; rewrite slice_length by lia; lia).
  assert (L2 : zlen (slice data (Z.to_nat 8) (Z.to_nat en)) = en - 8) by (unfold zlen in *; rewrite slice_length by lia; lia).
  rewrite L1, L2. split.
  { unfold slice. change (Z.to_nat 0) with 0%nat. cbn [skipn]. rewrite (firstn_all2 (n := Z.to_nat (zlen data)) data) by (unfold zlen; lia). apply firstn_skipn. }
  split; [unfold en; lia|]. split; [unfold en; lia|]. split; [assumption|].
  match goal with |- context [negb (?p =? 0)] => destruct (p =? 0) eqn:P end; cbn [negb].
  - replace (_ =? 2 + (en - 8)) with true by (unfold en; lia). cbn [negb]. split; intros; [lia|reflexivity].
  - split; intros; [discriminate|lia].
Qed.
Print Assumptions C19_mbap_shape.

Example Lmbap_nonvacuous :
  mq_decode_fn [0;1;0;0;0;4;10;129;2;9;7] = (mkMbap [0;1;0;0;0;4;10;129;2;9] [7] 1 0 4 10 129 true [2;9], true, None, Ok tt, false) /\
  mq_exc_code (mkMbap [] [] 1 0 4 10 129 true [2;9]) = Ok 2.
Proof. split; vm_compute; reflexivity. Qed.
