(* C18 — the serialize buffer holds exactly what was written, in position order.
   Property theorems only; each is closed by a lemma of Proofs/C18Proofs.v. *)
From GP Require Import Base C18Model C18Proofs.
Open Scope nat_scope.

(* For every pair of size hints and every operation sequence whose explicit writes
   go through windows not invalidated by Clear: no panic; the contents have the
   tape's length and agree with it on every written cell; the recorded layers are
   the tape's; every window that still aliases the buffer sits exactly where the
   tape says, has the requested length and lies inside the contents. *)
Theorem C18_refines : forall p a ops b t,
  run2 (new_buf p a) tape0 ops = (b, t, true) ->
  panicked b = false /\
  length (bytes_of b) = length (cells t) /\
  agree (bytes_of b) (cells t) = true /\
  layers b = tlayers t /\
  (forall k w q l, nth_error (wins b) k = Some w -> nth_error (twins t) k = Some (Some (q, l)) ->
     wgen w = gen b ->
     wlen w = l /\ q + l <= length (cells t) /\ woff w = start b + q).
Proof. exact refines. Qed.
Print Assumptions C18_refines.

(* the concrete component of the joint run is the plain run of the buffer *)
Theorem C18_run2_is_run : forall ops b t, fst (fst (run2 b t ops)) = fold_left step ops b.
Proof. exact run2_fst. Qed.
Print Assumptions C18_run2_is_run.

Theorem C18_window_len_prepend : forall b n fill, o_winlen (observe (step b (OPrepend n fill))) = n.
Proof. exact prepend_winlen. Qed.
Theorem C18_window_len_append : forall b n fill, o_winlen (observe (step b (OAppend n fill))) = n.
Proof. exact append_winlen. Qed.
Print Assumptions C18_window_len_prepend.
Print Assumptions C18_window_len_append.

(* written cells survive later growth (on the tape, by which the buffer is characterised) *)
Theorem C18_tape_prepend_keeps : forall t n i, nth_error (cells (tprepend t n)) (n + i) = nth_error (cells t) i.
Proof. exact tprepend_keeps. Qed.
Theorem C18_tape_append_keeps : forall t n i, i < length (cells t) -> nth_error (cells (tappend t n)) i = nth_error (cells t) i.
Proof. exact tappend_keeps. Qed.

Theorem C18_clear : forall b, prepended b <= cap b -> bytes_of (clear b) = [] /\ layers (clear b) = [].
Proof. exact clear_empty. Qed.
Print Assumptions C18_clear.

(* SerializeLayers over serializers that each prepend their header: the bytes are the
   headers outermost first, the recorded layers innermost first; no panic *)
Theorem C18_stack : forall b t ls, Inv b t ->
  let r := serialize_layers b ls in
  panicked r = false /\ bytes_of r = concat (map snd ls) /\ layers r = map fst (rev ls).
Proof. exact stack. Qed.
Print Assumptions C18_stack.

(* non-vacuity: a run with growth at both ends, a clear, reuse and a late write meets the hypothesis *)
Example C18_nonvacuous :
  exists b t, run2 (new_buf 0 0) tape0
    [OPrepend 3 [1;2;3]%Z; OAppend 2 [4;5]%Z; OPrepend 4 [6;7;8;9]%Z; OWrite 0 1 42%Z; OWrite 1 0 43%Z;
     OClear; OAppend 1 [9]%Z; OPrepend 2 [1;1]%Z] = (b, t, true) /\ bytes_of b = [1;1;9]%Z.
Proof. eexists; eexists. vm_compute. split; reflexivity. Qed.
