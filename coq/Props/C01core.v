(* C03 — lazy == eager (theorems follow) *)
From GP Require Import Base PacketCore PacketScript.
