(* C01core — the framework half of C01: for EVERY decoder family the packet builder of
   packet.go is total (with recovery on) and keeps the error-layer discipline.
   Property theorems only; closed by lemmas of Proofs/PacketCoreProofs.v.
   The per-layer half of C01 (renderers of the modelled layers) lives in other sub-checks.

   How the real code bounds the recursion: it does not.  eagerPacket.NextDecoder
   (packet.go:503-516) recurses on last.LayerPayload() until that payload is empty; nothing
   in the framework forces the payload to shrink.  The hypothesis needed is therefore
     progress fam : a decoder that continues (calls NextDecoder) has added a layer whose
                    payload is strictly shorter than the data it was given (or empty)
   and the bound is recursion depth <= |data| + 1 (fuel S (length data)). *)
From GP Require Import Base PacketCore PacketScript PacketCoreProofs PacketScriptProofs PacketCoreThms.
Open Scope Z_scope.

(* ---- totality ---- *)

(* NewPacket (eager) returns a packet: no panic escapes, the recursion stops within |data|+1 *)
Theorem C01_total : forall fam data first o,
  progress fam -> o_skiprec o = false ->
  exists pe, new_eager (S (length data)) fam data first o = NewOk pe.
Proof. exact thm_C01_total. Qed.
Print Assumptions C01_total.

(* NewPacket with any Lazy setting returns a packet *)
Theorem C01_total_new_packet : forall fam data first o,
  progress fam -> o_skiprec o = false ->
  exists pk, new_packet (S (length data)) fam data first o = NewOk pk.
Proof. exact thm_C01_total_new_packet. Qed.
Print Assumptions C01_total_new_packet.

(* every accessor program on the lazy packet terminates (each loop within |data|+2 steps)
   and no call panics; empty input included *)
Theorem C01_total_lazy : forall fam data first o prog,
  progress fam -> o_skiprec o = false ->
  exists lp rs,
    lazy_program (S (S (length data))) fam (new_lazy data first o) prog = Some (lp, rs) /\
    ~ In RPanic rs.
Proof. exact thm_C01_total_lazy. Qed.
Print Assumptions C01_total_lazy.

(* accessors of an eager packet never panic (they are pure reads) *)
Theorem C01_eager_accessors_total : forall p a, eager_access p a <> RPanic.
Proof. exact thm_C01_eager_accessors_total. Qed.
Print Assumptions C01_eager_accessors_total.

(* ---- error-layer discipline ---- *)

(* `discipline failed pe`:  failed <-> ErrorLayer <> nil;  not failed <-> ErrorLayer = nil;
   when ErrorLayer = Some e: e is a DecodeFailure, it is the LAST layer and no other layer is a
   DecodeFailure; when nil: no layer is a DecodeFailure.
   `decode_failed r`: the outermost Decode call returned an error or panicked, i.e. (tail-call
   shape) some decoder failed or panicked, or the framework refused the continuation
   (ErrNoLayersAdded, nil decoder, type without decoder).
   Hypotheses: no decoder calls SetErrorLayer (source fact F2: today one does) and no decoder
   adds a *DecodeFailure of its own (source fact: no such literal in layers/). *)
Theorem C01_error_discipline : forall fam n data first o p r pe,
  no_seterr fam -> no_fail_layers fam ->
  eager_decode n fam first data (empty_packet data o) = (p, r) ->
  finish_decode (p, r) = NewOk pe ->            (* pe = what NewPacket returned *)
  discipline (decode_failed r) pe.
Proof. exact thm_C01_error_discipline. Qed.
Print Assumptions C01_error_discipline.

(* the same for the lazy packet once Layers() (or String/Dump) has been called *)
Theorem C01_error_discipline_lazy : forall fam n data first o p r pe prog lp rs,
  no_seterr fam -> no_fail_layers fam -> F6 fam -> data <> [] ->
  eager_decode n fam first data (empty_packet data o) = (p, r) ->
  finish_decode (p, r) = NewOk pe ->
  existsb forces_all prog = true ->
  lazy_program (S n) fam (new_lazy data first o) prog = Some (lp, rs) ->
  discipline (decode_failed r) (lp_p lp) /\ lp_p lp = pe.
Proof. exact thm_C01_error_discipline_lazy. Qed.
Print Assumptions C01_error_discipline_lazy.

(* on empty input the lazy packet never decodes anything: no layers, no error layer *)
Theorem C01_lazy_empty_input : forall fam n first o prog lp rs,
  F6 fam ->
  lazy_program (S n) fam (new_lazy [] first o) prog = Some (lp, rs) ->
  p_layers (lp_p lp) = [] /\ p_failure (lp_p lp) = None /\ rs = eager_program (empty_packet [] o) prog.
Proof. exact thm_C01_lazy_empty_input. Qed.
Print Assumptions C01_lazy_empty_input.

(* Without any hypothesis on SetErrorLayer: whenever decoding failed, the LAST layer is a
   DecodeFailure and ErrorLayer() is non-nil. *)
Theorem C01_error_general : forall fam n data first o p r pe,
  eager_decode n fam first data (empty_packet data o) = (p, r) ->
  finish_decode (p, r) = NewOk pe -> decode_failed r = true ->
  p_failure pe <> None /\ exists before f, p_layers pe = before ++ [f] /\ l_fail f = true.
Proof. exact thm_C01_error_general. Qed.
Print Assumptions C01_error_general.

(* The scripted families the correspondence executes: decidable checks evaluated per case by
   the runner (tags hyp-progress, hyp-no-seterr) imply the hypotheses of the theorems above;
   no scripted decoder adds a DecodeFailure. *)
Theorem C01_scripted_families : forall tbl,
  (table_progressb tbl = true -> progress (family_of tbl)) /\
  (table_no_seterrb tbl = true -> no_seterr (family_of tbl)) /\
  no_fail_layers (family_of tbl).
Proof. exact thm_C01_scripted_families. Qed.
Print Assumptions C01_scripted_families.

(* (a) nothing fails, yet ErrorLayer() is non-nil, is not a DecodeFailure and is not last *)
Theorem C01_seterror_refuted :
  exists data o p r pe e,
    eager_decode 10 (family_of sctp_like) 10 data (empty_packet data o) = (p, r) /\
    finish_decode (p, r) = NewOk pe /\
    decode_failed r = false /\ p_failure pe = Some e /\ l_fail e = false /\
    last (p_layers pe) e <> e /\ ~ discipline (decode_failed r) pe.
Proof. exact thm_C01_seterror_refuted. Qed.
Print Assumptions C01_seterror_refuted.

(* (b) a later chunk fails: the final DecodeFailure is last, but ErrorLayer() is still the
   unknown chunk: a DecodeFailure layer that is not the error layer *)
Theorem C01_seterror_then_failure_refuted :
  exists data o p r pe e f,
    eager_decode 10 (family_of sctp_like) 10 data (empty_packet data o) = (p, r) /\
    finish_decode (p, r) = NewOk pe /\
    decode_failed r = true /\ p_failure pe = Some e /\ l_fail e = false /\
    last (p_layers pe) e = f /\ l_fail f = true /\ f <> e.
Proof. exact thm_C01_seterror_then_failure_refuted. Qed.
Print Assumptions C01_seterror_then_failure_refuted.

Example C01core_nonvacuous :
  progress ex_fam2 /\ no_seterr ex_fam2 /\ no_fail_layers ex_fam2 /\
  exists p pe,
    eager_decode 4 ex_fam2 10 [5;6;7] (empty_packet [5;6;7] (mkOpts false false true false false)) = (p, DPanic) /\
    finish_decode (p, DPanic) = NewOk pe /\
    p_failure pe = Some (mk_failure [7]) /\
    p_layers pe = [mkLayer 10 [5] [6;7] false; mkLayer 11 [6] [7] false; mk_failure [7]] /\
    (* and a clean run has no error layer *)
    exists pe2, new_eager 4 ex_fam2 [5;0;7] 10 (mkOpts false false false false false) = NewOk pe2 /\
                p_failure pe2 = None /\ length (p_layers pe2) = 2%nat.
Proof. exact thm_C01core_nonvacuous. Qed.
Print Assumptions C01core_nonvacuous.
