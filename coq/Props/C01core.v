(* C01core — the framework half of C01: for EVERY decoder family the packet builder of
   packet.go is total (with recovery on) and keeps the error-layer discipline.
   Property theorems only; closed by lemmas of Proofs/PacketCoreProofs.v.
   The per-layer half of C01 (renderers of the modelled layers) lives in other sub-checks.

   How the real code bounds the recursion: it does not.  eagerPacket.NextDecoder
   (packet.go:503-516) recurses on last.LayerPayload() until that payload is empty; nothing
   in the framework forces the payload to shrink.  The hypothesis needed is therefore
     progress fam : a decoder that continues (calls NextDecoder) has added a layer whose
                    payload is strictly shorter than the data it was given
   and the bound is recursion depth <= |data| + 1 (fuel S (length data)). *)
From GP Require Import Base PacketCore PacketScript PacketCoreProofs.
Open Scope Z_scope.

(* ---- totality ---- *)

(* NewPacket (eager) returns a packet: no panic escapes, the recursion stops within |data|+1 *)
Theorem C01_total : forall fam data first o,
  progress fam -> o_skiprec o = false ->
  exists pe, new_eager (S (length data)) fam data first o = NewOk pe.
Proof. intros fam data first o HP Hs. exact (new_eager_total fam HP data first o Hs). Qed.
Print Assumptions C01_total.

(* NewPacket with any Lazy setting returns a packet *)
Theorem C01_total_new_packet : forall fam data first o,
  progress fam -> o_skiprec o = false ->
  exists pk, new_packet (S (length data)) fam data first o = NewOk pk.
Proof.
  intros fam data first o HP Hs. unfold new_packet. destruct (o_lazy o); [eauto|].
  destruct (new_eager_total fam HP data first o Hs) as [pe He]. rewrite He. eauto.
Qed.
Print Assumptions C01_total_new_packet.

(* every accessor program on the lazy packet terminates (each loop within |data|+2 steps)
   and no call panics; empty input included *)
Theorem C01_total_lazy : forall fam data first o prog,
  progress fam -> o_skiprec o = false ->
  exists lp rs,
    lazy_program (S (S (length data))) fam (new_lazy data first o) prog = Some (lp, rs) /\
    ~ In RPanic rs.
Proof.
  intros fam data first o prog HP Hs.
  pose proof (progress_F6 fam HP) as HF.
  destruct data as [|b rest].
  - destruct (lazy_program_sim fam HF _ _ prog _ (new_lazy_inv_empty fam (S (length (@nil Z))) first o))
      as [lp [A _]].
    exists lp; eexists; split; [exact A | apply eager_program_no_panic].
  - destruct (new_eager_total fam HP (b :: rest) first o Hs) as [pe He].
    destruct (lazy_program_sim fam HF _ pe prog _ (new_lazy_inv fam _ (b :: rest) first o pe ltac:(discriminate) He))
      as [lp [A _]].
    exists lp; eexists; split; [exact A | apply eager_program_no_panic].
Qed.
Print Assumptions C01_total_lazy.

(* accessors of an eager packet never panic (they are pure reads) *)
Theorem C01_eager_accessors_total : forall p a, eager_access p a <> RPanic.
Proof. exact eager_access_no_panic. Qed.

(* ---- error-layer discipline ---- *)

(* `discipline failed pe`:  failed <-> ErrorLayer <> nil;  not failed <-> ErrorLayer = nil;
   when ErrorLayer = Some e: e is a DecodeFailure, it is the LAST layer and no other layer is a
   DecodeFailure; when nil: no layer is a DecodeFailure.
   `decode_failed r`: the outermost Decode call returned an error or panicked, i.e. (tail-call
   shape) some decoder failed or panicked, or the framework refused the continuation
   (ErrNoLayersAdded, nil decoder, type without decoder).
   Hypotheses: no decoder calls SetErrorLayer (source fact F2: today one does) and no decoder
   adds a *DecodeFailure of its own (source fact: no such literal in layers/). *)
Theorem C01_error_discipline : forall fam n data first o p r pe,
  no_seterr fam -> no_fail_layers fam ->
  eager_decode n fam first data (empty_packet data o) = (p, r) ->
  finish_decode (p, r) = NewOk pe ->            (* pe = what NewPacket returned *)
  discipline (decode_failed r) pe.
Proof.
  intros fam n data first o p r pe H1 H2 HE HF.
  eapply discipline_finish; [|exact HF].
  eapply clean_eager_decode; eauto using clean_empty.
Qed.
Print Assumptions C01_error_discipline.

(* the same for the lazy packet once Layers() (or String/Dump) has been called *)
Theorem C01_error_discipline_lazy : forall fam n data first o p r pe prog lp rs,
  no_seterr fam -> no_fail_layers fam -> F6 fam -> data <> [] ->
  eager_decode n fam first data (empty_packet data o) = (p, r) ->
  finish_decode (p, r) = NewOk pe ->
  existsb forces_all prog = true ->
  lazy_program (S n) fam (new_lazy data first o) prog = Some (lp, rs) ->
  discipline (decode_failed r) (lp_p lp) /\ lp_p lp = pe.
Proof.
  intros fam n data first o p r pe prog lp rs H1 H2 HF Hd HE HFin Hall HL.
  assert (He : new_eager n fam data first o = NewOk pe) by (unfold new_eager; rewrite HE; exact HFin).
  destruct (lazy_program_sim fam HF n pe prog _ (new_lazy_inv fam n data first o pe Hd He)) as [lp' [A [_ C]]].
  rewrite A in HL. inversion HL; subst lp'.
  destruct (C (or_intror Hall)) as [_ EQ]. split; [|exact EQ]. rewrite EQ.
  eapply C01_error_discipline; eauto.
Qed.
Print Assumptions C01_error_discipline_lazy.

(* on empty input the lazy packet never decodes anything: no layers, no error layer *)
Theorem C01_lazy_empty_input : forall fam n first o prog lp rs,
  F6 fam ->
  lazy_program (S n) fam (new_lazy [] first o) prog = Some (lp, rs) ->
  p_layers (lp_p lp) = [] /\ p_failure (lp_p lp) = None /\ rs = eager_program (empty_packet [] o) prog.
Proof.
  intros fam n first o prog lp rs HF HL.
  destruct (lazy_program_sim fam HF n _ prog _ (new_lazy_inv_empty fam n first o)) as [lp' [A [B _]]].
  rewrite A in HL. inversion HL; subst.
  destruct B as [k [_ Hc]]. pose proof (continue_ext _ _ _ _ Hc) as X.
  destruct (ext_layers _ _ X) as [more Hm]. cbn in Hm.
  destruct (p_layers (lp_p lp)); [|discriminate].
  split; [reflexivity|]. split; [|reflexivity].
  destruct (p_failure (lp_p lp)) as [e|] eqn:E; [|reflexivity].
  pose proof (ext_failure _ _ X e E) as Y. cbn in Y. discriminate.
Qed.
Print Assumptions C01_lazy_empty_input.

(* Without any hypothesis on SetErrorLayer: whenever decoding failed, the LAST layer is a
   DecodeFailure and ErrorLayer() is non-nil. *)
Theorem C01_error_general : forall fam n data first o p r pe,
  eager_decode n fam first data (empty_packet data o) = (p, r) ->
  finish_decode (p, r) = NewOk pe -> decode_failed r = true ->
  p_failure pe <> None /\ exists before f, p_layers pe = before ++ [f] /\ l_fail f = true.
Proof. intros. eapply general_finish; eauto. Qed.
Print Assumptions C01_error_general.

(* ---- a decoder that DOES call SetErrorLayer and continues (layers/sctp.go:
   decodeSCTPChunkTypeUnknown): the discipline fails, by documented design of that layer.
   Script: 10 = common header, 11 = chunk decoder choosing by the first byte (mod 3):
   0 -> ordinary chunk, 1 -> unknown chunk (AddLayer; SetErrorLayer; continue), 2 -> error. ---- *)
Definition sctp_like : script_table :=
  [ (10, [mkVariant [mkLspec 10 2 PRest] [SAdd 0; STrans 0] (Next 11) None]);
    (11, [mkVariant [mkLspec 20 2 PRest] [SAdd 0] (Next 11) None;
          mkVariant [mkLspec 21 2 PRest] [SAdd 0; SErrL 0] (Next 11) None;
          mkVariant [] [STrunc] Fail None]) ].

(* (a) nothing fails, yet ErrorLayer() is non-nil, is not a DecodeFailure and is not last *)
Theorem C01_seterror_refuted :
  exists data o p r pe e,
    eager_decode 10 (family_of sctp_like) 10 data (empty_packet data o) = (p, r) /\
    finish_decode (p, r) = NewOk pe /\
    decode_failed r = false /\ p_failure pe = Some e /\ l_fail e = false /\
    last (p_layers pe) e <> e /\ ~ discipline (decode_failed r) pe.
Proof.
  exists [0;0; 1;9; 0;9], (mkOpts false false false false false).
  eexists; eexists; eexists; eexists.
  split; [vm_compute; reflexivity|]. split; [vm_compute; reflexivity|].
  split; [reflexivity|]. split; [vm_compute; reflexivity|]. split; [reflexivity|].
  split; [vm_compute; discriminate|].
  intros [_ [D2 _]]. destruct D2 as [D2 _]. specialize (D2 eq_refl). vm_compute in D2. discriminate.
Qed.

(* (b) a later chunk fails: the final DecodeFailure is last, but ErrorLayer() is still the
   unknown chunk: a DecodeFailure layer that is not the error layer *)
Theorem C01_seterror_then_failure_refuted :
  exists data o p r pe e f,
    eager_decode 10 (family_of sctp_like) 10 data (empty_packet data o) = (p, r) /\
    finish_decode (p, r) = NewOk pe /\
    decode_failed r = true /\ p_failure pe = Some e /\ l_fail e = false /\
    last (p_layers pe) e = f /\ l_fail f = true /\ f <> e.
Proof.
  exists [0;0; 1;9; 2;9], (mkOpts false false false false false).
  eexists; eexists; eexists; eexists; eexists.
  split; [vm_compute; reflexivity|]. split; [vm_compute; reflexivity|].
  split; [reflexivity|]. split; [vm_compute; reflexivity|]. split; [reflexivity|].
  split; [vm_compute; reflexivity|]. split; [reflexivity|]. discriminate.
Qed.

(* ---- non-vacuity of the discipline theorem: a scripted family without SetErrorLayer whose
   third decoder panics after adding a layer; the panic is recovered into a last DecodeFailure ---- *)
Definition ex_fam2 : family := fun t =>
  if t =? 10 then Some (fun data o =>
    match data with
    | [] => ([], Fail)
    | b :: rest => let l := mkLayer 10 [b] rest false in ([Add l; SetLink l], Next 11)
    end)
  else if t =? 11 then Some (fun data o =>
    match data with
    | [] => ([], Fail)
    | b :: rest => ([Add (mkLayer 11 [b] rest false)], if b =? 0 then Ret else PanicT)
    end)
  else None.

Lemma ex_fam2_progress : progress ex_fam2.
Proof.
  intros t d data o acts t' EF ED. unfold ex_fam2 in EF.
  destruct (t =? 10).
  - inversion EF; subst d. destruct data as [|b rest]; inversion ED; subst.
    eexists; split; [reflexivity|]. cbn. lia.
  - destruct (t =? 11); [|discriminate]. inversion EF; subst d.
    destruct data as [|b rest]; [inversion ED|]. destruct (b =? 0); inversion ED.
Qed.

Lemma ex_fam2_no_seterr : no_seterr ex_fam2.
Proof.
  intros t d data o acts term EF ED. unfold ex_fam2 in EF.
  destruct (t =? 10).
  - inversion EF; subst d. destruct data; inversion ED; reflexivity.
  - destruct (t =? 11); [|discriminate]. inversion EF; subst d.
    destruct data; inversion ED; reflexivity.
Qed.

Lemma ex_fam2_no_fail : no_fail_layers ex_fam2.
Proof.
  intros t d data o acts term EF ED. unfold ex_fam2 in EF.
  destruct (t =? 10).
  - inversion EF; subst d. destruct data; inversion ED; reflexivity.
  - destruct (t =? 11); [|discriminate]. inversion EF; subst d.
    destruct data; inversion ED; reflexivity.
Qed.

Example C01core_nonvacuous :
  progress ex_fam2 /\ no_seterr ex_fam2 /\ no_fail_layers ex_fam2 /\
  exists p pe,
    eager_decode 4 ex_fam2 10 [5;6;7] (empty_packet [5;6;7] (mkOpts false false true false false)) = (p, DPanic) /\
    finish_decode (p, DPanic) = NewOk pe /\
    p_failure pe = Some (mk_failure [7]) /\
    p_layers pe = [mkLayer 10 [5] [6;7] false; mkLayer 11 [6] [7] false; mk_failure [7]] /\
    (* and a clean run has no error layer *)
    exists pe2, new_eager 4 ex_fam2 [5;0;7] 10 (mkOpts false false false false false) = NewOk pe2 /\
                p_failure pe2 = None /\ length (p_layers pe2) = 2%nat.
Proof.
  split; [exact ex_fam2_progress|]. split; [exact ex_fam2_no_seterr|]. split; [exact ex_fam2_no_fail|].
  eexists; eexists. split; [vm_compute; reflexivity|]. split; [vm_compute; reflexivity|].
  split; [reflexivity|]. split; [reflexivity|].
  eexists. split; [vm_compute; reflexivity|]. split; reflexivity.
Qed.
