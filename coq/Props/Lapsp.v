(* Lapsp — Andromeda PSP header codec (layers/apsp.go): contributions to C19, C05, C06, C07, C01. *)
From GP Require Import Base ListX Codec MiscLib LapspModel.
From Coq Require Import Lia ZifyBool ZifyNat.
Open Scope Z_scope.
Ltac Zify.zify_post_hook ::= Z.div_mod_to_equations.

Ltac xstep :=
  match goal with
  | |- context [ml_bind ?o _ _ _] => destruct o eqn:?; cbn [ml_bind]
  | |- context [if ?c then _ else _] => destruct c eqn:?
  end.

Lemma ap_rd64_ok l i : 0 <= i -> i + 7 < zlen l -> exists v, ap_rd64 l i = Ok v.
Proof. intros. unfold ap_rd64. rewrite !ml_rd32_ok by lia. cbn [obind]. eexists. reflexivity. Qed.

Theorem C19_apsp_no_panic : forall old data, is_panic (snd (fst (ap_decode_into old data))) = false.
Proof.
  intros old data. unfold ap_decode_into. cbv zeta. destruct (zlen data <? 40) eqn:Hn; [reflexivity|].
  rewrite !cd_idx_ok by lia. rewrite !ml_rd32_ok by lia. cbn [ml_bind].
  destruct (ap_rd64_ok data 8 ltac:(lia) ltac:(lia)) as [v1 E1]. destruct (ap_rd64_ok data 24 ltac:(lia) ltac:(lia)) as [v2 E2].
  destruct (ap_rd64_ok data 32 ltac:(lia) ltac:(lia)) as [v3 E3]. rewrite E1, E2, E3. cbn [ml_bind].
  rewrite !cd_slc_ok by lia. reflexivity.
Qed.
Print Assumptions C19_apsp_no_panic.

(* the registered decoder decodeAPSP: no panic; the layer value is added exactly when it returns nil; the truncated flag never
   reaches the packet (NilDecodeFeedback) *)
Theorem C19_apsp_decoder_no_panic : forall data,
  let '(l, added, nx, o, tr) := ap_decode_fn data in
  is_panic o = false /\ (added = true <-> o = Ok tt) /\ (o = Ok tt -> nx = Some 4) /\ tr = false.
Proof.
  intros data. unfold ap_decode_fn. destruct (zlen data =? 0); [repeat split; intros; discriminate|].
  pose proof (C19_apsp_no_panic ap_fresh data) as P. destruct (ap_decode_into ap_fresh data) as [[l o] tr]. cbn [fst snd] in P.
  destruct o as [[]|e|s]; repeat split; intros; try discriminate; try reflexivity; try assumption.
Qed.
Print Assumptions C19_apsp_decoder_no_panic.

Theorem C05_apsp_fresh : forall old data,
  let r1 := ap_decode_into old data in
  let r2 := ap_decode_into ap_fresh data in
  snd (fst r1) = snd (fst r2) /\ snd r1 = snd r2 /\
  (snd (fst r1) = Ok tt -> fst (fst r1) = fst (fst r2)).
Proof.
  intros old data. cbv zeta. unfold ap_decode_into. cbv zeta.
  repeat (xstep; try solve [cbn [fst snd]; split; [reflexivity | split; [reflexivity | try (intros X; discriminate X); try reflexivity]]]).
  all: try (cbn [fst snd]; split; [reflexivity | split; [reflexivity | intros _; reflexivity]]).
Qed.
Print Assumptions C05_apsp_fresh.

Theorem C01_apsp_render_total : forall old data, ap_render_panics (fst (fst (ap_decode_into old data))) = false.
Proof. reflexivity. Qed.

Lemma ap_hdr_len l : zlen (ap_hdr l) = 40.
Proof. reflexivity. Qed.

Lemma ap_serialize_spec l payload fixl csum junk : ap_serialize l payload fixl csum junk = (Ok (ap_hdr l ++ payload), l).
Proof.
  unfold ap_serialize. rewrite ap_hdr_len. pose proof (ml_tile_init 40 junk ltac:(lia)) as T.
  destruct (ml_tile_copy _ _ (ap_hdr l) _ 0 T eq_refl ltac:(rewrite ap_hdr_len; change (zlen []) with 0; lia)) as [b [E T']].
  rewrite E. apply ml_tile_done in T'; [|reflexivity]. subst b. reflexivity.
Qed.

Theorem C07_apsp_no_panic : forall l payload fixl csum junk, is_panic (fst (ap_serialize l payload fixl csum junk)) = false.
Proof. intros. rewrite ap_serialize_spec. reflexivity. Qed.
Print Assumptions C07_apsp_no_panic.

Theorem C07_apsp_junk_free : forall l payload fixl csum junk1 junk2,
  ap_serialize l payload fixl csum junk1 = ap_serialize l payload fixl csum junk2.
Proof. intros. rewrite !ap_serialize_spec. reflexivity. Qed.
Print Assumptions C07_apsp_junk_free.

Definition ap_wf (l : apsp) : Prop :=
  0 <= ap_nh l < 256 /\ 0 <= ap_hel l < 256 /\ 0 <= ap_co l < 256 /\ 0 <= ap_sdv l < 256 /\ 0 <= ap_spi l < 4294967296 /\
  0 <= ap_iv l < 18446744073709551616 /\ 0 <= ap_tok l < 4294967296 /\ 0 <= ap_vk l < 4294967296 /\
  0 <= ap_src l < 18446744073709551616 /\ 0 <= ap_dst l < 18446744073709551616.

Lemma ap_put64_be x : 0 <= x < 18446744073709551616 ->
  let h := x / 4294967296 in
  (((h / 16777216) mod 256 * 256 + (h / 65536) mod 256) * 65536 + ((h / 256) mod 256 * 256 + h mod 256)) * 4294967296 +
  (((x / 16777216) mod 256 * 256 + (x / 65536) mod 256) * 65536 + ((x / 256) mod 256 * 256 + x mod 256)) = x.
Proof.
  intros H h. assert (Hh : 0 <= h < 4294967296) by (unfold h; lia). rewrite (ml_put32_be h Hh).
  assert (E : ((x / 16777216) mod 256 * 256 + (x / 65536) mod 256) * 65536 + ((x / 256) mod 256 * 256 + x mod 256) = x mod 4294967296).
  { rewrite <- (ml_put32_be (x mod 4294967296)) by lia.
    replace ((x mod 4294967296 / 16777216) mod 256) with ((x / 16777216) mod 256) by lia.
    replace ((x mod 4294967296 / 65536) mod 256) with ((x / 65536) mod 256) by lia.
    replace ((x mod 4294967296 / 256) mod 256) with ((x / 256) mod 256) by lia.
    replace ((x mod 4294967296) mod 256) with (x mod 256) by lia. reflexivity. }
  rewrite E. unfold h. lia.
Qed.

(* C06: all fields in range (uint8/uint32/uint64): the 40 written octets followed by the payload decode, into any
   object, to the same fields, Contents = the written header, Payload = the payload; no error, not truncated;
   serializing the decoded layer gives the same octets (fixpoint) *)
Theorem C06_apsp_roundtrip : forall l payload fixl csum junk bytes l' old,
  ap_wf l -> ap_serialize l payload fixl csum junk = (Ok bytes, l') ->
  l' = l /\ bytes = ap_hdr l ++ payload /\
  ap_decode_into old bytes = (mkAp (ap_hdr l) payload (ap_nh l) (ap_hel l) (ap_co l) (ap_sdv l) (ap_spi l) (ap_iv l) (ap_tok l) (ap_vk l)
                                   (ap_src l) (ap_dst l), Ok tt, false) /\
  ap_hdr (fst (fst (ap_decode_into old bytes))) = ap_hdr l.
Proof.
  intros l payload fixl csum junk bytes l' old [H1 [H2 [H3 [H4 [H5 [H6 [H7 [H8 [H9 H10]]]]]]]]]. rewrite ap_serialize_spec. intros X.
  assert (E1 : bytes = ap_hdr l ++ payload) by congruence. assert (E2 : l' = l) by congruence. clear X.
  split; [exact E2|]. split; [exact E1|]. subst bytes l'. pose proof (zlen_nonneg payload) as Np.
  remember (ap_hdr l ++ payload) as data eqn:Hd.
  assert (Hn : zlen data = 40 + zlen payload) by (subst data; rewrite zlen_app; reflexivity).
  assert (HnthZ : forall k, 0 <= k < 40 -> nth (Z.to_nat k) data 0 = nth (Z.to_nat k) (ap_hdr l) 0).
  { intros k Hk. subst data. apply app_nth1. change (length (ap_hdr l)) with 40%nat. lia. }
  assert (D : ap_decode_into old data = (mkAp (ap_hdr l) payload (ap_nh l) (ap_hel l) (ap_co l) (ap_sdv l) (ap_spi l) (ap_iv l) (ap_tok l) (ap_vk l)
                                   (ap_src l) (ap_dst l), Ok tt, false)).
  { unfold ap_decode_into, ap_rd64. cbv zeta. destruct (zlen data <? 40) eqn:C; [lia|].
    rewrite !cd_idx_ok by lia. rewrite !ml_rd32_ok by lia. cbn [ml_bind obind]. rewrite !cd_slc_ok by lia. cbn [ml_bind].
    assert (S1 : slice data (Z.to_nat 0) (Z.to_nat 40) = ap_hdr l) by (subst data; apply slice_from_start; reflexivity).
    assert (S2 : slice data (Z.to_nat 40) (Z.to_nat (zlen data)) = payload).
    { rewrite Hn. subst data. apply slice_to_end; [reflexivity|]. change (length (ap_hdr l)) with 40%nat. unfold zlen. lia. }
    rewrite S1, S2. rewrite !HnthZ by lia.
    repeat match goal with |- context [Z.to_nat ?k] => let v := eval vm_compute in (Z.to_nat k) in change (Z.to_nat k) with v end.
    unfold ap_hdr, ap_put64. cbn [nth app ml_put32].
    rewrite (ml_put32_be (ap_spi l) H5), (ml_put32_be (ap_tok l) H7), (ml_put32_be (ap_vk l) H8).
    pose proof (ap_put64_be (ap_iv l) H6) as P1. pose proof (ap_put64_be (ap_src l) H9) as P2. pose proof (ap_put64_be (ap_dst l) H10) as P3.
    cbv zeta in P1, P2, P3. rewrite P1, P2, P3.
    rewrite !Z.mod_small by lia. reflexivity. }
  split; [exact D|]. rewrite D. cbn [fst]. reflexivity.
Qed.
Print Assumptions C06_apsp_roundtrip.

(* every layer that decoding produces is in the C06 domain: decode, serialize, decode is the identity on decodable input *)
Theorem C06_apsp_decoded_wf : forall old data l tr, bytes_ok data -> ap_decode_into old data = (l, Ok tt, tr) -> ap_wf l.
Proof.
  intros old data l tr Hb. unfold ap_decode_into, ap_rd64. cbv zeta. destruct (zlen data <? 40) eqn:Hn; [discriminate|].
  assert (B : forall k, 0 <= nth k data 0 < 256) by (intros k; apply bytes_ok_nth; exact Hb).
  rewrite !cd_idx_ok by lia. rewrite !ml_rd32_ok by lia. cbn [ml_bind obind]. rewrite !cd_slc_ok by lia. cbn [ml_bind]. intros X.
  match type of X with (?t, _, _) = _ => assert (El : l = t) by congruence end. subst l. clear X.
  assert (R32 : forall i, 0 <= (nth (Z.to_nat i) data 0 * 256 + nth (Z.to_nat (i + 1)) data 0) * 65536 + (nth (Z.to_nat (i + 2)) data 0 * 256 + nth (Z.to_nat (i + 2 + 1)) data 0) < 4294967296).
  { intros i. pose proof (B (Z.to_nat i)). pose proof (B (Z.to_nat (i + 1))). pose proof (B (Z.to_nat (i + 2))). pose proof (B (Z.to_nat (i + 2 + 1))). lia. }
  unfold ap_wf. cbn [ap_nh ap_hel ap_co ap_sdv ap_spi ap_iv ap_tok ap_vk ap_src ap_dst].
  pose proof (R32 4). pose proof (R32 8). pose proof (R32 (8 + 4)). pose proof (R32 16). pose proof (R32 20). pose proof (R32 24). pose proof (R32 (24 + 4)).
  pose proof (R32 32). pose proof (R32 (32 + 4)).
  repeat split; try apply B; try lia.
Qed.
Print Assumptions C06_apsp_decoded_wf.

Example Lapsp_nonvacuous :
  let l := mkAp [] [] 4 1 0 3 66000 18446744073709551615 5 6 4294967296 9 in
  ap_wf l /\ fst (ap_serialize l [69] false false [170]) =
    Ok [4;1;0;3; 0;1;1;208; 255;255;255;255;255;255;255;255; 0;0;0;5; 0;0;0;6; 0;0;0;1;0;0;0;0; 0;0;0;0;0;0;0;9; 69].
Proof. split; [unfold ap_wf; cbn; lia|vm_compute; reflexivity]. Qed.
