(* Lip6skip — IPv6ExtensionSkipper (layers/ip6.go): contributions to C19 and C05. *)
From GP Require Import Base ListX Codec MiscLib Lip6skipModel.
From Coq Require Import Lia ZifyBool ZifyNat.
Open Scope Z_scope.
Ltac Zify.zify_post_hook ::= Z.div_mod_to_equations.

Ltac xstep :=
  match goal with
  | |- context [ml_bind ?o _ _ _] => destruct o eqn:?; cbn [ml_bind]
  | |- context [if ?c then _ else _] => destruct c eqn:?
  end.

Theorem C19_ip6skip_no_panic : forall old data, bytes_ok data -> is_panic (snd (fst (sk_decode_into old data))) = false.
Proof.
  intros old data Hb. unfold sk_decode_into. cbv zeta. destruct (zlen data <? 2) eqn:Hn; [reflexivity|].
  rewrite !cd_idx_ok by lia. cbn [ml_bind]. pose proof (bytes_ok_nth data (Z.to_nat 1) Hb) as B.
  match goal with |- context [if zlen data <? ?e then _ else _] => destruct (zlen data <? e) eqn:C end; [reflexivity|]. rewrite !cd_slc_ok by lia. reflexivity.
Qed.
Print Assumptions C19_ip6skip_no_panic.

Theorem C05_ip6skip_fresh : forall old data,
  let r1 := sk_decode_into old data in
  let r2 := sk_decode_into sk_fresh data in
  snd (fst r1) = snd (fst r2) /\ snd r1 = snd r2 /\
  (snd (fst r1) = Ok tt -> fst (fst r1) = fst (fst r2)).
Proof.
  intros old data. cbv zeta. unfold sk_decode_into. cbv zeta.
  repeat (xstep; try solve [cbn [fst snd]; split; [reflexivity | split; [reflexivity | try (intros X; discriminate X); try reflexivity]]]).
  all: try (cbn [fst snd]; split; [reflexivity | split; [reflexivity | intros _; reflexivity]]).
Qed.
Print Assumptions C05_ip6skip_fresh.

(* success means: the header is a positive multiple of 8 octets taken from the front, the rest is the payload *)
Theorem C19_ip6skip_shape : forall old data l tr, bytes_ok data -> sk_decode_into old data = (l, Ok tt, tr) ->
  sk_contents l ++ sk_payload l = data /\ zlen (sk_contents l) = 8 * nth 1 data 0 + 8 /\ sk_nh l = nth 0 data 0 /\ tr = false.
Proof.
  intros old data l tr Hb. unfold sk_decode_into. cbv zeta. destruct (zlen data <? 2) eqn:Hn; [discriminate|].
  rewrite !cd_idx_ok by lia. cbn [ml_bind]. pose proof (bytes_ok_nth data (Z.to_nat 1) Hb) as B.
  match goal with |- context [if zlen data <? ?e then _ else _] => destruct (zlen data <? e) eqn:C end; [discriminate|]. rewrite !cd_slc_ok by lia. cbn [ml_bind]. intros X.
  match type of X with (?t, _, _) = _ => assert (El : l = t) by congruence end. assert (tr = false) by congruence. subst l. clear X.
  cbn [sk_contents sk_payload sk_nh]. change (Z.to_nat 1) with 1%nat in *. change (Z.to_nat 0) with 0%nat.
  set (al := nth 1 data 0 * 8 + 8) in *. repeat split; try assumption.
  - unfold slice. cbn [skipn]. rewrite (firstn_all2 (n := Z.to_nat (zlen data)) data) by (unfold zlen; lia). apply firstn_skipn.
  - unfold zlen in *. rewrite slice_length by lia. lia.
Qed.
Print Assumptions C19_ip6skip_shape.

Example Lip6skip_nonvacuous : sk_decode_into sk_fresh [17;0;1;2;3;4;5;6;9] = (mkSk [17;0;1;2;3;4;5;6] [9] 17, Ok tt, false).
Proof. vm_compute. reflexivity. Qed.
