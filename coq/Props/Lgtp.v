(* Lgtp — GTPv1-U header codec (layers/gtp.go): contributions to C19, C05, C06, C07, C01. *)
From GP Require Import Base ListX Codec MiscLib LgtpModel LgtpRt.
From Coq Require Import Lia ZifyBool ZifyNat.
Open Scope Z_scope.
Ltac Zify.zify_post_hook ::= Z.div_mod_to_equations.

Lemma gtp_ext_loop_safe : forall fuel data ci flag acc, bytes_ok data -> 12 <= ci <= zlen data -> zlen data - ci < Z.of_nat fuel ->
  match snd (gtp_ext_loop fuel data ci flag acc) with
  | Ok c => 12 <= c <= zlen data
  | Err e => e <> 99
  | Panic _ => False
  end.
Proof.
  induction fuel as [|f IH]; intros data ci flag acc Hb Hc Hf; [lia|].
  cbn [gtp_ext_loop]. destruct flag; cbn [negb snd]; [|exact Hc].
  destruct (zlen data <=? ci) eqn:C0; [cbn [snd]; discriminate|].
  rewrite !cd_idx_ok by lia. cbn [obind].
  pose proof (bytes_ok_nth data (Z.to_nat ci) Hb) as B. set (el := nth (Z.to_nat ci) data 0) in *.
  destruct (el =? 0) eqn:C1; [cbn [snd]; discriminate|].
  destruct (zlen data <? ci + el * 4) eqn:C2; [cbn [snd]; discriminate|].
  rewrite cd_slc_ok by lia. rewrite cd_idx_ok by lia. cbn [obind].
  apply IH; [exact Hb|lia|lia].
Qed.

Theorem C19_gtp_no_panic : forall orig old data, bytes_ok data ->
  is_panic (snd (fst (gtp_decode_gen orig old data))) = false /\ snd (fst (gtp_decode_gen orig old data)) <> Err 99.
Proof.
  intros orig old data Hb. unfold gtp_decode_gen. cbv zeta. destruct (zlen data <? 8) eqn:C0; [split; [reflexivity|discriminate]|].
  rewrite !cd_idx_ok by lia. rewrite cd_rd16_ok by lia. cbn [ml_bind].
  match goal with |- context [if zlen data <? 8 + ?m then _ else _] => destruct (zlen data <? 8 + m) eqn:C1 end; [split; [reflexivity|discriminate]|].
  rewrite ml_rd32_ok by lia. cbn [ml_bind].
  match goal with |- context [if ?c then _ else _] => destruct c eqn:Fl end.
  - destruct (zlen data <? 12) eqn:C2; [split; [reflexivity|discriminate]|].
    rewrite cd_rd16_ok by lia. rewrite !cd_idx_ok by lia. cbn [ml_bind].
    match goal with |- context [if ?e then gtp_ext_loop ?f ?d ?c ?fl ?a else _] => destruct e eqn:Ef;
      [pose proof (gtp_ext_loop_safe f d c fl a Hb ltac:(lia) ltac:(unfold zlen; lia)) as P; destruct (gtp_ext_loop f d c fl a) as [exts o]; cbn [snd] in P|] end.
    + destruct o as [ci|e|s]; [|cbn [fst snd]; split; [reflexivity|intros X; apply P; inversion X; reflexivity]|contradiction].
      rewrite !cd_slc_ok by lia. cbn [ml_bind]. split; [reflexivity|discriminate].
    + rewrite !cd_slc_ok by lia. cbn [ml_bind]. split; [reflexivity|discriminate].
  - rewrite !cd_slc_ok by lia. cbn [ml_bind]. split; [reflexivity|discriminate].
Qed.
Print Assumptions C19_gtp_no_panic.

Ltac gstep :=
  match goal with
  | |- context [ml_bind ?o _ _ _] => destruct o eqn:?; cbn [ml_bind]
  | |- context [if ?c then _ else _] => destruct c eqn:?
  | |- context [let '(a, b) := gtp_ext_loop ?f ?d ?c ?fl ?acc in _] => destruct (gtp_ext_loop f d c fl acc) as [? [?|?|?]]
  end.

Theorem C05_gtp_fresh : forall old data,
  let r1 := gtp_decode_into old data in
  let r2 := gtp_decode_into gtp_fresh data in
  snd (fst r1) = snd (fst r2) /\ snd r1 = snd r2 /\
  (snd (fst r1) = Ok tt -> fst (fst r1) = fst (fst r2)).
Proof.
  intros old data. cbv zeta. unfold gtp_decode_into, gtp_decode_gen. cbv zeta.
  repeat (gstep; try solve [cbn [fst snd]; split; [reflexivity | split; [reflexivity | try (intros X; discriminate X); try reflexivity]]]).
  all: try (cbn [fst snd]; split; [reflexivity | split; [reflexivity | intros _; reflexivity]]).
Qed.
Print Assumptions C05_gtp_fresh.

(* before the repairs: a sequence number stays from the earlier packet; extension headers accumulate;
   an E flag with next extension header type 0 made the decoder read a header out of the payload *)
Theorem C05_gtp_orig_refuted : exists a b l1 l2,
  gtp_decode_orig gtp_fresh a = (l1, Ok tt, false) /\ gtp_decode_orig l1 b = (l2, Ok tt, false) /\
  g_seq l2 = 7 /\ g_seq (fst (fst (gtp_decode_orig gtp_fresh b))) = 0 /\ g_seq (fst (fst (gtp_decode_into l1 b))) = 0.
Proof.
  exists [50;255;0;5;0;0;0;1;0;7;0;0;69], [48;255;0;1;0;0;0;1;69]. eexists. eexists.
  split; [vm_compute; reflexivity|]. split; [vm_compute; reflexivity|]. repeat split; vm_compute; reflexivity.
Qed.
Print Assumptions C05_gtp_orig_refuted.

Theorem C06_gtp_orig_refuted :
  let l := mkGtp [] [] 1 1 0 true false false 255 0 1 0 0 [] in
  exists bytes, fst (gtp_serialize l [1;0;0;0;69] true true []) = Ok bytes /\
    g_exts (fst (fst (gtp_decode_orig gtp_fresh bytes))) <> [] /\
    g_exts (fst (fst (gtp_decode_into gtp_fresh bytes))) = [] /\ g_payload (fst (fst (gtp_decode_into gtp_fresh bytes))) = [1;0;0;0;69].
Proof. eexists. split; [vm_compute; reflexivity|]. split; [vm_compute; discriminate|]. split; vm_compute; reflexivity. Qed.
Print Assumptions C06_gtp_orig_refuted.

(* ---------------------------------------------------------------- serializer *)
Lemma gtp_exts_junk_free junk1 junk2 : forall l, gtp_exts_bytes junk1 l = gtp_exts_bytes junk2 l /\ is_panic (gtp_exts_bytes junk1 l) = false.
Proof.
  induction l as [|e t [IH1 IH2]]; [split; reflexivity|]. cbn [gtp_exts_bytes]. rewrite <- IH1.
  destruct (gtp_exts_bytes junk1 t) as [[xb nx]|c|s]; cbn [obind]; [|split; reflexivity|discriminate].
  destruct (negb (zlen (gx_content e) mod 4 =? 2)); [split; reflexivity|].
  rewrite !gtp_region_ok by (rewrite !zlen_app; change (zlen [_]) with 1; change (zlen [snd (xb, nx) mod 256]) with 1; lia).
  split; reflexivity.
Qed.

Theorem C07_gtp_junk_free : forall l payload fixl csum junk1 junk2,
  gtp_serialize l payload fixl csum junk1 = gtp_serialize l payload fixl csum junk2.
Proof.
  intros. unfold gtp_serialize. cbv zeta. destruct (gtp_exts_junk_free junk1 junk2 (g_exts l)) as [E _]. rewrite <- E.
  destruct (gtp_exts_bytes junk1 (g_exts l)) as [[xb nx]|c|s]; try reflexivity.
  destruct (_ || g_sflag l || g_nflag l); [rewrite !(gtp_region_ok 4) by reflexivity|]; rewrite !(gtp_region_ok 8) by reflexivity; reflexivity.
Qed.
Print Assumptions C07_gtp_junk_free.

Theorem C07_gtp_no_panic : forall l payload fixl csum junk, is_panic (fst (gtp_serialize l payload fixl csum junk)) = false.
Proof.
  intros. unfold gtp_serialize. cbv zeta. destruct (gtp_exts_junk_free junk junk (g_exts l)) as [_ P].
  destruct (gtp_exts_bytes junk (g_exts l)) as [[xb nx]|c|s]; [|reflexivity|discriminate].
  destruct (_ || g_sflag l || g_nflag l); [rewrite !(gtp_region_ok 4) by reflexivity|]; rewrite !(gtp_region_ok 8) by reflexivity; reflexivity.
Qed.
Print Assumptions C07_gtp_no_panic.

Theorem C01_gtp_render_total : forall orig old data, gtp_render_panics (fst (fst (gtp_decode_gen orig old data))) = false.
Proof. reflexivity. Qed.

(* C06 (repaired decoder, FixLengths): version < 8, protocol type 1, reserved 0 (what SerializeTo writes), octet message type,
   32-bit TEID, sequence / N-PDU numbers only with their flags, extension headers of non-zero octet type with content of
   4k+2 <= 1018 octets (and then the E flag), message below 2^16 octets: decoding the written bytes into any object gives the
   header fields, MessageLength as fixed, the optional fields, the same extension headers and the payload; no error. *)
Theorem C06_gtp_roundtrip : forall l payload csum junk bytes l' old,
  gtp_wf l -> 4 + zlen (fst (gx_bytes (g_exts l))) + zlen payload < 65536 ->
  gtp_serialize l payload true csum junk = (Ok bytes, l') ->
  exists c, gtp_decode_into old bytes =
    (mkGtp c payload (g_version l) 1 0 (g_eflag l) (g_sflag l) (g_nflag l) (g_mtype l) (g_mlen l') (g_teid l) (g_seq l) (g_npdu l) (g_exts l),
     Ok tt, false) /\ c ++ payload = bytes.
Proof. exact gtp_roundtrip. Qed.
Print Assumptions C06_gtp_roundtrip.

Example Lgtp_nonvacuous :
  let l := mkGtp [] [] 1 1 0 true true false 255 0 1 7 0 [mkGx 133 [1;2]] in
  gtp_wf l /\ exists bytes l', gtp_serialize l [69] true false [] = (Ok bytes, l') /\ bytes = [54;255;0;9;0;0;0;1;0;7;0;133;1;1;2;0;69] /\
    gtp_decode_into gtp_fresh bytes = (mkGtp [54;255;0;9;0;0;0;1;0;7;0;133;1;1;2;0] [69] 1 1 0 true true false 255 9 1 7 0 [mkGx 133 [1;2]], Ok tt, false).
Proof.
  cbv zeta. split.
  - unfold gtp_wf. cbn. repeat split; try lia; try discriminate. constructor; [|constructor]. unfold gx_wf. cbn. repeat split; try lia.
  - eexists. eexists. split; [vm_compute; reflexivity|]. split; vm_compute; reflexivity.
Qed.
