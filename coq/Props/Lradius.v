(* Lradius — RADIUS codec (layers/radius.go): contributions to C19, C05, C06 (partial), C07, C01. *)
From GP Require Import Base Codec MiscLib LradiusModel LradiusProofs.
Open Scope Z_scope.

(* for both variants of the decoder; no hypothesis on the octets *)
Theorem C19_radius_no_panic : forall orig old data, is_panic (snd (fst (rad_decode_gen orig old data))) = false.
Proof. intros. exact (proj1 (rad_decode_safe orig old data)). Qed.
Print Assumptions C19_radius_no_panic.

Theorem C19_radius_fuel : forall orig old data, snd (fst (rad_decode_gen orig old data)) <> Err 99.
Proof. intros. exact (proj2 (rad_decode_safe orig old data)). Qed.
Print Assumptions C19_radius_fuel.

Theorem C05_radius_fresh : forall old data,
  let r1 := rad_decode_into old data in
  let r2 := rad_decode_into rad_fresh data in
  snd (fst r1) = snd (fst r2) /\ snd r1 = snd r2 /\
  (snd (fst r1) = Ok tt -> fst (fst r1) = fst (fst r2)).
Proof. exact rad_decode_fresh. Qed.
Print Assumptions C05_radius_fresh.

(* before the repair: decoding the same packet twice into one layer doubles its attributes *)
Theorem C05_radius_orig_refuted : exists a l1 l2,
  rad_decode_orig rad_fresh a = (l1, Ok tt, false) /\ rad_decode_orig l1 a = (l2, Ok tt, false) /\
  length (r_attrs l1) = 1%nat /\ length (r_attrs l2) = 2%nat.
Proof. exact rad_orig_stale. Qed.
Print Assumptions C05_radius_orig_refuted.

(* before the repair: FixLengths wrote len(Value) into the attribute length octet; the decoder
   rejects the result.  The repaired serializer reproduces the decoded packet. *)
Theorem C06_radius_orig_refuted : exists a l bytes,
  rad_decode_orig rad_fresh a = (l, Ok tt, false) /\ fst (rad_serialize_orig l [] true true []) = Ok bytes /\
  snd (fst (rad_decode_orig rad_fresh bytes)) <> Ok tt /\
  fst (rad_serialize l [] true true []) = Ok a.
Proof. exact rad_orig_fixlengths. Qed.
Print Assumptions C06_radius_orig_refuted.

(* closed form of SerializeTo (both variants) *)
Theorem C07_radius_closed_form : forall orig l payload fixl csum junk,
  rad_serialize_gen orig l payload fixl csum junk = rad_ser_spec orig l payload fixl.
Proof. exact rad_serialize_spec. Qed.
Print Assumptions C07_radius_closed_form.

Theorem C07_radius_no_panic : forall l payload fixl csum junk,
  is_panic (fst (rad_serialize l payload fixl csum junk)) = false.
Proof. intros. apply rad_serialize_no_panic. Qed.
Print Assumptions C07_radius_no_panic.

Theorem C07_radius_junk_free : forall l payload fixl csum junk1 junk2,
  rad_serialize l payload fixl csum junk1 = rad_serialize l payload fixl csum junk2.
Proof. intros. apply rad_serialize_junk_free. Qed.
Print Assumptions C07_radius_junk_free.

Theorem C01_radius_render_total : forall orig old data, rad_render_panics (fst (fst (rad_decode_gen orig old data))) = false.
Proof. reflexivity. Qed.

(* C06 positive statement: stated, not proved (partial) — covered by the correspondence runs and the C06 oracle.
   Hypothesis: octet fields in range, 16 authenticator octets, attribute values of 1..253 octets, at most 4096
   octets in all, nothing under the layer. *)
Definition rad_wf (l : radius) : Prop :=
  0 <= r_code l < 256 /\ 0 <= r_ident l < 256 /\ zlen (r_auth l) = 16 /\ bytes_ok (r_auth l) /\
  Forall (fun a => 0 <= ra_type a < 256 /\ 1 <= zlen (ra_value a) <= 253) (r_attrs l) /\ 20 + rad_asum (r_attrs l) <= 4096.
Definition C06_radius_roundtrip_statement : Prop := forall l csum junk bytes l' old,
  rad_wf l -> rad_serialize l [] true csum junk = (Ok bytes, l') ->
  exists d, rad_decode_into old bytes = (d, Ok tt, false) /\ r_code d = r_code l /\ r_ident d = r_ident l /\
    r_length d = 20 + rad_asum (r_attrs l) /\ r_auth d = r_auth l /\
    map (fun a => (ra_type a, ra_value a)) (r_attrs d) = map (fun a => (ra_type a, ra_value a)) (r_attrs l) /\
    Forall (fun a => ra_len a = zlen (ra_value a) + 2) (r_attrs d) /\ r_payload d = rad_eap (r_attrs l).

Example Lradius_nonvacuous :
  let l := mkRad [] [] 1 7 0 (repeat 0 16) [mkRa 1 0 [98;111;98]] in
  rad_wf l /\ fst (rad_serialize l [] true false [9]) = Ok ([1;7;0;25] ++ repeat 0 16 ++ [1;5;98;111;98]).
Proof.
  split; [|vm_compute; reflexivity].
  unfold rad_wf. cbn. repeat split; try lia; try reflexivity.
  - repeat constructor; discriminate.
  - constructor; [cbn; unfold zlen; cbn; lia|constructor].
Qed.
