(* Lradius — RADIUS codec (layers/radius.go): contributions to C19, C05, C06, C07, C01. *)
From GP Require Import Base Codec MiscLib LradiusModel LradiusProofs LradiusRt.
Open Scope Z_scope.

(* for both variants of the decoder; no hypothesis on the octets *)
Theorem C19_radius_no_panic : forall orig old data, is_panic (snd (fst (rad_decode_gen orig old data))) = false.
Proof. intros. exact (proj1 (rad_decode_safe orig old data)). Qed.
Print Assumptions C19_radius_no_panic.

Theorem C19_radius_fuel : forall orig old data, snd (fst (rad_decode_gen orig old data)) <> Err 99.
Proof. intros. exact (proj2 (rad_decode_safe orig old data)). Qed.
Print Assumptions C19_radius_fuel.

Theorem C05_radius_fresh : forall old data,
  let r1 := rad_decode_into old data in
  let r2 := rad_decode_into rad_fresh data in
  snd (fst r1) = snd (fst r2) /\ snd r1 = snd r2 /\
  (snd (fst r1) = Ok tt -> fst (fst r1) = fst (fst r2)).
Proof. exact rad_decode_fresh. Qed.
Print Assumptions C05_radius_fresh.

(* before the repair: decoding the same packet twice into one layer doubles its attributes *)
Theorem C05_radius_orig_refuted : exists a l1 l2,
  rad_decode_orig rad_fresh a = (l1, Ok tt, false) /\ rad_decode_orig l1 a = (l2, Ok tt, false) /\
  length (r_attrs l1) = 1%nat /\ length (r_attrs l2) = 2%nat.
Proof. exact rad_orig_stale. Qed.
Print Assumptions C05_radius_orig_refuted.

(* before the repair: FixLengths wrote len(Value) into the attribute length octet; the decoder
   rejects the result.  The repaired serializer reproduces the decoded packet. *)
Theorem C06_radius_orig_refuted : exists a l bytes,
  rad_decode_orig rad_fresh a = (l, Ok tt, false) /\ fst (rad_serialize_orig l [] true true []) = Ok bytes /\
  snd (fst (rad_decode_orig rad_fresh bytes)) <> Ok tt /\
  fst (rad_serialize l [] true true []) = Ok a.
Proof. exact rad_orig_fixlengths. Qed.
Print Assumptions C06_radius_orig_refuted.

(* closed form of SerializeTo (both variants) *)
Theorem C07_radius_closed_form : forall orig l payload fixl csum junk,
  rad_serialize_gen orig l payload fixl csum junk = rad_ser_spec orig l payload fixl.
Proof. exact rad_serialize_spec. Qed.
Print Assumptions C07_radius_closed_form.

Theorem C07_radius_no_panic : forall l payload fixl csum junk,
  is_panic (fst (rad_serialize l payload fixl csum junk)) = false.
Proof. intros. apply rad_serialize_no_panic. Qed.
Print Assumptions C07_radius_no_panic.

Theorem C07_radius_junk_free : forall l payload fixl csum junk1 junk2,
  rad_serialize l payload fixl csum junk1 = rad_serialize l payload fixl csum junk2.
Proof. intros. apply rad_serialize_junk_free. Qed.
Print Assumptions C07_radius_junk_free.

Theorem C01_radius_render_total : forall orig old data, rad_render_panics (fst (fst (rad_decode_gen orig old data))) = false.
Proof. reflexivity. Qed.

(* C06 (repaired serializer, FixLengths): octet code/identifier, 16 authenticator octets, attributes of octet type with
   1..253 value octets, at most 4096 octets in all, nothing under the layer: decoding the written bytes into any object
   gives code, identifier, Length as fixed, the authenticator, the attributes with Length = len(Value) + 2, and the payload
   derived from the EAP-Message attributes; no error, no truncation. *)
Theorem C06_radius_roundtrip : forall l csum junk bytes l' old,
  rad_wf l -> rad_serialize l [] true csum junk = (Ok bytes, l') ->
  l' = rad_l1 true l /\
  rad_decode_into old bytes =
    (mkRad bytes (rad_eap (r_attrs l)) (r_code l) (r_ident l) (20 + rad_asum (r_attrs l)) (r_auth l) (map ra_norm (r_attrs l)), Ok tt, false).
Proof. exact rad_roundtrip. Qed.
Print Assumptions C06_radius_roundtrip.

Example Lradius_nonvacuous :
  let l := mkRad [] [] 1 7 0 (repeat 0 16) [mkRa 1 0 [98;111;98]] in
  rad_wf l /\ fst (rad_serialize l [] true false [9]) = Ok ([1;7;0;25] ++ repeat 0 16 ++ [1;5;98;111;98]).
Proof.
  split; [|vm_compute; reflexivity].
  unfold rad_wf. cbn. repeat split; try lia; try reflexivity.
  - repeat constructor; discriminate.
  - constructor; [unfold ra_wf; cbn; unfold zlen; cbn; lia|constructor].
Qed.
