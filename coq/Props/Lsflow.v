(* Lsflow — sFlow v5 datagram decoder (layers/sflow.go): contributions to C19, C05, C01.
   SFlowDatagram has no SerializeTo: C06 and C07 do not apply. *)
From GP Require Import Base Codec LsflowModel LsflowProofs LsflowBounds LsflowSize.
Open Scope Z_scope.

(* C19: for EVERY list of values (not only octets) and every receiver state, no read of the datagram header, the
   sample walk, the record walks, skipRecord, or any of the 31 record decoders (raw packet header length, extended
   router/gateway address types, AS path and community counts, URL / user / port name string lengths, ...) is out
   of range: DecodeFromBytes returns nil or an error. *)
Theorem C19_sflow_no_panic : forall old data, is_panic (snd (fst (sf_decode_into old data))) = false.
Proof. exact sf_decode_no_panic. Qed.
Print Assumptions C19_sflow_no_panic.

(* no unbounded loop from a hostile count: the sample loop, both record loops and the AS path loop consume at least
   four octets per round, so the model's fuel (input length + 1) is never exhausted whatever the 32-bit sample /
   record / path counts say; member and community counts are compared with the octets left before make() *)
Theorem C19_sflow_fuel : forall old data, snd (fst (sf_decode_into old data)) <> Err 99.
Proof. exact sf_decode_fuel. Qed.
Print Assumptions C19_sflow_fuel.

(* no unbounded allocation from a hostile count.  (1) both make() sites (AS path members, communities) are behind
   `count > uint32(len/4)`: a count that passes is backed by four octets of remaining input per element *)
Theorem C19_sflow_make_guarded : forall c d, cnt_too_big c d = false -> (4 * Z.to_nat c <= length d)%nat.
Proof. exact cnt_ok. Qed.
Print Assumptions C19_sflow_make_guarded.

(* (2) every list grown by append — flow records, counter records, AS paths — gets at most one element per four
   octets consumed, whatever the record / path count says *)
Theorem C19_sflow_record_lists_bounded : forall fuel cnt d l r,
  (p_frecs fuel cnt d = Ok (l, r) -> (4 * length l + length r <= length d)%nat) /\
  (p_crecs fuel cnt d = Ok (l, r) -> (4 * length l + length r <= length d)%nat) /\
  (p_paths fuel cnt d = Ok (l, r) -> (4 * length l + length r <= length d)%nat).
Proof. intros. split; [apply frecs_len|]. split; [apply crecs_len | apply paths_len]. Qed.
Print Assumptions C19_sflow_record_lists_bounded.

(* (3) the two sample lists of the layer together hold at most len(data)/4 samples, for every receiver state and
   every sample count, also when decoding ends in an error *)
Theorem C19_sflow_sample_lists_bounded : forall old data,
  let s := fst (fst (sf_decode_into old data)) in
  (4 * (length (sf_fs s) + length (sf_cs s)) <= length data)%nat.
Proof. exact sf_decode_lists_bounded. Qed.
Print Assumptions C19_sflow_sample_lists_bounded.

(* (4) strings (URL, host, user ids) are copies of at most the octets that remain *)
Theorem C19_sflow_strings_bounded : forall n extra e d x r, p_xstr n extra e d = Ok (x, r) ->
  exists b, x = SB b /\ (length b <= length d)%nat /\ (length r <= length d)%nat.
Proof. exact xstr_bounded. Qed.
Print Assumptions C19_sflow_strings_bounded.

(* (5) the whole decoded structure is linear in the input.  W counts one per node of the sample / record trees and
   one per octet kept in a byte string (addresses, strings, the header handed to NewPacket); Wl sums it over a list.
   For every receiver state and every datagram below 2^32-4 octets (where the uint32 padding arithmetic cannot wrap;
   a UDP payload is below 2^16) the samples left in the layer — also after an error — weigh at most twice the
   datagram length, whatever the sample, record, path, member, community and length fields say. *)
Theorem C19_sflow_output_linear : forall old data, zlen data < 4294967292 ->
  let s := fst (fst (sf_decode_into old data)) in
  (Wl (sf_fs s) + Wl (sf_cs s) <= 2 * length data)%nat.
Proof. exact sf_decode_size. Qed.
Print Assumptions C19_sflow_output_linear.

(* the same for the code before the C05 repair (the repair did not touch any bounds check) *)
Theorem C19_sflow_orig_no_panic : forall old data, is_panic (snd (fst (sf_decode_into_orig old data))) = false.
Proof. exact sf_decode_orig_no_panic. Qed.
Print Assumptions C19_sflow_orig_no_panic.

(* C05: outcome, truncated flag and BOTH sample lists never depend on what the receiver held (also on error
   paths); after a successful decode the whole layer equals the one decoded into a fresh object *)
Theorem C05_sflow_fresh : forall old data,
  let r1 := sf_decode_into old data in
  let r2 := sf_decode_into sf_fresh data in
  snd (fst r1) = snd (fst r2) /\ snd r1 = snd r2 /\
  sf_fs (fst (fst r1)) = sf_fs (fst (fst r2)) /\ sf_cs (fst (fst r1)) = sf_cs (fst (fst r2)) /\
  (snd (fst r1) = Ok tt -> fst (fst r1) = fst (fst r2)).
Proof. exact sf_decode_fresh. Qed.
Print Assumptions C05_sflow_fresh.

(* the original code (no reset of FlowSamples/CounterSamples) violated it: decoding the same 48-octet datagram
   twice into one object leaves two counter samples *)
Definition sf_witness : list Z :=
  [0;0;0;5; 0;0;0;1; 10;0;0;1; 0;0;0;0; 0;0;0;7; 0;0;1;0; 0;0;0;1;
   0;0;0;2; 0;0;0;12; 0;0;0;9; 0;0;0;3; 0;0;0;0].
Theorem C05_sflow_fresh_orig_refuted :
  exists old data,
    snd (fst (sf_decode_into_orig old data)) = Ok tt /\ snd (fst (sf_decode_into_orig sf_fresh data)) = Ok tt /\
    fst (fst (sf_decode_into_orig old data)) <> fst (fst (sf_decode_into_orig sf_fresh data)).
Proof.
  exists (fst (fst (sf_decode_into_orig sf_fresh sf_witness))), sf_witness.
  split; [vm_compute; reflexivity|]. split; [vm_compute; reflexivity|]. vm_compute. discriminate.
Qed.
Print Assumptions C05_sflow_fresh_orig_refuted.

(* C01: SFlowDatagram has no String method; LayerString/LayerDump/LayerGoString are reflective; the String methods of
   the value types are switches with a default *)
Theorem C01_sflow_render_total : forall old data, sf_render_panics (fst (fst (sf_decode_into old data))) = false.
Proof. reflexivity. Qed.
Print Assumptions C01_sflow_render_total.

(* non-vacuity: a datagram with one compact flow sample holding an extended gateway record (one AS path of two
   members, one community) decodes to exactly these fields; the same with the community count raised to 3 is an
   error, not a panic; a sample count of 2^32-1 ends with the truncated flag *)
Definition sf_gw : list Z :=
  [0;0;0;5; 0;0;0;1; 10;0;0;1; 0;0;0;0; 0;0;0;7; 0;0;1;0; 0;0;0;1] ++
  [0;0;0;1; 0;0;0;88; 0;0;0;9; 0;0;0;3; 0;0;0;100; 0;0;0;200; 0;0;0;0; 0;0;0;1; 64;0;0;2; 0;0;0;1] ++
  [0;0;3;235; 0;0;0;48; 0;0;0;1; 192;168;0;1; 0;0;0;10; 0;0;0;20; 0;0;0;30; 0;0;0;1;
   0;0;0;2; 0;0;0;2; 0;0;0;40; 0;0;0;50; 0;0;0;1; 0;0;0;60; 0;0;0;70].
Example Lsflow_nonvacuous :
  sf_decode_into sf_fresh sf_gw =
    (mkSf 5 [10;0;0;1] 0 7 256 1
       [SL [SU 0; SU 1; SU 88; SU 9; SU 0; SU 3; SU 100; SU 200; SU 0; SU 0; SU 1; SU 0; SU 1073741826; SU 1;
            SL [SL [SU 1003; SU 0; SU 1003; SU 48; SB [192;168;0;1]; SU 10; SU 20; SU 30; SU 1;
                    SL [SL [SU 2; SU 2; SL [SU 40; SU 50]]]; SL [SU 60]; SU 70]]]] [],
     Ok tt, false) /\
  snd (fst (sf_decode_into sf_fresh (firstn 119 sf_gw ++ [3] ++ skipn 120 sf_gw))) = Err 36 /\
  (let r := sf_decode_into sf_fresh (firstn 24 sf_gw ++ [255;255;255;255] ++ skipn 28 sf_gw) in
   snd (fst r) = Err 4 /\ snd r = true /\ length (sf_fs (fst (fst r))) = 1%nat) /\
  (length sf_gw = 128%nat /\ Wl (sf_fs (fst (fst (sf_decode_into sf_fresh sf_gw)))) = 40%nat).
Proof. split; [vm_compute; reflexivity|]. split; [vm_compute; reflexivity|]. split; vm_compute; repeat split. Qed.
