(* Lip6 — IPv6 fixed header incl. jumbograms, hop-by-hop and destination-options extension headers
   with their TLV options (layers/ip6.go): the layer's contribution to C19, C05, C06, C07, C01.
   Property theorems only; each is closed by lemmas of Proofs/Lip6Proofs.v (and Lip6Rt.v).
   The model is of the REPAIRED code (fix: commits listed in known_findings.json); definitions
   with an `orig` flag keep the unchanged behaviour for the …_refuted witnesses.
   ext = IPv6HopByHop / IPv6Destination; ip6 = IPv6. *)
From GP Require Import Base N6Lib Lip6Model Lip6Proofs Lip6Rt Lip6Rt2 Lip6Rt3 Lip6Rt4 Lip6Rt5 Lip6Fix Lip6Idem Lip6Layers Lip6xModel Lip6xProofs.
Open Scope Z_scope.

(* ------------------------------------------------------------------ C19 *)
(* DecodeFromBytes of IPv6, IPv6HopByHop and IPv6Destination returns or errors for every byte
   string and every prior state; no index or slice is out of range and the option loop ends within
   its fuel len(data)+1 (a Panic N6_FUEL outcome counts as a panic), i.e. it cannot hang. *)
Theorem C19_ip6_no_panic : forall data, bytes_ok data ->
  (forall old, is_panic (snd (fst (ip6_decode_into old data))) = false) /\
  (forall old, is_panic (snd (fst (ext_decode_into old data))) = false).
Proof.
  intros data Hb. split; intros; [apply ip6_decode_no_panic, Hb|apply ext_decode_no_panic, Hb].
Qed.
Print Assumptions C19_ip6_no_panic.

Example C19_ip6_nonvacuous :
  snd (fst (ext_decode_into ext_fresh [59; 0; 5; 9; 0; 0; 0; 0; 1; 2; 3; 4; 5])) = Err 3 /\
  snd (fst (ext_decode_into ext_fresh [59; 0; 5; 2; 7; 7; 0; 0])) = Ok tt.
Proof. split; reflexivity. Qed.

(* ------------------------------------------------------------------ C05 *)
(* Decoding into a reused object = decoding into a fresh one: same outcome and truncated flag; on
   success (for IPv6: as soon as the 40-octet check passes) the same layer value in every field,
   including the attached hop-by-hop layer. *)
Theorem C05_ip6_fresh :
  (forall old data,
     let '(l1, r1, t1) := ip6_decode_into old data in
     let '(l2, r2, t2) := ip6_decode_into ip6_fresh data in
     r1 = r2 /\ t1 = t2 /\ (r1 = Ok tt \/ 40 <= n6_len data -> l1 = l2)) /\
  (forall old data, bytes_ok data ->
     let '(l1, r1, t1) := ext_decode_into old data in
     let '(l2, r2, t2) := ext_decode_into ext_fresh data in
     r1 = r2 /\ t1 = t2 /\ (r1 = Ok tt -> l1 = l2)).
Proof.
  split; [|exact ext_decode_fresh].
  intros old data. pose proof (ip6_decode_fresh old data) as H. pose proof (ip6_decode_ok_len old data) as HL.
  destruct (ip6_decode_into old data) as [[l1 r1] t1]. destruct (ip6_decode_into ip6_fresh data) as [[l2 r2] t2].
  destruct H as (H1 & H2 & H3). repeat split; try assumption. intros [Hok|Hlen]; apply H3; [apply HL, Hok|exact Hlen].
Qed.
Print Assumptions C05_ip6_fresh.

Example C05_ip6_nonvacuous :
  snd (fst (ext_decode_into (mkExt 6 0 8 [mkTlv 5 2 4 [1; 2] 0 0] [] []) [59; 0; 1; 4; 0; 0; 0; 0])) = Ok tt.
Proof. reflexivity. Qed.

(* the unchanged IPv6Destination.DecodeFromBytes appended to the options of the previous packet *)
Theorem C05_ip6_dst_fresh_orig_refuted : exists old data,
  old = fst (fst (ext_decode_into_dst_orig ext_fresh [59; 0; 5; 4; 0; 0; 0; 0])) /\
  snd (fst (ext_decode_into_dst_orig old data)) = Ok tt /\
  fst (fst (ext_decode_into_dst_orig old data)) <> fst (fst (ext_decode_into_dst_orig ext_fresh data)).
Proof.
  eexists. exists [59; 0; 7; 4; 0; 0; 0; 0]. split; [reflexivity|]. split; [reflexivity|]. vm_compute. discriminate.
Qed.

(* ------------------------------------------------------------------ C07 *)
(* SerializeTo never panics: for every layer value of the Go types (alignment numbers and option
   lengths unsigned, option data bytes) — so for everything decoding can leave behind and every
   value built from public fields — every payload of bytes and every option set.  This covers the
   write loop over the region sized by the dry run and the jumbo-length patching loop. *)
Theorem C07_ip6_no_panic :
  (forall l payload fx cs junk, ip6_wf l -> bytes_ok payload ->
     is_panic (fst (ip6_serialize l payload fx cs junk)) = false) /\
  (forall l payload fx cs junk, ext_wf l -> is_panic (fst (ext_serialize l payload fx cs junk)) = false).
Proof.
  split.
  - intros. rewrite ip6_serialize_closed by assumption. apply ip6_wire_no_panic; assumption.
  - intros l payload fx cs junk Hw. unfold ext_serialize.
    pose proof (ext_serialize_gen_closed false l payload fx junk Hw) as HC.
    destruct (ext_serialize_gen false l payload fx junk) as [[r l'] j]. cbn [fst].
    pose proof (ext_wire_no_panic false l payload fx) as P. rewrite <- HC in P. exact P.
Qed.
Print Assumptions C07_ip6_no_panic.

(* decoding yields such values, whatever the outcome *)
Theorem C07_ip6_decoded_wf : forall data, bytes_ok data ->
  (forall old, ip6_wf old -> ip6_wf (fst (fst (ip6_decode_into old data)))) /\
  (forall old, ext_wf old -> ext_wf (fst (fst (ext_decode_into old data)))).
Proof.
  intros data Hb. split; intros; [apply ip6_decode_wf|apply ext_decode_wf]; assumption.
Qed.

(* every byte of every region obtained from PrependBytes is written: bytes and layer afterwards
   do not depend on the prior content of the buffer memory *)
Theorem C07_ip6_junk_free :
  (forall l payload fx cs j1 j2, ip6_wf l ->
     ip6_serialize l payload fx cs j1 = ip6_serialize l payload fx cs j2) /\
  (forall l payload fx cs j1 j2, ext_wf l ->
     ext_serialize l payload fx cs j1 = ext_serialize l payload fx cs j2).
Proof.
  split.
  - intros. rewrite !ip6_serialize_closed by assumption. reflexivity.
  - intros l payload fx cs j1 j2 Hw. unfold ext_serialize.
    pose proof (ext_serialize_gen_closed false l payload fx j1 Hw) as H1.
    pose proof (ext_serialize_gen_closed false l payload fx j2 Hw) as H2.
    destruct (ext_serialize_gen false l payload fx j1) as [[r1 l1] ?].
    destruct (ext_serialize_gen false l payload fx j2) as [[r2 l2] ?]. congruence.
Qed.
Print Assumptions C07_ip6_junk_free.

(* a second SerializeTo of the layer exactly as the first call left it (FixLengths has rewritten the
   length, the next header, the options' lengths, the jumbo option) returns the same bytes or error
   and leaves the same layer: for every layer value of the Go types, every payload (jumbograms
   included), every option set, whatever the two buffers held *)
Theorem C07_ip6_idempotent :
  (forall l payload fx cs j1 j2, ip6_wf l ->
     ip6_serialize (snd (ip6_serialize l payload fx cs j1)) payload fx cs j2 = ip6_serialize l payload fx cs j1) /\
  (forall l payload fx cs j1 j2, ext_wf l ->
     ext_serialize (snd (ext_serialize l payload fx cs j1)) payload fx cs j2 = ext_serialize l payload fx cs j1).
Proof. split; [exact ip6_serialize_idem|exact ext_serialize_idem]. Qed.
Print Assumptions C07_ip6_idempotent.

Example C07_ip6_nonvacuous :
  ext_wf (mkExt 59 0 0 [mkTlv 5 9 0 [1] 0 0; mkTlv 7 0 0 [1; 2; 3; 4] 8 2] [] []) /\
  fst (ext_serialize (mkExt 59 0 0 [mkTlv 5 9 0 [1] 0 0; mkTlv 7 0 0 [1; 2; 3; 4] 8 2] [] []) [9] true true (repeat 170 40))
  = Ok [59; 1; 5; 1; 1; 1; 3; 0; 0; 0; 7; 4; 1; 2; 3; 4; 9].
Proof. split; [apply ext_okb_wf; reflexivity|reflexivity]. Qed.

(* the unchanged final pad (length % 8): a header whose options total 3 octets cannot be serialized *)
Theorem C07_ip6_pad_orig_refuted : exists l,
  ext_wf l /\ fst (ext_serialize_orig l [] true true []) = Err 4 /\ is_panic (fst (ext_serialize l [] true true [])) = false /\
  exists bytes, fst (ext_serialize l [] true true []) = Ok bytes.
Proof.
  exists (mkExt 59 0 0 [mkTlv 5 1 3 [0] 0 0] [] []). split; [apply ext_okb_wf; reflexivity|].
  split; [reflexivity|]. split; [reflexivity|]. eexists. reflexivity.
Qed.

(* ------------------------------------------------------------------ C06 *)
(* Extension headers.  (a) For every layer value of the Go types whose options fit the wire format
   (data of at most 255 octets, alignment Y < X, at most 2048 octets in all), serializing with
   FixLengths over any payload and decoding succeeds without truncation flag and returns the same
   next header, the header length the serializer stored, the same payload, and the same options in
   the same order up to padding options (Pad1/PadN inserted or carried).
   (b) Serializing a layer obtained by decoding reproduces exactly the bytes it was decoded from
   (so re-serializing the result of (a) gives the same bytes: the fixpoint clause). *)
Theorem C06_ip6_ext_roundtrip : forall l payload junk, ext_okb l = true -> bytes_ok payload ->
  exists bytes l2,
    ext_roundtrip l payload junk = (Ok bytes, (l2, Ok tt, false)) /\
    e_next l2 = e_next l /\ e_hlen l2 = e_hlen (snd (ext_serialize l payload true true junk)) /\
    e_payload l2 = payload /\ tlv_nonpad (e_opts l2) = tlv_nonpad (e_opts l) /\
    forall payload' junk', fst (ext_serialize l2 payload' true true junk') = Ok (e_contents l2 ++ payload').
Proof. exact ext_roundtrip_ok. Qed.
Print Assumptions C06_ip6_ext_roundtrip.

Theorem C06_ip6_ext_decoded_fixpoint : forall old data l tr payload fx junk, bytes_ok data ->
  ext_decode_into old data = (l, Ok tt, tr) ->
  fst (ext_serialize l payload fx true junk) = Ok (e_contents l ++ payload).
Proof. exact ext_serialize_decoded. Qed.
Print Assumptions C06_ip6_ext_decoded_fixpoint.

Example C06_ip6_nonvacuous :
  ext_okb (mkExt 59 0 0 [mkTlv 5 9 0 [1] 0 0; mkTlv 7 0 0 [1; 2; 3; 4] 8 2] [] []) = true.
Proof. reflexivity. Qed.

(* IPv6: the full statement (every in-range layer value with or without hop-by-hop header, every
   payload incl. jumbograms) is kept as a Definition and is NOT proved as such.  Proved below
   (…_partial): the fixed header alone (payload of 1..65535 octets) and the hop-by-hop path without
   jumbogram, and the jumbogram path when FixLengths creates the hop-by-hop header.  Left to the
   rt/nrt correspondence cases (tested only): a jumbogram whose layer already has a hop-by-hop header.  Three clauses of the full statement are false for the repaired code and are recorded
   as known findings (Length 0 for an empty payload is rejected; a jumbogram's Payload includes
   the hop-by-hop header; hop-by-hop header + payload of 65528..65535 octets is not serializable). *)
Definition C06_ip6_roundtrip_statement : Prop :=
  forall l payload junk, ip6_okb l = true -> bytes_ok payload ->
  exists bytes l2,
    ip6_roundtrip l payload junk = (Ok bytes, (l2, Ok tt, false)) /\
    p_payload l2 = payload /\ ip6_fields l2 = ip6_fields (snd (ip6_serialize l payload true true junk)).

Theorem C06_ip6_roundtrip_partial : forall l payload junk, ip6_okb l = true -> p_hbh l = None ->
  1 <= n6_len payload <= 65535 ->
  exists bytes l2,
    ip6_roundtrip l payload junk = (Ok bytes, (l2, Ok tt, false)) /\
    p_payload l2 = payload /\ p_contents l2 = firstn 40 bytes /\
    ip6_fields l2 = ip6_fields (snd (ip6_serialize l payload true true junk)) /\
    p_length l2 = n6_len payload.
Proof. exact ip6_roundtrip_nohbh. Qed.
Print Assumptions C06_ip6_roundtrip_partial.

(* ... and with a hop-by-hop header (no jumbogram): every in-range layer whose hop-by-hop options
   contain no jumbo option, every payload such that header + payload fit 65535 octets: decoding the
   written bytes succeeds without truncation flag, Length is header + payload, the payload comes back
   (on the IPv6 layer and on the attached hop-by-hop layer) and all fields agree with the layer
   as FixLengths left it, the hop-by-hop options up to padding *)
Theorem C06_ip6_roundtrip_hbh_partial : forall l h payload junk, ip6_okb l = true -> p_hbh l = Some h ->
  no_jumbo (e_opts h) -> bytes_ok payload -> ext_size h + n6_len payload <= 65535 ->
  exists bytes l2 h2,
    ip6_roundtrip l payload junk = (Ok bytes, (l2, Ok tt, false)) /\
    p_payload l2 = payload /\ p_hbh l2 = Some h2 /\ e_payload h2 = payload /\
    p_length l2 = ext_size h + n6_len payload /\
    ip6_fields l2 = ip6_fields (snd (ip6_serialize l payload true true junk)).
Proof. exact ip6_roundtrip_hbh. Qed.
Print Assumptions C06_ip6_roundtrip_hbh_partial.

Example C06_ip6_hbh_nonvacuous :
  ip6_okb (mkIp6 6 0 0 0 0 64 (repeat 254 16) (repeat 1 16)
            (Some (mkExt 17 0 0 [mkTlv 5 0 0 [1; 2] 0 0; mkTlv 7 0 0 [1; 2; 3; 4] 4 2] [] [])) [] []) = true /\
  ext_size (mkExt 17 0 0 [mkTlv 5 0 0 [1; 2] 0 0; mkTlv 7 0 0 [1; 2; 3; 4] 4 2] [] []) = 16.
Proof. split; reflexivity. Qed.

(* ... and the jumbogram path for a layer without hop-by-hop header (FixLengths creates the header
   with the jumbo option): payload of 65536 .. 2^32-9 octets.  Decoding succeeds without truncation
   flag, Length is 0, the next header moved into the created hop-by-hop header, whose only option is
   the jumbo option carrying payload + 8, and all fields agree with the layer as FixLengths left it.
   The payload comes back on the attached hop-by-hop layer; IPv6.Payload itself is the hop-by-hop
   header followed by the payload — the known finding ip6-jumbo-payload-includes-hbh, stated here
   exactly.  (A jumbogram whose layer already carries a hop-by-hop header is tested only.) *)
Theorem C06_ip6_roundtrip_jumbo_partial : forall l payload junk, ip6_okb l = true -> p_hbh l = None -> bytes_ok payload ->
  65535 < n6_len payload < 4294967296 - 8 ->
  exists bytes l2 h2 jl,
    ip6_roundtrip l payload junk = (Ok bytes, (l2, Ok tt, false)) /\
    jl = be_bytes 4 (n6_len payload + 8) /\
    p_payload l2 = [p_next l; 0; JUMBO; 4] ++ jl ++ payload /\
    p_hbh l2 = Some h2 /\ e_payload h2 = payload /\ e_next h2 = p_next l /\
    tlv_nonpad (e_opts h2) = [(JUMBO, jl)] /\
    p_length l2 = 0 /\ p_next l2 = 0 /\
    ip6_fields l2 = ip6_fields (snd (ip6_serialize l payload true true junk)).
Proof. exact ip6_roundtrip_jumbo. Qed.
Print Assumptions C06_ip6_roundtrip_jumbo_partial.

Example C06_ip6_partial_nonvacuous :
  ip6_okb (mkIp6 6 184 703710 0 17 64 (repeat 254 16) (repeat 1 16) None [] []) = true.
Proof. reflexivity. Qed.

Theorem C06_ip6_roundtrip_zero_length_refuted : exists l, ip6_okb l = true /\
  snd (fst (snd (ip6_roundtrip l [] []))) = Err 7.
Proof.
  exists (mkIp6 6 0 0 0 59 64 (repeat 1 16) (repeat 2 16) None [] []). split; reflexivity.
Qed.

(* the unchanged decoder flagged every packet with a hop-by-hop header as truncated *)
Theorem C06_ip6_hbh_truncated_orig_refuted : exists data,
  ip6_decode_into_orig ip6_fresh data = (fst (fst (ip6_decode_into_orig ip6_fresh data)), Ok tt, true) /\
  snd (ip6_decode_into ip6_fresh data) = false /\ snd (fst (ip6_decode_into ip6_fresh data)) = Ok tt /\
  n6_len data = 40 + p_length (fst (fst (ip6_decode_into ip6_fresh data))).
Proof.
  exists ([96; 0; 0; 0; 0; 13; 0; 64] ++ repeat 1 16 ++ repeat 2 16 ++ [59; 0; 5; 4; 0; 0; 0; 0; 1; 2; 3; 4; 5]).
  vm_compute. repeat split.
Qed.

(* ------------------------------------------------------------------ C01 *)
(* The generic renderers have no partial operation on these layers (after the LayerGoString repair);
   NetworkFlow() cannot fail on a layer that decoding left behind: the addresses are empty or 16
   octets. *)
Theorem C01_ip6_render_total :
  (forall l, ip6_render_panics l = false) /\ (forall l, ext_render_panics l = false) /\
  (forall old data, ip6_flow_panics old = false -> ip6_flow_panics (fst (fst (ip6_decode_into old data))) = false).
Proof. split; [reflexivity|]. split; [reflexivity|exact ip6_decode_flow]. Qed.
Print Assumptions C01_ip6_render_total.

(* the unchanged LayerGoString dereferenced the nil HopByHop pointer of every ordinary packet *)
Theorem C01_ip6_gostring_orig_refuted : exists data,
  snd (fst (ip6_decode_into ip6_fresh data)) = Ok tt /\
  ip6_gostring_panics_orig (fst (fst (ip6_decode_into ip6_fresh data))) = true.
Proof.
  exists ([96; 0; 0; 0; 0; 5; 59; 64] ++ repeat 1 16 ++ repeat 2 16 ++ [1; 2; 3; 4; 5]). split; reflexivity.
Qed.

Example C01_ip6_nonvacuous : ip6_flow_panics ip6_fresh = false /\
  ip6_flow_panics (mkIp6 6 0 0 0 59 64 (repeat 1 17) [] None [] []) = true.
Proof. split; reflexivity. Qed.

(* ================================================================== IPv6Fragment, IPv6Routing *)
(* Both are produced by decode functions into a fresh layer object (no DecodeFromBytes): C05 does
   not apply.  Their renderers are the reflective ones (total). *)

(* C19: the decode functions never panic *)
Theorem C19_ip6x_no_panic :
  (forall data, is_panic (fst (frag_decode data)) = false) /\
  (forall data, bytes_ok data -> is_panic (fst (rtg_decode data)) = false).
Proof. split; [exact frag_decode_no_panic|exact rtg_decode_no_panic]. Qed.
Print Assumptions C19_ip6x_no_panic.

(* C07: SerializeTo never panics and writes every octet it requested, for every layer value *)
Theorem C07_ip6x_total_junk_free :
  (forall f payload fx cs j1 j2, is_panic (fst (frag_serialize f payload fx cs j1)) = false /\
     frag_serialize f payload fx cs j1 = frag_serialize f payload fx cs j2) /\
  (forall r payload fx cs j1 j2, is_panic (fst (rtg_serialize r payload fx cs j1)) = false /\
     rtg_serialize r payload fx cs j1 = rtg_serialize r payload fx cs j2).
Proof. split; intros; rewrite ?frag_serialize_closed, ?rtg_serialize_closed; split; reflexivity. Qed.
Print Assumptions C07_ip6x_total_junk_free.

(* the unchanged IPv6Routing.SerializeTo left the reserved octets unwritten when Reserved is nil *)
Theorem C07_ip6x_rtg_junk_orig_refuted : exists r j1 j2, rtg_serialize_orig r [] j1 <> rtg_serialize_orig r [] j2.
Proof. exists (mkRtg 17 0 0 0 1 [] [] [] []), [], (repeat 170 8). vm_compute. discriminate. Qed.

(* C06: every in-range value comes back from its serialized form, with the payload; the layer is not
   modified by SerializeTo, so re-serializing the decoded value gives the same bytes *)
Theorem C06_ip6x_roundtrip :
  (forall f payload junk, frag_okb f = true ->
     exists bytes, frag_serialize f payload true true junk = (Ok bytes, f) /\
       frag_decode bytes = (Ok (mkFrag (f_next f) (f_res1 f) (f_offset f) (f_res2 f) (f_more f) (f_ident f) (firstn 8 bytes) payload), false) /\
       forall junk', fst (frag_serialize (mkFrag (f_next f) (f_res1 f) (f_offset f) (f_res2 f) (f_more f) (f_ident f) (firstn 8 bytes) payload)
                            payload true true junk') = Ok bytes) /\
  (forall r payload junk, rtg_okb r = true ->
     exists bytes r2, rtg_serialize r payload true true junk = (Ok bytes, r) /\
       rtg_decode bytes = (Ok r2, false) /\
       r_next r2 = r_next r /\ r_type r2 = r_type r /\ r_segleft r2 = r_segleft r /\ r_reserved r2 = r_reserved r /\
       r_ips r2 = r_ips r /\ r_payload r2 = payload /\
       forall junk', fst (rtg_serialize r2 payload true true junk') = Ok bytes).
Proof.
  split.
  - intros f payload junk Hok. rewrite frag_serialize_closed. eexists. split; [reflexivity|].
    rewrite (frag_roundtrip f payload Hok).
    assert (H8 : firstn 8 (frag_bytes f ++ payload) = frag_bytes f).
    { rewrite <- (frag_bytes_len f), firstn_app, Nat.sub_diag, firstn_all. cbn [firstn]. apply app_nil_r. }
    rewrite H8. split; [reflexivity|]. intros junk'. rewrite frag_serialize_closed. reflexivity.
  - intros r payload junk Hok. rewrite rtg_serialize_closed. eexists. eexists. split; [reflexivity|].
    rewrite (rtg_roundtrip r payload Hok). split; [reflexivity|]. cbn [r_next r_type r_segleft r_reserved r_ips r_payload].
    assert (Ht : r_type r = 0).
    { unfold rtg_okb in Hok. repeat (apply andb_prop in Hok as [Hok ?]). lia. }
    repeat split; try reflexivity; try (symmetry; exact Ht).
    intros junk'. rewrite rtg_serialize_closed. cbn [fst]. f_equal. f_equal. unfold rtg_segs. cbn [r_next r_type r_segleft r_reserved r_ips]. rewrite Ht. reflexivity.
Qed.
Print Assumptions C06_ip6x_roundtrip.

Example C06_ip6x_nonvacuous :
  frag_okb (mkFrag 6 0 185 0 true 305419896 [] []) = true /\
  rtg_okb (mkRtg 6 0 0 0 1 [0; 0; 0; 0] [repeat 1 16; repeat 2 16] [] []) = true /\
  fst (rtg_serialize (mkRtg 6 0 0 0 1 [] [[10; 0; 0; 1]; [1; 2; 3]] [] []) [9] true true (repeat 170 64))
  = Ok ([6; 4; 0; 1; 0; 0; 0; 0] ++ [0; 0; 0; 0; 0; 0; 0; 0; 0; 0; 255; 255; 10; 0; 0; 1] ++ repeat 0 16 ++ [9]).
Proof. repeat split. Qed.

(* ================================================================== the serialize buffer's layer list *)
(* IPv6.SerializeTo consults b.Layers() (ip6.go:164-172); ip6_serialize_in takes that list as an
   explicit argument, ip6_serialize is the case of an empty list.  What is written in both cases:
   (a) no IPv6HopByHop (46) in the list: the list plays no role — every theorem above applies;
   (b) an IPv6HopByHop layer is in the list: the HopByHop field is NOT serialized, NextHeader is left as
       it is and no jumbo length is patched in — only the fixed header goes over what the buffer holds
       (finish; with FixLengths a jumbogram still gets the jumbo option added to the field);
   (c) for a packet that fits 65535 octets the two ways of writing IPv6 + hop-by-hop header — the header
       as a layer of its own, then IPv6 with that layer in the list; or the header as the field only —
       give the same bytes and leave the same layer;
   and in every case the result does not depend on the junk.
   Consequence used by the correspondence run: the list must be the one of the CURRENT stack
   (SerializeLayers clears it); a stale 46 from an earlier packet turns case (a) into case (b) and the
   packet is written without its hop-by-hop header. *)
Theorem C06_ip6_layer_list :
  (forall layers l payload fx cs junk, hbh_done layers = false ->
     ip6_serialize_in layers l payload fx cs junk = ip6_serialize l payload fx cs junk) /\
  (forall layers l payload fx cs junk, hbh_done layers = true ->
     ip6_serialize_in layers l payload fx cs junk =
       match ip6_step1 l payload fx with
       | Ok l1 => finish (65535 <? n6_len payload) fx payload l1
       | Err e => (Err e, l)
       | Panic s => (Panic s, l)
       end) /\
  (forall layers l h payload fx cs j1 j2 j3, ip6_wf l -> p_hbh l = Some h -> p_next l = 0 ->
     (65535 <? n6_len payload) = false -> hbh_done layers = true ->
     match ext_serialize h payload fx cs j1 with
     | (Ok eb, h') =>
         (65535 <? n6_len eb) = false ->
         ip6_serialize_in layers (set_len_next l (p_length l) (p_next l) (Some h')) eb fx cs j2 = ip6_serialize l payload fx cs j3
     | (Err e, h') => fst (ip6_serialize l payload fx cs j3) = Err e
     | (Panic s, _) => False
     end).
Proof.
  split; [exact ip6_serialize_in_not_done|]. split; [|exact ip6_two_ways].
  intros layers l payload fx cs junk H. rewrite (ip6_serialize_in_done layers l payload fx cs junk H).
  destruct (ip6_step1 l payload fx) as [l1|e|s]; try reflexivity. destruct (p_hbh l1); reflexivity.
Qed.
Print Assumptions C06_ip6_layer_list.

Theorem C07_ip6_layer_list_junk_free : forall layers l payload fx cs j1 j2, ip6_wf l ->
  ip6_serialize_in layers l payload fx cs j1 = ip6_serialize_in layers l payload fx cs j2.
Proof. exact ip6_serialize_in_junk_free. Qed.
Print Assumptions C07_ip6_layer_list_junk_free.

(* a stale IPv6HopByHop entry: the packet comes out without its hop-by-hop header and its own decoder
   rejects it (the witness of the seeded change to serializeBuffer.Clear) *)
Example C06_ip6_stale_layer_list_breaks :
  let l := mkIp6 6 0 0 0 0 64 (repeat 1 16) (repeat 2 16) (Some (mkExt 59 0 0 [mkTlv 5 2 4 [0; 0] 0 0] [] [])) [] [] in
  (match ip6_serialize_in [] l [1; 2; 3] true true [] with
   | (Ok b, _) => n6_len b = 51 /\ snd (fst (ip6_decode_into ip6_fresh b)) = Ok tt | _ => False end) /\
  (match ip6_serialize_in [46] l [1; 2; 3] true true [] with
   | (Ok b, _) => n6_len b = 43 /\ snd (fst (ip6_decode_into ip6_fresh b)) <> Ok tt | _ => False end).
Proof. vm_compute. repeat split; discriminate. Qed.

(* ================================================================== C06 for IPv6, every case *)
(* The missing case: a jumbogram whose layer already carries a hop-by-hop header.  FixLengths adds (or
   resets) the jumbo option in that header; the guard is that the header still fits the wire format
   with it (ext_okb of the header after addIPv6JumboOption: at most 2048 octets).  The bytes decode
   without error or truncation flag, Length is 0, the payload comes back on the attached hop-by-hop
   layer, IPv6.Payload is everything after the fixed header (known finding
   ip6-jumbo-payload-includes-hbh), and all fields — the options up to padding, the jumbo option with
   the length written — agree with the layer as FixLengths left it. *)
Theorem C06_ip6_roundtrip_jumbo_hbh : forall l h payload junk, ip6_okb l = true -> p_hbh l = Some h ->
  ext_okb (aj_ext h) = true -> bytes_ok payload -> 65535 < n6_len payload < 4294967296 - 4096 ->
  exists bytes l2 h2,
    ip6_roundtrip l payload junk = (Ok bytes, (l2, Ok tt, false)) /\
    p_hbh l2 = Some h2 /\ e_payload h2 = payload /\ p_payload l2 = skipn 40 bytes /\
    p_length l2 = 0 /\
    ip6_fields l2 = ip6_fields (snd (ip6_serialize l payload true true junk)).
Proof. exact ip6_roundtrip_jumbo_hbh. Qed.
Print Assumptions C06_ip6_roundtrip_jumbo_hbh.

(* The exact guard under which C06_ip6_roundtrip_statement holds of the code as it stands.  Outside
   it the statement is false, by the three recorded findings (witnesses below and above):
     no hop-by-hop header, empty payload           -> Length 0 is rejected   (ip6-zero-length-rejected)
     hop-by-hop header + payload of 65536-hdr..65535 -> not serializable       (ip6-hbh-pushes-over-65535)
     jumbogram                                     -> IPv6.Payload = header ++ payload, the payload itself
                                                      is on the hop-by-hop layer (ip6-jumbo-payload-includes-hbh)
   and a hop-by-hop header carrying a jumbo option in a packet that is no jumbogram is rejected by the
   decoder (by design: RFC 2675). *)
Definition ip6_rt_guard (l : ip6) (payload : list Z) : Prop :=
  match p_hbh l with
  | None => 1 <= n6_len payload < 4294967296 - 8
  | Some h =>
      if 65535 <? n6_len payload
      then ext_okb (aj_ext h) = true /\ n6_len payload < 4294967296 - 4096
      else no_jumbo (e_opts h) /\ ext_size h + n6_len payload <= 65535
  end.

Theorem C06_ip6_roundtrip_guarded : forall l payload junk, ip6_okb l = true -> bytes_ok payload -> ip6_rt_guard l payload ->
  exists bytes l2,
    ip6_roundtrip l payload junk = (Ok bytes, (l2, Ok tt, false)) /\
    ip6_fields l2 = ip6_fields (snd (ip6_serialize l payload true true junk)) /\
    (n6_len payload <= 65535 -> p_payload l2 = payload) /\
    (65535 < n6_len payload -> exists h2, p_hbh l2 = Some h2 /\ e_payload h2 = payload).
Proof.
  intros l payload junk Hok Hp Hg. unfold ip6_rt_guard in Hg. destruct (p_hbh l) as [h|] eqn:Hh.
  - destruct (65535 <? n6_len payload) eqn:EJ.
    + destruct Hg as [Hj Hl]. destruct (ip6_roundtrip_jumbo_hbh l h payload junk Hok Hh Hj Hp ltac:(lia)) as (b & l2 & h2 & HR & H1 & H2 & _ & _ & HF).
      exists b, l2. split; [exact HR|]. split; [exact HF|]. split; [intros HH; exfalso; lia|intros _; exists h2; split; assumption].
    + destruct Hg as [Hnj Hfit]. destruct (ip6_roundtrip_hbh l h payload junk Hok Hh Hnj Hp Hfit) as (b & l2 & h2 & HR & H1 & _ & _ & _ & HF).
      exists b, l2. split; [exact HR|]. split; [exact HF|]. split; [intros _; exact H1|intros HH; exfalso; lia].
  - destruct (65535 <? n6_len payload) eqn:EJ.
    + destruct (ip6_roundtrip_jumbo l payload junk Hok Hh Hp ltac:(lia)) as (b & l2 & h2 & jl & HR & _ & _ & H1 & H2 & _ & _ & _ & _ & HF).
      exists b, l2. split; [exact HR|]. split; [exact HF|]. split; [intros HH; exfalso; lia|intros _; exists h2; split; assumption].
    + destruct (ip6_roundtrip_nohbh l payload junk Hok Hh ltac:(lia)) as (b & l2 & HR & H1 & _ & HF & _).
      exists b, l2. split; [exact HR|]. split; [exact HF|]. split; [intros _; exact H1|intros HH; exfalso; lia].
Qed.
Print Assumptions C06_ip6_roundtrip_guarded.

Example C06_ip6_guard_nonvacuous :
  ext_okb (aj_ext (mkExt 17 0 0 [mkTlv 5 0 0 [1; 2] 0 0] [] [])) = true /\
  ip6_rt_guard (mkIp6 6 0 0 0 0 64 (repeat 1 16) (repeat 2 16) (Some (mkExt 17 0 0 [mkTlv 5 0 0 [1; 2] 0 0] [] [])) [] []) [1; 2; 3].
Proof. split; [reflexivity|]. cbn. split; [intros o [<-|[]]; discriminate|vm_compute; discriminate]. Qed.

(* the guard is tight: hop-by-hop header + payload just over 65535 octets is not serializable *)
Theorem C06_ip6_hbh_over_65535_refuted : exists l payload, ip6_okb l = true /\ n6_len payload <= 65535 /\
  fst (ip6_roundtrip l payload []) = Err 17.
Proof.
  exists (mkIp6 6 0 0 0 0 64 (repeat 1 16) (repeat 2 16) (Some (mkExt 59 0 0 [mkTlv 5 0 0 [1; 2] 0 0] [] [])) [] []), (repeat 0 (Z.to_nat 65530)).
  vm_compute. repeat split. discriminate.
Qed.

(* the fixpoint clause of C06 for IPv6 (no jumbogram): serializing the DECODED layer again, over the
   same payload, gives the same bytes — without hop-by-hop header, and with one (the decoded header
   carries the padding as options and writes back exactly the bytes it was decoded from) *)
Theorem C06_ip6_fixpoint_partial :
  (forall l payload junk junk', ip6_okb l = true -> p_hbh l = None -> 1 <= n6_len payload <= 65535 ->
     match ip6_roundtrip l payload junk with
     | (Ok bytes, (l2, _, _)) => fst (ip6_serialize l2 payload true true junk') = Ok bytes
     | _ => False
     end) /\
  (forall l h payload junk junk', ip6_okb l = true -> p_hbh l = Some h -> no_jumbo (e_opts h) ->
     bytes_ok payload -> ext_size h + n6_len payload <= 65535 ->
     match ip6_roundtrip l payload junk with
     | (Ok bytes, (l2, _, _)) => fst (ip6_serialize l2 payload true true junk') = Ok bytes
     | _ => False
     end).
Proof. split; [exact ip6_fixpoint_nohbh|exact ip6_fixpoint_hbh]. Qed.
Print Assumptions C06_ip6_fixpoint_partial.

(* ... and for a jumbogram whose hop-by-hop header was created by FixLengths: the decoded layer
   (hop-by-hop header with the jumbo option carrying the length) serialized again over the payload
   gives the same bytes.  Still tested only (harness clause C06:fixpoint): the fixpoint for a
   jumbogram whose layer already carried a hop-by-hop header. *)
Theorem C06_ip6_fixpoint_jumbo_partial : forall l payload junk junk', ip6_okb l = true -> p_hbh l = None ->
  bytes_ok payload -> 65535 < n6_len payload < 4294967296 - 8 ->
  match ip6_roundtrip l payload junk with
  | (Ok bytes, (l2, _, _)) => fst (ip6_serialize l2 payload true true junk') = Ok bytes
  | _ => False
  end.
Proof. exact ip6_fixpoint_jumbo. Qed.
Print Assumptions C06_ip6_fixpoint_jumbo_partial.
