(* placeholder, replaced below *)
From GP Require Import Base N6Lib Lip6Model.
Example Lip6_model_runs : ipproto_layertype 58 = 57.
Proof. reflexivity. Qed.
