(* Lpflog — OpenBSD pf log header decoder (layers/pflog.go): contributions to C19, C05, C01.  No SerializeTo (C06/C07 n/a). *)
From GP Require Import Base ListX Codec MiscLib LpflogModel.
From Coq Require Import Lia ZifyBool ZifyNat.
Open Scope Z_scope.
Ltac Zify.zify_post_hook ::= Z.div_mod_to_equations.

Ltac xstep :=
  match goal with
  | |- context [ml_bind ?o _ _ _] => destruct o eqn:?; cbn [ml_bind]
  | |- context [if ?c then _ else _] => destruct c eqn:?
  end.

Theorem C19_pflog_no_panic : forall old data, bytes_ok data -> is_panic (snd (fst (pf_decode_into old data))) = false.
Proof.
  intros old data Hb. unfold pf_decode_into. cbv zeta. destruct (zlen data <? 61) eqn:Hn; [reflexivity|].
  rewrite !cd_idx_ok by lia. rewrite !ml_rd32_ok by lia. rewrite !cd_slc_ok by lia. cbn [ml_bind].
  pose proof (bytes_ok_nth data (Z.to_nat 0) Hb) as B0.
  set (ln := nth (Z.to_nat 0) data 0) in *.
  set (actual := if ln mod 4 =? 1 then ln + 3 else ln).
  assert (0 <= actual) by (unfold actual; destruct (ln mod 4 =? 1); lia).
  destruct (zlen data <? actual) eqn:C; [reflexivity|].
  rewrite !cd_slc_ok by lia. reflexivity.
Qed.
Print Assumptions C19_pflog_no_panic.

Theorem C05_pflog_fresh : forall old data,
  let r1 := pf_decode_into old data in
  let r2 := pf_decode_into pf_fresh data in
  snd (fst r1) = snd (fst r2) /\ snd r1 = snd r2 /\
  (snd (fst r1) = Ok tt -> fst (fst r1) = fst (fst r2)).
Proof.
  intros old data. cbv zeta. unfold pf_decode_into. cbv zeta.
  repeat (xstep; try solve [cbn [fst snd]; split; [reflexivity | split; [reflexivity | try (intros X; discriminate X); try reflexivity]]]).
  all: try (cbn [fst snd]; split; [reflexivity | split; [reflexivity | intros _; reflexivity]]).
Qed.
Print Assumptions C05_pflog_fresh.

Theorem C01_pflog_render_total : forall old data, pf_render_panics (fst (fst (pf_decode_into old data))) = false.
Proof. reflexivity. Qed.

Example Lpflog_nonvacuous :
  let d := [61;2;0;0] ++ repeat 101 16 ++ repeat 0 16 ++ [0;0;0;1; 0;0;0;2; 0;0;0;3; 0;0;0;4; 0;0;0;5; 255;255;255;255; 1] ++ [0;0;0;69] in
  snd (fst (pf_decode_into pf_fresh d)) = Ok tt /\ pf_payload (fst (fst (pf_decode_into pf_fresh d))) = [69] /\
  pf_next (fst (fst (pf_decode_into pf_fresh d))) = 4 /\ pf_rulepid (fst (fst (pf_decode_into pf_fresh d))) = 4294967295 /\
  snd (fst (pf_decode_into pf_fresh (firstn 62 d))) = Err 2.
Proof. repeat split; vm_compute; reflexivity. Qed.
