(* Ldot11data — the 802.11 data sub-layers (layers/dot11.go): contributions to C19, C05, C01.  No SerializeTo: C06/C07 do not apply. *)
From GP Require Import Base Codec MiscLib Ldot11Model Ldot11subModel Ldot11subProofs.
Open Scope Z_scope.

Theorem C19_dot11data_no_panic : forall k old data, is_panic (snd (fst (sb_decode_into k old data))) = false.
Proof. exact sb_decode_no_panic. Qed.
Print Assumptions C19_dot11data_no_panic.

(* C05: after any history of earlier decodes into the same object, a decode gives what a fresh object gives (the component
   the decoder does not assign is never assigned by it, so it is still nil) *)
Theorem C05_dot11data_fresh : forall k hist data,
  sb_decode_into k (fold_left (fun st d => fst (fst (sb_decode_into k st d))) hist sb_fresh) data = sb_decode_into k sb_fresh data.
Proof. exact sb_decode_fresh. Qed.
Print Assumptions C05_dot11data_fresh.

Theorem C01_dot11data_render_total : forall k old data, sb_render_panics (fst (fst (sb_decode_into k old data))) = false.
Proof. reflexivity. Qed.

Example Ldot11data_nonvacuous :
  (* a QoS data frame with four addresses: Dot11 (32 octet header), the QoS data layer, the plain data layer, then LLC *)
  sb_chain ([136;3;0;0] ++ repeat 1 6 ++ repeat 2 6 ++ repeat 3 6 ++ [16;0] ++ repeat 4 6 ++ [5;0] ++ [170;170;3] ++ [0;0;0;0]) =
    ([(0, 32, 3); (134, 0, 3); (234, 0, 3)], true) /\
  (* the same with the protected flag: Dot11WEP takes the payload as Contents *)
  sb_chain ([8;64;0;0] ++ repeat 1 6 ++ repeat 2 6 ++ repeat 3 6 ++ [16;0] ++ [170;170;3] ++ [0;0;0;0]) =
    ([(0, 24, 3); (102, 0, 3); (300, 3, 0)], false).
Proof. split; vm_compute; reflexivity. Qed.
