(* Letherip — EtherIP header decoder (layers/etherip.go): contributions to C19, C05, C01. No SerializeTo (C06/C07 n/a). *)
From GP Require Import Base ListX Codec MiscLib LetheripModel.
From Coq Require Import Lia ZifyBool ZifyNat.
Open Scope Z_scope.
Ltac Zify.zify_post_hook ::= Z.div_mod_to_equations.

Ltac xstep :=
  match goal with
  | |- context [ml_bind ?o _ _ _] => destruct o eqn:?; cbn [ml_bind]
  | |- context [if ?c then _ else _] => destruct c eqn:?
  end.

Theorem C19_etherip_no_panic : forall old data, is_panic (snd (fst (ei_decode_into old data))) = false.
Proof.
  intros old data. unfold ei_decode_into. cbv zeta. destruct (zlen data <? 2) eqn:Hn; [reflexivity|].
  rewrite ?cd_idx_ok by lia. rewrite ?cd_rd16_ok by lia. rewrite ?ml_rd32_ok by lia. rewrite ?cd_slc_ok by lia. reflexivity.
Qed.
Print Assumptions C19_etherip_no_panic.

Theorem C05_etherip_fresh : forall old data,
  let r1 := ei_decode_into old data in
  let r2 := ei_decode_into ei_fresh data in
  snd (fst r1) = snd (fst r2) /\ snd r1 = snd r2 /\
  (snd (fst r1) = Ok tt -> fst (fst r1) = fst (fst r2)).
Proof.
  intros old data. cbv zeta. unfold ei_decode_into. cbv zeta.
  repeat (xstep; try solve [cbn [fst snd]; split; [reflexivity | split; [reflexivity | try (intros X; discriminate X); try reflexivity]]]).
  all: try (cbn [fst snd]; split; [reflexivity | split; [reflexivity | intros _; reflexivity]]).
Qed.
Print Assumptions C05_etherip_fresh.

Theorem C01_etherip_render_total : forall old data, ei_render_panics (fst (fst (ei_decode_into old data))) = false.
Proof. reflexivity. Qed.

Example Letherip_nonvacuous : ei_decode_into ei_fresh [48;1;255] = (mkEi [48;1] [255] 3 1, Ok tt, false).
Proof. vm_compute. reflexivity. Qed.
