(* Ldiameter — Diameter codec (layers/diameter.go, diameter_avp_decoders.go): contributions to C19, C05, C06,
   C07, C01.  `isg` is the abstract AVP type table (is the key mapped to Grouped?); every theorem
   holds for every table. *)
From GP Require Import Base Codec MiscLib LdiameterModel LdiameterProofs LdiameterSer LdiameterRt.
Open Scope Z_scope.

(* C19: no index/slice of the header code, the AVP walk or the nested grouped walks is out of range,
   whatever the lengths announce (incl. an unaligned last AVP without padding: rejected, not sliced) *)
Theorem C19_diameter_no_panic : forall isg old data, bytes_ok data ->
  is_panic (snd (fst (dm_decode_into isg old data))) = false.
Proof. intros isg old data Hb. exact (proj1 (dm_decode_safe isg old data Hb)). Qed.
Print Assumptions C19_diameter_no_panic.

(* the fuel of the model's walk (length of the AVP area + 1) is never exhausted *)
Theorem C19_diameter_fuel : forall isg old data, bytes_ok data ->
  snd (fst (dm_decode_into isg old data)) <> Err 99.
Proof. intros isg old data Hb. exact (proj2 (dm_decode_safe isg old data Hb)). Qed.
Print Assumptions C19_diameter_fuel.

Theorem C05_diameter_fresh : forall isg old data,
  let r1 := dm_decode_into isg old data in
  let r2 := dm_decode_into isg dm_fresh data in
  snd (fst r1) = snd (fst r2) /\ snd r1 = snd r2 /\
  (snd (fst r1) = Ok tt -> fst (fst r1) = fst (fst r2)).
Proof. exact dm_decode_fresh. Qed.
Print Assumptions C05_diameter_fresh.

(* C06 with FixLengths: version 1, 24-bit command code, 32-bit ids, AVPs as a decoder produces them
   (Length = header + len(Data), VendorID 0 without the V flag, octet data), message below 2^24 octets:
   the decoder reads the header fields, MessageLength as fixed, and the same AVPs (their sub-AVPs
   are re-derived from Data, so AVPs are compared without them); it keeps no payload: what follows
   the message is dropped (Contents ++ payload = the bytes written). *)
Theorem C06_diameter_roundtrip : forall isg l payload csum junk bytes l' old,
  dm_wf l -> dm_serialize l payload true csum junk = (Ok bytes, l') ->
  exists d, dm_decode_into isg old bytes = (d, Ok tt, false) /\
    dm_version d = 1 /\ dm_mlen d = 20 + dm_alen (dm_avps l) /\ dm_mlen l' = dm_mlen d /\
    dm_req d = dm_req l /\ dm_prox d = dm_prox l /\ dm_err d = dm_err l /\ dm_retr d = dm_retr l /\
    dm_cmd d = dm_cmd l /\ dm_app d = dm_app l /\ dm_hbh d = dm_hbh l /\ dm_e2e d = dm_e2e l /\
    map av_strip (dm_avps d) = map av_strip (dm_avps l) /\ dm_payload d = [] /\ dm_contents d ++ payload = bytes.
Proof. exact dm_roundtrip. Qed.
Print Assumptions C06_diameter_roundtrip.

(* total: SerializeTo cannot fail or panic for any field values *)
Theorem C07_diameter_no_panic : forall l payload fixl csum junk,
  is_panic (fst (dm_serialize l payload fixl csum junk)) = false.
Proof. exact dm_serialize_no_panic. Qed.
Print Assumptions C07_diameter_no_panic.

Theorem C07_diameter_junk_free : forall l payload fixl csum junk1 junk2,
  dm_serialize l payload fixl csum junk1 = dm_serialize l payload fixl csum junk2.
Proof. exact dm_serialize_junk_free. Qed.
Print Assumptions C07_diameter_junk_free.

(* C01: DiameterAVP.String, GetAVPTypeName, GetVendorIDString and the typed getters are total
   (map lookups with ok, length checks before reading) *)
Theorem C01_diameter_render_total : forall isg old data, dm_render_panics (fst (fst (dm_decode_into isg old data))) = false.
Proof. reflexivity. Qed.

Example Ldiameter_nonvacuous :
  let a := mkAvp 264 false true false 13 0 [104;111;115;116;49] None in
  let l := mkDm [] [] 1 0 true false false false 257 0 1 2 [a] in
  dm_wf l /\
  fst (dm_serialize l [] true false [9;9;9]) =
    Ok [1;0;0;36;128;0;1;1;0;0;0;0;0;0;0;1;0;0;0;2; 0;0;1;8;64;0;0;13;104;111;115;116;49;0;0;0] /\
  (* an unaligned last AVP without its padding is rejected (truncated flag), not sliced *)
  dm_decode_into (fun _ _ => false) dm_fresh
    [1;0;0;33;128;0;1;1;0;0;0;0;0;0;0;1;0;0;0;2; 0;0;1;8;64;0;0;13;104;111;115;116;49] =
    (mkDm [1;0;0;33;128;0;1;1;0;0;0;0;0;0;0;1;0;0;0;2; 0;0;1;8;64;0;0;13;104;111;115;116;49] [] 1 33 true false false false 257 0 1 2 [],
     Ok tt, true).
Proof.
  cbv zeta. split.
  - unfold dm_wf, av_wf, av_hs. cbn. repeat split; try lia; try discriminate.
    constructor; [|constructor]. cbn. repeat split; try lia; try discriminate. repeat constructor; discriminate.
  - split; vm_compute; reflexivity.
Qed.
