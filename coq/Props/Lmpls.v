(* Lmpls — MPLS label stack entry codec (layers/mpls.go): contributions to C19, C06, C07, C01.
   MPLS has no DecodeFromBytes: decodeMPLS allocates a new layer per call, so there is no receiver
   state and C05 has nothing to say (mpls_decode has no `old` argument). *)
From GP Require Import Base Codec MiscLib LmplsModel LmplsProofs.
Open Scope Z_scope.

Theorem C19_mpls_no_panic : forall data, is_panic (snd (fst (mpls_decode data))) = false.
Proof. exact mpls_decode_no_panic. Qed.
Print Assumptions C19_mpls_no_panic.

(* the exported payload decoder (ProtocolGuessingDecoder) as repaired: an error on empty data *)
Theorem C19_mpls_guess_no_panic : forall data, is_panic (mpls_guess data) = false.
Proof. exact mpls_guess_no_panic. Qed.
Print Assumptions C19_mpls_guess_no_panic.

Theorem C19_mpls_guess_orig_refuted : mpls_guess_orig [] = Panic 1.
Proof. exact mpls_guess_orig_panics. Qed.
Print Assumptions C19_mpls_guess_orig_refuted.

Theorem C06_mpls_roundtrip : forall l payload fixl csum junk bytes l',
  mpls_wf l -> mpls_serialize l payload fixl csum junk = (Ok bytes, l') ->
  l' = l /\ bytes = ml_put32 (mpls_encoded l) ++ payload /\
  mpls_decode bytes =
    (mkMpls (ml_put32 (mpls_encoded l)) payload (m_label l) (m_tc l) (m_bottom l) (m_ttl l), Ok tt, false).
Proof. exact mpls_roundtrip. Qed.
Print Assumptions C06_mpls_roundtrip.

Theorem C06_mpls_fixpoint : forall l payload fixl csum junk junk' fixl' csum' bytes l' d tr,
  mpls_wf l -> mpls_serialize l payload fixl csum junk = (Ok bytes, l') ->
  mpls_decode bytes = (d, Ok tt, tr) ->
  fst (mpls_serialize d (m_payload d) fixl' csum' junk') = Ok bytes.
Proof.
  intros l payload fixl csum junk junk' fixl' csum' bytes l' d tr Hwf H D.
  destruct (mpls_roundtrip l payload fixl csum junk bytes l' Hwf H) as [_ [Eb Ed]].
  rewrite Ed in D. assert (Hd : d = mkMpls (ml_put32 (mpls_encoded l)) payload (m_label l) (m_tc l) (m_bottom l) (m_ttl l)) by congruence.
  subst d. rewrite mpls_serialize_spec. unfold mpls_ser_spec. cbn [fst m_payload]. rewrite Eb. reflexivity.
Qed.
Print Assumptions C06_mpls_fixpoint.

Theorem C06_mpls_decoded_wf : forall data l tr, bytes_ok data -> mpls_decode data = (l, Ok tt, tr) -> mpls_wf l.
Proof. exact mpls_decoded_wf. Qed.
Print Assumptions C06_mpls_decoded_wf.

Theorem C07_mpls_no_panic : forall l payload fixl csum junk,
  is_panic (fst (mpls_serialize l payload fixl csum junk)) = false.
Proof. exact mpls_serialize_no_panic. Qed.
Print Assumptions C07_mpls_no_panic.

Theorem C07_mpls_junk_free : forall l payload fixl csum junk1 junk2,
  mpls_serialize l payload fixl csum junk1 = mpls_serialize l payload fixl csum junk2.
Proof. exact mpls_serialize_junk_free. Qed.
Print Assumptions C07_mpls_junk_free.

Theorem C01_mpls_render_total : forall data, mpls_render_panics (fst (fst (mpls_decode data))) = false.
Proof. reflexivity. Qed.

Example Lmpls_nonvacuous :
  let l := mkMpls [] [] 16 5 true 64 in
  mpls_wf l /\ mpls_serialize l [69] false false [9;9;9;9] = (Ok [0;1;11;64;69], l).
Proof. split; [unfold mpls_wf; cbn; lia|vm_compute; reflexivity]. Qed.
