(* Ldhcp4 — DHCPv4 codec (layers/dhcpv4.go): contributions to C19, C05, C06, C07, C01. *)
From GP Require Import Base Codec MiscLib Ldhcp4Model Ldhcp4Proofs Ldhcp4Ser Ldhcp4Rt.
Open Scope Z_scope.

Theorem C19_dhcp4_no_panic : forall orig old data, bytes_ok data -> is_panic (snd (fst (dh_decode_gen orig old data))) = false.
Proof. intros orig old data Hb. exact (proj1 (dh_decode_safe orig old data Hb)). Qed.
Print Assumptions C19_dhcp4_no_panic.

Theorem C19_dhcp4_fuel : forall orig old data, bytes_ok data -> snd (fst (dh_decode_gen orig old data)) <> Err 99.
Proof. intros orig old data Hb. exact (proj2 (dh_decode_safe orig old data Hb)). Qed.
Print Assumptions C19_dhcp4_fuel.

Theorem C05_dhcp4_fresh : forall old data,
  let r1 := dh_decode_into old data in
  let r2 := dh_decode_into dh_fresh data in
  snd (fst r1) = snd (fst r2) /\ snd r1 = snd r2 /\
  (snd (fst r1) = Ok tt -> fst (fst r1) = fst (fst r2)).
Proof. exact dh_decode_fresh. Qed.
Print Assumptions C05_dhcp4_fresh.

(* before the repair: a 240-octet message kept the Contents of the earlier packet (and a fresh layer got none) *)
Theorem C05_dhcp4_orig_refuted : exists l1 l2,
  dh_decode_orig dh_fresh (dh_hdr240 ++ [255]) = (l1, Ok tt, false) /\ dh_decode_orig l1 dh_hdr240 = (l2, Ok tt, false) /\
  h_contents l2 = dh_hdr240 ++ [255] /\ h_contents (fst (fst (dh_decode_orig dh_fresh dh_hdr240))) = [] /\
  h_contents (fst (fst (dh_decode_into l1 dh_hdr240))) = dh_hdr240.
Proof. exact dh_orig_stale. Qed.
Print Assumptions C05_dhcp4_orig_refuted.

(* C07 (repaired): no index or slice of SerializeTo is out of range, whatever the option Length fields say *)
Theorem C07_dhcp4_no_panic : forall l payload fixl csum junk,
  is_panic (fst (dh_serialize l payload fixl csum junk)) = false.
Proof. exact dh_serialize_no_panic. Qed.
Print Assumptions C07_dhcp4_no_panic.

(* before the repair: the message was sized by the option Length fields but filled by len(Data) *)
Theorem C07_dhcp4_orig_refuted :
  let l := mkDh [] [] 1 1 6 0 0 0 0 [] [] [] [] [] [] [] [mkDo 12 0 [1;2;3;4;5;6;7;8]; mkDo 53 1 [1]] in
  is_panic (fst (dh_serialize_orig l [] false false [])) = true /\ is_panic (fst (dh_serialize l [] false false [])) = false.
Proof. exact dh_orig_serialize_panics. Qed.
Print Assumptions C07_dhcp4_orig_refuted.

(* the whole message is zeroed before it is filled: the output does not depend on the buffer's prior content *)
Theorem C07_dhcp4_junk_free : forall l payload fixl csum junk1 junk2,
  dh_serialize l payload fixl csum junk1 = dh_serialize l payload fixl csum junk2.
Proof. intros. apply dh_serialize_junk_free. Qed.
Print Assumptions C07_dhcp4_junk_free.

Theorem C01_dhcp4_render_total : forall orig old data, dh_render_panics (fst (fst (dh_decode_gen orig old data))) = false.
Proof. reflexivity. Qed.

(* C06 (repaired serializer, FixLengths): octet/16-bit/32-bit fields in range, 4-octet addresses, a hardware address of at most 16
   octets, 64/128-octet sname/file, options other than End with at most 255 data octets (Pad without data), nothing under the
   layer: decoding the written bytes into any object gives the fields, HardwareLen as fixed, the addresses and byte fields, and the
   options as FixLengths left them (Length = len(Data)); Contents is the whole message; no error, no truncation. *)
Theorem C06_dhcp4_roundtrip : forall l csum junk bytes l' old,
  dh_wf l -> dh_serialize l [] true csum junk = (Ok bytes, l') ->
  exists d, dh_decode_into old bytes = (d, Ok tt, false) /\ h_contents d = bytes /\
    (h_op d, h_htype d, h_hlen d, h_hops d, h_xid d, h_secs d, h_flags d) = (h_op l, h_htype l, zlen (h_chaddr l), h_hops l, h_xid l, h_secs l, h_flags l) /\
    (h_ciaddr d, h_yiaddr d, h_siaddr d, h_giaddr d, h_chaddr d, h_sname d, h_file d) =
      (h_ciaddr l, h_yiaddr l, h_siaddr l, h_giaddr l, h_chaddr l, h_sname l, h_file l) /\
    h_options d = h_options l'.
Proof. exact dh_roundtrip. Qed.
Print Assumptions C06_dhcp4_roundtrip.

(* closed form of the repaired serializer under dh_wf *)
Theorem C07_dhcp4_closed_form : forall l csum junk, dh_wf l ->
  dh_serialize l [] true csum junk = (Ok (dh_hdr l ++ concat (map dh_obytes (h_options l)) ++ [255]), dh_l2 l).
Proof. exact dh_serialize_closed. Qed.
Print Assumptions C07_dhcp4_closed_form.

Example Ldhcp4_nonvacuous :
  exists l, dh_decode_into dh_fresh (dh_hdr240 ++ [53;1;1;0;255;7]) = (l, Ok tt, false) /\
    h_options l = [mkDo 53 1 [1]; mkDo 0 0 []] /\ h_hlen l = 6 /\ zlen (h_contents l) = 246.
Proof. eexists. split; [vm_compute; reflexivity|]. repeat split; reflexivity. Qed.
