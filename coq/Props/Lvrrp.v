(* Lvrrp — VRRPv2 decoder (layers/vrrp.go): contributions to C19, C05, C01.
   VRRPv2 has no SerializeTo, so C06 and C07 do not apply. *)
From GP Require Import Base ListX Codec MiscLib LvrrpModel.
From Coq Require Import Lia ZifyBool ZifyNat.
Open Scope Z_scope.
Ltac Zify.zify_post_hook ::= Z.div_mod_to_equations.

Lemma vr_addrs_no_panic : forall k data off, 0 <= off -> off + 4 * Z.of_nat k <= zlen data ->
  exists r, vr_addrs k data off = Ok r /\ length r = k.
Proof.
  induction k as [|k IH]; intros data off H0 H1; cbn [vr_addrs]; [exists []; split; reflexivity|].
  rewrite cd_slc_ok by lia. cbn [obind].
  destruct (IH data (off + 4) ltac:(lia) ltac:(lia)) as [r [E L]]. rewrite E. cbn [obind].
  eexists; split; [reflexivity|]. cbn [length]. lia.
Qed.

Theorem C19_vrrp_no_panic : forall old data, bytes_ok data -> is_panic (snd (fst (vr_decode_into old data))) = false.
Proof.
  intros old data Hb. unfold vr_decode_into. cbv zeta. destruct (zlen data <? 8) eqn:Hn; [reflexivity|].
  rewrite cd_slc_ok by lia. rewrite !cd_idx_ok by lia. rewrite cd_rd16_ok by lia. cbn [ml_bind].
  destruct (negb (nth (Z.to_nat 0) data 0 mod 16 =? 1)); [reflexivity|].
  pose proof (bytes_ok_nth data (Z.to_nat 3) Hb) as H3. set (cnt := nth (Z.to_nat 3) data 0) in *.
  destruct (cnt <? 1) eqn:C1; [reflexivity|]. destruct (zlen data <? 8 + 4 * cnt) eqn:C2; [reflexivity|].
  destruct (vr_addrs_no_panic (Z.to_nat cnt) data 8 ltac:(lia) ltac:(lia)) as [r [E _]]. rewrite E. reflexivity.
Qed.
Print Assumptions C19_vrrp_no_panic.

Ltac vstep :=
  match goal with
  | |- context [ml_bind ?o _ _ _] => destruct o eqn:?; cbn [ml_bind]
  | |- context [if ?c then _ else _] => destruct c eqn:?
  end.

(* C05: same outcome and truncation as a fresh object; on success the same layer (IPAddress is
   reset to nil before the loop).  On the error returns after :99 the receiver holds the new
   Contents and a prefix of the new header fields next to old AuthType/AdverInt/Checksum/IPAddress. *)
Theorem C05_vrrp_fresh : forall old data,
  let r1 := vr_decode_into old data in
  let r2 := vr_decode_into vr_fresh data in
  snd (fst r1) = snd (fst r2) /\ snd r1 = snd r2 /\
  (snd (fst r1) = Ok tt -> fst (fst r1) = fst (fst r2)).
Proof.
  intros old data. cbv zeta. unfold vr_decode_into. cbv zeta.
  repeat (vstep; try solve [cbn [fst snd]; split; [reflexivity | split; [reflexivity | try (intros X; discriminate X); try reflexivity]]]).
  all: try (cbn [fst snd]; split; [reflexivity | split; [reflexivity | intros _; reflexivity]]).
Qed.
Print Assumptions C05_vrrp_fresh.

(* what success guarantees: type 1, at least one address, exactly CountIPAddr addresses *)
Theorem C05_vrrp_shape : forall old data l tr, bytes_ok data -> vr_decode_into old data = (l, Ok tt, tr) ->
  vr_type l = 1 /\ 1 <= vr_count l < 256 /\ Z.of_nat (length (vr_ips l)) = vr_count l /\ vr_contents l = data /\ vr_payload l = [] /\ tr = false.
Proof.
  intros old data l tr Hb. unfold vr_decode_into. cbv zeta. destruct (zlen data <? 8) eqn:Hn; [discriminate|].
  rewrite cd_slc_ok by lia. rewrite !cd_idx_ok by lia. rewrite cd_rd16_ok by lia. cbn [ml_bind].
  destruct (negb (nth (Z.to_nat 0) data 0 mod 16 =? 1)) eqn:T; [discriminate|].
  pose proof (bytes_ok_nth data (Z.to_nat 3) Hb) as H3. set (cnt := nth (Z.to_nat 3) data 0) in *.
  destruct (cnt <? 1) eqn:C1; [discriminate|]. destruct (zlen data <? 8 + 4 * cnt) eqn:C2; [discriminate|].
  destruct (vr_addrs_no_panic (Z.to_nat cnt) data 8 ltac:(lia) ltac:(lia)) as [r [E L]]. rewrite E. cbn [ml_bind]. intros X.
  match type of X with (?t, _, _) = _ => assert (El : l = t) by congruence end. assert (tr = false) by congruence. subst l. clear X.
  cbn [vr_type vr_count vr_ips vr_contents vr_payload]. rewrite L.
  repeat split; try lia; try reflexivity; try assumption.
  all: try (unfold slice; change (Z.to_nat 0) with 0%nat; cbn [skipn]; apply firstn_all2; unfold zlen; lia).
  all: destruct (nth (Z.to_nat 0) data 0 mod 16 =? 1) eqn:T1; [lia|discriminate T].
Qed.
Print Assumptions C05_vrrp_shape.

Theorem C01_vrrp_render_total : forall old data, vr_render_panics (fst (fst (vr_decode_into old data))) = false.
Proof. reflexivity. Qed.

Example Lvrrp_nonvacuous :
  vr_decode_into vr_fresh [33;1;100;1;0;1;186;82;192;168;0;30] =
    (mkVr [33;1;100;1;0;1;186;82;192;168;0;30] [] 2 1 1 100 1 0 1 47698 [[192;168;0;30]], Ok tt, false) /\
  snd (fst (vr_decode_into vr_fresh [34;1;100;1;0;1;186;82;192;168;0;30])) = Err 2.
Proof. split; vm_compute; reflexivity. Qed.
