(* Lvxlan — VXLAN codec (layers/vxlan.go): contributions to C19, C05, C06, C07, C01. *)
From GP Require Import Base Codec MiscLib LvxlanModel LvxlanProofs.
Open Scope Z_scope.

Theorem C19_vxlan_no_panic : forall old data, is_panic (snd (fst (vx_decode_into old data))) = false.
Proof. exact vx_decode_no_panic. Qed.
Print Assumptions C19_vxlan_no_panic.

Theorem C05_vxlan_fresh : forall old data,
  let r1 := vx_decode_into old data in
  let r2 := vx_decode_into vx_fresh data in
  snd (fst r1) = snd (fst r2) /\ snd r1 = snd r2 /\
  (snd (fst r1) = Ok tt -> fst (fst r1) = fst (fst r2)).
Proof. exact vx_decode_fresh. Qed.
Print Assumptions C05_vxlan_fresh.

(* C06: VNI below 2^24, 16-bit policy id, any flags: 8 bytes ++ payload, decoded into any object
   to the same fields and payload; the layer is not mutated, so the decoded layer serializes to
   the same bytes again (C06_vxlan_fixpoint) *)
Theorem C06_vxlan_roundtrip : forall l payload fixl csum junk bytes l' old,
  vx_wf l -> vx_serialize l payload fixl csum junk = (Ok bytes, l') ->
  l' = l /\ bytes = vx_hdr l ++ payload /\
  vx_decode_into old bytes =
    (mkVx (vx_hdr l) payload (v_valid l) (v_vni l) (v_gbp l) (v_dontlearn l) (v_applied l) (v_policy l), Ok tt, false).
Proof. exact vx_roundtrip. Qed.
Print Assumptions C06_vxlan_roundtrip.

Theorem C06_vxlan_fixpoint : forall l payload fixl csum junk junk' fixl' csum' bytes l' d tr,
  vx_wf l -> vx_serialize l payload fixl csum junk = (Ok bytes, l') ->
  vx_decode_into vx_fresh bytes = (d, Ok tt, tr) ->
  fst (vx_serialize d (v_payload d) fixl' csum' junk') = Ok bytes.
Proof.
  intros l payload fixl csum junk junk' fixl' csum' bytes l' d tr Hwf H D.
  destruct (vx_roundtrip l payload fixl csum junk bytes l' vx_fresh Hwf H) as [_ [Eb Ed]].
  rewrite Ed in D. assert (Hd : d = mkVx (vx_hdr l) payload (v_valid l) (v_vni l) (v_gbp l) (v_dontlearn l) (v_applied l) (v_policy l)) by congruence.
  subst d. rewrite vx_serialize_spec. unfold vx_ser_spec. cbn [v_vni v_payload].
  destruct Hwf as [Hv _]. destruct (v_vni l >=? 16777216) eqn:C; [lia|]. cbn [fst]. rewrite Eb. reflexivity.
Qed.
Print Assumptions C06_vxlan_fixpoint.

Theorem C06_vxlan_decoded_wf : forall old data l tr, bytes_ok data ->
  vx_decode_into old data = (l, Ok tt, tr) -> vx_wf l.
Proof. exact vx_decoded_wf. Qed.
Print Assumptions C06_vxlan_decoded_wf.

Theorem C07_vxlan_no_panic : forall l payload fixl csum junk,
  is_panic (fst (vx_serialize l payload fixl csum junk)) = false.
Proof. exact vx_serialize_no_panic. Qed.
Print Assumptions C07_vxlan_no_panic.

Theorem C07_vxlan_junk_free : forall l payload fixl csum junk1 junk2,
  vx_serialize l payload fixl csum junk1 = vx_serialize l payload fixl csum junk2.
Proof. exact vx_serialize_junk_free. Qed.
Print Assumptions C07_vxlan_junk_free.

Theorem C01_vxlan_render_total : forall old data, vx_render_panics (fst (fst (vx_decode_into old data))) = false.
Proof. reflexivity. Qed.

Example Lvxlan_nonvacuous :
  let l := mkVx [] [] true 255 false false false 0 in
  vx_wf l /\ vx_serialize l [1;2] false false [9;9;9;9;9;9;9;9] = (Ok [8;0;0;0;0;0;255;0;1;2], l).
Proof. split; [unfold vx_wf; cbn; lia|vm_compute; reflexivity]. Qed.
