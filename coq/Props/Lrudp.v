(* Lrudp — Reliable UDP header decoder (layers/rudp.go): contributions to C19, C01. No DecodeFromBytes (C05 n/a), no SerializeTo (C06/C07 n/a). *)
From GP Require Import Base ListX Codec MiscLib LrudpModel.
From Coq Require Import Lia ZifyBool ZifyNat.
Open Scope Z_scope.
Ltac Zify.zify_post_hook ::= Z.div_mod_to_equations.

Ltac xstep :=
  match goal with
  | |- context [ml_bind ?o _ _ _] => destruct o eqn:?; cbn [ml_bind]
  | |- context [if ?c then _ else _] => destruct c eqn:?
  end.

Lemma ru_seqs_ok : forall k d off, 0 <= off -> off + 4 * Z.of_nat k <= zlen d -> exists r, ru_seqs k d off = Ok r /\ length r = k.
Proof.
  induction k as [|k IH]; intros d off H0 H1; cbn [ru_seqs]; [exists []; split; reflexivity|].
  rewrite ml_rd32_ok by lia. cbn [obind]. destruct (IH d (off + 4) ltac:(lia) ltac:(lia)) as [r [E L]]. rewrite E. cbn [obind].
  eexists; split; [reflexivity|cbn [length]; lia].
Qed.

Theorem C19_rudp_no_panic : forall data, bytes_ok data -> is_panic (snd (fst (ru_decode data))) = false.
Proof.
  intros data Hb. unfold ru_decode. cbv zeta. destruct (zlen data <? 18) eqn:Hn; [reflexivity|].
  rewrite !cd_idx_ok by lia. rewrite cd_rd16_ok by lia. rewrite !ml_rd32_ok by lia. cbn [ml_bind].
  pose proof (bytes_ok_nth data (Z.to_nat 1) Hb) as B1. pose proof (bytes_ok_nth data (Z.to_nat 4) Hb) as B4. pose proof (bytes_ok_nth data (Z.to_nat (4 + 1)) Hb) as B5.
  set (hl := nth (Z.to_nat 1) data 0) in *. set (dl := nth (Z.to_nat 4) data 0 * 256 + nth (Z.to_nat (4 + 1)) data 0) in *.
  destruct (hl <? 9) eqn:C1; [reflexivity|]. destruct (zlen data <? hl * 2) eqn:C2; [reflexivity|]. destruct (zlen data <? hl * 2 + dl) eqn:C3; [reflexivity|].
  rewrite !cd_slc_ok by lia. cbn [ml_bind].
  set (vha := slice data (Z.to_nat 18) (Z.to_nat (hl * 2))).
  assert (Hv : zlen vha = hl * 2 - 18) by (unfold vha, zlen in *; rewrite slice_length by lia; lia).
  destruct ((nth (Z.to_nat 0) data 0 / 128) mod 2 =? 1).
  - destruct (negb (zlen vha =? 6)) eqn:C4; [reflexivity|]. rewrite !cd_rd16_ok by lia. reflexivity.
  - destruct ((nth (Z.to_nat 0) data 0 / 32) mod 2 =? 1); [|reflexivity].
    destruct (negb (zlen vha mod 4 =? 0)) eqn:C5; [reflexivity|].
    destruct (ru_seqs_ok (Z.to_nat (zlen vha / 4)) vha 0 ltac:(lia) ltac:(lia)) as [r [E _]]. rewrite E. reflexivity.
Qed.
Print Assumptions C19_rudp_no_panic.

Theorem C01_rudp_render_total : forall data, ru_render_panics (fst (fst (ru_decode data))) = false.
Proof. reflexivity. Qed.

Example Lrudp_nonvacuous :
  ru_decode [32;11;1;2;0;1;0;0;0;5;0;0;0;6;0;0;0;7;0;0;0;9;170] =
    (mkRu [32;11;1;2;0;1;0;0;0;5;0;0;0;6;0;0;0;7;0;0;0;9] [170] false false true false false 0 11 1 2 1 5 6 7 [0;0;0;9] None (Some [9]), Ok tt, false) /\
  snd (fst (ru_decode [128;11;1;2;0;0;0;0;0;5;0;0;0;6;0;0;0;7;0;0;0;9])) = Err 5.
Proof. split; vm_compute; reflexivity. Qed.
