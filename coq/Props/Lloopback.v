(* Lloopback — BSD loopback encapsulation codec (layers/loopback.go): contributions to C19, C05, C06, C07, C01. *)
From GP Require Import Base Codec MiscLib LloopbackModel LloopbackProofs.
Open Scope Z_scope.

Theorem C19_loopback_no_panic : forall old data, is_panic (snd (fst (lo_decode_into old data))) = false.
Proof. exact lo_decode_no_panic. Qed.
Print Assumptions C19_loopback_no_panic.

Theorem C05_loopback_fresh : forall old data,
  let r1 := lo_decode_into old data in
  let r2 := lo_decode_into lo_fresh data in
  snd (fst r1) = snd (fst r2) /\ snd r1 = snd r2 /\
  (snd (fst r1) = Ok tt -> fst (fst r1) = fst (fst r2)).
Proof. exact lo_decode_fresh. Qed.
Print Assumptions C05_loopback_fresh.

(* C06: any family byte; always written little-endian (a big-endian capture 00 00 00 f decodes to
   the same family and is re-written as f 00 00 00) *)
Theorem C06_loopback_roundtrip : forall l payload fixl csum junk bytes l' old,
  lo_wf l -> lo_serialize l payload fixl csum junk = (Ok bytes, l') ->
  l' = l /\ bytes = [lo_family l; 0; 0; 0] ++ payload /\
  lo_decode_into old bytes = (mkLo [lo_family l; 0; 0; 0] payload (lo_family l), Ok tt, false).
Proof. exact lo_roundtrip. Qed.
Print Assumptions C06_loopback_roundtrip.

Theorem C06_loopback_decoded_wf : forall old data l tr, bytes_ok data ->
  lo_decode_into old data = (l, Ok tt, tr) -> lo_wf l.
Proof. exact lo_decoded_wf. Qed.
Print Assumptions C06_loopback_decoded_wf.

Theorem C07_loopback_no_panic : forall l payload fixl csum junk,
  is_panic (fst (lo_serialize l payload fixl csum junk)) = false.
Proof. exact lo_serialize_no_panic. Qed.
Print Assumptions C07_loopback_no_panic.

Theorem C07_loopback_junk_free : forall l payload fixl csum junk1 junk2,
  lo_serialize l payload fixl csum junk1 = lo_serialize l payload fixl csum junk2.
Proof. exact lo_serialize_junk_free. Qed.
Print Assumptions C07_loopback_junk_free.

(* C01: no String method, no flow accessor: reflective renderers only *)
Theorem C01_loopback_render_total : forall old data, lo_render_panics (fst (fst (lo_decode_into old data))) = false.
Proof. reflexivity. Qed.

Example Lloopback_nonvacuous :
  let l := mkLo [] [] 30 in
  lo_wf l /\ lo_serialize l [96] false false [9;9;9;9] = (Ok [30;0;0;0;96], l) /\
  lo_decode_into lo_fresh [0;0;0;2;69] = (mkLo [0;0;0;2] [69] 2, Ok tt, false).
Proof. split; [unfold lo_wf; cbn; lia|]. split; vm_compute; reflexivity. Qed.
