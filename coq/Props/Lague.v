(* Lague — Generic UDP Encapsulation variant 0 header codec (layers/ague_var0.go): contributions to C19, C05, C06, C07, C01. *)
From GP Require Import Base ListX Codec MiscLib LagueModel.
From Coq Require Import Lia ZifyBool ZifyNat.
Open Scope Z_scope.
Ltac Zify.zify_post_hook ::= Z.div_mod_to_equations.

Ltac xstep :=
  match goal with
  | |- context [ml_bind ?o _ _ _] => destruct o eqn:?; cbn [ml_bind]
  | |- context [if ?c then _ else _] => destruct c eqn:?
  end.

Theorem C19_ague_no_panic : forall old data, is_panic (snd (fst (ag_decode_into old data))) = false.
Proof.
  intros old data. unfold ag_decode_into. cbv zeta. destruct (zlen data <? 4) eqn:Hn; [reflexivity|].
  rewrite !cd_idx_ok by lia. cbn [ml_bind].
  match goal with |- context [if zlen data <? 4 + ?h then _ else _] => destruct (zlen data <? 4 + h) eqn:C1 end; [reflexivity|].
  rewrite !cd_slc_ok by lia. reflexivity.
Qed.
Print Assumptions C19_ague_no_panic.

Theorem C05_ague_fresh : forall old data,
  let r1 := ag_decode_into old data in
  let r2 := ag_decode_into ag_fresh data in
  snd (fst r1) = snd (fst r2) /\ snd r1 = snd r2 /\
  (snd (fst r1) = Ok tt -> fst (fst r1) = fst (fst r2)).
Proof.
  intros old data. cbv zeta. unfold ag_decode_into. cbv zeta.
  repeat (xstep; try solve [cbn [fst snd]; split; [reflexivity | split; [reflexivity | try (intros X; discriminate X); try reflexivity]]]).
  all: try (cbn [fst snd]; split; [reflexivity | split; [reflexivity | intros _; reflexivity]]).
Qed.
Print Assumptions C05_ague_fresh.

Theorem C01_ague_render_total : forall old data, ag_render_panics (fst (fst (ag_decode_into old data))) = false.
Proof. reflexivity. Qed.

Lemma ag_hdr_len l : zlen (ag_hdr l) = 4 + zlen (ag_ext l).
Proof. unfold ag_hdr. rewrite zlen_app. reflexivity. Qed.

Lemma ag_serialize_spec l payload fixl csum junk : ag_serialize l payload fixl csum junk = (Ok (ag_hdr l ++ payload), l).
Proof.
  unfold ag_serialize. pose proof (zlen_nonneg (ag_hdr l)) as N. pose proof (ml_tile_init (zlen (ag_hdr l)) junk N) as T.
  destruct (ml_tile_copy _ _ (ag_hdr l) _ 0 T eq_refl ltac:(change (zlen []) with 0; lia)) as [b [E T']].
  rewrite E. apply ml_tile_done in T'; [|reflexivity]. subst b. reflexivity.
Qed.

Theorem C07_ague_no_panic : forall l payload fixl csum junk, is_panic (fst (ag_serialize l payload fixl csum junk)) = false.
Proof. intros. rewrite ag_serialize_spec. reflexivity. Qed.
Print Assumptions C07_ague_no_panic.

Theorem C07_ague_junk_free : forall l payload fixl csum junk1 junk2,
  ag_serialize l payload fixl csum junk1 = ag_serialize l payload fixl csum junk2.
Proof. intros. rewrite !ag_serialize_spec. reflexivity. Qed.
Print Assumptions C07_ague_junk_free.

(* the ORs of LayerContents on disjoint bit fields are a sum *)
Lemma ag_lor_sum v (c : bool) h : 0 <= v < 4 -> 0 <= h < 32 ->
  Z.lor (Z.lor (Z.lor ((v * 64) mod 256) (h mod 256)) (if c then 32 else 0)) (h mod 256) = v * 64 + (if c then 32 else 0) + h.
Proof.
  intros Hv Hh.
  assert (Ev : v = 0 \/ v = 1 \/ v = 2 \/ v = 3) by lia.
  assert (Eh : In h (map Z.of_nat (seq 0 32))).
  { replace h with (Z.of_nat (Z.to_nat h)) by lia. apply in_map. apply in_seq. lia. }
  cbn [seq map In] in Eh.
  destruct c; decompose [or] Ev; subst v; decompose [or] Eh; try contradiction; subst h; reflexivity.
Qed.

Definition ag_wf (l : ague) : Prop :=
  0 <= ag_version l < 4 /\ 0 <= ag_proto l < 256 /\ 0 <= ag_flags l < 65536 /\ zlen (ag_ext l) < 32.

(* C06: version below 4, octet protocol, 16-bit flags, at most 31 extension octets (the 5-bit length field): the written
   header followed by the payload decodes, into any object, to the same fields with Data = the payload; no error,
   not truncated; LayerContents of the decoded layer is the written header (fixpoint) *)
Theorem C06_ague_roundtrip : forall l payload fixl csum junk bytes l' old,
  ag_wf l -> ag_serialize l payload fixl csum junk = (Ok bytes, l') ->
  l' = l /\ bytes = ag_hdr l ++ payload /\
  ag_decode_into old bytes = (mkAg (ag_version l) (ag_c l) (ag_proto l) (ag_flags l) (ag_ext l) payload, Ok tt, false) /\
  ag_hdr (fst (fst (ag_decode_into old bytes))) = ag_hdr l.
Proof.
  intros l payload fixl csum junk bytes l' old [H1 [H2 [H3 H4]]]. rewrite ag_serialize_spec. intros X.
  assert (E1 : bytes = ag_hdr l ++ payload) by congruence. assert (E2 : l' = l) by congruence. clear X.
  split; [exact E2|]. split; [exact E1|]. subst bytes l'. pose proof (zlen_nonneg payload) as Np. pose proof (zlen_nonneg (ag_ext l)) as Ne.
  set (h := zlen (ag_ext l)) in *.
  assert (B0 : ag_b0 l = ag_version l * 64 + (if ag_c l then 32 else 0) + h).
  { unfold ag_b0. cbv zeta. fold h. apply ag_lor_sum; lia. }
  set (h4 := [ag_b0 l; ag_proto l mod 256; (ag_flags l / 256) mod 256; ag_flags l mod 256]).
  assert (Ed : ag_hdr l ++ payload = h4 ++ ag_ext l ++ payload) by (unfold ag_hdr; fold h4; rewrite <- app_assoc; reflexivity).
  remember (ag_hdr l ++ payload) as data eqn:Hd.
  assert (Hn : zlen data = 4 + h + zlen payload) by (rewrite Ed, !zlen_app; change (zlen h4) with 4; unfold h; lia).
  assert (HnthZ : forall k, 0 <= k < 4 -> nth (Z.to_nat k) data 0 = nth (Z.to_nat k) h4 0).
  { intros k Hk. rewrite Ed. apply app_nth1. change (length h4) with 4%nat. lia. }
  assert (D : ag_decode_into old data = (mkAg (ag_version l) (ag_c l) (ag_proto l) (ag_flags l) (ag_ext l) payload, Ok tt, false)).
  { unfold ag_decode_into. cbv zeta. destruct (zlen data <? 4) eqn:C; [lia|].
    rewrite !cd_idx_ok by lia. cbn [ml_bind]. rewrite !HnthZ by lia.
    repeat match goal with |- context [Z.to_nat ?k] => let v := eval vm_compute in (Z.to_nat k) in change (Z.to_nat k) with v end.
    unfold h4. cbn [nth]. rewrite B0.
    assert (M : (ag_version l * 64 + (if ag_c l then 32 else 0) + h) mod 32 = h) by (destruct (ag_c l); lia). rewrite M.
    destruct (zlen data <? 4 + h) eqn:C2; [lia|].
    rewrite !cd_slc_ok by lia. cbn [ml_bind].
    assert (S1 : slice data (Z.to_nat 4) (Z.to_nat (4 + h)) = ag_ext l).
    { rewrite Ed. apply slice_at; [reflexivity|]. change (length h4) with 4%nat. unfold h, zlen. lia. }
    assert (S2 : slice data (Z.to_nat (4 + h)) (Z.to_nat (zlen data)) = payload).
    { rewrite Hn, Ed. rewrite app_assoc. apply slice_to_end; rewrite !app_length; change (length h4) with 4%nat; unfold h, zlen in *; lia. }
    rewrite S1, S2.
    assert (Q1 : (ag_version l * 64 + (if ag_c l then 32 else 0) + h) / 64 = ag_version l) by (destruct (ag_c l); lia).
    assert (Q2 : (((ag_version l * 64 + (if ag_c l then 32 else 0) + h) / 32) mod 2 =? 1) = ag_c l) by (destruct (ag_c l); lia).
    rewrite Q1, Q2. rewrite (Z.mod_small (ag_proto l)) by lia.
    replace ((ag_flags l / 256) mod 256 * 256 + ag_flags l mod 256) with (ag_flags l) by lia. reflexivity. }
  split; [exact D|]. rewrite D. cbn [fst]. unfold ag_hdr, ag_b0. cbn [ag_version ag_c ag_proto ag_flags ag_ext]. reflexivity.
Qed.
Print Assumptions C06_ague_roundtrip.

(* every layer that decoding produces is in the C06 domain: decode, serialize, decode is the identity on decodable input *)
Theorem C06_ague_decoded_wf : forall old data l tr, bytes_ok data -> ag_decode_into old data = (l, Ok tt, tr) -> ag_wf l.
Proof.
  intros old data l tr Hb. unfold ag_decode_into. cbv zeta. destruct (zlen data <? 4) eqn:Hn; [discriminate|].
  assert (B : forall k, 0 <= nth k data 0 < 256) by (intros k; apply bytes_ok_nth; exact Hb).
  rewrite !cd_idx_ok by lia. cbn [ml_bind].
  pose proof (B (Z.to_nat 0)) as B0. pose proof (B (Z.to_nat 1)) as B1. pose proof (B (Z.to_nat 2)) as B2. pose proof (B (Z.to_nat 3)) as B3.
  set (b0 := nth (Z.to_nat 0) data 0) in *.
  destruct (zlen data <? 4 + b0 mod 32) eqn:C1; [discriminate|].
  rewrite !cd_slc_ok by lia. cbn [ml_bind]. intros X.
  match type of X with (?t, _, _) = _ => assert (El : l = t) by congruence end. subst l. clear X.
  unfold ag_wf. cbn [ag_version ag_proto ag_flags ag_ext]. repeat split; try lia.
  unfold zlen in *. rewrite slice_length by lia. lia.
Qed.
Print Assumptions C06_ague_decoded_wf.

(* outside the domain: 32 extension octets spill into the C flag; the written octets do not decode back *)
Theorem C06_ague_ext_over_31_refuted :
  let l := mkAg 0 false 4 0 (repeat 7 32) [] in
  exists bytes, fst (ag_serialize l [69] true true []) = Ok bytes /\
    ag_c (fst (fst (ag_decode_into ag_fresh bytes))) = true /\ ag_ext (fst (fst (ag_decode_into ag_fresh bytes))) = [].
Proof. eexists. split; [vm_compute; reflexivity|]. split; vm_compute; reflexivity. Qed.

Example Lague_nonvacuous :
  let l := mkAg 2 true 4 513 [9;8] [] in
  ag_wf l /\ fst (ag_serialize l [69] false false [170]) = Ok [162;4;2;1;9;8;69].
Proof. split; [unfold ag_wf; cbn; lia|vm_compute; reflexivity]. Qed.
