(* Lmdp — Cisco Meraki discovery protocol codec (layers/mdp.go): contributions to C19, C05, C07, C01; C06 refuted
   (SerializeTo writes nothing: known finding).  All theorems hold for every choice of the three text parsers. *)
From GP Require Import Base ListX Codec MiscLib LmdpModel.
From Coq Require Import Lia ZifyBool ZifyNat.
Open Scope Z_scope.
Ltac Zify.zify_post_hook ::= Z.div_mod_to_equations.

Section AnyParsers.
Variable pf : list Z -> Z.
Variable pip : list Z -> list Z.
Variable pb : list Z -> bool.

Lemma md_set_frame l t v tlv : md_preamble (md_set pf pip pb l t v tlv) = md_preamble l /\ md_type (md_set pf pip pb l t v tlv) = md_type l /\
  md_length (md_set pf pip pb l t v tlv) = md_length l.
Proof. destruct l. unfold md_set. repeat match goal with |- context [if ?c then _ else _] => destruct c end; repeat split. Qed.

(* the TLV loop neither panics nor runs out of fuel; it leaves preamble, type and length alone *)
Lemma md_loop_safe : forall fuel data off l, bytes_ok data -> 0 <= off -> zlen data - off < Z.of_nat fuel ->
  let r := md_loop pf pip pb fuel data off l in
  is_panic (snd (fst r)) = false /\ snd (fst r) <> Err 99 /\
  md_preamble (fst (fst r)) = md_preamble l /\ md_type (fst (fst r)) = md_type l /\ md_length (fst (fst r)) = md_length l.
Proof.
  induction fuel as [|f IH]; intros data off l Hb Ho Hf; cbv zeta.
  - cbn [md_loop]. destruct (zlen data <=? off) eqn:C0; [cbn [fst snd]; repeat split; discriminate|lia].
  - cbn [md_loop]. destruct (zlen data <=? off) eqn:C0; [cbn [fst snd]; repeat split; discriminate|].
    rewrite cd_idx_ok by lia. cbn [ml_bind].
    destruct (nth (Z.to_nat off) data 0 =? 255); [cbn [fst snd]; repeat split; discriminate|].
    destruct (zlen data <? off + 2) eqn:C1; [cbn [fst snd]; repeat split; discriminate|].
    rewrite cd_idx_ok by lia. cbn [ml_bind].
    pose proof (bytes_ok_nth data (Z.to_nat (off + 1)) Hb) as B. set (len := nth (Z.to_nat (off + 1)) data 0) in *.
    destruct (zlen data <? off + 2 + len) eqn:C2; [cbn [fst snd]; repeat split; discriminate|].
    rewrite !cd_slc_ok by lia. cbn [ml_bind].
    match goal with |- context [md_loop _ _ _ f data ?o ?l'] => specialize (IH data o l' Hb ltac:(lia) ltac:(lia)); cbv zeta in IH;
      destruct (md_set_frame l (nth (Z.to_nat off) data 0) (slice data (Z.to_nat (off + 2)) (Z.to_nat (off + 2 + len))) (slice data (Z.to_nat off) (Z.to_nat (off + 2 + len)))) as [F1 [F2 F3]] end.
    destruct IH as [I1 [I2 [I3 [I4 I5]]]]. repeat split; try assumption; congruence.
Qed.

Theorem C19_mdp_no_panic : forall orig old data, bytes_ok data ->
  is_panic (snd (fst (md_decode_gen pf pip pb orig old data))) = false /\ snd (fst (md_decode_gen pf pip pb orig old data)) <> Err 99.
Proof.
  intros orig old data Hb. unfold md_decode_gen. cbv zeta. destruct (zlen data <? 28) eqn:C0; [split; [reflexivity|discriminate]|].
  rewrite cd_slc_ok by lia. cbn [ml_bind].
  match goal with |- context [md_loop _ _ _ ?f ?d ?o ?l] => pose proof (md_loop_safe f d o l Hb ltac:(lia) ltac:(unfold zlen; lia)) as P; cbv zeta in P;
    destruct (md_loop pf pip pb f d o l) as [[l1 o1] tr] end.
  cbn [fst snd] in P. destruct P as [P1 [P2 _]]. destruct o1 as [[]|e|s]; cbn [fst snd]; split; try reflexivity; try discriminate; assumption.
Qed.

Theorem C05_mdp_fresh : forall old data,
  let r1 := md_decode_into pf pip pb old data in
  let r2 := md_decode_into pf pip pb md_fresh data in
  snd (fst r1) = snd (fst r2) /\ snd r1 = snd r2 /\
  (snd (fst r1) = Ok tt -> fst (fst r1) = fst (fst r2)).
Proof.
  intros old data. cbv zeta. unfold md_decode_into, md_decode_gen. cbv zeta.
  destruct (zlen data <? 28); [cbn [fst snd]; repeat split; intros X; discriminate X|].
  destruct (cd_slc data 0 28) as [pre|e|s]; cbn [ml_bind]; [|cbn [fst snd]; repeat split; intros X; discriminate X..].
  match goal with |- context [md_loop _ _ _ ?f ?d ?o ?l] => destruct (md_loop pf pip pb f d o l) as [[l1 o1] tr] end.
  destruct o1; cbn [fst snd]; repeat split.
Qed.

(* success means: Contents is the whole packet, no payload, the preamble is its first 28 octets, Length its length *)
Theorem C19_mdp_shape : forall orig old data l tr, bytes_ok data -> md_decode_gen pf pip pb orig old data = (l, Ok tt, tr) ->
  md_contents l = data /\ md_payload l = [] /\ md_preamble l = slice data 0 28 /\ md_type l = 1810 /\ md_length l = zlen data /\ tr = false /\ 28 <= zlen data.
Proof.
  intros orig old data l tr Hb. unfold md_decode_gen. cbv zeta. destruct (zlen data <? 28) eqn:C0; [discriminate|].
  rewrite cd_slc_ok by lia. cbn [ml_bind].
  match goal with |- context [md_loop _ _ _ ?f ?d ?o ?l0] => pose proof (md_loop_safe f d o l0 Hb ltac:(lia) ltac:(unfold zlen; lia)) as P; cbv zeta in P;
    destruct (md_loop pf pip pb f d o l0) as [[l1 o1] tr1] end.
  cbn [fst snd md_preamble md_type md_length] in P. destruct P as [_ [_ [P3 [P4 P5]]]].
  destruct o1 as [[]|e|s]; try discriminate. intros X.
  match type of X with (?t, _, _) = _ => assert (El : l = t) by congruence end. assert (tr = false) by congruence. subst l.
  cbn [md_contents md_payload md_preamble md_type md_length]. repeat split; try assumption; try lia.
Qed.
(* the registered decoder decodeMDP: no panic; the layer is added exactly when it returns nil *)
Theorem C19_mdp_decoder_no_panic : forall data, bytes_ok data ->
  let '(l, added, nx, o, tr) := md_decode_fn pf pip pb data in
  is_panic o = false /\ o <> Err 99 /\ (added = true <-> o = Ok tt) /\ (o = Ok tt -> nx = Some 1810).
Proof.
  intros data Hb. unfold md_decode_fn. destruct (C19_mdp_no_panic false md_fresh data Hb) as [P1 P2]. fold (md_decode_into pf pip pb) in P1, P2.
  pose proof (C19_mdp_shape false md_fresh data) as Sh. fold (md_decode_into pf pip pb) in Sh.
  destruct (md_decode_into pf pip pb md_fresh data) as [[l o] tr]. cbn [fst snd] in P1, P2.
  destruct o as [[]|e|s]; repeat split; intros; try discriminate; try reflexivity; try assumption.
  destruct (Sh l tr Hb eq_refl) as [_ [_ [_ [T _]]]]. rewrite T. reflexivity.
Qed.
End AnyParsers.

Print Assumptions C19_mdp_no_panic.
Print Assumptions C05_mdp_fresh.
Print Assumptions C19_mdp_shape.
Print Assumptions C19_mdp_decoder_no_panic.

(* before the repair: a device-info string (and every other TLV value) stays for a later packet that does not carry it *)
Theorem C05_mdp_orig_refuted : let pf := fun _ : list Z => 0 in let pip := fun _ : list Z => @nil Z in let pb := fun _ : list Z => false in
  exists a b l1 l2,
  md_decode_orig pf pip pb md_fresh a = (l1, Ok tt, false) /\ md_decode_orig pf pip pb l1 b = (l2, Ok tt, false) /\
  md_devinfo l2 = [65] /\ md_devinfo (fst (fst (md_decode_orig pf pip pb md_fresh b))) = [] /\
  fst (fst (md_decode_into pf pip pb l1 b)) = fst (fst (md_decode_into pf pip pb md_fresh b)).
Proof.
  cbv zeta. exists (repeat 0 28 ++ [2;1;65;255]), (repeat 0 28 ++ [255]). eexists. eexists.
  split; [vm_compute; reflexivity|]. split; [vm_compute; reflexivity|]. repeat split; vm_compute; reflexivity.
Qed.
Print Assumptions C05_mdp_orig_refuted.

Theorem C07_mdp_no_panic : forall l payload fixl csum junk, is_panic (fst (md_serialize l payload fixl csum junk)) = false.
Proof. reflexivity. Qed.
Theorem C07_mdp_junk_free : forall l payload fixl csum junk1 junk2,
  md_serialize l payload fixl csum junk1 = md_serialize l payload fixl csum junk2.
Proof. reflexivity. Qed.

(* C06 does not hold: SerializeTo writes nothing, so the output is the payload alone and the layer is lost *)
Definition C06_mdp_roundtrip_statement : Prop := forall pf pip pb l payload bytes l' old,
  md_serialize l payload true true [] = (Ok bytes, l') -> md_payload (fst (fst (md_decode_into pf pip pb old bytes))) = payload.
Theorem C06_mdp_roundtrip_refuted : ~ C06_mdp_roundtrip_statement.
Proof.
  intros H. specialize (H (fun _ => 0) (fun _ => []) (fun _ => false) md_fresh [69] [69] md_fresh md_fresh eq_refl). vm_compute in H. discriminate H.
Qed.
Print Assumptions C06_mdp_roundtrip_refuted.

Theorem C01_mdp_render_total : forall pf pip pb orig old data, md_render_panics (fst (fst (md_decode_gen pf pip pb orig old data))) = false.
Proof. reflexivity. Qed.

Example Lmdp_nonvacuous :
  let d := repeat 1 28 ++ [2;2;65;66;4;1;49;255;9;9] in
  bytes_ok d /\
  md_decode_into (fun v => zlen v) (fun _ => []) (fun _ => true) md_fresh d =
    (mkMd d [] (repeat 1 28) [65;66] [] 1 0 [] [] [] false 1810 38, Ok tt, false).
Proof. cbv zeta. split; [repeat constructor; unfold byte_ok; lia|vm_compute; reflexivity]. Qed.
