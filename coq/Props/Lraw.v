(* Lraw — decodeIPv4or6 (layers/enums.go), the LinkTypeRaw decoder: contribution to C19. *)
From GP Require Import Base ListX Codec MiscLib LrawModel.
From Coq Require Import Lia ZifyBool ZifyNat.
Open Scope Z_scope.

(* C19: whatever the two IP decoders are, if they do not panic then decodeIPv4or6 does not panic on any byte string *)
Theorem C19_raw_no_panic : forall dec4 dec6 data,
  (forall d, is_panic (fst (fst (dec4 d))) = false) -> (forall d, is_panic (fst (fst (dec6 d))) = false) ->
  is_panic (snd (fst (fst (raw_decode dec4 dec6 data)))) = false.
Proof.
  intros dec4 dec6 data H4 H6. unfold raw_decode, raw_decode_gen. cbn [negb andb].
  destruct (zlen data <? 1) eqn:C; [reflexivity|]. rewrite cd_idx_ok by lia. cbv zeta.
  destruct (_ =? 4).
  - specialize (H4 data). destruct (dec4 data) as [[o tr] n]. exact H4.
  - destruct (_ =? 6); [|reflexivity]. specialize (H6 data). destruct (dec6 data) as [[o tr] n]. exact H6.
Qed.
Print Assumptions C19_raw_no_panic.

(* it only dispatches: the outcome is that of the chosen decoder on the same bytes *)
Theorem C19_raw_dispatch : forall dec4 dec6 data which o tr n, raw_decode dec4 dec6 data = (which, o, tr, n) ->
  (which = 4 /\ dec4 data = (o, tr, n)) \/ (which = 6 /\ dec6 data = (o, tr, n)) \/ (which = 0 /\ n = 0 /\ exists e, o = Err e).
Proof.
  intros dec4 dec6 data which o tr n. unfold raw_decode, raw_decode_gen. cbn [negb andb].
  destruct (zlen data <? 1) eqn:C; [intros X; inversion X; right; right; repeat split; eexists; reflexivity|].
  rewrite cd_idx_ok by lia. cbv zeta. destruct (_ =? 4).
  - destruct (dec4 data) as [[o' tr'] n']. intros X. inversion X. left. split; reflexivity.
  - destruct (_ =? 6).
    + destruct (dec6 data) as [[o' tr'] n']. intros X. inversion X. right. left. split; reflexivity.
    + intros X. inversion X. right. right. repeat split. eexists. reflexivity.
Qed.
Print Assumptions C19_raw_dispatch.

(* the unrepaired code panics on the empty packet (NewPacket(nil, LinkTypeRaw, ...) with decode recovery off) *)
Theorem C19_raw_orig_refuted : forall dec4 dec6, is_panic (snd (fst (fst (raw_decode_orig dec4 dec6 [])))) = true.
Proof. intros. reflexivity. Qed.
Print Assumptions C19_raw_orig_refuted.

Example Lraw_nonvacuous :
  raw_decode (fun _ => (Ok tt, false, 1)) (fun _ => (Err 7, true, 0)) [69; 0] = (4, Ok tt, false, 1) /\
  raw_decode (fun _ => (Ok tt, false, 1)) (fun _ => (Err 7, true, 0)) [96] = (6, Err 7, true, 0) /\
  raw_decode (fun _ => (Ok tt, false, 1)) (fun _ => (Err 7, true, 0)) [] = (0, Err 1, true, 0).
Proof. repeat split; vm_compute; reflexivity. Qed.
