(* C09 — reassembly: TCP bytes delivered in order, exactly once, gaps announced.
   Property theorems only; each is closed by a lemma of Proofs/C09*.v.
   The model (Model/C09Model.v) is parametric in the variant of the code; [fixedv] is the
   repository with the four "fix:" commits of branch agent-c09, [origv] the unchanged tree. *)
From GP Require Import Base C09Model C09Spec C09Seq C09Proofs C09Stream C09Flush C09Keep C09Send C09Cover C09NoNew C09Full C09Bridge.
Open Scope Z_scope.

(* ------------------------------------------------------------------ (i) C09_seq *)

(* Window lemma for the repaired arithmetic: for any sequence number s and any distance
   |d| < 2^30, Difference s (Add s d) = d — wherever s lies, including across the wrap. *)
Theorem C09_seq : forall s d, 0 <= s < 4294967296 -> - 1073741824 < d < 1073741824 ->
  diff s (sadd s d) = d.
Proof. exact diff_window. Qed.
Print Assumptions C09_seq.

Theorem C09_seq_add : forall s a b, sadd (sadd s a) b = sadd s (a + b) /\ 0 <= sadd s a < 4294967296.
Proof. intros. split; [apply sadd_sadd|apply sadd_range]. Qed.
Print Assumptions C09_seq_add.

(* inside the window Difference is subtraction of absolute stream offsets, for every ISN *)
Theorem C09_seq_offsets : forall i a b, - 1073741824 < b - a < 1073741824 -> diff (sq i a) (sq i b) = b - a.
Proof. exact diff_sq. Qed.
Print Assumptions C09_seq_offsets.

(* the arithmetic of the unchanged tree violates the window lemma (it adds 2^32-1) *)
Theorem C09_seq_original_refuted :
  exists s d, 0 <= s < 4294967296 /\ - 1073741824 < d < 1073741824 /\ diff_orig s (sadd s d) <> d.
Proof. exact diff_orig_refuted. Qed.
Print Assumptions C09_seq_original_refuted.

Example C09_seq_original_witness : diff_orig 4294967295 0 = 0 /\ diff 4294967295 0 = 1.
Proof. split; reflexivity. Qed.

Example C09_seq_nonvacuous : diff 4294967290 (sadd 4294967290 100) = 100 /\ sadd 4294967290 100 = 94.
Proof. split; reflexivity. Qed.

(* ------------------------------------------------------------------ (ii) C09_inorder_path *)

(* A consistent segment S[o, o+n) arriving when the delivery point pos is at or beyond its
   start contributes exactly its new suffix S[max..., o+n): overlapExisting trims
   k = min (pos - o) n bytes and re-labels the rest with nextSeq; never a panic. *)
Theorem C09_inorder_path : forall S i pos o n,
  0 <= o -> 0 <= n -> o + n <= zlen S -> o <= pos -> pos - o < 1073741824 ->
  let k := Z.min (pos - o) n in
  overlap_existing fixedv (sq i pos) (sq i o) (sub S o n) = (sub S (o + k) (n - k), sq i pos, false).
Proof. exact inorder_path. Qed.
Print Assumptions C09_inorder_path.

Example C09_inorder_path_nonvacuous :
  overlap_existing fixedv (sq 4294967290 7) (sq 4294967290 3) (sub [10;11;12;13;14;15;16;17;18;19] 3 6)
  = ([17; 18], 2, false).
Proof. reflexivity. Qed.

(* ------------------------------------------------------------------ (iii) C09_queue_inv *)

(* qok S i lo hi q: the queue q is sorted by absolute offset, its pages are pairwise disjoint,
   non-empty, lie inside [lo, hi], and each page holds exactly the bytes of S at its offset and
   carries the sequence number of that offset.  The window is [w, w + 2^30 - 1].

   One lemma per case of the cursor loop of checkOverlap: under the window hypothesis the
   branch taken is decided by the geometry of the new segment [s,e) against the page under the
   cursor [cs, cs + plen cur), and does what the comment in the source says. *)
Theorem C09_queue_inv_case1 : forall S i w s e cs cur,
  w <= s -> s <= e -> e <= w + (HALFW - 1) -> w <= cs -> pg S i cs cur -> cs + plen cur <= w + (HALFW - 1) ->
  forall rest right bytes rel tags, cs <= e -> cs + plen cur <= s ->
  co_loop fixedv (sq i s) (sq i e) (cur :: rest) right bytes rel tags =
  mkCores (cur :: rest) right bytes rel (1 :: tags) false.
Proof. exact co_case1. Qed.

Theorem C09_queue_inv_case2 : forall S i w s e cs cur,
  w <= s -> s <= e -> e <= w + (HALFW - 1) -> w <= cs -> pg S i cs cur -> cs + plen cur <= w + (HALFW - 1) ->
  forall rest right bytes rel tags, cs < s -> s < cs + plen cur -> cs + plen cur < e ->
  co_loop fixedv (sq i s) (sq i e) (cur :: rest) right bytes rel tags =
  mkCores (set_bytes cur (ztake (s - cs) (pbytes cur)) :: rest) right bytes rel (2 :: tags) false
  /\ pg S i cs (set_bytes cur (ztake (s - cs) (pbytes cur))).
Proof. intros. split; [eapply co_case2; eauto|eapply case2_page; eauto]. Qed.

Theorem C09_queue_inv_case3 : forall S i w s e cs cur,
  w <= s -> s <= e -> e <= w + (HALFW - 1) -> w <= cs -> pg S i cs cur -> cs + plen cur <= w + (HALFW - 1) ->
  forall rest right bytes rel tags, s < cs + plen cur -> s <= cs -> cs + plen cur <= e ->
  co_loop fixedv (sq i s) (sq i e) (cur :: rest) right bytes rel tags =
  co_loop fixedv (sq i s) (sq i e) rest right bytes (rel + 1) (3 :: tags).
Proof. exact co_case3. Qed.

Theorem C09_queue_inv_case4 : forall S i w s e cs cur,
  w <= s -> s <= e -> e <= w + (HALFW - 1) -> w <= cs -> pg S i cs cur -> cs + plen cur <= w + (HALFW - 1) ->
  forall rest right bytes rel tags, s < cs -> cs < e -> e < cs + plen cur ->
  let cur' := mkPage (zskip (e - cs) (pbytes cur)) (sq i e) (pseen cur) (pend cur) in
  co_loop fixedv (sq i s) (sq i e) (cur :: rest) right bytes rel tags =
  co_loop fixedv (sq i s) (sq i e) rest (cur' :: right) bytes rel (4 :: tags)
  /\ pg S i e cur' /\ e + plen cur' = cs + plen cur.
Proof. intros. split; [eapply co_case4; eauto|eapply case4_page; eauto]. Qed.

Theorem C09_queue_inv_case5 : forall S i w s e cs cur,
  w <= s -> s <= e -> e <= w + (HALFW - 1) -> w <= cs -> pg S i cs cur -> cs + plen cur <= w + (HALFW - 1) ->
  forall rest right bytes rel tags, e < cs ->
  co_loop fixedv (sq i s) (sq i e) (cur :: rest) right bytes rel tags =
  co_loop fixedv (sq i s) (sq i e) rest (cur :: right) bytes rel (5 :: tags).
Proof. exact co_case5. Qed.

(* case 6: the new bytes are copied into the page; with consistent data the page is unchanged *)
Theorem C09_queue_inv_case6 : forall S i w s e cs cur,
  w <= s -> s <= e -> e <= w + (HALFW - 1) -> w <= cs -> pg S i cs cur -> cs + plen cur <= w + (HALFW - 1) ->
  forall rest right rel tags, cs <= s -> e <= cs + plen cur -> (cs < s \/ e < cs + plen cur) -> s < cs + plen cur ->
  0 <= s -> e <= zlen S ->
  co_loop fixedv (sq i s) (sq i e) (cur :: rest) right (sub S s (e - s)) rel tags =
  co_loop fixedv (sq i s) (sq i e) rest (cur :: right) [] rel (6 :: tags).
Proof.
  intros S i w s e cs cur Hs Hse He Hcs Hcur Hce rest right rel tags H1 H2 H3 H4 H5 H6.
  assert (Hz : zlen (sub S s (e - s)) = e - s \/ sub S s (e - s) = []) by (left; apply zlen_sub; lia).
  rewrite (co_case6 S i w s e cs cur Hs Hse He Hcs Hcur Hce rest right (sub S s (e - s)) rel tags H1 H2 H3 H4 Hz).
  assert (Hsame := case6_same S i s e cs cur Hse Hcur (sub S s (e - s)) H1 H2 (or_introl eq_refl)).
  rewrite Hsame. rewrite set_bytes_same. reflexivity.
Qed.

(* the branch without a number: the new segment ends exactly where the page starts *)
Theorem C09_queue_inv_case_adjacent : forall S i w s e cs cur,
  w <= s -> s <= e -> e <= w + (HALFW - 1) -> w <= cs -> pg S i cs cur -> cs + plen cur <= w + (HALFW - 1) ->
  forall rest right bytes rel tags, s < cs -> e = cs ->
  co_loop fixedv (sq i s) (sq i e) (cur :: rest) right bytes rel tags =
  co_loop fixedv (sq i s) (sq i e) rest (cur :: right) bytes rel tags.
Proof. exact co_case0. Qed.

(* the cases are exhaustive *)
Theorem C09_queue_inv_cases_exhaustive : forall S i s e cs cur, pg S i cs cur ->
  e < cs \/ (cs <= e /\ cs + plen cur <= s) \/ (s < cs + plen cur /\ s <= cs /\ cs + plen cur <= e /\ cs <= e) \/
  (cs < s /\ s < cs + plen cur /\ cs + plen cur < e) \/ (s < cs /\ cs < e /\ e < cs + plen cur) \/
  (cs <= s /\ e <= cs + plen cur /\ (cs < s \/ e < cs + plen cur) /\ s < cs + plen cur) \/ (s < cs /\ e = cs).
Proof. exact co_cases_exhaustive. Qed.

Print Assumptions C09_queue_inv_case1.
Print Assumptions C09_queue_inv_case2.
Print Assumptions C09_queue_inv_case3.
Print Assumptions C09_queue_inv_case4.
Print Assumptions C09_queue_inv_case5.
Print Assumptions C09_queue_inv_case6.
Print Assumptions C09_queue_inv_case_adjacent.
Print Assumptions C09_queue_inv_cases_exhaustive.

(* checkOverlap as a whole, queueing or not: for a consistent new segment S[s, s+n) inside the
   window, no panic, and the queue stays sorted, pairwise disjoint and consistent with S;
   the bytes left in the live packet are all of them or (case 6) none. *)
Theorem C09_queue_inv : forall S i w q s n ts fl doq,
  qok S i w (w + (HALFW - 1)) q -> w <= s -> 0 <= s -> 0 <= n -> s + n <= w + (HALFW - 1) -> s + n <= zlen S ->
  let r := check_overlap fixedv q (sub S s n) (sq i s) ts fl doq in
  c2_panic r = false /\ qok S i w (w + (HALFW - 1)) (c2_queue r) /\
  (c2_bytes r = [] \/ c2_bytes r = sub S s n).
Proof. exact check_overlap_inv. Qed.
Print Assumptions C09_queue_inv.

(* non-vacuity: a queue of three pages across the wrap (ISN 2^32-6), hit by a segment that
   truncates the first (case 2), swallows the second (case 3) and trims the third (case 4) *)
Definition ex_S : list Z := [0;1;2;3;4;5;6;7;8;9;10;11;12;13;14;15;16;17;18;19].
Definition ex_i : Z := 4294967290.
Definition ex_q : list page :=
  [mkPage (sub ex_S 2 4) (sq ex_i 2) 1 false; mkPage (sub ex_S 8 2) (sq ex_i 8) 2 false;
   mkPage (sub ex_S 12 6) (sq ex_i 12) 3 false].

Example C09_queue_inv_nonvacuous :
  qok ex_S ex_i 1 (1 + (HALFW - 1)) ex_q /\
  map (fun p => (pseq p, pbytes p)) (c2_queue (check_overlap fixedv ex_q (sub ex_S 4 10) (sq ex_i 4) 9 false true))
  = [(4294967293, [2; 3]); (4294967295, [4; 5; 6; 7; 8; 9; 10; 11; 12; 13]); (9, [14; 15; 16; 17])].
Proof.
  split; [|reflexivity].
  unfold ex_q. cbn [qok].
  exists 2. split; [lia|]. split; [vm_compute; discriminate|]. split; [unfold pg; vm_compute; intuition congruence|].
  exists 8. split; [vm_compute; discriminate|]. split; [vm_compute; discriminate|]. split; [unfold pg; vm_compute; intuition congruence|].
  exists 12. split; [vm_compute; discriminate|]. split; [vm_compute; discriminate|]. split; [unfold pg; vm_compute; intuition congruence|].
  vm_compute. discriminate.
Qed.

(* ------------------------------------------------------------------ (iv) the stream statement *)

(* The full statement (as C10's, plus kept bytes), over histories given with ghost offsets
   (Model/C09Spec.v): for every sender stream S shorter than the window, every ISN, every
   history of consistent segments (any order, duplicates, overlapping retransmissions, SYN first,
   late, repeated or absent, FIN/RST), any interleaving of FlushWithOptions / FlushAll, any
   page limits and any KeepFrom script, the trace of the repaired code satisfies [trace_okb]:
   every delivered byte at absolute offset a equals S[a], nothing twice, a skip is the exact
   number of bytes that never arrived and occurs only on a flush or a page limit, kept bytes are
   presented again unchanged directly in front of the next new data, FlushAll delivers
   everything received and completes every stream, no panic.
   PROVED at the end of this file (Theorem C09_stream) for the code as it stands ([fullv], the six
   repairs).  It is also evaluated by the correspondence run on every generated case (observation
   spec=ok). *)
Definition C09_stream_statement : Prop :=
  forall (S : list Z) (i : Z) (hs : list hop),
    0 <= i < 4294967296 -> zlen S < HALFW - 1 -> forallb (hop_okb S) hs = true ->
    hist_okb fullv S i hs = true.

(* the statement is violated by the code of the unchanged tree, four ways; the repaired code
   passes the same histories *)
Definition w_wrap : list hop :=
  [HSyn 0 1001; HData 0 1 false false 1002; HData 2 1 false false 1003; HData 1 1 false false 1004; HFlushAll].
Definition w_fin : list hop :=
  [HCfg 0 2; HSyn 0 1001; HData 2 1 false false 1002; HData 6 2 true false 1003; HData 3 3 false false 1004; HFlushAll].
Definition w_keep : list hop :=
  [HKeep [(1, 1)]; HSyn 0 1001; HData 4 2 false false 1002; HData 0 4 false false 1003;
   HData 6 2 false false 1004; HFlushAll].
Definition w_keep_panic : list hop :=
  [HKeep [(1, 3)]; HSyn 0 1001; HData 4 2 false false 1002; HData 0 4 false false 1003;
   HData 6 2 false false 1004; HFlushAll].
Definition w_latesyn : list hop :=
  [HData 3 2 false false 1001; HFlush 1005 0; HSyn 8 1006; HFlushAll].
Definition w_S : list Z := [0; 17; 34; 51; 68; 85; 102; 119; 136; 153].

Theorem C09_wrap_original_refuted :
  hist_okb origv w_S 4294967293 w_wrap = false /\ hist_okb fixedv w_S 4294967293 w_wrap = true.
Proof. split; vm_compute; reflexivity. Qed.

Theorem C09_fin_limit_original_refuted :
  hist_okb (mkVariant true false true true false false) (ztake 8 w_S) 1000 w_fin = false /\
  hist_okb fixedv (ztake 8 w_S) 1000 w_fin = true.
Proof. split; vm_compute; reflexivity. Qed.

Theorem C09_keepfrom_original_refuted :
  hist_okb (mkVariant true true false true false false) w_S 5000 w_keep = false /\
  hist_okb (mkVariant true true false true false false) w_S 5000 w_keep_panic = false /\
  hist_okb fixedv w_S 5000 w_keep = true /\ hist_okb fixedv w_S 5000 w_keep_panic = true.
Proof. repeat split; vm_compute; reflexivity. Qed.

Theorem C09_late_syn_original_refuted :
  hist_okb (mkVariant true true true false false false) (ztake 8 w_S) 7000 w_latesyn = false /\
  hist_okb fixedv (ztake 8 w_S) 7000 w_latesyn = true.
Proof. split; vm_compute; reflexivity. Qed.

Print Assumptions C09_wrap_original_refuted.
Print Assumptions C09_fin_limit_original_refuted.
Print Assumptions C09_keepfrom_original_refuted.
Print Assumptions C09_late_syn_original_refuted.

(* ------------------------------------------------------------------ C09_stream_partial *)

(* The part of C09_stream_statement that is proved, for every stream shorter than 2^30 - 1,
   every ISN (so: wherever the sequence numbers lie, across the wrap included), and every
   history that starts with the SYN and continues with consistent segments in any order, with
   any duplicates, overlapping retransmissions, repeated SYNs, FIN or RST — without page limit,
   KeepFrom script or flush: the run does not stop (no panic), the bytes handed to the stream as
   new data are exactly S[0, pos) in order — nothing duplicated, reordered, altered or
   invented —, and every ScatterGather has skip 0 and no saved bytes; no ReassemblyComplete.
   Missing for the full statement: delivery beyond a gap (flushes, page limits: skips), the
   start-never-seen regime (SYN late or absent), kept bytes (KeepFrom), completion at FlushAll,
   and that pos reaches the contiguous frontier of what was received (progress). *)
Theorem C09_stream_partial : forall S i n0 ts0 hs,
  zlen S < 1073741823 -> 0 <= n0 <= zlen S ->
  forallb seg_hop hs = true -> forallb (hop_okb S) hs = true ->
  let tr := run_hist fixedv S i (HSyn n0 ts0 :: hs) in
  length tr = length (HSyn n0 ts0 :: hs) /\
  exists pos, n0 <= pos <= zlen S /\ delivered tr = sub S 0 pos /\ Forall (fun x => ev_clean (fst x)) tr.
Proof. exact stream_partial. Qed.
Print Assumptions C09_stream_partial.

(* the invariant behind it, one operation at a time: a consistent segment moves the delivery
   point from pos to pos' >= pos and hands over exactly S[pos, pos') *)
Theorem C09_stream_step : forall c, c_keep c = [] -> forall S i pos st h,
  c_mpc c <= 0 /\ c_mt c <= 0 ->
  zlen S < 1073741823 -> inv c S i pos st -> seg_hop h = true -> hop_okb S h = true ->
  exists st' ev pos', step fixedv st (op_of S i h) = (st', ev, false) /\
    s_rev_seen st' = s_rev_seen st /\
    pos <= pos' /\ inv c S i pos' st' /\ ev_new ev = sub S pos (pos' - pos) /\ ev_clean ev.
Proof. exact step_hop. Qed.
Print Assumptions C09_stream_step.

(* non-vacuity: ISN 2^32-3, a stream of 10 bytes crossing the wrap, segments out of order with a
   duplicate, an overlap swallowing a queued page, a repeated SYN and a FIN: everything delivered *)
Example C09_stream_partial_nonvacuous :
  let hs := [HData 6 2 false false 2; HData 2 2 false false 3; HData 8 2 true false 4; HData 2 2 false false 5;
             HData 5 4 false false 6; HSyn 2 7; HData 0 6 false false 8] in
  forallb seg_hop hs = true /\ forallb (hop_okb w_S) hs = true /\
  delivered (run_hist fixedv w_S 4294967293 (HSyn 2 1 :: hs)) = w_S.
Proof. vm_compute. repeat split; reflexivity. Qed.

(* ------------------------------------------------------------------ C09_stream_partial, with flushes and limits *)

(* abs_evs S pos evs pos': reading the events from delivery point pos, every ScatterGather has no
   saved bytes, a skip >= 0, and carries exactly S[pos+skip, pos+skip+len) — the announced skip
   stands for that many bytes of S —, and pos' is the delivery point at the end; no panic event.

   For every stream shorter than 2^30 - 1, every ISN, any page limits (MaxBufferedPagesPerConnection,
   MaxBufferedPagesTotal, possibly changed on the way), every history: SYN first, then consistent
   segments in any order (duplicates, overlaps, repeated SYN, FIN, RST) interleaved with
   FlushWithOptions{T,TC} calls whose TC is not later than the first packet (they release data
   beyond gaps but cannot close the connection), optionally FlushAll at the end; no KeepFrom.
   The run does not stop and the events of the whole run satisfy abs_evs from offset 0: in order,
   nothing duplicated, altered or invented, every gap that is passed over (by a flush or by a page
   limit) is announced with its exact length.  This includes the path of the FIN/limit defect of
   the unchanged tree (C09_fin_limit_original_refuted).
   Missing for the full statement: KeepFrom, flushes that close (FlushCloseOlderThan with a late
   time) followed by further traffic, the start-never-seen regime, that a skipped range contains no
   byte that had arrived, and completion/progress. *)
Theorem C09_stream_partial_flush : forall S i a b n0 ts0 mids tail,
  zlen S < 1073741823 -> 0 <= n0 <= zlen S -> tail = [] \/ tail = [HFlushAll] ->
  forallb (mid_hop ts0) mids = true -> forallb (hop_okb S) mids = true ->
  let hs := HCfg a b :: HSyn n0 ts0 :: mids ++ tail in
  let tr := run_hist fixedv S i hs in
  length tr = length hs /\ exists pos, abs_evs S 0 (concat (map fst tr)) pos.
Proof. exact flush_partial. Qed.
Print Assumptions C09_stream_partial_flush.

(* skipFlush: the first queued page, at offset o1 > pos, is handed over with skip = o1 - pos *)
Theorem C09_skip_flush : forall c, c_keep c = [] -> forall S i pos rc st,
  zlen S < 1073741823 -> inv2 c S i pos rc st -> h_closed (s_half st) = false ->
  exists st' ev pos', skip_flush fixedv st = (st', ev, false) /\
    s_rev_seen st' = s_rev_seen st /\ abs_evs S pos ev pos' /\
    (inv2 c S i pos' rc st' \/ (rc = true /\ s_exists st' = false /\ h_closed (s_half st') = true)).
Proof. exact skip_flush_ok. Qed.
Print Assumptions C09_skip_flush.

(* non-vacuity: across the wrap, MaxBufferedPagesTotal = 2: the queued FIN segment triggers the
   limit flush of [4,6) (skip 4 — and nextSeq is NOT bumped for the FIN), then a flush, then FlushAll *)
Example C09_stream_partial_flush_nonvacuous :
  let mids := [HData 4 2 false false 2; HData 8 2 true false 3; HData 0 2 false false 4; HFlush 10 1] in
  forallb (mid_hop 1) mids = true /\ forallb (hop_okb w_S) mids = true /\
  map (fun e => match e with ESG _ b _ _ k _ _ => (k, b) | _ => (-7, []) end)
      (filter (fun e => match e with ESG _ _ _ _ _ _ _ => true | _ => false end)
              (concat (map fst (run_hist fixedv w_S 4294967293 (HCfg 0 2 :: HSyn 0 1 :: mids ++ [HFlushAll])))))
  = [(0, []); (4, [68; 85]); (2, [136; 153])].
Proof. vm_compute. repeat split; reflexivity. Qed.

(* ------------------------------------------------------------------ C09_stream_events: every history *)

(* For the code as it stands ([fullv]: the six repairs), every stream shorter than 2^30 - 1, every
   ISN and EVERY history of consistent operations — SYN first, late, repeated (with any payload) or
   absent, data in any order with duplicates and overlaps, FIN/RST, any page limits changed at any
   time, any KeepFrom script changed at any time, FlushWithOptions / FlushCloseOlderThan with any
   times, FlushAll anywhere, traffic after completion (a new stream) —:
   the run never stops (no panic: the trace has an entry for every operation) and its events are
   legal for the abstract state (gtrace / gev, Proofs/C09Full.v), which follows each stream from
   StreamFactory.New to ReassemblyComplete:
   - ReassembledSG only on a live stream whose data half is not closed; New only when no
     connection is in the pool; Complete only on a live stream, once (per-stream accounting);
   - start never seen (no SYN yet): the first ScatterGather has skip -1, nothing saved, and its bytes
     are a true slice S[a, e'); only then is skip -1 possible; a SYN makes the start known (0);
   - start known, delivery point p, kept bytes S[A, p): a ScatterGather has skip = a - p >= 0 where a
     is the offset of its new data; skip > 0 only in a flush or when a page limit is configured;
     with skip 0 it carries saved = p - A bytes and its bytes are S[A, e') — the kept bytes are
     presented again, unchanged, directly in front of the new data S[p, e') —; with skip > 0 the kept
     bytes are dropped (saved 0) and its bytes are S[a, e'): the skip is the exact distance;
   - afterwards the delivery point is e' and the kept bytes are S[A + k, e') when the stream called
     KeepFrom(k) with 0 <= k < available (k as scripted for this call), and nothing otherwise.
   - the received ranges R of the stream (rstep, as the oracle's o_recv) are part of the reading: a
     skipped range [p, a) meets no received range (hits R p a = false) - bytes that had arrived are
     never passed over -, and the first delivery of a stream whose start was never seen begins at the
     least received offset (a = min_recv R).  (Invariant: every received byte at or beyond the delivery
     point is held in the queue, every held byte was received.)
   - ReassemblyComplete comes only when the data half was ended by FIN/RST or when everything the
     stream received has been delivered (max_recv R <= delivery point; nothing received at all for a
     stream whose start was never seen).
   - after FlushAll no stream is left (every stream that existed got its ReassemblyComplete: the flush
     loop runs until the data half is closed, its fuel exceeds the queue length).
   - a flush never closes the data half without completing the stream; StreamFactory.New is the first
     event of an operation, and only a segment that finds no connection produces it.
   C09_stream below derives the executable statement from this reading. *)
Theorem C09_stream_events : forall S i hs,
  zlen S < 1073741823 -> forallb (hop_okb S) hs = true ->
  gtrace S (mkCfg 0 0 []) GDead [] 0 hs (run_hist fullv S i hs).
Proof. exact stream_events. Qed.
Print Assumptions C09_stream_events.

(* sendToConnection in general: what the ScatterGather carries and what is kept *)
Theorem C09_send : forall S i c h used r0 sid nc kn a,
  zlen S < 1073741823 ->
  cok S i a r0 -> qok S i (a + clen r0) HIS (h_queue h) -> known_ok S i h kn a ->
  exists e' saved2 q1 tg st,
    let r := send fullv c h used r0 sid nc in
    let A' := sg_start kn a in
    let k := keep_choice c nc (e' - A') (a - A') in
    sr_panic r = false /\ sr_next r = sq i e' /\
    sr_ev r = map ETag tg ++ [ESG sid (sub S A' (e' - A')) st (sr_end r) (sg_skip kn a) (e' - A') (a - A')] /\
    h_saved (sr_half r) = saved2 /\ h_queue (sr_half r) = q1 /\
    h_next (sr_half r) = h_next h /\ h_closed (sr_half r) = h_closed h /\
    a + clen r0 <= e' /\ e' <= zlen S /\ 0 <= A' <= a /\
    (h_queue h = [] -> sr_end r = cend r0) /\
    qok S i (e' + 1) HIS q1 /\
    sok S i (if (0 <=? k) && (k <? e' - A') then A' + k else e') e' saved2.
Proof. exact send_gen. Qed.
Print Assumptions C09_send.

(* non-vacuity: KeepFrom(1) at every call, data before the SYN, a closing flush and a re-open *)
Example C09_stream_events_nonvacuous :
  let hs := [HKeep [(1, 1)]; HData 4 2 false false 2; HData 2 2 false false 3; HSyn 2 4; HData 6 2 false false 5;
             HFlush 100 100; HData 8 2 true false 200; HFlushAll] in
  forallb (hop_okb w_S) hs = true /\
  map (fun e => match e with ESG sid b _ _ k _ sv => (Z.of_nat sid, k, sv, b) | _ => (0, 0, 0, []) end)
      (filter is_sg (concat (map fst (run_hist fullv w_S 4294967293 hs))))
  = [(1, 0, 0, [0; 17; 34; 51; 68; 85]); (1, 0, 5, [17; 34; 51; 68; 85; 102; 119]); (2, -1, 0, [136; 153])].
Proof. vm_compute. split; reflexivity. Qed.

(* ------------------------------------------------------------------ nothing held is lost *)

(* covl S i q x: byte x of the stream is held by a page of the queue q.
   checkOverlap (all six cases): every byte held before is held afterwards, except the bytes of the
   new segment's own range when it is delivered at once (in-order mode); in queue mode the bytes of
   the new segment are held afterwards - in fresh pages or, case 6, in the page that already had them. *)
Theorem C09_queue_cover : forall S i w q s n ts fl doq,
  zlen S < 1073741823 -> qok S i w HIS q -> 0 <= w -> 0 <= s -> 0 <= n -> s + n <= zlen S ->
  let r := check_overlap fullv q (sub S s n) (sq i s) ts fl doq in
  forall x, (covl S i q x /\ ~ (s <= x < s + n)) \/ (doq = true /\ s <= x < s + n) -> covl S i (c2_queue r) x.
Proof. exact check_overlap_cover. Qed.
Print Assumptions C09_queue_cover.

(* addContiguous: held bytes beyond the end e' of the run it takes stay queued, and the run extends
   beyond every x such that all of [e, x] is held: data that has arrived contiguously is never left
   behind, and is never dropped *)
Theorem C09_contig_cover : forall S i q e lo hi,
  zlen S < 1073741823 -> qok S i lo hi q -> e <= lo -> 0 <= e -> hi <= HI 0 -> zlen S < hi -> e <= zlen S ->
  forall e' tk q1, contig_loop fullv q (sq i e) = (tk, q1, sq i e') -> e <= e' -> e' <= zlen S ->
  (forall x, covl S i q x -> e' <= x -> covl S i q1 x) /\
  (forall x, e <= x -> (forall y, e <= y <= x -> covl S i q y) -> x < e').
Proof. exact contig_loop_cover. Qed.
Print Assumptions C09_contig_cover.

(* a flush or a page limit hands over the first queued page: no held byte lies before it, so the
   range that is skipped (from the delivery point, which is <= lo, to that page) holds no queued byte *)
Theorem C09_skip_holds_nothing : forall S i q lo hi x,
  zlen S < 1073741823 -> qok S i lo hi q -> covl S i q x -> lo <= x.
Proof. exact qok_cov_ge. Qed.
Print Assumptions C09_skip_holds_nothing.

(* ------------------------------------------------------------------ C09_stream: the full statement *)

(* The stream statement in full (Definition C09_stream_statement above, the executable predicate
   trace_okb of Model/C09Spec.v): for every sender stream shorter than 2^30 - 1, every initial
   sequence number, every history of consistent operations, the run of the code as it stands is
   accepted by the oracle: no panic; every delivered byte at absolute offset a equals S[a], nothing
   twice; a skip is -1 only for the first delivery of a stream whose start was never seen (which then
   begins at the least received offset) and otherwise the exact number of bytes that never arrived,
   released only by a flush or a page limit; kept bytes are presented again unchanged directly in
   front of the next new data; New / ReassembledSG / Complete are consistent per stream; after FlushAll
   no stream is left and every stream that was not ended by FIN/RST got everything it had received.
   Proof: C09_stream_events (the machine invariant) and a simulation of the oracle state by the
   abstract state (Proofs/C09Bridge.v). *)
Theorem C09_stream : C09_stream_statement.
Proof. intros S i hs _ HS Hok. apply stream_okb; assumption. Qed.
Print Assumptions C09_stream.

(* non-vacuity: the history of C09_stream_events_nonvacuous (KeepFrom, data before the SYN, a closing
   flush, a re-opened connection, across the wrap) meets the hypotheses; the oracle accepts its run on
   the code as it stands and rejects the run of the unchanged code *)
Example C09_stream_nonvacuous :
  let hs := [HKeep [(1, 1)]; HData 4 2 false false 2; HData 2 2 false false 3; HSyn 2 4; HData 6 2 false false 5;
             HFlush 100 100; HData 8 2 true false 200; HFlushAll] in
  zlen w_S < HALFW - 1 /\ forallb (hop_okb w_S) hs = true /\
  hist_okb fullv w_S 4294967293 hs = true /\ hist_okb origv w_S 4294967293 hs = false.
Proof. vm_compute. repeat split; reflexivity. Qed.
