(* C09 — placeholder until the proofs are in (step 2); the model is exercised by the correspondence. *)
From GP Require Import Base C09Model.
