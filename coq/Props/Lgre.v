(* placeholder, replaced below *)
From GP Require Import Base N6Lib LgreModel.
Example Lgre_model_runs : ethertype_layertype 2048 = 20.
Proof. reflexivity. Qed.
