(* Lgre — GRE (layers/gre.go): the layer's contribution to C19, C05, C06, C07, C01.
   Property theorems only; each is closed by lemmas of Proofs/LgreProofs.v and LgreRt.v.
   The model is of the REPAIRED code (three fix: commits on gre.go, one on packet.go);
   gre_serialize_orig keeps the unchanged routing+ack behaviour for the …_refuted witnesses. *)
From GP Require Import Base N6Lib LgreModel LgreProofs LgreRt.
Open Scope Z_scope.

(* ------------------------------------------------------------------ C19 *)
(* DecodeFromBytes returns or errors for every byte string and every prior state: no index or slice
   out of range; the source-route loop ends within its fuel len(data)+1 (it cannot hang). *)
Theorem C19_gre_no_panic : forall old data, bytes_ok data ->
  is_panic (snd (fst (gre_decode_into old data))) = false.
Proof. exact gre_decode_no_panic. Qed.
Print Assumptions C19_gre_no_panic.

Example C19_gre_nonvacuous :
  snd (fst (gre_decode_into gre_fresh [64; 0; 8; 0; 0; 0; 0; 0; 0; 2; 0; 9; 1; 2])) = Err 2 /\
  g_routing (fst (fst (gre_decode_into gre_fresh [64; 0; 8; 0; 0; 0; 0; 0; 0; 2; 0; 1; 7; 0; 0; 0; 0; 5])))
  = [mkSre 2 0 1 [7]].
Proof. split; reflexivity. Qed.

(* ------------------------------------------------------------------ C05 *)
(* same outcome and truncated flag as a fresh object; once the 4-octet check passes (in particular
   on success) every field, the routing list, contents and payload are the same *)
Theorem C05_gre_fresh : forall old data,
  let '(l1, r1, t1) := gre_decode_into old data in
  let '(l2, r2, t2) := gre_decode_into gre_fresh data in
  r1 = r2 /\ t1 = t2 /\ (r1 = Ok tt \/ 4 <= n6_len data -> l1 = l2).
Proof.
  intros old data. pose proof (gre_decode_fresh old data) as H. pose proof (gre_decode_ok_len old data) as HL.
  destruct (gre_decode_into old data) as [[l1 r1] t1]. destruct (gre_decode_into gre_fresh data) as [[l2 r2] t2].
  destruct H as (H1 & H2 & H3). repeat split; try assumption. intros [Hok|Hlen]; apply H3; [apply HL, Hok|exact Hlen].
Qed.
Print Assumptions C05_gre_fresh.

Example C05_gre_nonvacuous :
  snd (fst (gre_decode_into (fst (fst (gre_decode_into gre_fresh [176; 129; 8; 0; 1; 2; 3; 4; 5; 6; 7; 8; 9; 9; 9; 9; 1; 1; 1; 1])))
                            [0; 0; 8; 0; 7])) = Ok tt.
Proof. reflexivity. Qed.

(* ------------------------------------------------------------------ C06 *)
(* For every in-range layer value (flag fields within their bit widths, optional fields zero when
   their flag is clear, source-route entries with SRELength = len(RoutingInformation), none of them
   the NULL entry) and every payload: serializing with FixLengths+ComputeChecksums and decoding
   succeeds without truncation flag and returns the same fields, the routing entries in order, the
   checksum the serializer stored (0 when no checksum is present) and the payload; serializing
   the decoded layer again gives the same bytes. *)
Theorem C06_gre_roundtrip : forall g payload junk, gre_okb g = true ->
  exists bytes g2,
    gre_roundtrip g payload junk = (Ok bytes, (g2, Ok tt, false)) /\
    gre_fields g2 = gre_fields g /\ g_payload g2 = payload /\
    g_csum g2 = (if g_csump g then g_csum (snd (gre_serialize g payload true true junk)) else 0) /\
    forall junk', fst (gre_serialize g2 payload true true junk') = Ok bytes.
Proof. exact gre_roundtrip_ok. Qed.
Print Assumptions C06_gre_roundtrip.

Example C06_gre_nonvacuous :
  gre_okb (mkGre true true true false false true 3 5 1 2048 0 7 99 0 1234 [mkSre 2 1 4 [9; 9; 9; 9]; mkSre 3 0 0 []] [] []) = true.
Proof. reflexivity. Qed.

(* the unchanged code: with routing and ack present the bytes written are rejected by the decoder *)
Theorem C06_gre_roundtrip_orig_refuted : exists g payload,
  gre_okb g = true /\
  match gre_serialize_orig g payload true true [] with
  | (Ok bytes, _) => snd (fst (gre_decode_into gre_fresh bytes)) = Err 2
  | _ => False
  end.
Proof.
  exists (mkGre false true false false false true 0 0 1 2048 0 0 0 0 287454020 [mkSre 2 0 4 [9; 9; 9; 9]] [] []), [].
  split; reflexivity.
Qed.

(* ------------------------------------------------------------------ C07 *)
(* SerializeTo never panics and writes every byte of the region it requested, for EVERY layer value
   (so for every residue of a failed decode and every value built from public fields) *)
Theorem C07_gre_no_panic : forall g payload fx cs junk, is_panic (fst (gre_serialize g payload fx cs junk)) = false.
Proof. intros. rewrite gre_serialize_closed. unfold gre_wire. destruct (g_csump g); reflexivity. Qed.
Print Assumptions C07_gre_no_panic.

Theorem C07_gre_junk_free : forall g payload fx cs j1 j2,
  gre_serialize g payload fx cs j1 = gre_serialize g payload fx cs j2.
Proof. intros. rewrite !gre_serialize_closed. reflexivity. Qed.
Print Assumptions C07_gre_junk_free.

(* a second SerializeTo of the layer as the first left it writes the same bytes *)
Theorem C07_gre_idempotent : forall g payload fx cs j1 j2,
  fst (gre_serialize (snd (gre_serialize g payload fx cs j1)) payload fx cs j2) = fst (gre_serialize g payload fx cs j1).
Proof.
  intros. rewrite !gre_serialize_closed. unfold gre_wire. destruct (g_csump g) eqn:EC; [|cbn [snd fst]; rewrite EC; reflexivity].
  destruct cs; cbn [snd fst]; [|rewrite EC; reflexivity].
  assert (HS : gre_segs (set_csum g (n6_fold (n6_csum (concat (gre_segs g) ++ payload) 0))) = gre_segs g) by reflexivity.
  rewrite HS. cbn [g_csump set_csum set_co]. rewrite EC. reflexivity.
Qed.

Example C07_gre_nonvacuous :
  fst (gre_serialize (mkGre false true false false false true 0 0 1 2048 0 0 0 0 287454020 [mkSre 2 0 4 [9]] [] [])
                     [7] false false (repeat 170 64))
  = Ok [64; 129; 8; 0; 0; 0; 0; 0; 0; 2; 0; 4; 9; 0; 0; 0; 0; 0; 0; 0; 17; 34; 51; 68; 7].
Proof. reflexivity. Qed.

(* the unchanged code left four octets of the region unwritten when routing and ack are present *)
Theorem C07_gre_junk_free_orig_refuted : exists g j1 j2,
  fst (gre_serialize_orig g [] false false j1) <> fst (gre_serialize_orig g [] false false j2).
Proof.
  exists (mkGre false true false false false true 0 0 1 2048 0 0 0 0 287454020 [mkSre 2 0 4 [9; 9; 9; 9]] [] []), [], (repeat 170 64).
  vm_compute. discriminate.
Qed.

(* ------------------------------------------------------------------ C01 *)
(* the generic renderers have no partial operation on a GRE layer (after the LayerGoString repair) *)
Theorem C01_gre_render_total : forall g, gre_render_panics g = false.
Proof. reflexivity. Qed.
Print Assumptions C01_gre_render_total.

(* the unchanged LayerGoString dereferenced the nil pointer every GRE layer contains *)
Theorem C01_gre_gostring_orig_refuted : exists data,
  snd (fst (gre_decode_into gre_fresh data)) = Ok tt /\
  gre_gostring_panics_orig (fst (fst (gre_decode_into gre_fresh data))) = true.
Proof. exists [0; 0; 8; 0; 1; 2; 3; 4]. split; reflexivity. Qed.
