(* C05parser — sub-check of C05: "decoding with a layer parser over preallocated layers
   reports exactly the leading run of the layers packet decoding produces, whichever container
   is used".  Property theorems only; each is closed by a lemma of Proofs/C05ParserProofs.v.
   The per-layer theorems C05_<l>_fresh (DecodeFromBytes does not depend on the old state of the
   object) are the hypothesis `fresh_indep` here; C05 = C05parser + those.

   Vocabulary (Model/C05ParserModel.v): a family is a list of decoding-layer objects
   (CanDecode types, DecodeFromBytes : old state -> data -> state * class * SetTruncated?,
   NextLayerType, LayerPayload, zero value), ARBITRARY; the store holds the states of the
   objects; `lkf` is the lookup function of the parser's container; `reg` is packet decoding's
   registry LayerType -> struct; packet_chain is eager packet decoding over the family;
   run_prefix is the leading run of that chain inside the set that decoded without error;
   spec_parse assembles what DecodeLayers has to return from those two alone. *)
From GP Require Import Base C05ParserModel C05ParserProofs.
Open Scope Z_scope.

(* ---------------------------------------------------------------- C05_prefix *)
(* For every family of decoding layers, every container whose lookup is lkf (any subset: lkf is
   None outside it), every input, every prior state of the objects and of the caller's slice,
   both option flags: DecodeLayers returns exactly spec_parse, provided (like_with_like) each type
   of the set is decoded by the same struct in packet decoding, LayerTypeZero is not in the set,
   the layers keep no stale state (fresh_indep, = the C05_<l>_fresh sub-checks), and packet
   decoding of the input terminates (implied by `progress`, C05_terminates). *)
Theorem C05_prefix :
  forall (St : Type) (fam : family St) (reg lkf : Z -> option nat) (p : parser)
         (st0 : store St) (decoded0 data : list Z),
    implements lkf true p -> like_with_like St fam reg lkf -> zero_free lkf -> fresh_indep St fam ->
    length st0 = length fam ->
    snd (packet_chain fam reg (p_first p) data) <> PFuel ->
    decode_layers true fam p st0 decoded0 data =
      spec_parse fam reg (insub lkf) (p_first p) (p_ignpanic p) (p_ignunsup p) st0 data.
Proof. exact decode_layers_spec. Qed.
Print Assumptions C05_prefix.

(* what spec_parse says, spelled out.  (1) decoded = types of the LONGEST leading run: the chain is
   pre ++ rest, every element of pre is in the set and decoded without error, and rest is empty,
   or starts with a type outside the set, or starts with a layer of the set that failed. *)
Theorem C05_prefix_is_longest_run :
  forall (St : Type) (insub : Z -> bool) (chain pre : list (elem St)) (s : stop St),
    run_prefix insub chain = (pre, s) ->
    exists rest, chain = pre ++ rest /\
      Forall (fun e => insub (e_typ e) = true /\ e_cls e = DOk) pre /\
      match s with
      | SEnd => rest = []
      | SUnsup t => exists e r, rest = e :: r /\ e_typ e = t /\ insub t = false
      | SFail e => exists r, rest = e :: r /\ insub (e_typ e) = true /\ e_cls e <> DOk
      end.
Proof. exact run_prefix_longest. Qed.
Print Assumptions C05_prefix_is_longest_run.

(* (2) every element of the chain is the registered struct's DecodeFromBytes applied to a fresh
   object ("same decode function applied to the same bytes") *)
Theorem C05_chain_elements :
  forall (St : Type) (fam : family St) (reg : Z -> option nat) fuel typ data chain pe,
    pkt fuel fam reg typ data = (chain, pe) -> Forall (elem_ok St fam reg) chain.
Proof. exact pkt_elems. Qed.

(* (3) each object touched by the run holds the state of its LAST layer in run (+ failing layer);
   objects not touched keep what they had *)
Theorem C05_prefix_objects_last :
  forall (St : Type) (a b : list (elem St)) (e : elem St) (st : store St),
    (e_obj e < length st)%nat -> (forall e', In e' b -> e_obj e' <> e_obj e) ->
    nth_error (expected_store st (a ++ e :: b)) (e_obj e) = Some (e_state e).
Proof. exact expected_store_last. Qed.
Theorem C05_prefix_objects_untouched :
  forall (St : Type) (tch : list (elem St)) (st : store St) (o : nat),
    (forall e, In e tch -> e_obj e <> o) -> nth_error (expected_store st tch) o = nth_error st o.
Proof. exact expected_store_untouched. Qed.
Print Assumptions C05_prefix_objects_last.

(* (4) the error result identifies why the parser stopped, the Truncated flag is the disjunction
   over the layers the parser decoded (by definition of spec_parse): *)
Theorem C05_prefix_error_and_truncated :
  forall (St : Type) (fam : family St) reg insub first ip iu (st0 : store St) data,
    let '(chain, pe) := packet_chain fam reg first data in
    let '(pre, s) := run_prefix insub chain in
    let r := spec_parse fam reg insub first ip iu st0 data in
    r_decoded r = map e_typ pre /\
    r_trunc r = existsb e_trunc (touched pre s) /\
    r_err r = match s with
              | SUnsup t => if iu || (t =? 0) then ENil else EUnsup t
              | SFail e => match e_cls e with DPanic => if ip then EPanic else ERecovered | _ => ELayer end
              | SEnd => match pe with
                        | PNoDecoder t => if iu || (t =? 0) then ENil else EUnsup t
                        | PFuel => if ip then EPanic else ERecovered
                        | _ => ENil
                        end
              end.
Proof.
  intros. unfold spec_parse.
  destruct (packet_chain fam reg first data) as [chain pe].
  destruct (run_prefix insub chain) as [pre s]. cbn. repeat split.
Qed.

(* termination: under `progress` (a successful decode leaves a strictly shorter payload — the
   condition under which the Go loops, which have no fuel, terminate) fuel is never exhausted *)
Theorem C05_terminates :
  forall (St : Type) (fam : family St) (reg : Z -> option nat),
    progress St fam -> forall first data, snd (packet_chain fam reg first data) <> PFuel.
Proof. exact packet_chain_no_fuel. Qed.
Print Assumptions C05_terminates.

(* ---------------------------------------------------------------- C05_containers *)
(* map / sparse / array (kinds 0/1/2) and the closure-based custom container (kind 3): once the
   Puts succeeded the container's Decoder is spec_lookup (last Put claiming the type wins) ... *)
Theorem C05_containers_lookup :
  forall kind puts c, put_all (empty_of kind) puts = Ok c ->
    forall t, lookup true c t = Ok (spec_lookup puts t).
Proof. exact containers_spec. Qed.
Print Assumptions C05_containers_lookup.

(* ... so parsers built over the same layers with any two containers return identical results,
   for every family, input and prior state — no hypothesis on the layers at all *)
Theorem C05_containers :
  forall (St : Type) (fam : family St) k1 k2 first ip iu sub p1 p2 (st : store St) decoded0 data,
    new_parser true k1 first ip iu fam sub = Ok p1 ->
    new_parser true k2 first ip iu fam sub = Ok p2 ->
    decode_layers true fam p1 st decoded0 data = decode_layers true fam p2 st decoded0 data.
Proof.
  intros St fam k1 k2 first ip iu sub p1 p2 st decoded0 data H1 H2.
  destruct (new_parser_implements St fam _ _ _ _ _ _ H1) as [I1 [F1 [P1 U1]]].
  destruct (new_parser_implements St fam _ _ _ _ _ _ H2) as [I2 [F2 [P2 U2]]].
  eapply decode_layers_ext; eauto; congruence.
Qed.
Print Assumptions C05_containers.

(* any custom container satisfying the lookup contract (returns the registered decoder for a type
   of the set, false otherwise) gives the same results as the built-in ones *)
Theorem C05_containers_custom :
  forall (St : Type) (fam : family St) kind first ip iu sub p (f : Z -> option nat),
    new_parser true kind first ip iu fam sub = Ok p ->
    (forall t, f t = spec_lookup (puts_of fam sub) t) ->
    exists pc, set_container true (CCustom f) first ip iu = Ok pc /\
      forall (st : store St) decoded0 data,
        decode_layers true fam pc st decoded0 data = decode_layers true fam p st decoded0 data.
Proof.
  intros St fam kind first ip iu sub p f H Hf.
  destruct (new_parser_implements St fam _ _ _ _ _ _ H) as [I1 [F1 [P1 U1]]].
  destruct (set_container_custom f _ first ip iu Hf) as [pc [Hpc [I2 [F2 [P2 U2]]]]].
  exists pc. split; [exact Hpc|]. intros. eapply decode_layers_ext; eauto; congruence.
Qed.
Print Assumptions C05_containers_custom.

(* AddDecodingLayer keeps the correspondence (the first decoder is looked up again) *)
Theorem C05_add_layer :
  forall (St : Type) (fam : family St) puts p o d p',
    implements (spec_lookup puts) true p -> nth_error fam o = Some d ->
    add_layer true p fam o = Ok p' ->
    implements (spec_lookup (puts ++ [(can d, o)])) true p' /\
    p_first p' = p_first p /\ p_ignpanic p' = p_ignpanic p /\ p_ignunsup p' = p_ignunsup p.
Proof. exact add_layer_implements. Qed.

(* ---------------------------------------------------------------- sequences of packets *)
(* decoding a sequence of packets into the same objects and the same `decoded` slice: every
   result is spec_parse of that packet (on whatever the objects held before) ... *)
Theorem C05_sequence :
  forall (St : Type) (fam : family St) (reg lkf : Z -> option nat) p pkts (st0 : store St) decoded0,
    implements lkf true p -> like_with_like St fam reg lkf -> zero_free lkf -> fresh_indep St fam ->
    length st0 = length fam ->
    (forall d, In d pkts -> snd (packet_chain fam reg (p_first p) d) <> PFuel) ->
    exists stores, length stores = length pkts /\ Forall (fun st => length st = length fam) stores /\
      hd st0 stores = st0 /\
      decode_seq true fam p st0 decoded0 pkts =
        map (fun sd => spec_parse fam reg (insub lkf) (p_first p) (p_ignpanic p) (p_ignunsup p) (fst sd) (snd sd))
            (combine stores pkts).
Proof. exact decode_seq_spec. Qed.
Print Assumptions C05_sequence.

(* ... and spec_parse does not depend on what the objects held: decoded types, error, Truncated
   and the state of every object the packet touched are the same as with fresh objects *)
Theorem C05_history_independent :
  forall (St : Type) (fam : family St) (reg lkf : Z -> option nat) first ip iu (st1 st2 : store St) data,
    length st1 = length st2 ->
    let r1 := spec_parse fam reg (insub lkf) first ip iu st1 data in
    let r2 := spec_parse fam reg (insub lkf) first ip iu st2 data in
    r_decoded r1 = r_decoded r2 /\ r_trunc r1 = r_trunc r2 /\ r_err r1 = r_err r2 /\
    length (r_store r1) = length st1 /\
    forall o, (o < length st1)%nat ->
      nth_error (r_store r1) o = nth_error (r_store r2) o \/
      (nth_error (r_store r1) o = nth_error st1 o /\ nth_error (r_store r2) o = nth_error st2 o).
Proof. exact spec_store_indep. Qed.
Print Assumptions C05_history_independent.

(* ---------------------------------------------------------------- C05_no_panic_paths *)
(* panic-free decoders (for every old state), existing objects, progress: DecodeLayers neither
   panics (IgnorePanic) nor reports a recovered panic, with any container, any prior state.
   No like-with-like / freshness hypothesis is needed here. *)
Theorem C05_no_panic_paths :
  forall (St : Type) (fam : family St) (lkf : Z -> option nat) p (st : store St) decoded0 data,
    implements lkf true p -> objects_exist St fam lkf -> panic_free_any St fam lkf -> progress_any St fam lkf ->
    length st = length fam ->
    let r := decode_layers true fam p st decoded0 data in r_err r <> EPanic /\ r_err r <> ERecovered.
Proof. exact decode_layers_no_panic. Qed.
Print Assumptions C05_no_panic_paths.

(* construction (Put..., SetDecodingLayerContainer, which runs OUTSIDE DecodeLayers' recover):
   never panics for map / array / custom, for any layer types and any first type ... *)
Theorem C05_no_panic_construction :
  forall (St : Type) (fam : family St) kind first ip iu sub,
    kind <> 1 -> exists p, new_parser true kind first ip iu fam sub = Ok p.
Proof. exact new_parser_total_nonsparse. Qed.
(* ... and for the sparse container when every CanDecode type is one it can index *)
Theorem C05_no_panic_construction_sparse :
  forall (St : Type) (fam : family St) first ip iu sub,
    Forall (fun p => types_ok (fst p)) (puts_of fam sub) ->
    exists p, new_parser true 1 first ip iu fam sub = Ok p.
Proof. exact new_parser_total_sparse. Qed.
Print Assumptions C05_no_panic_construction_sparse.

(* The full-strength statement "no panic path through the public container types" is FALSE for the
   sparse container: a negative LayerType in CanDecode (legal: RegisterLayerType documents negative
   numbers) makes Put index out of range.  Known finding C05-sparse-put-negative. *)
Definition C05_no_panic_construction_any_container : Prop :=
  forall (St : Type) (fam : family St) kind first ip iu sub,
    exists p, new_parser true kind first ip iu fam sub = Ok p.

Definition w_rows := [mkRow [-1] 0 1 0 0 false false].
Theorem C05_no_panic_construction_any_container_refuted : ~ C05_no_panic_construction_any_container.
Proof.
  intros H. destruct (H sstate (map syn_layer w_rows) 1 5 false false [0%nat]) as [p Hp].
  vm_compute in Hp. discriminate.
Qed.
Print Assumptions C05_no_panic_construction_any_container_refuted.

(* ---------------------------------------------------------------- the unrepaired code (fixed = false) *)
(* original DecodingLayerSparse.Decoder: a negative NextLayerType panics although every decoder is
   panic-free (repaired by "fix: DecodingLayerSparse.Decoder reports a negative LayerType ...") *)
Theorem C05_no_panic_paths_orig_refuted :
  exists (rows : list srow) p data,
    new_parser false 1 1 false false (map syn_layer rows) [0%nat] = Ok p /\
    (forall w s d, In w rows -> snd (fst (syn_dec w s d)) <> DPanic) /\
    r_err (decode_layers false (map syn_layer rows) p [szero] [] data) = ERecovered /\
    (* ... and the repaired lookup reports the type as unsupported *)
    exists p', new_parser true 1 1 false false (map syn_layer rows) [0%nat] = Ok p' /\
      r_err (decode_layers true (map syn_layer rows) p' [szero] [] data) = EUnsup (-1).
Proof.
  exists [mkRow [1] 0 2 (-1) 0 false false]. eexists. exists [170; 187; 204].
  split; [vm_compute; reflexivity|]. split.
  - intros w s d [Hw|[]]. subst w. unfold syn_dec. cbn [w_mode w_clen w_out w_trunc w_sticky w_next].
    change (0 =? 0) with true. cbv iota.
    destruct (Z.of_nat (length d) <? 2); cbn; congruence.
  - split; [vm_compute; reflexivity|]. eexists. split; vm_compute; reflexivity.
Qed.
Print Assumptions C05_no_panic_paths_orig_refuted.

(* original LayersDecoder: with no decoder for the first type the caller's `decoded` slice is left
   as it was — the previous packet's layers are reported, with a nil error under IgnoreUnsupported
   (repaired by "fix: DecodeLayers truncates the decoded slice also when the first layer type ...") *)
Theorem C05_prefix_orig_refuted :
  exists (rows : list srow) p stale data,
    new_parser false 0 1 false true (map syn_layer rows) [] = Ok p /\
    let r := decode_layers false (map syn_layer rows) p [szero] stale data in
    r_decoded r = stale /\ stale <> [] /\ r_err r = ENil /\
    exists p', new_parser true 0 1 false true (map syn_layer rows) [] = Ok p' /\
      r_decoded (decode_layers true (map syn_layer rows) p' [szero] stale data) = [].
Proof.
  exists [mkRow [1] 0 2 2 0 false false]. eexists. exists [1; 2]. exists [170; 187; 204].
  split; [vm_compute; reflexivity|]. cbv zeta. split; [vm_compute; reflexivity|].
  split; [congruence|]. split; [vm_compute; reflexivity|].
  eexists. split; vm_compute; reflexivity.
Qed.
Print Assumptions C05_prefix_orig_refuted.

(* the freshness hypothesis of C05_prefix / C05_sequence is necessary: with a layer that assigns a
   field only on some paths (like IPv4.Padding) the second packet's result depends on the first *)
Definition sticky_rows := [mkRow [1] 0 2 0 0 false true].
Theorem C05_sequence_without_fresh_refuted :
  exists p pk1 pk2,
    new_parser true 0 1 false false (map syn_layer sticky_rows) [0%nat] = Ok p /\
    let fam := map syn_layer sticky_rows in
    let reused := nth 1 (decode_seq true fam p [szero] [] [pk1; pk2]) (mkR [] [] false ENil) in
    let fresh := decode_layers true fam p [szero] [] pk2 in
    r_decoded reused = r_decoded fresh /\ r_err reused = r_err fresh /\
    map s_opt (r_store reused) <> map s_opt (r_store fresh).
Proof.
  eexists. exists [1; 2; 77]. exists [1; 2].
  split; [vm_compute; reflexivity|]. cbv zeta.
  split; [vm_compute; reflexivity|]. split; [vm_compute; reflexivity|].
  vm_compute. congruence.
Qed.
Print Assumptions C05_sequence_without_fresh_refuted.

(* ---------------------------------------------------------------- non-vacuity *)
(* a concrete family meeting every hypothesis of C05_prefix / C05_sequence / C05_no_panic_paths:
   a two-byte header (class selector, next type); the state is the data last seen.  Types 1,2 are
   given to the parser (sparse container), type 3 is known to packet decoding only. *)
Definition cl_dec (_ : list Z) (data : list Z) : list Z * dclass * bool :=
  match data with
  | a :: _ :: _ => (data, (if a =? 1 then DErr else DOk), a =? 3)
  | _ => ([], DErr, true)
  end.
Definition cl_layer (t : Z) : dlayer (list Z) :=
  mkDL [t] cl_dec (fun s => nth 1 s 0) (fun s => skipn 2 s) [].
Definition nv_fam := [cl_layer 1; cl_layer 2; cl_layer 3].
Definition nv_reg (t : Z) : option nat :=
  if t =? 1 then Some 0%nat else if t =? 2 then Some 1%nat else if t =? 3 then Some 2%nat else None.
Definition nv_lkf (t : Z) : option nat :=
  if t =? 1 then Some 0%nat else if t =? 2 then Some 1%nat else None.

Example C05_hypotheses_nonvacuous :
  exists p,
    new_parser true 1 1 false false nv_fam [0%nat; 1%nat] = Ok p /\
    implements nv_lkf true p /\ like_with_like _ nv_fam nv_reg nv_lkf /\ zero_free nv_lkf /\
    fresh_indep _ nv_fam /\ progress _ nv_fam /\
    objects_exist _ nv_fam nv_lkf /\ panic_free_any _ nv_fam nv_lkf /\ progress_any _ nv_fam nv_lkf /\
    (* a run that stops at the type outside the set after two layers, Truncated set by the second *)
    let r := decode_layers true nv_fam p [[9]; [9]; [9]] [7] [0;2; 3;3; 0;0; 5] in
    r_decoded r = [1; 2] /\ r_err r = EUnsup 3 /\ r_trunc r = true /\
    r = spec_parse nv_fam nv_reg (insub nv_lkf) 1 false false [[9]; [9]; [9]] [0;2; 3;3; 0;0; 5].
Proof.
  assert (Hdl : forall o d, nth_error nv_fam o = Some d -> exists t, d = cl_layer t).
  { intros o d Hd. destruct o as [|[|[|o]]]; cbn in Hd; try (inversion Hd; eexists; reflexivity).
    destruct o; discriminate. }
  assert (Hprog : forall s data s' tr, cl_dec s data = (s', DOk, tr) -> (length (skipn 2 s') < length data)%nat).
  { intros s data s' tr H. unfold cl_dec in H. destruct data as [|a [|b r]]; try discriminate.
    destruct (a =? 1); inversion H; subst. cbn. lia. }
  eexists. split; [vm_compute; reflexivity|]. split.
  { split; [|vm_compute; reflexivity]. intros t. cbn [p_cont].
    rewrite lookup_lk_of. f_equal. cbn [lk_of]. unfold sget, nv_lkf.
    destruct (t <? 0) eqn:E0.
    - replace (t =? 1) with false by lia. replace (t =? 2) with false by lia. reflexivity.
    - destruct (t =? 1) eqn:E1; [apply Z.eqb_eq in E1; subst; reflexivity|].
      destruct (t =? 2) eqn:E2; [apply Z.eqb_eq in E2; subst; reflexivity|].
      destruct (Z.to_nat t) as [|[|[|n]]] eqn:En; try reflexivity; try lia.
      destruct n; reflexivity. }
  assert (Hex : forall t o, nv_lkf t = Some o -> nv_reg t = Some o /\ (o < length nv_fam)%nat).
  { intros t o H. unfold nv_lkf, nv_reg in *.
    destruct (t =? 1); [inversion H; subst; split; [reflexivity|cbn; lia]|].
    destruct (t =? 2); [inversion H; subst; split; [reflexivity|cbn; lia]|discriminate]. }
  split; [exact Hex|]. split; [reflexivity|].
  split. { intros o d Hd s data. destruct (Hdl _ _ Hd) as [t ->]. reflexivity. }
  split. { intros o d Hd data s' t H. destruct (Hdl _ _ Hd) as [t' ->]. cbn [payload_of cl_layer dec zero] in *. eapply Hprog; eauto. }
  split. { intros t o H. destruct (Hex _ _ H) as [_ Hlt]. exact Hlt. }
  split. { intros t o d _ Hd s data. destruct (Hdl _ _ Hd) as [t' ->]. cbn [dec cl_layer]. unfold cl_dec.
           destruct data as [|a [|b r]]; cbn; try congruence. destruct (a =? 1); cbn; congruence. }
  split. { intros t o d _ Hd s data s' tr H. destruct (Hdl _ _ Hd) as [t' ->]. cbn [payload_of cl_layer dec] in *. eapply Hprog; eauto. }
  cbv zeta. split; [vm_compute; reflexivity|]. split; [vm_compute; reflexivity|].
  split; vm_compute; reflexivity.
Qed.
Print Assumptions C05_hypotheses_nonvacuous.

(* ---------------------------------------------------------------- without the freshness hypothesis *)
(* For ANY layers — including ones that keep stale state, as IPv4 (Padding) and TCP (Multipath) do
   on the unrepaired tree — the first packet decoded into objects holding their zero values equals
   packet decoding, provided the packet decodes each object at most once (no type repeated in the
   run, e.g. no QinQ / IP-in-IP). *)
Theorem C05_prefix_fresh_objects :
  forall (St : Type) (fam : family St) (reg lkf : Z -> option nat) (p : parser) (decoded0 data : list Z),
    implements lkf true p -> like_with_like St fam reg lkf -> zero_free lkf ->
    snd (packet_chain fam reg (p_first p) data) <> PFuel ->
    let st0 := map (fun d => zero d) fam in
    let '(chain, pe) := packet_chain fam reg (p_first p) data in
    let '(pre, s) := run_prefix (insub lkf) chain in
    NoDup (map e_obj (touched pre s)) ->
    decode_layers true fam p st0 decoded0 data =
      spec_parse fam reg (insub lkf) (p_first p) (p_ignpanic p) (p_ignunsup p) st0 data.
Proof. exact decode_layers_spec_fresh. Qed.
Print Assumptions C05_prefix_fresh_objects.

(* non-vacuity: the sticky synthetic layer (not fresh_indep) decoded once into a zero object *)
Example C05_prefix_fresh_objects_nonvacuous :
  exists p, new_parser true 2 1 false false (map syn_layer sticky_rows) [0%nat] = Ok p /\
    let fam := map syn_layer sticky_rows in
    let reg := fun t => if t =? 1 then Some 0%nat else None in
    snd (packet_chain fam reg 1 [1; 2; 77]) <> PFuel /\
    NoDup (map e_obj (touched (fst (run_prefix (insub reg) (fst (packet_chain fam reg 1 [1; 2; 77]))))
                              (snd (run_prefix (insub reg) (fst (packet_chain fam reg 1 [1; 2; 77])))))) /\
    r_decoded (decode_layers true fam p [szero] [] [1; 2; 77]) = [1].
Proof.
  eexists. split; [vm_compute; reflexivity|]. cbv zeta.
  split; [vm_compute; congruence|]. split; [vm_compute; repeat constructor; intros []|].
  vm_compute. reflexivity.
Qed.
