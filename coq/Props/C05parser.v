(* C05parser — placeholder until the proofs are in (step 2); no theorem yet. *)
From GP Require Import Base C05ParserModel.
